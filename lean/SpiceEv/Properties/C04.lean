/-
C04 — Grid-connector power limit is never exceeded.

Part (a) of the property ("a step that would break the limit is never reported as valid: the run
stops at that step and is flagged as aborted") for EVERY strategy: the strategy's effect is an
arbitrary input of the run-loop model (Model/ScenarioRun.lean).
-/
import SpiceEv.Proofs.ScenarioRun
import SpiceEv.Proofs.Strategies
import SpiceEv.Proofs.StrategiesBat
import SpiceEv.Proofs.StrategiesLower
set_option linter.unusedSectionVars false
namespace SpiceEv
variable {α : Type} [Field α] [LinearOrder α] [IsStrictOrderedRing α]

/-- **Monitor.** For any sequence of observed world states (= any strategy, any events): every
reported step — except the last one of a run flagged as aborted — has every connector's reported
power within `±(cur_max_power + ε)`; the reported steps are the observations in order. -/
theorem C04_monitor (eps : α) (genKeys : List String) (n : Nat) (obs : List (StepObs α))
    (i : Nat) (hi : i < (run eps genKeys n obs).stepI)
    (hvalid : i + 1 < (run eps genKeys n obs).stepI ∨ (run eps genKeys n obs).aborted = false) :
    ∃ h : i < obs.length,
      (run eps genKeys n obs).steps[i]'hi = stepReport eps genKeys obs[i] ∧
      ∀ g ∈ obs[i].gcs,
        -(g.curMax + eps) ≤ (gcReport genKeys g).1 ∧ (gcReport genKeys g).1 ≤ g.curMax + eps := by
  unfold run at hi hvalid ⊢
  simp only at hi hvalid ⊢
  obtain ⟨h, e⟩ := simLoop_getElem eps genKeys n obs i hi
  refine ⟨h, e, ?_⟩
  have hok : ((simLoop eps genKeys n obs)[i]'hi).ok = true := by
    rcases hvalid with hv | hv
    · exact simLoop_ok_before_last eps genKeys n obs i hv
    · rw [List.any_eq_false] at hv
      have := hv _ (List.getElem_mem hi)
      simpa using this
  rw [e] at hok
  intro g hg
  have := (stepReport_ok eps genKeys obs[i] hok).2.2 g hg
  exact ⟨this.1, this.2.1⟩

/-- **Stop and flag.** If some connector's reported power at a reported step is outside
`±(cur_max_power + ε)`, that step is the last reported one and the run is flagged as aborted. -/
theorem C04_violation_stops_and_flags (eps : α) (genKeys : List String) (n : Nat)
    (obs : List (StepObs α)) (i : Nat) (hi : i < (run eps genKeys n obs).stepI)
    (h : i < obs.length) (g : GcObs α) (hg : g ∈ obs[i].gcs)
    (hbad : (gcReport genKeys g).1 < -(g.curMax + eps) ∨ g.curMax + eps < (gcReport genKeys g).1) :
    i + 1 = (run eps genKeys n obs).stepI ∧ (run eps genKeys n obs).aborted = true := by
  by_contra hcon
  have hvalid : i + 1 < (run eps genKeys n obs).stepI ∨ (run eps genKeys n obs).aborted = false := by
    by_cases hl : i + 1 < (run eps genKeys n obs).stepI
    · exact Or.inl hl
    · right
      have : i + 1 = (run eps genKeys n obs).stepI := by omega
      cases hab : (run eps genKeys n obs).aborted
      · rfl
      · exact absurd ⟨this, hab⟩ hcon
  obtain ⟨_, _, hall⟩ := C04_monitor eps genKeys n obs i hi hvalid
  have := hall g hg
  rcases hbad with hb | hb
  · exact absurd this.1 (not_le.mpr hb)
  · exact absurd this.2 (not_le.mpr hb)

/-- The reported connector power is the sum of the non-generation loads minus the generation,
curtailed at the connector rating: `max (−rating) (Σ loads)` (also C06's first sentence). -/
theorem C04_reported_power (genKeys : List String) (g : GcObs α) :
    (gcReport genKeys g).1 =
      max (-g.rating)
        (optVal (currentLoad genKeys g.loads) + optVal (pysum (genKeys.map (loadOf g.loads)))) := by
  unfold gcReport
  simp only [pymax_eq]
  congr 1
  ring

/-- Non-vacuity: a two-step run whose second step exceeds the limit is reported with
`stepI = 2`, flagged as aborted. -/
example :
    let o1 : StepObs ℚ := ⟨false, false, [⟨"GC", 10, 10, [("load", some 4)]⟩], []⟩
    let o2 : StepObs ℚ := ⟨false, false, [⟨"GC", 10, 10, [("load", some 11)]⟩], []⟩
    (run (1/100000 : ℚ) [] 3 [o1, o2, o1]).stepI = 2 ∧
    (run (1/100000 : ℚ) [] 3 [o1, o2, o1]).aborted = true := by
  decide +kernel

/-- **Greedy and balanced never break the limit (no stationary battery).**
For any battery obeying `BatLaw` (0 ≤ average power ≤ the offered power — C01/C02), any prices,
vehicles, stations, minimum powers and any number of connectors: if before the strategy step every
connector's load (fixed load − generation) is at most its currently valid limit `cur_max ≥ 0`,
then after `Greedy.step` / `Balanced.step` (allocation pass in id order, surplus pass with V2G
support, battery pass) it still is.  Without stationary batteries this is unconditional; the
battery-support case is `C04_greedy_balanced_loop` below (invariant of the vehicle pass). -/
theorem C04_greedy_balanced_upper (rule : Rule) {B : Type} (ops : BatOps α B) (law : BatLaw ops)
    (env : StratEnv α) (heps : 0 ≤ env.eps) (w w' : SWorld α B) (cmds : List (String × α))
    (hb : w.batteries = [])
    (h0 : ∀ g ∈ w.gcs, 0 ≤ g.curMax ∧ g.currentLoad ≤ g.curMax)
    (h : ruleStep rule ops env w = .ok (w', cmds)) :
    ∀ g ∈ w'.gcs, g.currentLoad ≤ g.curMax := by
  unfold ruleStep at h
  rw [availBatPower_nobat ops w hb] at h
  simp only [bind, Except.bind] at h
  split at h
  · cases h
  · rename_i st1 hfold
    obtain ⟨w1, c1, a1⟩ := st1
    simp only at h
    split at h
    · cases h
    · rename_i st2 hsur
      obtain ⟨w2, c2⟩ := st2
      simp only at h
      split at h
      · cases h
      · rename_i w3 hub
        simp only [Except.ok.injEq, Prod.mk.injEq] at h
        obtain ⟨rfl, _⟩ := h
        -- vehicle pass
        have hinv0 : LoopInv (fun _ => (0 : α)) (resetStations w) (w.gcs.map (fun g => (g.id, (0 : α)))) := by
          intro g hg
          have hall : ∀ kv ∈ w.gcs.map (fun g => (g.id, (0 : α))), kv.2 = 0 := by
            intro kv hkv
            simp only [List.mem_map] at hkv
            obtain ⟨x, _, rfl⟩ := hkv
            rfl
          have hz : availOf (w.gcs.map (fun g => (g.id, (0 : α)))) g.id = 0 :=
            sdGet_zero_of_all_zero _ hall _
          rw [hz]
          simp only [resetStations_gcs] at hg
          exact ⟨by simpa using (h0 g hg).2, le_refl _, le_refl _⟩
        have hinv1 := allocFold_inv rule ops law env (fun _ => (0 : α)) _ _ (w1, c1, a1) hinv0 hfold
        have hbat1 : w1.batteries = [] := by
          have := allocFold_batteries rule ops env _ _ (w1, c1, a1) hfold
          simpa [hb] using this
        have hbelow1 : Below (fun _ => (0 : α)) w1 := by
          intro g hg
          obtain ⟨h1, h2, h3⟩ := hinv1 g hg
          have : availOf a1 g.id = 0 := le_antisymm h3 h2
          simpa [this] using h1
        -- curMax is never changed by the vehicle pass: re-derive 0 ≤ curMax from the invariant
        have hcm1 : ∀ g ∈ w1.gcs, 0 ≤ g.curMax := by
          -- the pass only replaces connectors by `addLoad` results, which keep `curMax`;
          -- proved by a second, simpler invariant
          have key : ∀ (ids : List String) (st st' : SWorld α B × List (String × α) × List (String × α)),
              (∀ g ∈ st.1.gcs, 0 ≤ g.curMax) →
              ids.foldlM (allocVehicle rule ops env) st = .ok st' → ∀ g ∈ st'.1.gcs, 0 ≤ g.curMax := by
            intro ids
            induction ids with
            | nil =>
              intro st st' hc hf
              simp only [List.foldlM_nil, pure, Except.pure, Except.ok.injEq] at hf
              subst hf; exact hc
            | cons id rest ih =>
              intro st st' hc hf
              simp only [List.foldlM_cons, bind, Except.bind] at hf
              split at hf
              · cases hf
              · rename_i st1 hs
                refine ih st1 st' ?_ hf
                unfold allocVehicle at hs
                split at hs
                · cases hs
                · split at hs
                  · simp only [Except.ok.injEq] at hs; subst hs; exact hc
                  · split at hs
                    · cases hs
                    · split at hs
                      · cases hs
                      · rename_i gc hgc
                        obtain ⟨hgm, _⟩ := gc?_some _ _ gc hgc
                        simp only [bind, Except.bind] at hs
                        split at hs
                        · cases hs
                        · split at hs
                          · cases hs
                          · split at hs
                            · cases hs
                            · simp only [Except.ok.injEq] at hs
                              subst hs
                              intro g hg
                              simp only [setStation_gcs] at hg
                              rcases mem_setGc _ _ g hg with rfl | ⟨hgm', _⟩
                              · rw [(addLoad_currentLoad gc _ _).2.1]; exact hc gc hgm
                              · exact hc g hgm'
          exact key _ _ (w1, c1, a1) (fun g hg => (h0 g (by simpa using hg)).1) hfold
        -- surplus pass
        obtain ⟨hbelow2, _⟩ := distributeSurplus_below ops law env heps (fun _ => (0 : α))
          (fun _ => le_refl _) w1 w2 c2 hcm1 hbelow1 hsur
        have hbat2 : w2.batteries = [] := by
          rw [distributeSurplus_batteries ops env w1 w2 c2 hsur]; exact hbat1
        -- battery pass is the identity
        have : w3 = w2 := updateBatteries_nobat ops env w2 w3 hbat2 hub
        subst this
        intro g hg
        simpa using hbelow2 g hg

/-- **Invariant of the vehicle pass with stationary-battery support** (greedy reserves battery
power `A0 − remaining`): a connector exceeds its limit at most by the support reserved so far. -/
theorem C04_greedy_balanced_loop (rule : Rule) {B : Type} (ops : BatOps α B) (law : BatLaw ops)
    (env : StratEnv α) (A0 : String → α) (ids : List String)
    (st st' : SWorld α B × List (String × α) × List (String × α))
    (hinv : LoopInv A0 st.1 st.2.2)
    (h : ids.foldlM (allocVehicle rule ops env) st = .ok st') : LoopInv A0 st'.1 st'.2.2 :=
  allocFold_inv rule ops law env A0 ids st st' hinv h

/-- **Greedy and balanced never break the limit — with stationary-battery support.**
Same statement as `C04_greedy_balanced_upper` for worlds with any number of stationary batteries,
under the additional battery law that a target-power request to `unload` delivers exactly
`min target available` (the target-power sentence of C02): greedy may offer vehicles more than
the headroom, but only as much as the batteries at that connector can deliver (`A0`), the battery
pass then discharges exactly the excess.  Hypotheses: distinct connector ids and battery ids,
`get_available_power` succeeds with non-negative values, minimum charging powers ≥ 0. -/
theorem C04_greedy_balanced_upper_batteries (rule : Rule) {B : Type} (ops : BatOps α B)
    (law : BatLaw ops) (hex : UnloadExact ops) (env : StratEnv α) (heps : 0 ≤ env.eps)
    (w w' : SWorld α B) (cmds : List (String × α)) (av : String → α) (hav0 : ∀ k, 0 ≤ av k)
    (havb : ∀ b ∈ w.batteries, ops.available b.bat = .ok (av b.id))
    (hmin : ∀ b ∈ w.batteries, 0 ≤ b.minChargingPower)
    (hbnd : (w.batteries.map (·.id)).Nodup) (hgnd : (w.gcs.map (·.id)).Nodup)
    (h0 : ∀ g ∈ w.gcs, 0 ≤ g.curMax ∧ g.currentLoad ≤ g.curMax)
    (h : ruleStep rule ops env w = .ok (w', cmds)) :
    ∀ g ∈ w'.gcs, g.currentLoad ≤ g.curMax := by
  unfold ruleStep at h
  rw [availBatPower_eq ops av w havb] at h
  simp only [bind, Except.bind] at h
  split at h
  · cases h
  · rename_i st1 hfold
    obtain ⟨w1, c1, a1⟩ := st1
    simp only at h
    split at h
    · cases h
    · rename_i st2 hsur
      obtain ⟨w2, c2⟩ := st2
      simp only at h
      split at h
      · cases h
      · rename_i w3 hub
        simp only [Except.ok.injEq, Prod.mk.injEq] at h
        obtain ⟨rfl, _⟩ := h
        set A0 : String → α := fun k => supR av w.batteries k with hA0
        set avail0 := w.gcs.map (fun g => (g.id, supR av w.batteries g.id)) with hav0'
        have hAv : ∀ g ∈ w.gcs, availOf avail0 g.id = A0 g.id :=
          fun g hg => availOf_map (fun k => supR av w.batteries k) w.gcs g hg
        -- vehicle pass
        have hinv0 : LoopInv A0 (resetStations w) avail0 := by
          intro g hg
          simp only [resetStations_gcs] at hg
          rw [hAv g hg]
          exact ⟨by simpa using (h0 g hg).2, supR_nonneg av hav0 _ _, le_refl _⟩
        have hch0 : CheapInv A0 env (resetStations w) avail0 := by
          intro g hg _
          simp only [resetStations_gcs] at hg
          exact hAv g hg
        have hinv1 := allocFold_inv rule ops law env A0 _ _ (w1, c1, a1) hinv0 hfold
        have hch1 := allocFold_cheapInv rule ops env A0 _ _ (w1, c1, a1) hch0 hfold
        have hsm1 : SameMeta (resetStations w) w1 := allocFold_sameMeta rule ops env _ _ (w1, c1, a1) hfold
        have hids1 : w1.gcs.map (·.id) = w.gcs.map (·.id) := by
          have := allocFold_gcIds rule ops env _ _ (w1, c1, a1) hfold
          simpa using this
        have hbat1 : w1.batteries = w.batteries := by
          have := allocFold_batteries rule ops env _ _ (w1, c1, a1) hfold
          simpa using this
        have hcm1 : ∀ g ∈ w1.gcs, 0 ≤ g.curMax := by
          intro g hg
          obtain ⟨g0, hg0, _, _, e⟩ := hsm1 g hg
          rw [e]; exact (h0 g0 (by simpa using hg0)).1
        -- surplus pass
        set af : String → α := fun k => availOf a1 k with haf
        set S : String → α := fun k => max 0 (A0 k - af k) with hS
        have hbelow1 : Below S w1 := by
          intro g hg
          obtain ⟨h1, h2, h3⟩ := hinv1 g hg
          have : A0 g.id - af g.id ≤ S g.id := le_max_right _ _
          linarith
        obtain ⟨hbelow2, hcm2⟩ := distributeSurplus_below ops law env heps S
          (fun _ => le_max_left _ _) w1 w2 c2 hcm1 hbelow1 hsur
        have hsm2 : SameMeta w1 w2 := distributeSurplus_sameMeta ops env w1 w2 c2 hsur
        have hids2 : w2.gcs.map (·.id) = w.gcs.map (·.id) := by
          rw [distributeSurplus_gcIds ops env w1 w2 c2 hsur, hids1]
        have hbat2 : w2.batteries = w.batteries := by
          rw [distributeSurplus_batteries ops env w1 w2 c2 hsur, hbat1]
        -- battery pass
        unfold updateBatteries at hub
        simp only [bind, Except.bind] at hub
        split at hub
        · cases hub
        · rename_i cheap hcheap
          rw [hbat2] at hub
          have hnd2 : (w2.gcs.map (·.id)).Nodup := by rw [hids2]; exact hgnd
          have hbinv : BInv env av af cheap w.batteries w2 := by
            refine ⟨hcm2, ?_, hnd2, ?_, ?_, ?_, ?_⟩
            · intro g hg
              exact cheapList_lookup env w2.gcs hnd2 cheap (by
                simp only [bind, Except.bind, pure, Except.pure]; exact hcheap) g hg
            · intro g hg hc
              obtain ⟨g1, hg1, e1, e2, _⟩ := hsm2 g hg
              have hc1 : gcCheap env g1 = .ok true := by rw [← gcCheap_congr env g1 g e2]; exact hc
              have hz : af g.id = A0 g.id := by rw [e1]; exact hch1 g1 hg1 hc1
              have := hbelow2 g hg
              have hs0 : S g.id = 0 := by
                simp only [hS, hz, sub_self, max_self]
              linarith
            · intro g hg _
              have := hbelow2 g hg
              have hA : A0 g.id = supR av w.batteries g.id := rfl
              rcases le_total (A0 g.id - af g.id) 0 with hle | hle
              · have hs0 : S g.id = 0 := max_eq_left hle
                exact le_trans (by linarith) (le_max_left _ _)
              · have hs1 : S g.id = A0 g.id - af g.id := max_eq_right hle
                exact le_trans (by rw [hs1, hA] at this; linarith) (le_max_right _ _)
            · intro b hb
              rw [hbat2]
              exact find_self_of_nodup w.batteries hbnd b hb
            · intro g hg
              obtain ⟨g1, hg1, e1, _, _⟩ := hsm2 g hg
              have := (hinv1 g1 hg1).2.1
              simp only [haf]; rw [e1]; exact this
          have hend := batteryFold_binv ops law hex env av af hav0 cheap w.batteries hbnd havb hmin
            w2 w3 hbinv hub
          intro g hg
          obtain ⟨c, _, hc⟩ := hend.cheapOK g hg
          cases c with
          | true => exact hend.cheapBound g hg hc
          | false =>
            have := hend.dearBound g hg hc
            have haf0 : 0 ≤ af g.id := hend.af_nonneg g hg
            simp only [supR, List.filter_nil, List.map_nil, List.sum_nil, add_zero] at this
            exact le_trans this (max_le (le_refl _) (by linarith))

/-- **Greedy and balanced never break the feed-in side of the limit** (any number of connectors,
stationary batteries, V2G).  For any battery obeying `BatLaw`: if before the strategy step every
connector's load (fixed load − generation) is at least `−F` for a bound `F ≥ 0` per connector id —
in particular `F` = the currently valid limit — then after `Greedy.step` / `Balanced.step` it still
is: charging only adds load, V2G support discharges at most what the connector draws, a stationary
battery discharges at most down to zero grid draw.  Together with `C04_greedy_balanced_upper(_batteries)`
this is "no decision of these strategies breaks ± the limit". -/
theorem C04_greedy_balanced_lower (rule : Rule) {B : Type} (ops : BatOps α B) (law : BatLaw ops)
    (env : StratEnv α) (heps : 0 ≤ env.eps) (F : String → α) (hF : ∀ k, 0 ≤ F k)
    (w w' : SWorld α B) (cmds : List (String × α))
    (h0 : ∀ g ∈ w.gcs, -F g.id ≤ g.currentLoad)
    (h : ruleStep rule ops env w = .ok (w', cmds)) :
    ∀ g ∈ w'.gcs, -F g.id ≤ g.currentLoad :=
  ruleStep_above rule ops law env heps F hF w w' cmds h0 h

/-- in particular a connector that draws power before the step is never turned into a feeder -/
theorem C04_greedy_balanced_no_feedin (rule : Rule) {B : Type} (ops : BatOps α B) (law : BatLaw ops)
    (env : StratEnv α) (heps : 0 ≤ env.eps) (w w' : SWorld α B) (cmds : List (String × α))
    (h0 : ∀ g ∈ w.gcs, 0 ≤ g.currentLoad)
    (h : ruleStep rule ops env w = .ok (w', cmds)) :
    ∀ g ∈ w'.gcs, 0 ≤ g.currentLoad := by
  have := C04_greedy_balanced_lower rule ops law env heps (fun _ => 0) (fun _ => le_refl _) w w' cmds
    (by simpa using h0) h
  simpa using this

/-- a battery for the non-vacuity check: takes half of what it is offered (contract `BatLaw`) -/
def halfOps : BatOps ℚ ℚ where
  soc b := b
  capacity _ := 10
  efficiency _ := 1
  unloadMaxPower _ := 5
  load b mp _ tp := .ok (b, max ((tp.getD (mp.getD 0))) 0 / 2)
  unload b mp _ tp := .ok (b, max ((tp.getD (mp.getD 0))) 0 / 2)
  available _ := .ok 0

theorem halfOps_law : BatLaw halfOps := by
  refine ⟨?_, ?_, ?_, ?_, ?_⟩
  · intro b p b' avg h
    simp only [halfOps, Option.getD_some, Option.getD_none, Except.ok.injEq, Prod.mk.injEq] at h
    obtain ⟨_, rfl⟩ := h
    have : (0 : ℚ) ≤ max p 0 := le_max_right _ _
    constructor <;> linarith
  · intro b p b' avg h
    simp only [halfOps, Option.getD_some, Option.getD_none, Except.ok.injEq, Prod.mk.injEq] at h
    obtain ⟨_, rfl⟩ := h
    have : (0 : ℚ) ≤ max p 0 := le_max_right _ _
    constructor <;> linarith
  · intro b p ts b' avg h
    simp only [halfOps, Option.getD_some, Option.getD_none, Except.ok.injEq, Prod.mk.injEq] at h
    obtain ⟨_, rfl⟩ := h
    have : (0 : ℚ) ≤ max p 0 := le_max_right _ _
    constructor <;> linarith
  · intro b x b' avg h
    simp only [halfOps, Option.getD_some, Option.getD_none, Except.ok.injEq, Prod.mk.injEq] at h
    obtain ⟨_, rfl⟩ := h
    have : (0 : ℚ) ≤ max x 0 := le_max_right _ _
    constructor <;> linarith
  · intro b a h
    simp only [halfOps, Except.ok.injEq] at h
    rw [← h]

/-- Non-vacuity of `C04_greedy_balanced_lower` / `_upper_batteries`: a connector drawing 6 kW with a
V2G vehicle above its desired SoC (which discharges in the surplus pass) and a stationary battery
(which discharges in the battery pass); the contract holds and the step succeeds with the load
still non-negative (`6 − 5/2 − 7/4 = 7/4`). -/
example :
    let w : SWorld ℚ ℚ :=
      ⟨[⟨"GC1", 20, some (.fixed (3/10)), [("load", 6)]⟩], [⟨"CS1", "GC1", 11, 0, 0⟩],
       [⟨"v1", some "CS1", 1/2, some 7200000000, 0, true, 1/5, 9/10⟩], [⟨"BAT1", "GC1", 0, 1/2⟩]⟩
    let env : StratEnv ℚ := ⟨1/100000, 1/10, 4, 0, 900000000⟩
    BatLaw halfOps ∧ (∀ g ∈ w.gcs, 0 ≤ g.currentLoad) ∧
      (ruleStep .greedy halfOps env w).map (fun r => r.1.gcs.map (·.currentLoad)) = .ok [7/4] := by
  refine ⟨halfOps_law, by decide +kernel, by decide +kernel⟩

end SpiceEv
