/-
C07 — frame of `Distributed.step` (Model/StratDistributed.lean) with respect to the state that events set.

The one strategy that touches event-set state: at an opportunity connector the supporting batteries RAISE
`gc.cur_max_power` before the sub-strategy runs (`oppsBattery`), and the `# update stationary batteries` loop restores the
saved value (`oppsAfter`); a vacant station's battery is charged as a virtual vehicle at the virtual station
`stationary_<b>`, whose `current_loads` entry is popped and re-booked under the battery's id.

Instance-free (the plain operations of the model section).  Technique: the sub-strategy runs on the virtual world
`vw` with `vw.gcs = [gc']` (`gc'` = the connector record with possibly raised limit); its frame is used relative to
`gcs0' := [gc']` (`Inv S [gc'] vw`), so the connector after the sub-step carries the key of `gc'`; `KeyUpTo S gc g`
("the key of `gc` except the limit") is threaded through `oppsBattery` / `oppsAfter`, and the post loop is shown to end
with `curMax = saved`.

Covered: every function of the model that returns / updates a world or a connector record — `writeBack`,
`syncStations`, `mergeDeps`, `depotBatteries`, `subStations`, `oppsBattery` (+ its loop), `oppsAfter` (+ its loop),
`psStep`, `plwStep`, `stepDepsRule/PS/PLW`, `stepOppsRule/PS/PLW`, `stepDeps`, `stepOpps`, `stepGc`,
`distributeSurplusOn`, `step`.  Main statements: `step_future`, `step_inv_of` (general), `step_inv_rule`
(greedy / balanced), `step_inv_noplw` (greedy / balanced / peak_shaving), `step_inv` (all).

Hypotheses beyond `Inv`:
* `hgb : ∀ p ∈ s.init.gcBattery, ∀ b ∈ p.2, S (virtName b) = true` — the names `stationary_<b>` of the batteries in
  `self.gc_battery` count as station names.  Needed: `oppsAfter` pops `gc.current_loads["stationary_<b>"]` whenever
  that name is in the sub-strategy's commands and `b` did not support the connector; entries under that name may also
  stay in `current_loads` after the step (a virtual station booked without a command).  It also covers the virtual
  stations entering a virtual world (found by `virtualCs.find? (·.id == virtName b)`), so `hvirt` of `step_inv` is
  not used (kept for the interface).
* `hplw` (only `step_inv`): the statement of `Keeps.PeakLoadWindow.step_inv`, taken as a hypothesis because that file's
  object code did not exist when this file was written; `Keeps.PeakShaving.step_inv` is imported.
No finding: on every `.ok` path the limit is restored (`oppsPost_ok`: the post loop runs over the same `batIds`, every
battery with an entry in `avail` writes `curMax := saved`, and the limit is raised only together with such an entry).
-/
import SpiceEv.Proofs.C07Keeps
import SpiceEv.Proofs.C07KeepsPeakShaving
import SpiceEv.Model.StratDistributed
set_option linter.unusedSectionVars false
set_option linter.unusedSimpArgs false
set_option linter.unusedVariables false
namespace SpiceEv.Keeps.Distrib
open SpiceEv SpiceEv.Distrib

variable {α B : Type} [Add α] [Sub α] [Mul α] [Div α] [Neg α] [LT α] [LE α]
  [DecidableLT α] [DecidableLE α] [OfNat α 0] [OfNat α 1] [NatCast α] [IntCast α]
variable {S : String → Bool} {gcs0 : List (GcS α)}

/-! ### `step` returns the arrival events and `number_cs` unchanged -/

theorem step_future (dops : DOps α B) (de : DEnv α) (s s' : DState α B) (cmds : List (String × α))
    (h : Distrib.step dops de s = .ok (s', cmds)) : s'.future = s.future ∧ s'.numberCs = s.numberCs := by
  unfold Distrib.step at h
  simp only [bind, Except.bind] at h
  split at h
  · cases h
  · split at h
    · cases h
    · split at h
      · cases h
      · split at h
        · cases h
        · split at h
          · cases h
          · simp only [Except.ok.injEq, Prod.mk.injEq] at h
            obtain ⟨rfl, -⟩ := h
            exact ⟨rfl, rfl⟩

/-! ### generic helpers -/

theorem foldl_inv {σ ι : Type} (f : σ → ι → σ) (P : σ → Prop) :
    ∀ (l : List ι), (∀ s i, i ∈ l → P s → P (f s i)) → ∀ s, P s → P (l.foldl f s) := by
  intro l
  induction l with
  | nil => intro _ s hs; exact hs
  | cons x xs ih =>
    intro hf s hs
    simp only [List.foldl_cons]
    exact ih (fun s i hi => hf s i (List.mem_cons_of_mem _ hi)) _ (hf s x (by simp) hs)

theorem sdGet_mem {β : Type} (l : List (String × β)) (k : String) (v : β) (h : sdGet l k = some v) :
    ∃ k', (k', v) ∈ l := by
  induction l with
  | nil => simp [sdGet] at h
  | cons x xs ih =>
    obtain ⟨k', v'⟩ := x
    simp only [sdGet] at h
    split at h
    · cases h; exact ⟨k', by simp⟩
    · obtain ⟨k'', hk⟩ := ih h; exact ⟨k'', List.mem_cons_of_mem _ hk⟩

theorem sdGet_sdSet_isSome {β : Type} (l : List (String × β)) (k k' : String) (v : β)
    (h : k' = k ∨ (sdGet l k').isSome) : (sdGet (sdSet l k v) k').isSome := by
  induction l with
  | nil =>
    rcases h with rfl | h
    · simp [sdSet, sdGet]
    · simp [sdGet] at h
  | cons x xs ih =>
    obtain ⟨a, b⟩ := x
    simp only [sdSet]
    by_cases hak : (a == k) = true
    · simp only [hak, if_true, sdGet]
      by_cases hak' : (a == k') = true
      · simp [hak']
      · simp only [hak', Bool.false_eq_true, if_false]
        rcases h with rfl | h
        · exact absurd hak hak'
        · simpa [sdGet, hak'] using h
    · simp only [hak, Bool.false_eq_true, if_false, sdGet]
      by_cases hak' : (a == k') = true
      · simp [hak']
      · simp only [hak', Bool.false_eq_true, if_false]
        apply ih
        rcases h with rfl | h
        · left; rfl
        · right; simpa [sdGet, hak'] using h

theorem sdErase_filter_out {β : Type} (q : String → Bool) (l : List (String × β)) (k : String)
    (hk : q k = true) : (sdErase l k).filter (fun kv => !q kv.1) = l.filter (fun kv => !q kv.1) := by
  induction l with
  | nil => rfl
  | cons x xs ih =>
    obtain ⟨k', v'⟩ := x
    simp only [sdErase]
    by_cases hkk : (k' == k) = true
    · have : k' = k := beq_iff_eq.mp hkk
      subst this
      simp [List.filter_cons, hk]
    · simp only [hkk, Bool.false_eq_true, if_false, List.filter_cons]
      rw [ih]

/-! ### the key of a connector record except the limit -/

/-- `g` carries id, cost and non-station entries of `g0` (the limit may differ) -/
def KeyUpTo (S : String → Bool) (g0 g : GcS α) : Prop :=
  g.id = g0.id ∧ g.cost = g0.cost ∧ restLoads S g = restLoads S g0

theorem addLoad_curMax (g : GcS α) (k : String) (v : α) : (g.addLoad k v).1.curMax = g.curMax := by
  unfold GcS.addLoad; split <;> rfl

theorem KeyUpTo.addLoad {g0 g : GcS α} (h : KeyUpTo S g0 g) (k : String) (v : α) (hk : S k = true) :
    KeyUpTo S g0 (g.addLoad k v).1 := by
  refine ⟨?_, ?_, ?_⟩
  · rw [← h.1]; unfold GcS.addLoad; split <;> rfl
  · rw [← h.2.1]; unfold GcS.addLoad; split <;> rfl
  · rw [restLoads_addLoad S g k v hk]; exact h.2.2

theorem KeyUpTo.key_eq {g0 g : GcS α} (h : KeyUpTo S g0 g) (hc : g.curMax = g0.curMax) :
    gcKey S g = gcKey S g0 := by
  unfold Keeps.gcKey; rw [h.1, h.2.1, h.2.2, hc]

theorem KeyUpTo.of_key {g0 g : GcS α} (h : gcKey S g = gcKey S g0) : KeyUpTo S g0 g ∧ g.curMax = g0.curMax := by
  unfold Keeps.gcKey at h
  simp only [Prod.mk.injEq] at h
  exact ⟨⟨h.1, h.2.2.1, h.2.2.2⟩, h.2.1⟩

theorem KeyUpTo.trans {g0 g1 g2 : GcS α} (h1 : KeyUpTo S g0 g1) (h2 : KeyUpTo S g1 g2) : KeyUpTo S g0 g2 :=
  ⟨h2.1.trans h1.1, h2.2.1.trans h1.2.1, h2.2.2.trans h1.2.2⟩

/-! ### merging the virtual world back -/

theorem writeBack_inv (w sub : SWorld α B) (sids vids : List String) (hi : Inv S gcs0 w)
    (hs : ∀ s ∈ sub.stations, S s.id = true) : Inv S gcs0 (writeBack w sub sids vids) := by
  unfold writeBack
  apply foldl_inv _ (fun (w : SWorld α B) => Inv S gcs0 w)
  · intro w1 v _ h1
    split
    · exact h1.setVehicle v
    · exact h1
  · apply foldl_inv _ (fun (w : SWorld α B) => Inv S gcs0 w)
    · intro w1 s hs1 h1
      split
      · exact h1.setStation s (hs s hs1)
      · exact h1
    · exact hi

theorem syncStations_inv {gcs1 : List (GcS α)} (vw : SWorld α B) (hi : Inv S gcs1 vw) :
    Inv S gcs1 (syncStations vw) := by
  unfold syncStations
  split
  · refine ⟨hi.keeps, ?_, hi.bat⟩
    intro s hm
    obtain ⟨x, hx, rfl⟩ := List.mem_map.mp hm
    exact hi.st x hx
  · exact hi

theorem syncStations_gcs (vw : SWorld α B) : (syncStations vw).gcs = vw.gcs := by
  unfold syncStations; split <;> rfl

theorem syncStations_batteries (vw : SWorld α B) : (syncStations vw).batteries = vw.batteries := by
  unfold syncStations; split <;> rfl

theorem depotBatteries_mem (w : SWorld α B) (ids : List String) (b : StatBatS α B)
    (h : b ∈ depotBatteries w ids) : b ∈ w.batteries := by
  unfold depotBatteries at h
  obtain ⟨id, _, hf⟩ := List.mem_filterMap.mp h
  exact mem_of_find? hf

theorem subStations_mem (w : SWorld α B) (cvs : List (VehicleS α B)) (stations : List (StationS α))
    (h : subStations w cvs = .ok stations) : ∀ s ∈ stations, s ∈ w.stations := by
  unfold subStations at h
  refine foldlM_inv _ (fun (acc : List (StationS α)) => ∀ s ∈ acc, s ∈ w.stations) ?_ cvs [] stations
    (fun _ h => by cases h) h
  intro acc v acc' hacc hf
  split at hf
  · cases hf; exact hacc
  · split at hf
    · cases hf
    · rename_i cs hcs
      split at hf
      · cases hf; exact hacc
      · cases hf
        intro s hs
        rcases List.mem_append.mp hs with hs | hs
        · exact hacc s hs
        · simp only [List.mem_singleton] at hs; subst hs; exact mem_of_find? hcs

/-- depot: the sub-strategy's result (frame relative to `[gc]`) merged back into the real world -/
theorem mergeDeps_inv (w vw' : SWorld α B) (gc : GcS α) (stations : List (StationS α)) (cvs : List (VehicleS α B))
    (hi : Inv S gcs0 w) (hk : gcKey S gc ∈ gcs0.map (gcKey S)) (hsub : Inv S [gc] vw') :
    Inv S gcs0 (mergeDeps w vw' stations cvs) := by
  unfold mergeDeps
  apply foldl_inv _ (fun (w : SWorld α B) => Inv S gcs0 w)
  · intro w1 b hb h1
    exact h1.setBattery b (hsub.bat b hb)
  · apply foldl_inv _ (fun (w : SWorld α B) => Inv S gcs0 w)
    · intro w1 g hg h1
      apply h1.setGc g
      have := hsub.keeps.attrs g hg
      simp only [List.map_cons, List.map_nil, List.mem_singleton] at this
      rw [this]; exact hk
    · exact writeBack_inv w vw' _ _ hi hsub.st

/-! ### opportunity station: before the sub-strategy (`oppsBattery`) -/

/-- invariant of the `avail_bat_power` loop: the connector record is the original one except for the limit; the limit
is the original one unless a battery of `batIds` has an entry in `avail`; virtual stations are station names -/
structure PrepOK (S : String → Bool) (gc : GcS α) (batIds : List String) (st : OppsPrep α B) : Prop where
  id : st.gc.id = gc.id
  cost : st.gc.cost = gc.cost
  loads : st.gc.loads = gc.loads
  lim : st.gc.curMax = gc.curMax ∨ ∃ b ∈ batIds, (sdGet st.avail b).isSome
  vcs : ∀ s ∈ st.vcs, S s.id = true

theorem PrepOK.init (gc : GcS α) (batIds : List String) : PrepOK (B := B) S gc batIds ⟨gc, [], [], []⟩ :=
  ⟨rfl, rfl, rfl, Or.inl rfl, fun _ h => by cases h⟩

theorem oppsBattery_ok (dops : DOps α B) (de : DEnv α) (ini : DInit α) (lk : Look α) (w : SWorld α B)
    (occupied : Bool) (gcId : String) (gc : GcS α) (batIds : List String) (st st' : OppsPrep α B) (bId : String)
    (hb : bId ∈ batIds) (hS : S (virtName bId) = true) (hp : PrepOK S gc batIds st)
    (h : oppsBattery dops de ini lk w occupied gcId st bId = .ok st') : PrepOK S gc batIds st' := by
  unfold oppsBattery at h
  split at h
  · cases h
  · rename_i b _
    split at h
    · simp only [bind, Except.bind] at h
      split at h
      · cases h
      · split at h
        · cases h; exact hp
        · split at h
          · cases h
          · split at h
            · cases h
            · split at h
              · cases h; exact hp
              · cases h
                refine ⟨hp.id, hp.cost, hp.loads, Or.inr ⟨bId, hb, ?_⟩, hp.vcs⟩
                exact sdGet_sdSet_isSome _ _ _ _ (Or.inl rfl)
    · dsimp only at h
      split at h
      · cases h
      · split at h
        · cases h
        · rename_i vcs hv
          simp only [bind, Except.bind] at h
          split at h
          · cases h
          · cases h
            refine ⟨hp.id, hp.cost, hp.loads, hp.lim, ?_⟩
            intro s hs
            rcases List.mem_append.mp hs with hs | hs
            · exact hp.vcs s (List.mem_filter.mp hs).1
            · simp only [List.mem_singleton] at hs
              have : vcs.id = virtName bId := id_of_find? (idf := fun (x : StationS α) => x.id) hv
              rw [hs, this]; exact hS

theorem oppsPrep_ok (dops : DOps α B) (de : DEnv α) (ini : DInit α) (lk : Look α) (w : SWorld α B)
    (occupied : Bool) (gcId : String) (gc : GcS α) (batIds : List String) (prep : OppsPrep α B)
    (hS : ∀ b ∈ batIds, S (virtName b) = true)
    (h : batIds.foldlM (oppsBattery dops de ini lk w occupied gcId) ⟨gc, [], [], []⟩ = .ok prep) :
    PrepOK S gc batIds prep :=
  foldlM_inv_mem _ (fun st => PrepOK S gc batIds st) batIds
    (fun st b st' hb hst hf => oppsBattery_ok dops de ini lk w occupied gcId gc batIds st st' b hb (hS b hb) hst hf)
    _ _ (PrepOK.init gc batIds) h

/-! ### opportunity station: after the sub-strategy (`oppsAfter`) -/

/-- invariant of the `# update stationary batteries` loop -/
structure PostOK (S : String → Bool) (gc : GcS α) (st : OppsPost α B) : Prop where
  key : KeyUpTo S gc st.gc
  bat : ∀ b ∈ st.bats, S b.id = true

theorem oppsAfter_ok (dops : DOps α B) (saved : α) (avail : List (String × α)) (vveh : List (VehicleS α B))
    (gc : GcS α) (st st' : OppsPost α B) (bId : String) (hS : S (virtName bId) = true) (hp : PostOK S gc st)
    (h : oppsAfter dops saved avail vveh st bId = .ok st') :
    PostOK S gc st' ∧ ((sdGet avail bId).isSome → st'.gc.curMax = saved) ∧
      (sdGet avail bId = none → st'.gc.curMax = st.gc.curMax) := by
  unfold oppsAfter at h
  split at h
  · cases h
  · rename_i b hb
    have hbid : b.id = bId := id_of_find? (idf := fun (x : StatBatS α B) => x.id) hb
    have hSb : S bId = true := by rw [← hbid]; exact hp.bat b (mem_of_find? hb)
    have hbats : ∀ (b' : StatBatS α B), b'.id = bId →
        ∀ x ∈ st.bats.map (fun x => if x.id == bId then b' else x), S x.id = true := by
      intro b' hb' x hx
      obtain ⟨y, hy, rfl⟩ := List.mem_map.mp hx
      split
      · rw [hb']; exact hSb
      · exact hp.bat y hy
    split at h
    · rename_i p hav
      simp only [bind, Except.bind] at h
      split at h
      · cases h
      · rename_i r _
        obtain ⟨bat', avg⟩ := r
        simp only [Except.ok.injEq] at h
        subst h
        refine ⟨⟨?_, hbats _ hbid⟩, fun _ => ?_, fun hn => ?_⟩
        · exact KeyUpTo.addLoad (g := { st.gc with curMax := saved }) ⟨hp.key.1, hp.key.2.1, hp.key.2.2⟩ bId _ hSb
        · exact addLoad_curMax _ _ _
        · rw [hav] at hn; cases hn
    · rename_i hav
      dsimp only at h
      split at h
      · cases h; exact ⟨hp, fun hs => (by rw [hav] at hs; cases hs), fun _ => rfl⟩
      · split at h
        · cases h
        · rename_i val _
          split at h
          · cases h
          · rename_i vv _
            simp only [Except.ok.injEq] at h
            subst h
            refine ⟨⟨?_, hbats _ hbid⟩, fun hs => (by rw [hav] at hs; cases hs), fun _ => ?_⟩
            · refine KeyUpTo.addLoad (g := { st.gc with loads := sdErase st.gc.loads (virtName bId) })
                ⟨hp.key.1, hp.key.2.1, ?_⟩ bId _ hSb
              rw [← hp.key.2.2]
              exact sdErase_filter_out S st.gc.loads (virtName bId) hS
            · exact addLoad_curMax _ _ _

/-- the post loop keeps id, cost and non-station entries and ENDS WITH THE SAVED LIMIT, provided the limit was the saved
one before or one of the batteries of the loop supported the connector (has an entry in `avail`) -/
theorem oppsPost_ok (dops : DOps α B) (saved : α) (avail : List (String × α)) (vveh : List (VehicleS α B))
    (gc : GcS α) : ∀ (l : List String) (st st' : OppsPost α B), (∀ b ∈ l, S (virtName b) = true) → PostOK S gc st →
      (st.gc.curMax = saved ∨ ∃ b ∈ l, (sdGet avail b).isSome) →
      l.foldlM (oppsAfter dops saved avail vveh) st = .ok st' → PostOK S gc st' ∧ st'.gc.curMax = saved := by
  intro l
  induction l with
  | nil =>
    intro st st' _ hp hl h
    simp only [List.foldlM, pure, Except.pure] at h
    cases h
    rcases hl with hl | ⟨b, hb, _⟩
    · exact ⟨hp, hl⟩
    · cases hb
  | cons x xs ih =>
    intro st st' hS hp hl h
    simp only [List.foldlM, bind, Except.bind] at h
    split at h
    · cases h
    · rename_i s1 h1
      obtain ⟨hp1, hsome, hnone⟩ := oppsAfter_ok dops saved avail vveh gc st s1 x (hS x (by simp)) hp h1
      refine ih s1 st' (fun b hb => hS b (List.mem_cons_of_mem _ hb)) hp1 ?_ h
      cases hx : sdGet avail x with
      | some p => left; exact hsome (by rw [hx]; rfl)
      | none =>
        rcases hl with hl | ⟨b, hb, hbs⟩
        · left; rw [hnone hx]; exact hl
        · rcases List.mem_cons.mp hb with rfl | hb'
          · rw [hx] at hbs; cases hbs
          · right; exact ⟨b, hb', hbs⟩

/-- **opportunity station, after the sub-strategy.**  `w` the real world, `vw'` the virtual world after the sub-step
(frame relative to the record `prep.gc` with possibly raised limit): the limit is restored, the popped
`stationary_<b>` entries are station names, the result keeps the invariant of the real world. -/
theorem oppsTail_inv (dops : DOps α B) (w vw' : SWorld α B) (gc gc1 : GcS α) (prep : OppsPrep α B)
    (sids vids batIds : List String) (cmds : List (String × α)) (vveh : List (VehicleS α B)) (post : OppsPost α B)
    (hi : Inv S gcs0 w) (hgc : gc ∈ w.gcs) (hS : ∀ b ∈ batIds, S (virtName b) = true)
    (hprep : PrepOK S gc batIds prep) (hsub : Inv S [prep.gc] vw') (hg1 : vw'.gcs = [gc1])
    (hpost : batIds.foldlM (oppsAfter dops gc.curMax prep.avail vveh)
      ⟨gc1, cmds, (writeBack w (syncStations vw') sids vids).batteries⟩ = .ok post) :
    Inv S gcs0 { ((writeBack w (syncStations vw') sids vids).setGc post.gc) with batteries := post.bats } := by
  have i1 : Inv S gcs0 (writeBack w (syncStations vw') sids vids) :=
    writeBack_inv w _ sids vids hi (syncStations_inv vw' hsub).st
  have hk1 : gcKey S gc1 = gcKey S prep.gc := by
    have := hsub.keeps.attrs gc1 (by rw [hg1]; simp)
    simpa only [List.map_cons, List.map_nil, List.mem_singleton] using this
  obtain ⟨hu1, hc1⟩ := KeyUpTo.of_key hk1
  have hu0 : KeyUpTo S gc prep.gc := ⟨hprep.id, hprep.cost, by unfold restLoads; rw [hprep.loads]⟩
  have hlim : gc1.curMax = gc.curMax ∨ ∃ b ∈ batIds, (sdGet prep.avail b).isSome := by
    rcases hprep.lim with h | h
    · left; rw [hc1, h]
    · right; exact h
  obtain ⟨hp, hc⟩ := oppsPost_ok dops gc.curMax prep.avail vveh gc batIds _ post hS
    ⟨hu0.trans hu1, i1.bat⟩ hlim hpost
  have hk : gcKey S post.gc ∈ gcs0.map (gcKey S) := by
    rw [hp.key.key_eq hc]; exact hi.key_of_mem hgc
  have i2 := i1.setGc post.gc hk
  exact ⟨i2.keeps, i2.st, hp.bat⟩

/-! ### the virtual world and the sub-strategies -/

/-- the virtual world satisfies the invariant relative to its own single connector record -/
theorem virtInv (g : GcS α) (sts : List (StationS α)) (vs : List (VehicleS α B)) (bats : List (StatBatS α B))
    (hs : ∀ s ∈ sts, S s.id = true) (hb : ∀ b ∈ bats, S b.id = true) : Inv S [g] ⟨[g], sts, vs, bats⟩ :=
  ⟨GcKeeps.refl _ _, hs, hb⟩

theorem psStep_inv {gcs1 : List (GcS α)} (dops : DOps α B) (sub : SubStrat α) (cfg : PSCfg) (now : Int)
    (events future : List (PeakShaving.Ev α)) (vw vw' : SWorld α B) (cmds : List (String × α))
    (evs' : List (PeakShaving.Ev α)) (hi : Inv S gcs1 vw)
    (h : psStep dops sub cfg now events future vw = .ok (vw', cmds, evs')) : Inv S gcs1 vw' := by
  unfold psStep at h
  simp only [bind, Except.bind] at h
  split at h
  · cases h
  · rename_i r hr
    obtain ⟨a, b, c⟩ := r
    simp only [Except.ok.injEq, Prod.mk.injEq] at h
    obtain ⟨rfl, -⟩ := h
    exact Keeps.PeakShaving.step_inv _ _ _ vw _ _ _ hi hr

/-! #### depot connector -/

theorem stepDepsRule_inv (dops : DOps α B) (de : DEnv α) (w : SWorld α B) (ini : DInit α)
    (cmdsAcc : List (String × α)) (gc : GcS α) (stations : List (StationS α)) (cvs : List (VehicleS α B))
    (batIds : List String) (r : SWorld α B × DInit α × List (String × α))
    (hi : Inv S gcs0 w) (hgc : gc ∈ w.gcs) (hst : ∀ s ∈ stations, s ∈ w.stations)
    (h : stepDepsRule dops de w ini cmdsAcc gc stations cvs batIds = .ok r) :
    Inv S gcs0 r.1 ∧ r.2.1.gcBattery = ini.gcBattery := by
  unfold stepDepsRule at h
  simp only [bind, Except.bind] at h
  split at h
  · cases h
  · rename_i r1 hr
    obtain ⟨vw', cmds⟩ := r1
    simp only [Except.ok.injEq] at h
    subst h
    have hv := virtInv (S := S) gc stations cvs (depotBatteries w batIds)
      (fun s hs => hi.st s (hst s hs)) (fun b hb => hi.bat b (depotBatteries_mem w batIds b hb))
    have hsub := ruleStep_inv _ _ _ _ vw' cmds hv hr
    exact ⟨mergeDeps_inv w _ gc stations cvs hi (hi.key_of_mem hgc) (syncStations_inv vw' hsub), rfl⟩

theorem stepDepsPS_inv (dops : DOps α B) (de : DEnv α) (cfg : PSCfg) (w : SWorld α B) (ini : DInit α)
    (cmdsAcc : List (String × α)) (gc : GcS α) (stations : List (StationS α)) (cvs : List (VehicleS α B))
    (batIds : List String) (r : SWorld α B × DInit α × List (String × α))
    (hi : Inv S gcs0 w) (hgc : gc ∈ w.gcs) (hst : ∀ s ∈ stations, s ∈ w.stations)
    (h : stepDepsPS dops de cfg w ini cmdsAcc gc stations cvs batIds = .ok r) :
    Inv S gcs0 r.1 ∧ r.2.1.gcBattery = ini.gcBattery := by
  unfold stepDepsPS at h
  simp only [bind, Except.bind] at h
  split at h
  · cases h
  · rename_i r1 hr
    obtain ⟨vw', cmds, evs'⟩ := r1
    simp only [Except.ok.injEq] at h
    subst h
    have hv := virtInv (S := S) gc stations cvs (depotBatteries w batIds)
      (fun s hs => hi.st s (hst s hs)) (fun b hb => hi.bat b (depotBatteries_mem w batIds b hb))
    have hsub := psStep_inv _ _ _ _ _ _ _ vw' cmds evs' hv hr
    exact ⟨mergeDeps_inv w _ gc stations cvs hi (hi.key_of_mem hgc) (syncStations_inv vw' hsub), rfl⟩

/-! #### opportunity station -/

theorem stepOppsRule_inv (dops : DOps α B) (de : DEnv α) (lk : Look α) (w : SWorld α B) (ini : DInit α)
    (cmdsAcc : List (String × α)) (gcId : String) (gc : GcS α) (stations : List (StationS α))
    (cvs : List (VehicleS α B)) (batIds : List String) (r : SWorld α B × DInit α × List (String × α))
    (hi : Inv S gcs0 w) (hgc : gc ∈ w.gcs) (hst : ∀ s ∈ stations, s ∈ w.stations)
    (hS : ∀ b ∈ batIds, S (virtName b) = true)
    (h : stepOppsRule dops de lk w ini cmdsAcc gcId gc stations cvs batIds = .ok r) :
    Inv S gcs0 r.1 ∧ r.2.1.gcBattery = ini.gcBattery := by
  unfold stepOppsRule at h
  simp only [bind, Except.bind] at h
  split at h
  · cases h
  · rename_i prep hprep
    have hp := oppsPrep_ok (S := S) dops de ini lk w _ gcId gc batIds prep hS hprep
    split at h
    · cases h
    · rename_i r1 hr
      obtain ⟨vw', cmds⟩ := r1
      have hv := virtInv (S := S) prep.gc (stations ++ prep.vcs) (cvs ++ prep.vveh) ([] : List (StatBatS α B))
        (fun s hs => by
          rcases List.mem_append.mp hs with hs | hs
          · exact hi.st s (hst s hs)
          · exact hp.vcs s hs) (fun b hb => by cases hb)
      have hsub := ruleStep_inv _ _ _ _ vw' cmds hv hr
      dsimp only at h
      split at h
      · rename_i gc1 hg1
        split at h
        · cases h
        · rename_i post hpost
          simp only [Except.ok.injEq] at h
          subst h
          exact ⟨oppsTail_inv dops w vw' gc gc1 prep _ _ batIds cmds _ post hi hgc hS hp hsub hg1 hpost, rfl⟩
      · cases h

theorem stepOppsPS_inv (dops : DOps α B) (de : DEnv α) (cfg : PSCfg) (lk : Look α) (w : SWorld α B) (ini : DInit α)
    (cmdsAcc : List (String × α)) (gcId : String) (gc : GcS α) (stations : List (StationS α))
    (cvs : List (VehicleS α B)) (batIds : List String) (r : SWorld α B × DInit α × List (String × α))
    (hi : Inv S gcs0 w) (hgc : gc ∈ w.gcs) (hst : ∀ s ∈ stations, s ∈ w.stations)
    (hS : ∀ b ∈ batIds, S (virtName b) = true)
    (h : stepOppsPS dops de cfg lk w ini cmdsAcc gcId gc stations cvs batIds = .ok r) :
    Inv S gcs0 r.1 ∧ r.2.1.gcBattery = ini.gcBattery := by
  unfold stepOppsPS at h
  simp only [bind, Except.bind] at h
  split at h
  · cases h
  · rename_i prep hprep
    have hp := oppsPrep_ok (S := S) dops de ini lk w _ gcId gc batIds prep hS hprep
    split at h
    · cases h
    · rename_i r1 hr
      obtain ⟨vw', cmds, evs'⟩ := r1
      have hv := virtInv (S := S) prep.gc (stations ++ prep.vcs) (cvs ++ prep.vveh) ([] : List (StatBatS α B))
        (fun s hs => by
          rcases List.mem_append.mp hs with hs | hs
          · exact hi.st s (hst s hs)
          · exact hp.vcs s hs) (fun b hb => by cases hb)
      have hsub := psStep_inv _ _ _ _ _ _ _ vw' cmds evs' hv hr
      dsimp only at h
      split at h
      · rename_i gc1 hg1
        split at h
        · cases h
        · rename_i post hpost
          simp only [Except.ok.injEq] at h
          subst h
          exact ⟨oppsTail_inv dops w vw' gc gc1 prep _ _ batIds cmds _ post hi hgc hS hp hsub hg1 hpost, rfl⟩
      · cases h

/-! #### a `PeakLoadWindow` object as sub-strategy

`Keeps.PeakLoadWindow.step_inv` (Proofs/C07KeepsPeakLoadWindow.lean) is taken as the explicit hypothesis `hplw`
(exactly its statement), so that this file does not depend on that file's object code. -/

/-- the frame of a peak-load-window sub-strategy object `sub` on a virtual world (vacuous when `sub` is none) -/
def PlwFrame (S : String → Bool) (dops : DOps α B) (de : DEnv α) (sub : SubStrat α) : Prop :=
  ∀ (cfg : PLWCfg α), sub.plw = some cfg → ∀ (gcs1 : List (GcS α)) (peaks : List (String × α))
    (extra : List (String × List α × Option α)) (vw vw' : SWorld α B) (cmds peaks' : List (String × α)),
    Inv S gcs1 vw → plwStep dops sub cfg de peaks extra vw = .ok (vw', cmds, peaks') → Inv S gcs1 vw'

theorem PlwFrame.of_none (dops : DOps α B) (de : DEnv α) (sub : SubStrat α) (h : sub.plw = none) :
    PlwFrame S dops de sub := by
  intro cfg hc; rw [h] at hc; cases hc

section plw
variable (hplw : ∀ (S : String → Bool) (gcs0 : List (GcS α)) (ol0 : List (String × String × Option String))
    (ops : BatOps α B) (env : PeakLoadWindow.PEnv α) (w w' : PeakLoadWindow.PWorld α B) (cmds : List (String × α)),
    PInv S gcs0 ol0 w → PeakLoadWindow.step ops env w = .ok (w', cmds) → PInv S gcs0 ol0 w')
include hplw

theorem plwStep_inv {gcs1 : List (GcS α)} (dops : DOps α B) (sub : SubStrat α) (cfg : PLWCfg α) (de : DEnv α)
    (peaks : List (String × α)) (extra : List (String × List α × Option α)) (vw vw' : SWorld α B)
    (cmds peaks' : List (String × α)) (hi : Inv S gcs1 vw)
    (h : plwStep dops sub cfg de peaks extra vw = .ok (vw', cmds, peaks')) : Inv S gcs1 vw' := by
  unfold plwStep at h
  simp only [bind, Except.bind] at h
  split at h
  · cases h
  · rename_i r hr
    obtain ⟨pw', cmds1⟩ := r
    simp only [Except.ok.injEq, Prod.mk.injEq] at h
    obtain ⟨rfl, -⟩ := h
    have hpi := hplw S gcs1 _ _ _ _ pw' cmds1
      (⟨by
          rw [List.map_map]
          have : (vw.gcs.map ((fun (g : PeakLoadWindow.PGc α) => g.gc) ∘ fun g =>
              (⟨g, ((sdGet de.plwGc g.id).getD ("", none, none)).1, ((sdGet de.plwGc g.id).getD ("", none, none)).2.1,
                ((sdGet de.plwGc g.id).getD ("", none, none)).2.2, (sdGet peaks g.id).getD 0⟩ : PeakLoadWindow.PGc α)))
              = vw.gcs := by
            conv => rhs; rw [← List.map_id vw.gcs]
            rfl
          rw [this]; exact hi.keeps,
        fun g hg => List.mem_map.mpr ⟨g, hg, rfl⟩, hi.st, hi.bat⟩ :
        PInv S gcs1 _ _) hr
    exact ⟨hpi.keeps, hpi.st, hpi.bat⟩

theorem PlwFrame.of_hplw (dops : DOps α B) (de : DEnv α) (sub : SubStrat α) : PlwFrame S dops de sub :=
  fun cfg _ gcs1 peaks extra vw vw' cmds peaks' hi h =>
    plwStep_inv hplw dops sub cfg de peaks extra vw vw' cmds peaks' hi h

end plw

theorem stepDepsPLW_inv (dops : DOps α B) (de : DEnv α) (cfg : PLWCfg α) (w : SWorld α B) (ini : DInit α)
    (cmdsAcc : List (String × α)) (gc : GcS α) (stations : List (StationS α)) (cvs : List (VehicleS α B))
    (batIds : List String) (r : SWorld α B × DInit α × List (String × α))
    (hf : PlwFrame S dops de de.deps) (hcfg : de.deps.plw = some cfg)
    (hi : Inv S gcs0 w) (hgc : gc ∈ w.gcs) (hst : ∀ s ∈ stations, s ∈ w.stations)
    (h : stepDepsPLW dops de cfg w ini cmdsAcc gc stations cvs batIds = .ok r) :
    Inv S gcs0 r.1 ∧ r.2.1.gcBattery = ini.gcBattery := by
  unfold stepDepsPLW at h
  simp only [bind, Except.bind] at h
  split at h
  · cases h
  · rename_i r1 hr
    obtain ⟨vw', cmds, peaks'⟩ := r1
    simp only [Except.ok.injEq] at h
    subst h
    have hv := virtInv (S := S) gc stations cvs (depotBatteries w batIds)
      (fun s hs => hi.st s (hst s hs)) (fun b hb => hi.bat b (depotBatteries_mem w batIds b hb))
    have hsub := hf cfg hcfg _ _ _ _ vw' cmds peaks' hv hr
    exact ⟨mergeDeps_inv w _ gc stations cvs hi (hi.key_of_mem hgc) (syncStations_inv vw' hsub), rfl⟩

theorem stepOppsPLW_inv (dops : DOps α B) (de : DEnv α) (cfg : PLWCfg α) (lk : Look α) (w : SWorld α B)
    (ini : DInit α) (cmdsAcc : List (String × α)) (gcId : String) (gc : GcS α) (stations : List (StationS α))
    (cvs : List (VehicleS α B)) (batIds : List String) (r : SWorld α B × DInit α × List (String × α))
    (hi : Inv S gcs0 w) (hgc : gc ∈ w.gcs) (hst : ∀ s ∈ stations, s ∈ w.stations)
    (hS : ∀ b ∈ batIds, S (virtName b) = true)
    (hf : PlwFrame S dops de de.opps) (hcfg : de.opps.plw = some cfg)
    (h : stepOppsPLW dops de cfg lk w ini cmdsAcc gcId gc stations cvs batIds = .ok r) :
    Inv S gcs0 r.1 ∧ r.2.1.gcBattery = ini.gcBattery := by
  unfold stepOppsPLW at h
  simp only [bind, Except.bind] at h
  split at h
  · cases h
  · rename_i prep hprep
    have hp := oppsPrep_ok (S := S) dops de ini lk w _ gcId gc batIds prep hS hprep
    split at h
    · cases h
    · rename_i r1 hr
      obtain ⟨vw', cmds, peaks'⟩ := r1
      have hv := virtInv (S := S) prep.gc (stations ++ prep.vcs) (cvs ++ prep.vveh) ([] : List (StatBatS α B))
        (fun s hs => by
          rcases List.mem_append.mp hs with hs | hs
          · exact hi.st s (hst s hs)
          · exact hp.vcs s hs) (fun b hb => by cases hb)
      have hsub := hf cfg hcfg _ _ _ _ vw' cmds peaks' hv hr
      dsimp only at h
      split at h
      · rename_i gc1 hg1
        split at h
        · cases h
        · rename_i post hpost
          simp only [Except.ok.injEq] at h
          subst h
          exact ⟨oppsTail_inv dops w vw' gc gc1 prep _ _ batIds cmds _ post hi hgc hS hp hsub hg1 hpost, rfl⟩
      · cases h

/-! ### dispatch, one connector, the whole step -/

theorem stepDeps_inv (dops : DOps α B) (de : DEnv α) (w : SWorld α B) (ini : DInit α)
    (cmdsAcc : List (String × α)) (gc : GcS α) (stations : List (StationS α)) (cvs : List (VehicleS α B))
    (batIds : List String) (r : SWorld α B × DInit α × List (String × α))
    (hf : PlwFrame S dops de de.deps)
    (hi : Inv S gcs0 w) (hgc : gc ∈ w.gcs) (hst : ∀ s ∈ stations, s ∈ w.stations)
    (h : stepDeps dops de w ini cmdsAcc gc stations cvs batIds = .ok r) :
    Inv S gcs0 r.1 ∧ r.2.1.gcBattery = ini.gcBattery := by
  unfold stepDeps at h
  split at h
  · exact stepDepsPS_inv dops de _ w ini cmdsAcc gc stations cvs batIds r hi hgc hst h
  · split at h
    · rename_i cfg hcfg
      exact stepDepsPLW_inv dops de cfg w ini cmdsAcc gc stations cvs batIds r hf hcfg hi hgc hst h
    · exact stepDepsRule_inv dops de w ini cmdsAcc gc stations cvs batIds r hi hgc hst h

theorem stepOpps_inv (dops : DOps α B) (de : DEnv α) (lk : Look α) (w : SWorld α B) (ini : DInit α)
    (cmdsAcc : List (String × α)) (gcId : String) (gc : GcS α) (stations : List (StationS α))
    (cvs : List (VehicleS α B)) (batIds : List String) (r : SWorld α B × DInit α × List (String × α))
    (hf : PlwFrame S dops de de.opps)
    (hi : Inv S gcs0 w) (hgc : gc ∈ w.gcs) (hst : ∀ s ∈ stations, s ∈ w.stations)
    (hS : ∀ b ∈ batIds, S (virtName b) = true)
    (h : stepOpps dops de lk w ini cmdsAcc gcId gc stations cvs batIds = .ok r) :
    Inv S gcs0 r.1 ∧ r.2.1.gcBattery = ini.gcBattery := by
  unfold stepOpps at h
  split at h
  · exact stepOppsPS_inv dops de _ lk w ini cmdsAcc gcId gc stations cvs batIds r hi hgc hst hS h
  · split at h
    · rename_i cfg hcfg
      exact stepOppsPLW_inv dops de cfg lk w ini cmdsAcc gcId gc stations cvs batIds r hi hgc hst hS hf hcfg h
    · exact stepOppsRule_inv dops de lk w ini cmdsAcc gcId gc stations cvs batIds r hi hgc hst hS h

/-- the names `stationary_<b>` of the batteries listed in `gc_battery` are station names -/
def VirtNames (S : String → Bool) (gb : List (String × List String)) : Prop :=
  ∀ p ∈ gb, ∀ b ∈ p.2, S (virtName b) = true

/-- **one connector of the charging loop**: the invariant of the real world is kept (limit restored), `gc_battery`
is not touched -/
theorem stepGc_inv (dops : DOps α B) (de : DEnv α) (numberCs : List (String × Option Int))
    (connected : List (String × List String)) (lk : Look α)
    (st st' : SWorld α B × DInit α × List (String × α)) (gcId : String)
    (hfd : PlwFrame S dops de de.deps) (hfo : PlwFrame S dops de de.opps)
    (hi : Inv S gcs0 st.1) (hgb : VirtNames S st.2.1.gcBattery)
    (h : stepGc dops de numberCs connected lk st gcId = .ok st') :
    Inv S gcs0 st'.1 ∧ st'.2.1.gcBattery = st.2.1.gcBattery := by
  unfold stepGc at h
  split at h
  · cases h
  · rename_i gc hgc
    have hgm : gc ∈ st.1.gcs := mem_of_find? hgc
    simp only [bind, Except.bind] at h
    split at h
    · cases h
    · rename_i cands _
      split at h
      · cases h
      · rename_i cvs _
        split at h
        · cases h; exact ⟨hi, rfl⟩
        · split at h
          · cases h
          · rename_i kind _
            split at h
            · cases h
            · rename_i stations hstations
              have hst := subStations_mem st.1 cvs stations hstations
              have hS : ∀ b ∈ (sdGet st.2.1.gcBattery gcId).getD [], S (virtName b) = true := by
                intro b hb
                cases hgcb : sdGet st.2.1.gcBattery gcId with
                | none => rw [hgcb] at hb; cases hb
                | some l =>
                  rw [hgcb] at hb
                  obtain ⟨k', hk'⟩ := sdGet_mem _ _ _ hgcb
                  exact hgb (k', l) hk' b hb
              split at h
              · exact stepDeps_inv dops de st.1 st.2.1 st.2.2 gc stations cvs _ st' hfd hi hgm hst h
              · exact stepOpps_inv dops de lk st.1 st.2.1 st.2.2 gcId gc stations cvs _ st' hfo hi hgm hst hS h

theorem distributeSurplusOn_inv (ops : BatOps α B) (env : StratEnv α) (w w' : SWorld α B) (ids : List String)
    (cmds : List (String × α)) (hi : Inv S gcs0 w) (h : distributeSurplusOn ops env w ids = .ok (w', cmds)) :
    Inv S gcs0 w' := by
  unfold distributeSurplusOn at h
  simp only [bind, Except.bind] at h
  split at h
  · cases h
  · rename_i cheap _
    refine foldlM_inv _ (fun (st : SWorld α B × List (String × α)) => Inv S gcs0 st.1) ?_ ids (w, []) (w', cmds) hi h
    intro st id st' hst hf
    split at hf
    · cases hf; exact hst
    · exact surplusVehicle_keeps ops env cheap st.1 st'.1 st.2 st'.2 _ hst hf

/-- **`Distributed.step`, general form**: `hfd` / `hfo` are the frames of a peak-load-window sub-strategy object on a
virtual world (`PlwFrame.of_none` when the object is of another class, `PlwFrame.of_hplw` from
`Keeps.PeakLoadWindow.step_inv`) -/
theorem step_inv_of (dops : DOps α B) (de : DEnv α) (s s' : DState α B) (cmds : List (String × α))
    (hfd : PlwFrame S dops de de.deps) (hfo : PlwFrame S dops de de.opps)
    (hgb : VirtNames S s.init.gcBattery)
    (hi : Inv S gcs0 s.world) (h : Distrib.step dops de s = .ok (s', cmds)) :
    Inv S gcs0 s'.world ∧ s'.future = s.future ∧ s'.numberCs = s.numberCs := by
  refine ⟨?_, step_future dops de s s' cmds h⟩
  unfold Distrib.step at h
  simp only [bind, Except.bind] at h
  split at h
  · cases h
  · rename_i lk _
    split at h
    · cases h
    · rename_i connected _
      split at h
      · cases h
      · rename_i r1 h1
        obtain ⟨w1, ini1, cmds1⟩ := r1
        have i1 : Inv S gcs0 w1 ∧ VirtNames S ini1.gcBattery :=
          foldlM_inv _ (fun (st : SWorld α B × DInit α × List (String × α)) =>
              Inv S gcs0 st.1 ∧ VirtNames S st.2.1.gcBattery)
            (fun st gcId st' hst hf => by
              obtain ⟨ha, hb⟩ := stepGc_inv dops de s.numberCs connected lk st st' gcId hfd hfo hst.1 hst.2 hf
              exact ⟨ha, by rw [hb]; exact hst.2⟩)
            _ _ _ ⟨hi.resetStations, hgb⟩ h1
        dsimp only at h
        split at h
        · cases h
        · rename_i ids _
          split at h
          · cases h
          · rename_i r2 h2
            obtain ⟨w2, cmds2⟩ := r2
            simp only [Except.ok.injEq, Prod.mk.injEq] at h
            obtain ⟨rfl, -⟩ := h
            exact distributeSurplusOn_inv dops.bat de.env w1 w2 ids cmds2 i1.1 h2

/-- **distributed, sub-strategies greedy / balanced / peak_shaving** (no peak-load-window object): no hypothesis
beyond the names -/
theorem step_inv_noplw (dops : DOps α B) (de : DEnv α) (s s' : DState α B) (cmds : List (String × α))
    (hd : de.deps.plw = none) (ho : de.opps.plw = none)
    (hgb : ∀ p ∈ s.init.gcBattery, ∀ b ∈ p.2, S (virtName b) = true)
    (hi : Inv S gcs0 s.world) (h : Distrib.step dops de s = .ok (s', cmds)) :
    Inv S gcs0 s'.world ∧ s'.future = s.future ∧ s'.numberCs = s.numberCs :=
  step_inv_of dops de s s' cmds (PlwFrame.of_none dops de _ hd) (PlwFrame.of_none dops de _ ho) hgb hi h

/-- **distributed, sub-strategies greedy / balanced** -/
theorem step_inv_rule (dops : DOps α B) (de : DEnv α) (s s' : DState α B) (cmds : List (String × α))
    (hd : de.deps.isRule) (ho : de.opps.isRule)
    (hgb : ∀ p ∈ s.init.gcBattery, ∀ b ∈ p.2, S (virtName b) = true)
    (hi : Inv S gcs0 s.world) (h : Distrib.step dops de s = .ok (s', cmds)) :
    Inv S gcs0 s'.world ∧ s'.future = s.future ∧ s'.numberCs = s.numberCs :=
  step_inv_noplw dops de s s' cmds hd.2 ho.2 hgb hi h

/-- **distributed, every modelled sub-strategy.**  `hplw` is `Keeps.PeakLoadWindow.step_inv`
(Proofs/C07KeepsPeakLoadWindow.lean), `Keeps.PeakShaving.step_inv` is imported.  `hvirt` is not used by the proof
(the virtual stations that enter a virtual world are found under the names `stationary_<b>`, `b` in `gc_battery`,
which `hgb` covers); it is kept for the interface. -/
theorem step_inv
    (hplw : ∀ (S : String → Bool) (gcs0 : List (GcS α)) (ol0 : List (String × String × Option String))
      (ops : BatOps α B) (env : PeakLoadWindow.PEnv α) (w w' : PeakLoadWindow.PWorld α B) (cmds : List (String × α)),
      PInv S gcs0 ol0 w → PeakLoadWindow.step ops env w = .ok (w', cmds) → PInv S gcs0 ol0 w')
    (dops : DOps α B) (de : DEnv α) (s s' : DState α B) (cmds : List (String × α))
    (hvirt : ∀ st ∈ s.init.virtualCs, S st.id = true)
    (hgb : ∀ p ∈ s.init.gcBattery, ∀ b ∈ p.2, S (virtName b) = true)
    (hi : Inv S gcs0 s.world) (h : Distrib.step dops de s = .ok (s', cmds)) :
    Inv S gcs0 s'.world ∧ s'.future = s.future ∧ s'.numberCs = s.numberCs :=
  step_inv_of dops de s s' cmds (PlwFrame.of_hplw hplw dops de _) (PlwFrame.of_hplw hplw dops de _) hgb hi h

end SpiceEv.Keeps.Distrib
