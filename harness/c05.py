"""C05 — charging-station and vehicle power limits hold for every command."""
import runcheck
import runoracle

PID = "C05"
CHUNK = 4
RULE = ("scenarios from the grammar in harness/scen.py incl. CONCURRENCY < 1 and stations rated below / at / above "
        "the vehicle maximum, every strategy, real Scenario.run with run-time trace; non-trivial = the run reported "
        "at least one step; distinct = distinct (seed, index, strategy)")
ASSUMPTIONS = ["station tolerance is the code's own EPS = 1e-5 kW",
               "vehicle-curve bound: average station power <= maximum of the (dis)charging curve on the SoC interval "
               "traversed in the step (+1e-6)",
               "every run also carries the step-level tie of its strategy: the world before each strategy step is rendered for the Lean model of that strategy class, and commands, connector loads, station powers and SoCs after the real step are compared bit for bit"]
UNPROVED = ["the vehicle-curve sentence has no theorem: six strategies load one battery several times per step (known "
            "findings, recognised from the operation trace); it is proved impossible for peak_load_window and "
            "schedule-individual (one load call per vehicle and step)",
            "station theorems are over the ideal battery contract; distributed has none of its own (it inherits the "
            "sub-strategy's through the delegation theorems of C14); schedule-collective with V2G is excluded"]


def compare(case, impl, model):
    if case.get("k") == "clamp":
        return None if impl == model else "differs"
    return runcheck.compare(case, impl, model)


def gen_cases(tier, seed):
    # util.clamp_power, exact, exhaustive on a small rational grid (comparisons hit with equality)
    vals = ["0", "1/2", "1", "2", "7/2", "11"]
    for power in ["-1", "0", "1/2", "1", "3", "11", "12"]:
        for cur in ["0", "1/2", "3", "11", "12"]:
            for mx in ["0", "1", "7/2", "11"]:
                for mn in ["0", "1/2", "1", "4"]:
                    for vm in ["0", "1/2", "2"]:
                        yield {"k": "clamp", "a": [power, cur, mx, mn, vm]}
    yield from runcheck.gen_cases_for(PID, tier, seed, per_strategy_quick=250, per_strategy_thorough=2500,
                                  builder_quick=60, builder_thorough=600)


def eval_clamp(case):
    from types import SimpleNamespace as NS
    from exact import Q
    from spice_ev.util import clamp_power
    power, cur, mx, mn, vm = [Q(x) for x in case["a"]]
    cs = NS(current_power=cur, max_power=mx, min_power=mn)
    veh = NS(vehicle_type=NS(min_charging_power=vm))
    r = clamp_power(power, veh, cs)
    r = Q(r)
    viol = []
    total = min(cur + power, mx)
    if r < 0:
        viol.append(("clamp", "C05:clamp_negative", "%s" % r))
    if r > max(Q(0), power):
        viol.append(("clamp", "C05:clamp_more_than_offered", "%s > %s" % (r, power)))
    if cur <= mx and cur + r > mx:
        viol.append(("clamp", "C05:clamp_exceeds_station_max", "%s + %s > %s" % (cur, r, mx)))
    if (total < mn or total < vm) and r != 0:
        viol.append(("clamp", "C05:clamp_ignores_minimum_power", "total %s min %s/%s -> %s" % (total, mn, vm, r)))
    if not (total < mn or total < vm) and cur <= mx and power >= 0 and r != min(power, mx - cur):
        viol.append(("clamp", "C05:clamp_not_headroom", "%s != min(%s, %s)" % (r, power, mx - cur)))
    return {"lines": ["clamp q " + " ".join(case["a"])], "impl": [str(r)], "violations": viol,
            "nontrivial": True, "stats": ["clamp"]}


def eval_case(case):
    if case.get("k") == "clamp":
        return eval_clamp(case)
    return runcheck.eval_run(case, [runoracle.check_c05])
