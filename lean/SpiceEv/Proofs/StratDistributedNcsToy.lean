/-
Concrete objects on ℚ for the non-vacuity examples of Properties/C14_DistributedNcs.lean: one opportunity connector
(greedy) with ONE charging point (`number_cs = 1`), two stations, two connected vehicles that both want energy, local
generation `gen` kW.  `v1` holds the charging point from the previous step; `v2` waits.
-/
import SpiceEv.Proofs.StratDistributedNcs
import SpiceEv.Proofs.StratDistributedRunToy
set_option linter.unusedSectionVars false
set_option linter.unusedVariables false
namespace SpiceEv.DistRun
open SpiceEv SpiceEv.Distrib

/-- GC1 (10 kW, price above the threshold) feeds in `gen` kW; number_cs = 1; v1 holds the charging point -/
def ncsState (gen : ℚ) : DState ℚ ℚ :=
  { world := ⟨[⟨"GC1", 10, some (.fixed (3/10)), [("gen", -gen)]⟩],
              [⟨"CS_a_opps", "GC1", 11, 0, 0⟩, ⟨"CS_b_opps", "GC1", 11, 0, 0⟩],
              [⟨"v1", some "CS_a_opps", 4/5, some 3600000000, 0, false, 1/2, 1/5⟩,
               ⟨"v2", some "CS_b_opps", 4/5, some 3600000000, 0, false, 1/2, 1/5⟩],
              []⟩,
    numberCs := [("GC1", some 1)],
    connected := [("GC1", ["v1"])],
    init := { strategies := [("GC1", .opps)], gcBattery := [], virtualVt := [], virtualCs := [] },
    future := [] }

/-- the station powers after the step -/
def ncsPowers (gen : ℚ) : Option (List (String × ℚ)) :=
  match step runDOps (runEnv 0) (ncsState gen) with
  | .ok (s', _) => some (s'.world.stations.map (fun cs => (cs.id, cs.currentPower)))
  | .error _ => none

end SpiceEv.DistRun
