/-
C07 (vehicle frame) — `Distributed.step` (model: Model/StratDistributed.lean, namespace `SpiceEv.Distrib`): the step
changes a vehicle of the REAL world only through its battery; vehicle ids in order (`KeepsVeh.VInv K ids0`).

The frames of the sub-strategy objects are HYPOTHESES, in exactly the form the sibling files prove them:
  `hrule` — `KeepsVeh.ruleStep_vinv`            (greedy / balanced, Proofs/C07KeepsVehRule.lean)
  `hps`   — `KeepsVeh.PeakShaving.step_vinv`    (Proofs/C07KeepsVehPeakShaving.lean)
  `hplw`  — `KeepsVeh.PeakLoadWindow.step_vinv` (Proofs/C07KeepsVehPeakLoadWindow.lean, imported for `PVInv`)

NO hypothesis about id collisions between vehicles and stationary batteries is needed: a virtual vehicle (id = battery
id, key NOT a key of a real vehicle) enters the virtual world of an opportunity station only when the station is
VACANT (`oppsBattery … (!cvs.isEmpty)`: `occupied = false` iff `cvs = []`), and then `writeBack … (cvs.map (·.id))`
writes no vehicle at all; when vehicles are connected, `prep.vveh = []` (`oppsPrep_vveh`) and the virtual world holds
real vehicles only.  A depot's virtual world holds the connected real vehicles only.  So in every case in which a
vehicle is written back, the sub-strategy frame applies with the REAL key list `K` (`SubFrame`), and every record of
the virtual world after the sub-step carries a key of `K`.

The peak-load-window sub-strategy runs on a `PWorld` whose vehicles have `etd` shifted by `epochShift` and are shifted
back afterwards (`plwStep`): `hplw` is used relative to the shifted key list (`shiftKey`), `(x + s) - s = x` on `Int`.

Typeclass context: the plain operations of the model's own section, NO algebraic / order axioms.

Covered: `writeBack`, `syncStations`, `mergeDeps`, `oppsBattery` (only: an occupied station creates no virtual
vehicle), the `oppsAfter` tail (touches connector, commands, batteries only), `psStep`, `plwStep`, `stepDeps*`,
`stepOpps*`, `stepDeps`, `stepOpps`, `connectedAt` (the connected vehicles are records of the world), `stepGc`,
`surplusVehicle` (own copy of the proof, the sibling's file is not imported), `distributeSurplusOn`, `step`.
`lookAhead`, `rank`, `candidates`, `subStations`, `surplusIds` compute ids / numbers only.
-/
import SpiceEv.Proofs.C07KeepsVeh
import SpiceEv.Proofs.C07KeepsVehPeakLoadWindow
import SpiceEv.Model.StratDistributed
set_option linter.unusedSectionVars false
set_option linter.unusedSimpArgs false
set_option linter.unusedVariables false
namespace SpiceEv.KeepsVeh.Distrib
open SpiceEv SpiceEv.Distrib SpiceEv.KeepsVeh
open SpiceEv.KeepsVeh.PeakLoadWindow (PVInv)

variable {α B : Type} [Add α] [Sub α] [Mul α] [Div α] [Neg α] [LT α] [LE α]
  [DecidableLT α] [DecidableLE α] [OfNat α 0] [OfNat α 1] [NatCast α] [IntCast α]
variable {K : List (String × Option String × α × Option Int × α × Bool × α)} {ids0 : List String}

/-! ### generic helpers -/

theorem foldl_inv {σ ι : Type} (f : σ → ι → σ) (P : σ → Prop) :
    ∀ (l : List ι), (∀ s i, i ∈ l → P s → P (f s i)) → ∀ s, P s → P (l.foldl f s) := by
  intro l
  induction l with
  | nil => intro _ s hs; exact hs
  | cons x xs ih =>
    intro hf s hs
    simp only [List.foldl_cons]
    exact ih (fun s i hi => hf s i (List.mem_cons_of_mem _ hi)) _ (hf s x (by simp) hs)

/-- the frame of a sub-step from the virtual world `vw` to `vw'`, relative to ANY key list -/
def SubFrame (vw vw' : SWorld α B) : Prop :=
  ∀ (K : List (String × Option String × α × Option Int × α × Bool × α)) (ids0 : List String),
    VInv K ids0 vw → VInv K ids0 vw'

/-! ### merging the virtual world back -/

/-- `writeBack` only takes records whose id is one of `vids`; such a record must carry a key of `K` -/
theorem writeBack_vinv (w sub : SWorld α B) (sids vids : List String) (hi : VInv K ids0 w)
    (hv : ∀ v ∈ sub.vehicles, v.id ∈ vids → vehKey v ∈ K) : VInv K ids0 (writeBack w sub sids vids) := by
  unfold writeBack
  apply foldl_inv _ (fun (w : SWorld α B) => VInv K ids0 w)
  · intro w1 v hvm h1
    split
    · rename_i hc
      exact h1.setVehicle v (hv v hvm (by simpa using hc))
    · exact h1
  · apply foldl_inv _ (fun (w : SWorld α B) => VInv K ids0 w)
    · intro w1 s hs1 h1
      split
      · exact h1.setStation s
      · exact h1
    · exact hi

theorem syncStations_vehicles (vw : SWorld α B) : (syncStations vw).vehicles = vw.vehicles := by
  unfold syncStations; split <;> rfl

/-- depot: the sub-strategy's result merged back into the real world -/
theorem mergeDeps_vinv (w vw' : SWorld α B) (stations : List (StationS α)) (cvs : List (VehicleS α B))
    (hi : VInv K ids0 w) (hv : ∀ v ∈ vw'.vehicles, vehKey v ∈ K) :
    VInv K ids0 (mergeDeps w (syncStations vw') stations cvs) := by
  unfold mergeDeps
  apply foldl_inv _ (fun (w : SWorld α B) => VInv K ids0 w)
  · intro w1 b _ h1
    exact h1.setBattery b
  · apply foldl_inv _ (fun (w : SWorld α B) => VInv K ids0 w)
    · intro w1 g _ h1
      exact h1.setGc g
    · apply writeBack_vinv w _ _ _ hi
      intro v hvm _
      rw [syncStations_vehicles] at hvm
      exact hv v hvm

/-- a depot's virtual world holds the connected real vehicles only: after a framed sub-step every record carries a key
of `K` -/
theorem deps_keys (gc : GcS α) (stations : List (StationS α)) (cvs : List (VehicleS α B))
    (bats : List (StatBatS α B)) (vw' : SWorld α B) (hc : ∀ v ∈ cvs, vehKey v ∈ K)
    (hf : SubFrame ⟨[gc], stations, cvs, bats⟩ vw') : ∀ v ∈ vw'.vehicles, vehKey v ∈ K :=
  (hf K (cvs.map (·.id)) ⟨rfl, hc⟩).attrs

/-! ### opportunity station -/

/-- an occupied station creates no virtual vehicle -/
theorem oppsBattery_vveh (dops : DOps α B) (de : DEnv α) (ini : DInit α) (lk : Look α) (w : SWorld α B)
    (gcId : String) (st st' : OppsPrep α B) (bId : String)
    (h : oppsBattery dops de ini lk w true gcId st bId = .ok st') : st'.vveh = st.vveh := by
  unfold oppsBattery at h
  split at h
  · cases h
  · rename_i b _
    simp only [if_true, bind, Except.bind] at h
    split at h
    · cases h
    · split at h
      · cases h; rfl
      · split at h
        · cases h
        · split at h
          · cases h
          · split at h
            · cases h; rfl
            · cases h; rfl

theorem oppsPrep_vveh (dops : DOps α B) (de : DEnv α) (ini : DInit α) (lk : Look α) (w : SWorld α B)
    (gcId : String) (gc : GcS α) (batIds : List String) (prep : OppsPrep α B)
    (h : batIds.foldlM (oppsBattery dops de ini lk w true gcId) ⟨gc, [], [], []⟩ = .ok prep) : prep.vveh = [] :=
  foldlM_inv _ (fun (st : OppsPrep α B) => st.vveh = [])
    (fun st b st' hst hf => by rw [oppsBattery_vveh dops de ini lk w gcId st st' b hf]; exact hst)
    batIds _ prep rfl h

/-- the records of the virtual world after the sub-step that `writeBack` takes (id among the connected vehicles' ids)
carry a key of `K`: either nothing is connected, or the virtual world holds real vehicles only -/
theorem opps_keys (dops : DOps α B) (de : DEnv α) (ini : DInit α) (lk : Look α) (w : SWorld α B)
    (gcId : String) (gc : GcS α) (stations : List (StationS α)) (cvs : List (VehicleS α B)) (batIds : List String)
    (prep : OppsPrep α B) (vw' : SWorld α B) (hc : ∀ v ∈ cvs, vehKey v ∈ K)
    (hprep : batIds.foldlM (oppsBattery dops de ini lk w (!cvs.isEmpty) gcId) ⟨gc, [], [], []⟩ = .ok prep)
    (hf : SubFrame ⟨[prep.gc], stations ++ prep.vcs, cvs ++ prep.vveh, []⟩ vw') :
    ∀ v ∈ vw'.vehicles, v.id ∈ cvs.map (·.id) → vehKey v ∈ K := by
  cases cvs with
  | nil => intro v _ hm; cases hm
  | cons c cs =>
    have hvv : prep.vveh = [] := oppsPrep_vveh dops de ini lk w gcId gc batIds prep hprep
    intro v hvm _
    refine (hf K (((c :: cs) ++ prep.vveh).map (·.id)) ⟨rfl, ?_⟩).attrs v hvm
    intro x hx
    change x ∈ (c :: cs) ++ prep.vveh at hx
    rw [hvv, List.append_nil] at hx
    exact hc x hx

/-- the tail of an opportunity station after the sub-step: `writeBack`, then connector / batteries only -/
theorem oppsTail_vinv (w vw' : SWorld α B) (sids vids : List String) (g : GcS α) (bats : List (StatBatS α B))
    (hi : VInv K ids0 w) (hv : ∀ v ∈ vw'.vehicles, v.id ∈ vids → vehKey v ∈ K) :
    VInv K ids0 { ((writeBack w (syncStations vw') sids vids).setGc g) with batteries := bats } := by
  have i1 : VInv K ids0 (writeBack w (syncStations vw') sids vids) := by
    apply writeBack_vinv w _ _ _ hi
    intro v hvm hid
    rw [syncStations_vehicles] at hvm
    exact hv v hvm hid
  exact i1.of_vehicles_eq rfl

/-! ### the sub-strategies on a virtual world -/

/-- a key with the departure time shifted by `d` -/
def shiftKey (d : Int) (k : String × Option String × α × Option Int × α × Bool × α) :
    String × Option String × α × Option Int × α × Bool × α :=
  (k.1, k.2.1, k.2.2.1, k.2.2.2.1.map (· + d), k.2.2.2.2)

section frames
variable
  (hrule : ∀ (K : List (String × Option String × α × Option Int × α × Bool × α)) (ids0 : List String) (rule : Rule)
    (ops : BatOps α B) (env : StratEnv α) (w w' : SWorld α B) (cmds : List (String × α)),
    VInv K ids0 w → ruleStep rule ops env w = .ok (w', cmds) → VInv K ids0 w')
  (hps : ∀ (K : List (String × Option String × α × Option Int × α × Bool × α)) (ids0 : List String)
    (ops : PeakShaving.Ops α B) (env : PeakShaving.Env α) (events : List (PeakShaving.Ev α)) (w w' : SWorld α B)
    (cmds : List (String × α)) (sched : List α),
    VInv K ids0 w → PeakShaving.step ops env events w = .ok (w', cmds, sched) → VInv K ids0 w')
  (hplw : ∀ (K : List (String × Option String × α × Option Int × α × Bool × α)) (ids0 : List String)
    (C : List (String × List α)) (ops : BatOps α B) (env : PeakLoadWindow.PEnv α)
    (w w' : PeakLoadWindow.PWorld α B) (cmds : List (String × α)),
    PVInv K ids0 C w → PeakLoadWindow.step ops env w = .ok (w', cmds) → PVInv K ids0 C w')
include hrule hps hplw

theorem ruleStep_frame (rule : Rule) (ops : BatOps α B) (env : StratEnv α) (vw vw' : SWorld α B)
    (cmds : List (String × α)) (h : ruleStep rule ops env vw = .ok (vw', cmds)) : SubFrame vw vw' :=
  fun K ids0 hi => hrule K ids0 rule ops env vw vw' cmds hi h

theorem psStep_frame (dops : DOps α B) (sub : SubStrat α) (cfg : PSCfg) (now : Int)
    (events future : List (PeakShaving.Ev α)) (vw vw' : SWorld α B) (cmds : List (String × α))
    (evs' : List (PeakShaving.Ev α))
    (h : psStep dops sub cfg now events future vw = .ok (vw', cmds, evs')) : SubFrame vw vw' := by
  intro K ids0 hi
  unfold psStep at h
  simp only [bind, Except.bind] at h
  split at h
  · cases h
  · rename_i r hr
    obtain ⟨a, b, c⟩ := r
    simp only [Except.ok.injEq, Prod.mk.injEq] at h
    obtain ⟨rfl, -⟩ := h
    exact hps K ids0 _ _ _ vw _ _ _ hi hr

theorem plwStep_frame (dops : DOps α B) (sub : SubStrat α) (cfg : PLWCfg α) (de : DEnv α)
    (peaks : List (String × α)) (extra : List (String × List α × Option α)) (vw vw' : SWorld α B)
    (cmds peaks' : List (String × α))
    (h : plwStep dops sub cfg de peaks extra vw = .ok (vw', cmds, peaks')) : SubFrame vw vw' := by
  intro K ids0 hi
  unfold plwStep at h
  simp only [bind, Except.bind] at h
  split at h
  · cases h
  · rename_i r hr
    obtain ⟨pw', cmds1⟩ := r
    simp only [Except.ok.injEq, Prod.mk.injEq] at h
    obtain ⟨rfl, -⟩ := h
    have hpi := hplw (K.map (shiftKey epochShift)) ids0 _ _ _ _ pw' cmds1
      (⟨by
          show (List.map _ vw.vehicles).map _ = ids0
          rw [List.map_map, ← hi.ids]
          rfl,
        by
          intro x hx
          obtain ⟨v, hv, rfl⟩ := List.mem_map.mp hx
          exact List.mem_map.mpr ⟨vehKey v, hi.attrs v hv, rfl⟩,
        fun x hx => List.mem_map.mpr ⟨x, hx, rfl⟩⟩ :
        PVInv (K.map (shiftKey epochShift)) ids0 _ _) hr
    refine ⟨?_, ?_⟩
    · show (pw'.vehicles.map _).map _ = ids0
      rw [List.map_map, ← hpi.ids]
      rfl
    · intro v hv
      change v ∈ pw'.vehicles.map _ at hv
      obtain ⟨x, hx, rfl⟩ := List.mem_map.mp hv
      obtain ⟨k, hkm, hk⟩ := List.mem_map.mp (hpi.attrs x hx)
      obtain ⟨k1, k2, k3, k4, k5, k6, k7⟩ := k
      simp only [shiftKey, vehKey, Prod.mk.injEq] at hk
      obtain ⟨rfl, rfl, rfl, h4, rfl, rfl, rfl⟩ := hk
      have e : x.v.etd.map (· - epochShift) = k4 := by
        rw [← h4]
        cases k4 with
        | none => rfl
        | some t => simp only [Option.map_some, Int.add_sub_cancel]
      unfold vehKey
      simp only [e]
      exact hkm

/-! ### depot connector -/

theorem stepDepsRule_vinv (dops : DOps α B) (de : DEnv α) (w : SWorld α B) (ini : DInit α)
    (cmdsAcc : List (String × α)) (gc : GcS α) (stations : List (StationS α)) (cvs : List (VehicleS α B))
    (batIds : List String) (r : SWorld α B × DInit α × List (String × α))
    (hi : VInv K ids0 w) (hc : ∀ v ∈ cvs, vehKey v ∈ K)
    (h : stepDepsRule dops de w ini cmdsAcc gc stations cvs batIds = .ok r) : VInv K ids0 r.1 := by
  unfold stepDepsRule at h
  simp only [bind, Except.bind] at h
  split at h
  · cases h
  · rename_i r1 hr
    obtain ⟨vw', cmds⟩ := r1
    simp only [Except.ok.injEq] at h
    subst h
    exact mergeDeps_vinv w vw' stations cvs hi
      (deps_keys gc stations cvs _ vw' hc (ruleStep_frame hrule hps hplw _ _ _ _ vw' cmds hr))

theorem stepDepsPS_vinv (dops : DOps α B) (de : DEnv α) (cfg : PSCfg) (w : SWorld α B) (ini : DInit α)
    (cmdsAcc : List (String × α)) (gc : GcS α) (stations : List (StationS α)) (cvs : List (VehicleS α B))
    (batIds : List String) (r : SWorld α B × DInit α × List (String × α))
    (hi : VInv K ids0 w) (hc : ∀ v ∈ cvs, vehKey v ∈ K)
    (h : stepDepsPS dops de cfg w ini cmdsAcc gc stations cvs batIds = .ok r) : VInv K ids0 r.1 := by
  unfold stepDepsPS at h
  simp only [bind, Except.bind] at h
  split at h
  · cases h
  · rename_i r1 hr
    obtain ⟨vw', cmds, evs'⟩ := r1
    simp only [Except.ok.injEq] at h
    subst h
    exact mergeDeps_vinv w vw' stations cvs hi
      (deps_keys gc stations cvs _ vw' hc (psStep_frame hrule hps hplw _ _ _ _ _ _ _ vw' cmds evs' hr))

theorem stepDepsPLW_vinv (dops : DOps α B) (de : DEnv α) (cfg : PLWCfg α) (w : SWorld α B) (ini : DInit α)
    (cmdsAcc : List (String × α)) (gc : GcS α) (stations : List (StationS α)) (cvs : List (VehicleS α B))
    (batIds : List String) (r : SWorld α B × DInit α × List (String × α))
    (hi : VInv K ids0 w) (hc : ∀ v ∈ cvs, vehKey v ∈ K)
    (h : stepDepsPLW dops de cfg w ini cmdsAcc gc stations cvs batIds = .ok r) : VInv K ids0 r.1 := by
  unfold stepDepsPLW at h
  simp only [bind, Except.bind] at h
  split at h
  · cases h
  · rename_i r1 hr
    obtain ⟨vw', cmds, peaks'⟩ := r1
    simp only [Except.ok.injEq] at h
    subst h
    exact mergeDeps_vinv w vw' stations cvs hi
      (deps_keys gc stations cvs _ vw' hc (plwStep_frame hrule hps hplw _ _ _ _ _ _ _ vw' cmds peaks' hr))

/-! ### opportunity station -/

theorem stepOppsRule_vinv (dops : DOps α B) (de : DEnv α) (lk : Look α) (w : SWorld α B) (ini : DInit α)
    (cmdsAcc : List (String × α)) (gcId : String) (gc : GcS α) (stations : List (StationS α))
    (cvs : List (VehicleS α B)) (batIds : List String) (r : SWorld α B × DInit α × List (String × α))
    (hi : VInv K ids0 w) (hc : ∀ v ∈ cvs, vehKey v ∈ K)
    (h : stepOppsRule dops de lk w ini cmdsAcc gcId gc stations cvs batIds = .ok r) : VInv K ids0 r.1 := by
  unfold stepOppsRule at h
  simp only [bind, Except.bind] at h
  split at h
  · cases h
  · rename_i prep hprep
    split at h
    · cases h
    · rename_i r1 hr
      obtain ⟨vw', cmds⟩ := r1
      have hk := opps_keys dops de ini lk w gcId gc stations cvs batIds prep vw' hc hprep
        (ruleStep_frame hrule hps hplw _ _ _ _ vw' cmds hr)
      dsimp only at h
      split at h
      · rename_i gc1 hg1
        split at h
        · cases h
        · rename_i post hpost
          simp only [Except.ok.injEq] at h
          subst h
          exact oppsTail_vinv w vw' _ _ post.gc post.bats hi hk
      · cases h

theorem stepOppsPS_vinv (dops : DOps α B) (de : DEnv α) (cfg : PSCfg) (lk : Look α) (w : SWorld α B)
    (ini : DInit α) (cmdsAcc : List (String × α)) (gcId : String) (gc : GcS α) (stations : List (StationS α))
    (cvs : List (VehicleS α B)) (batIds : List String) (r : SWorld α B × DInit α × List (String × α))
    (hi : VInv K ids0 w) (hc : ∀ v ∈ cvs, vehKey v ∈ K)
    (h : stepOppsPS dops de cfg lk w ini cmdsAcc gcId gc stations cvs batIds = .ok r) : VInv K ids0 r.1 := by
  unfold stepOppsPS at h
  simp only [bind, Except.bind] at h
  split at h
  · cases h
  · rename_i prep hprep
    split at h
    · cases h
    · rename_i r1 hr
      obtain ⟨vw', cmds, evs'⟩ := r1
      have hk := opps_keys dops de ini lk w gcId gc stations cvs batIds prep vw' hc hprep
        (psStep_frame hrule hps hplw _ _ _ _ _ _ _ vw' cmds evs' hr)
      dsimp only at h
      split at h
      · rename_i gc1 hg1
        split at h
        · cases h
        · rename_i post hpost
          simp only [Except.ok.injEq] at h
          subst h
          exact oppsTail_vinv w vw' _ _ post.gc post.bats hi hk
      · cases h

theorem stepOppsPLW_vinv (dops : DOps α B) (de : DEnv α) (cfg : PLWCfg α) (lk : Look α) (w : SWorld α B)
    (ini : DInit α) (cmdsAcc : List (String × α)) (gcId : String) (gc : GcS α) (stations : List (StationS α))
    (cvs : List (VehicleS α B)) (batIds : List String) (r : SWorld α B × DInit α × List (String × α))
    (hi : VInv K ids0 w) (hc : ∀ v ∈ cvs, vehKey v ∈ K)
    (h : stepOppsPLW dops de cfg lk w ini cmdsAcc gcId gc stations cvs batIds = .ok r) : VInv K ids0 r.1 := by
  unfold stepOppsPLW at h
  simp only [bind, Except.bind] at h
  split at h
  · cases h
  · rename_i prep hprep
    split at h
    · cases h
    · rename_i r1 hr
      obtain ⟨vw', cmds, peaks'⟩ := r1
      have hk := opps_keys dops de ini lk w gcId gc stations cvs batIds prep vw' hc hprep
        (plwStep_frame hrule hps hplw _ _ _ _ _ _ _ vw' cmds peaks' hr)
      dsimp only at h
      split at h
      · rename_i gc1 hg1
        split at h
        · cases h
        · rename_i post hpost
          simp only [Except.ok.injEq] at h
          subst h
          exact oppsTail_vinv w vw' _ _ post.gc post.bats hi hk
      · cases h

/-! ### dispatch, one connector -/

theorem stepDeps_vinv (dops : DOps α B) (de : DEnv α) (w : SWorld α B) (ini : DInit α)
    (cmdsAcc : List (String × α)) (gc : GcS α) (stations : List (StationS α)) (cvs : List (VehicleS α B))
    (batIds : List String) (r : SWorld α B × DInit α × List (String × α))
    (hi : VInv K ids0 w) (hc : ∀ v ∈ cvs, vehKey v ∈ K)
    (h : stepDeps dops de w ini cmdsAcc gc stations cvs batIds = .ok r) : VInv K ids0 r.1 := by
  unfold stepDeps at h
  split at h
  · exact stepDepsPS_vinv hrule hps hplw dops de _ w ini cmdsAcc gc stations cvs batIds r hi hc h
  · split at h
    · exact stepDepsPLW_vinv hrule hps hplw dops de _ w ini cmdsAcc gc stations cvs batIds r hi hc h
    · exact stepDepsRule_vinv hrule hps hplw dops de w ini cmdsAcc gc stations cvs batIds r hi hc h

theorem stepOpps_vinv (dops : DOps α B) (de : DEnv α) (lk : Look α) (w : SWorld α B) (ini : DInit α)
    (cmdsAcc : List (String × α)) (gcId : String) (gc : GcS α) (stations : List (StationS α))
    (cvs : List (VehicleS α B)) (batIds : List String) (r : SWorld α B × DInit α × List (String × α))
    (hi : VInv K ids0 w) (hc : ∀ v ∈ cvs, vehKey v ∈ K)
    (h : stepOpps dops de lk w ini cmdsAcc gcId gc stations cvs batIds = .ok r) : VInv K ids0 r.1 := by
  unfold stepOpps at h
  split at h
  · exact stepOppsPS_vinv hrule hps hplw dops de _ lk w ini cmdsAcc gcId gc stations cvs batIds r hi hc h
  · split at h
    · exact stepOppsPLW_vinv hrule hps hplw dops de _ lk w ini cmdsAcc gcId gc stations cvs batIds r hi hc h
    · exact stepOppsRule_vinv hrule hps hplw dops de lk w ini cmdsAcc gcId gc stations cvs batIds r hi hc h

omit hrule hps hplw in
/-- the connected vehicles are records of the world -/
theorem connectedAt_keys (w : SWorld α B) (gcId : String) (cands : List String) (cvs : List (VehicleS α B))
    (hi : VInv K ids0 w) (h : connectedAt w gcId cands = .ok cvs) : ∀ v ∈ cvs, vehKey v ∈ K := by
  unfold connectedAt at h
  refine foldlM_inv _ (fun (acc : List (VehicleS α B)) => ∀ v ∈ acc, vehKey v ∈ K) ?_ cands [] cvs
    (fun _ h => by cases h) h
  intro acc id acc' hacc hf
  split at hf
  · cases hf; exact hacc
  · rename_i v hv
    split at hf
    · cases hf; exact hacc
    · split at hf
      · cases hf; exact hacc
      · split at hf
        · cases hf
        · split at hf
          · cases hf
            intro x hx
            rcases List.mem_append.mp hx with hx | hx
            · exact hacc x hx
            · simp only [List.mem_singleton] at hx; subst hx; exact hi.key_of_vehicle? hv
          · cases hf; exact hacc

/-- **one connector of the charging loop** -/
theorem stepGc_vinv (dops : DOps α B) (de : DEnv α) (numberCs : List (String × Option Int))
    (connected : List (String × List String)) (lk : Look α)
    (st st' : SWorld α B × DInit α × List (String × α)) (gcId : String)
    (hi : VInv K ids0 st.1) (h : stepGc dops de numberCs connected lk st gcId = .ok st') : VInv K ids0 st'.1 := by
  unfold stepGc at h
  split at h
  · cases h
  · rename_i gc hgc
    simp only [bind, Except.bind] at h
    split at h
    · cases h
    · rename_i cands _
      split at h
      · cases h
      · rename_i cvs hcvs
        have hc := connectedAt_keys st.1 gcId cands cvs hi hcvs
        split at h
        · cases h; exact hi
        · split at h
          · cases h
          · rename_i kind _
            split at h
            · cases h
            · rename_i stations hstations
              split at h
              · exact stepDeps_vinv hrule hps hplw dops de st.1 st.2.1 st.2.2 gc stations cvs _ st' hi hc h
              · exact stepOpps_vinv hrule hps hplw dops de lk st.1 st.2.1 st.2.2 gcId gc stations cvs _ st' hi hc h

omit hrule hps hplw in
/-- the per-vehicle body of the surplus pass (same proof as `KeepsVeh.surplusVehicle_vkeeps`, kept local so that this
file does not depend on the sibling's) -/
theorem surplusVehicle_vinv (ops : BatOps α B) (env : StratEnv α) (cheap : List (String × Bool))
    (w w' : SWorld α B) (cmds cmds' : List (String × α)) (v : VehicleS α B) (hv : vehKey v ∈ K)
    (hi : VInv K ids0 w) (h : surplusVehicle ops env cheap w cmds v = .ok (w', cmds')) : VInv K ids0 w' := by
  unfold surplusVehicle at h
  split at h
  · cases h; exact hi
  · rename_i csId _
    split at h
    · cases h
    · rename_i cs hcs
      split at h
      · cases h
      · rename_i gc hgc
        dsimp only at h
        split at h
        · simp only [bind, Except.bind] at h
          split at h
          · cases h
          · rename_i r _
            obtain ⟨bat', avg⟩ := r
            simp only [Except.ok.injEq, Prod.mk.injEq] at h
            obtain ⟨rfl, -⟩ := h
            exact ((hi.setBat hv bat').setGc _).setStation _
        · split at h
          · simp only [bind, Except.bind] at h
            split at h
            · cases h
            · rename_i r _
              obtain ⟨bat', avg⟩ := r
              simp only [Except.ok.injEq, Prod.mk.injEq] at h
              obtain ⟨rfl, -⟩ := h
              exact ((hi.setBat hv bat').setGc _).setStation _
          · cases h; exact hi

omit hrule hps hplw in
theorem distributeSurplusOn_vinv (ops : BatOps α B) (env : StratEnv α) (w w' : SWorld α B) (ids : List String)
    (cmds : List (String × α)) (hi : VInv K ids0 w) (h : distributeSurplusOn ops env w ids = .ok (w', cmds)) :
    VInv K ids0 w' := by
  unfold distributeSurplusOn at h
  simp only [bind, Except.bind] at h
  split at h
  · cases h
  · rename_i cheap _
    refine foldlM_inv _ (fun (st : SWorld α B × List (String × α)) => VInv K ids0 st.1) ?_ ids (w, []) (w', cmds) hi h
    intro st id st' hst hf
    split at hf
    · cases hf; exact hst
    · rename_i v hv
      exact surplusVehicle_vinv ops env cheap st.1 st'.1 st.2 st'.2 v (hst.key_of_vehicle? hv) hst hf

/-- **`Distributed.step` keeps** the vehicle ids in order and every real vehicle's non-battery attributes, for every
modelled sub-strategy class, given the sub-strategies' frames -/
theorem step_vinv (dops : DOps α B) (de : DEnv α) (s s' : DState α B) (cmds : List (String × α))
    (hi : VInv K ids0 s.world) (h : Distrib.step dops de s = .ok (s', cmds)) : VInv K ids0 s'.world := by
  unfold Distrib.step at h
  simp only [bind, Except.bind] at h
  split at h
  · cases h
  · rename_i lk _
    split at h
    · cases h
    · rename_i connected _
      split at h
      · cases h
      · rename_i r1 h1
        obtain ⟨w1, ini1, cmds1⟩ := r1
        have i1 : VInv K ids0 w1 :=
          foldlM_inv _ (fun (st : SWorld α B × DInit α × List (String × α)) => VInv K ids0 st.1)
            (fun st gcId st' hst hf =>
              stepGc_vinv hrule hps hplw dops de s.numberCs connected lk st st' gcId hst hf)
            _ _ _ (VInv.resetStations hi) h1
        dsimp only at h
        split at h
        · cases h
        · rename_i ids _
          split at h
          · cases h
          · rename_i r2 h2
            obtain ⟨w2, cmds2⟩ := r2
            simp only [Except.ok.injEq, Prod.mk.injEq] at h
            obtain ⟨rfl, -⟩ := h
            exact distributeSurplusOn_vinv dops.bat de.env w1 w2 ids cmds2 i1 h2

/-- the frame of the whole step relative to the world's own vehicles -/
theorem step_vkeeps (dops : DOps α B) (de : DEnv α) (s s' : DState α B) (cmds : List (String × α))
    (h : Distrib.step dops de s = .ok (s', cmds)) :
    VehKeeps (s.world.vehicles.map vehKey) (s.world.vehicles.map (·.id)) s'.world.vehicles :=
  step_vinv hrule hps hplw dops de s s' cmds (VInv.init s.world) h

end frames

/-- `step_vinv` with the peak-load-window frame discharged by `KeepsVeh.PeakLoadWindow.step_vinv` (imported) -/
theorem step_vinv_plw
    (hrule : ∀ (K : List (String × Option String × α × Option Int × α × Bool × α)) (ids0 : List String) (rule : Rule)
      (ops : BatOps α B) (env : StratEnv α) (w w' : SWorld α B) (cmds : List (String × α)),
      VInv K ids0 w → ruleStep rule ops env w = .ok (w', cmds) → VInv K ids0 w')
    (hps : ∀ (K : List (String × Option String × α × Option Int × α × Bool × α)) (ids0 : List String)
      (ops : PeakShaving.Ops α B) (env : PeakShaving.Env α) (events : List (PeakShaving.Ev α)) (w w' : SWorld α B)
      (cmds : List (String × α)) (sched : List α),
      VInv K ids0 w → PeakShaving.step ops env events w = .ok (w', cmds, sched) → VInv K ids0 w')
    (dops : DOps α B) (de : DEnv α) (s s' : DState α B) (cmds : List (String × α))
    (hi : VInv K ids0 s.world) (h : Distrib.step dops de s = .ok (s', cmds)) : VInv K ids0 s'.world :=
  step_vinv hrule hps
    (fun K ids0 C ops env w w' cmds hi h => KeepsVeh.PeakLoadWindow.step_vinv ops env w w' cmds hi h)
    dops de s s' cmds hi h

end SpiceEv.KeepsVeh.Distrib
