/-
Model of the TEXT handling of `spice_ev/util.py: read_grid_file` and of `util.sanitize`, statement
by statement, from the characters of the file to the three returned values:

* `open(path, newline='')` + iteration: lines end at `\n`, `\r\n` or a lone `\r`, terminator kept;
* `csv.reader` (CPython `_csv.c`, excel dialect: delimiter `,`, quotechar `"`, doublequote, no
  escapechar, no skipinitialspace, not strict): the character state machine `step`, one record per
  call of `Reader_iternext` (`readRecords`), a quoted field may span lines, an unterminated quoted
  field at the end of the file is closed silently;
* `csv.DictReader`: field names = first record (whatever it is, also `[]`), records equal to `[]`
  are skipped, `dict(zip(fieldnames, row))` (a repeated name: the last column wins), a short row gets
  `None` for the missing names, a long row puts the surplus under the key `None` (never looked up);
* `float(text)`: Python's float grammar on ASCII text (strip, sign, `inf`/`infinity`/`nan`, digits
  with single underscores between digits, fraction, exponent), value as an exact rational (the double
  CPython returns is the correctly rounded one — the harness converts) or `nan` / `±inf`;
* `datetime.strptime(text, "%Y-%m-%d %H:%M")`: `_strptime`'s regular expression with ordered
  alternatives and backtracking (`alts`), `\s+` for the blank, "unconverted data remains", existence of
  the date (`MINYEAR`, days of the month, leap years);
* the row loop with its two `try/except ValueError` blocks, the sign-consistency assertion, the
  exceptions that escape (`KeyError` for a missing required column, `TypeError` for `float(None)` /
  `strptime(None, …)` of a short row, `AssertionError`), and the `UnboundLocalError` of the final
  `return` when the file has no data row (`grid_start_time` is assigned in the loop only).

Not modelled: non-ASCII whitespace and digits (Python accepts them in `float`, `\d`, `\s`), NUL
characters (`_csv.Error`), fields longer than `csv.field_size_limit()`, file-system errors, the
warnings.  Core Lean only.
-/
import SpiceEv.Py
namespace SpiceEv.GridFile
open SpiceEv

/-- exceptions of read_grid_file: the kinds of `PyErr` plus `UnboundLocalError` and `_csv.Error` -/
inductive GErr where
  | py (e : PyErr)
  | unboundLocal
  | csvError
  deriving Repr, DecidableEq

def GErr.name : GErr → String
  | .py e => e.name
  | .unboundLocal => "UnboundLocalError"
  | .csvError => "Error"

abbrev G := Except GErr

/-! ### lines of the file (`newline=''`: universal line ends, not translated) -/

def splitLinesAux : List Char → List Char → List (List Char)
  | [], cur => if cur.isEmpty then [] else [cur.reverse]
  | '\r' :: '\n' :: rest, cur => ('\n' :: '\r' :: cur).reverse :: splitLinesAux rest []
  | '\r' :: rest, cur => ('\r' :: cur).reverse :: splitLinesAux rest []
  | '\n' :: rest, cur => ('\n' :: cur).reverse :: splitLinesAux rest []
  | c :: rest, cur => splitLinesAux rest (c :: cur)

def splitLines (text : List Char) : List (List Char) := splitLinesAux text []

/-! ### `_csv.reader`, excel dialect -/

inductive St where
  | startRecord | startField | inField | inQuoted | quoteInQuoted | eatCrnl
  deriving Repr, DecidableEq

/-- parser state: `state`, the field being collected (reversed), the fields of the record (reversed) -/
structure Rd where
  st : St
  field : List Char
  fields : List String
  deriving Repr

def Rd.fresh : Rd := { st := .startRecord, field := [], fields := [] }

/-- `parse_save_field` -/
def saveField (r : Rd) : Rd :=
  { r with fields := String.ofList r.field.reverse :: r.fields, field := [] }

def addChar (r : Rd) (c : Char) : Rd := { r with field := c :: r.field }

def isNl (c : Char) : Bool := c == '\n' || c == '\r'

/-- `parse_process_char`; `none` = the EOL marker sent after every line -/
def step (r : Rd) (c : Option Char) : G Rd :=
  let startField (r : Rd) : G Rd :=
    match c with
    | none => .ok { saveField r with st := .startRecord }
    | some ch =>
      if isNl ch then .ok { saveField r with st := .eatCrnl }
      else if ch == '"' then .ok { r with st := .inQuoted }
      else if ch == ',' then .ok (saveField r)                      -- empty field, state unchanged
      else .ok { addChar r ch with st := .inField }
  match r.st with
  | .startRecord =>
    match c with
    | none => .ok r                                               -- empty line: empty record
    | some ch =>
      if isNl ch then .ok { r with st := .eatCrnl }
      else startField { r with st := .startField }                -- fall through
  | .startField => startField r
  | .inField =>
    match c with
    | none => .ok { saveField r with st := .startRecord }
    | some ch =>
      if isNl ch then .ok { saveField r with st := .eatCrnl }
      else if ch == ',' then .ok { saveField r with st := .startField }
      else .ok (addChar r ch)
  | .inQuoted =>
    match c with
    | none => .ok r                                               -- the field goes on in the next line
    | some ch =>
      if ch == '"' then .ok { r with st := .quoteInQuoted }       -- doublequote
      else .ok (addChar r ch)
  | .quoteInQuoted =>
    match c with
    | none => .ok { saveField r with st := .startRecord }
    | some ch =>
      if ch == '"' then .ok { addChar r ch with st := .inQuoted }  -- `""` inside quotes
      else if ch == ',' then .ok { saveField r with st := .startField }
      else if isNl ch then .ok { saveField r with st := .eatCrnl }
      else .ok { addChar r ch with st := .inField }               -- not strict: keep the character
  | .eatCrnl =>
    match c with
    | none => .ok { r with st := .startRecord }
    | some ch => if isNl ch then .ok r else .error .csvError      -- new-line character seen in unquoted field

/-- one line: its characters, then the EOL marker -/
def processLine (r : Rd) (line : List Char) : G Rd := do
  let r ← line.foldlM (fun r ch => step r (some ch)) r
  step r none

/-- all records of the file (`Reader_iternext` until `StopIteration`) -/
def readRecordsAux : List (List Char) → Rd → List (List String) → G (List (List String))
  | [], r, acc =>
    -- end of input: an open field / open quotes are closed silently (not strict)
    if !r.field.isEmpty || r.st == .inQuoted then .ok (((saveField r).fields.reverse :: acc).reverse)
    else .ok acc.reverse
  | line :: rest, r, acc => do
    let r ← processLine r line
    if r.st == .startRecord then readRecordsAux rest Rd.fresh (r.fields.reverse :: acc)
    else readRecordsAux rest r acc

def readRecords (text : List Char) : G (List (List String)) :=
  readRecordsAux (splitLines text) Rd.fresh []

/-! ### `csv.DictReader` -/

/-- `row[key]` on the dict DictReader builds: `none` = KeyError, `some none` = the value `None`
(restval of a short row), `some (some text)` -/
def rowGet (names row : List String) (key : String) : Option (Option String) :=
  if (names.drop row.length).contains key then some none
  else match (names.zip row).reverse.lookup key with       -- dict(zip(...)): the last column wins
    | some v => some (some v)
    | none => none

/-- field names and data rows (records `[]` skipped) -/
def dictRows (records : List (List String)) : List String × List (List String) :=
  match records with
  | [] => ([], [])
  | names :: rest => (names, rest.filter (fun r => !r.isEmpty))

/-! ### `float(text)` -/

inductive FVal where
  | num (q : Rat)
  | nan
  | inf (neg : Bool)
  deriving Repr, DecidableEq

/-- C `Py_ISSPACE` (what `float()` strips on both sides of an ASCII string; the separators
`\x1c`–`\x1f` are NOT stripped although `str.isspace` accepts them) -/
def isWs (c : Char) : Bool :=
  c == ' ' || c == '\t' || c == '\n' || c == '\r' || c == '\x0b' || c == '\x0c'

/-- `\s` of the `re` module on ASCII text = `str.isspace` -/
def isWsRe (c : Char) : Bool :=
  isWs c || c == '\x1c' || c == '\x1d' || c == '\x1e' || c == '\x1f'

def isDigit (c : Char) : Bool := '0' ≤ c && c ≤ '9'
def digitVal (c : Char) : Nat := c.toNat - '0'.toNat

def strip (s : List Char) : List Char := ((s.dropWhile isWs).reverse.dropWhile isWs).reverse

/-- `_Py_string_to_number_with_underscores`: an underscore only between two digits -/
def dropUnderscores : Option Char → List Char → Option (List Char)
  | prev, [] => if prev == some '_' then none else some []
  | prev, c :: rest =>
    if c == '_' then
      match prev with
      | some p => if isDigit p then dropUnderscores (some c) rest else none
      | none => none
    else if prev == some '_' && !isDigit c then none
    else (dropUnderscores (some c) rest).map (c :: ·)

def lower (s : List Char) : List Char := s.map Char.toLower

def natOfDigits (ds : List Char) : Nat := ds.foldl (fun a c => a * 10 + digitVal c) 0

/-- `mant · 10^scale` -/
def scale10 (mant : Nat) (scale : Int) : Rat :=
  if scale ≥ 0 then ((mant * 10 ^ scale.toNat : Nat) : Rat) else mkRat mant (10 ^ (-scale).toNat)

/-- decimal literal without sign: `digits [. digits] [e [sign] digits]` or `. digits […]` -/
def parseDecimal (s : List Char) : Option Rat :=
  let ip := s.takeWhile isDigit
  let r1 := s.dropWhile isDigit
  let (fp, r2) := match r1 with
    | '.' :: r => (r.takeWhile isDigit, r.dropWhile isDigit)
    | _ => ([], r1)
  if ip.isEmpty && fp.isEmpty then none
  else
    let mant := natOfDigits (ip ++ fp)
    match r2 with
    | [] => some (scale10 mant (-(fp.length : Int)))
    | e :: r3 =>
      if e == 'e' || e == 'E' then
        let (neg, r4) := match r3 with
          | '-' :: r => (true, r)
          | '+' :: r => (false, r)
          | _ => (false, r3)
        if r4.isEmpty || !r4.all isDigit then none
        else
          let ex : Int := natOfDigits r4
          some (scale10 mant ((if neg then -ex else ex) - (fp.length : Int)))
      else none

/-- `float(text)`: `none` = ValueError -/
def parseFloat (text : String) : Option FVal :=
  match dropUnderscores none (strip text.toList) with
  | none => none
  | some s =>
    let (neg, body) := match s with
      | '-' :: r => (true, r)
      | '+' :: r => (false, r)
      | _ => (false, s)
    let lb := lower body
    if lb == "inf".toList || lb == "infinity".toList then some (.inf neg)
    else if lb == "nan".toList then some .nan
    else (parseDecimal body).map (fun q => .num (if neg then -q else q))

def FVal.ltZero : FVal → Bool
  | .num q => decide (q < 0) | .nan => false | .inf neg => neg
def FVal.gtZero : FVal → Bool
  | .num q => decide (0 < q) | .nan => false | .inf neg => !neg
def FVal.abs : FVal → FVal
  | .num q => .num (if q < 0 then -q else q) | .nan => .nan | .inf _ => .inf false

/-! ### `datetime.strptime(text, "%Y-%m-%d %H:%M")` -/

/-- all ways a sub-pattern can match a prefix, in the priority order of the regular expression:
(value, remaining text) -/
abbrev Alts := List Char → List (Nat × List Char)

def inRange (c lo hi : Char) : Bool := lo ≤ c && c ≤ hi

/-- `\d\d\d\d` -/
def pYear : Alts
  | a :: b :: c :: d :: r =>
    if isDigit a && isDigit b && isDigit c && isDigit d then [(natOfDigits [a, b, c, d], r)] else []
  | _ => []

/-- two-character alternative `[lo1-hi1][lo2-hi2]` -/
def two (lo1 hi1 lo2 hi2 : Char) : Alts
  | a :: b :: r => if inRange a lo1 hi1 && inRange b lo2 hi2 then [(natOfDigits [a, b], r)] else []
  | _ => []

def one (lo hi : Char) : Alts
  | a :: r => if inRange a lo hi then [(digitVal a, r)] else []
  | _ => []

/-- `1[0-2]|0[1-9]|[1-9]` -/
def pMonth : Alts := fun s => two '1' '1' '0' '2' s ++ two '0' '0' '1' '9' s ++ one '1' '9' s
/-- `3[01]|[12]\d|0[1-9]|[1-9]| [1-9]` -/
def pDay : Alts := fun s =>
  two '3' '3' '0' '1' s ++ two '1' '2' '0' '9' s ++ two '0' '0' '1' '9' s ++ one '1' '9' s
  ++ (match s with | ' ' :: r => one '1' '9' r | _ => [])
/-- `2[0-3]|[0-1]\d|\d` -/
def pHour : Alts := fun s => two '2' '2' '0' '3' s ++ two '0' '1' '0' '9' s ++ one '0' '9' s
/-- `[0-5]\d|\d` -/
def pMinute : Alts := fun s => two '0' '5' '0' '9' s ++ one '0' '9' s

def lit (c : Char) : List Char → List (List Char)
  | a :: r => if a == c then [r] else []
  | [] => []

/-- `\s+`, greedy: the longest run first, then shorter ones -/
def ws1 (s : List Char) : List (List Char) :=
  let n := (s.takeWhile isWsRe).length
  (List.range n).reverse.map (fun k => s.drop (k + 1))

def isLeap (y : Nat) : Bool := y % 4 == 0 && (y % 100 != 0 || y % 400 == 0)

def daysInMonth (y m : Nat) : Nat :=
  if m == 2 then (if isLeap y then 29 else 28)
  else if m == 4 || m == 6 || m == 9 || m == 11 then 30 else 31

def daysBeforeMonth (y m : Nat) : Nat := ((List.range (m - 1)).map (fun i => daysInMonth y (i + 1))).foldl (· + ·) 0

/-- `date(y, m, d).toordinal()` -/
def ordinal (y m d : Nat) : Nat :=
  let y1 := y - 1
  y1 * 365 + y1 / 4 - y1 / 100 + y1 / 400 + daysBeforeMonth y m + d

/-- the regular expression of the format: first complete match in priority order -/
def matchFormat (s : List Char) : Option ((Nat × Nat × Nat × Nat × Nat) × List Char) :=
  let all : List ((Nat × Nat × Nat × Nat × Nat) × List Char) :=
    (pYear s).flatMap fun (y, r1) => (lit '-' r1).flatMap fun r2 => (pMonth r2).flatMap fun (m, r3) =>
    (lit '-' r3).flatMap fun r4 => (pDay r4).flatMap fun (d, r5) => (ws1 r5).flatMap fun r6 =>
    (pHour r6).flatMap fun (h, r7) => (lit ':' r7).flatMap fun r8 => (pMinute r8).map fun (mi, r9) =>
      ((y, m, d, h, mi), r9)
  all.head?

/-- `strptime`: microseconds since ordinal 0 (`toordinal()·86400·10⁶ + time of day`), `none` = ValueError -/
def strptime (text : String) : Option Int :=
  match matchFormat text.toList with
  | none => none                                   -- does not match format
  | some ((y, m, d, h, mi), rest) =>
    if !rest.isEmpty then none                     -- unconverted data remains
    else if y < 1 then none                        -- year 0 is out of range
    else if d > daysInMonth y m then none          -- day is out of range for month
    else some (((ordinal y m d : Nat) : Int) * 86400000000 + ((h * 60 + mi : Nat) : Int) * 60000000)

/-! ### the row loop -/

structure Acc where
  residual : List FVal          -- reversed
  curtailment : List FVal       -- reversed
  neg : Bool
  pos : Bool
  start : Option Int

def Acc.init : Acc := { residual := [], curtailment := [], neg := false, pos := false, start := none }

/-- body of `for row_idx, row in enumerate(reader)` -/
def rowStep (names : List String) (a : Acc) (idxRow : List String × Nat) : G Acc := do
  let row := idxRow.1
  let idx := idxRow.2
  -- get start time of grid situation series
  let start ← if idx == 0 then
      match rowGet names row "timestamp" with
      | none => pure none                                       -- KeyError: warning, None
      | some none => .error (.py .typeError)                     -- strptime(None, …)
      | some (some t) => pure (strptime t)                       -- ValueError: warning, None
    else pure a.start
  -- store residual_load value, use previous value if none provided
  let res ← match rowGet names row "residual load" with
    | none => .error (.py .keyError)
    | some none => .error (.py .typeError)                       -- float(None)
    | some (some t) =>
      match parseFloat t with
      | some v => pure v
      | none => pure (if idx > 0 then a.residual.headD (.num 0) else .num 0)
  -- store curtailment info
  match rowGet names row "curtailment" with
  | none => .error (.py .keyError)
  | some none => .error (.py .typeError)
  | some (some t) =>
    match parseFloat t with
    | some v =>
      let neg := a.neg || v.ltZero
      let pos := a.pos || v.gtZero
      if neg && pos then .error (.py .assertion)
      else pure { residual := res :: a.residual, curtailment := v.abs :: a.curtailment,
                  neg := neg, pos := pos, start := start }
    | none =>
      let prev := if idx > 0 then a.curtailment.headD (.num 0) else .num 0
      pure { residual := res :: a.residual, curtailment := prev :: a.curtailment,
             neg := a.neg, pos := a.pos, start := start }

structure Result where
  residual : List FVal
  curtailment : List FVal
  start : Option Int
  deriving Repr, DecidableEq

/-- `read_grid_file` on the text of the file -/
def readGridFile (text : List Char) : G Result := do
  let records ← readRecords text
  let (names, rows) := dictRows records
  let a ← rows.zipIdx.foldlM (rowStep names) Acc.init
  -- assert len(residual_load) == len(curtailment)
  if a.residual.length != a.curtailment.length then .error (.py .assertion)
  -- return residual_load, curtailment, grid_start_time   (never assigned without a data row)
  else if rows.isEmpty then .error .unboundLocal
  else pure { residual := a.residual.reverse, curtailment := a.curtailment.reverse, start := a.start }

/-! ### `sanitize` -/

/-- default of `chars`: `'</|\\>:"?*'` -/
def defaultChars : List Char := ['<', '/', '|', '\\', '>', ':', '"', '?', '*']

/-- `sanitize(s, chars='')`: `s.translate({ord(c): "" for c in chars})` -/
def sanitize (s chars : List Char) : List Char :=
  let cs := if chars.isEmpty then defaultChars else chars
  s.filter (fun c => !cs.contains c)

end SpiceEv.GridFile
