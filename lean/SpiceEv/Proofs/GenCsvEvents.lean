/-
Invariants of the trip-table generator (Model/GenCsvEvents.lean), per vehicle.

The events of one vehicle are a list of stands (arrival, departure) — one per trip that ends at a
charging station and has a successor — optionally followed by the arrival of the very last trip.
Three independent invariants of the row loop:
  * structure: kinds, ids, station, announced departure of every arrival, desired SoC of a stand
    = `max min_soc (consumption until the next connection)`, initial SoC likewise;
  * order: for a table whose trips do not overlap the event times never decrease, and the arrival
    announced by a departure is not later than the next arrival event;
  * consumption: the `soc_delta`s are minus the accumulated consumptions (conservation identity),
    hence non-positive for non-negative trip consumptions.
-/
import Mathlib.Algebra.Order.Field.Basic
import Mathlib.Tactic.Linarith
import Mathlib.Tactic.Ring
import SpiceEv.Proofs.Basic
import SpiceEv.Proofs.GenList
import SpiceEv.Proofs.GenStatistics
import SpiceEv.Model.GenCsvEvents

set_option linter.unusedSectionVars false
set_option linter.unusedSimpArgs false
set_option linter.unusedVariables false
namespace SpiceEv.Gen
variable {α : Type} [Field α] [LinearOrder α] [IsStrictOrderedRing α]

/-! ### list facts -/

theorem patchAt_length_append {β : Type} (f : β → β) (l1 : List β) (x : β) (l2 : List β) :
    patchAt f l1.length (l1 ++ x :: l2) = l1 ++ f x :: l2 := by
  induction l1 with
  | nil => rfl
  | cons a r ih => simp [patchAt, ih]

theorem head?_patchAt {β : Type} (f : β → β) (i : Nat) (l : List β) (a' : β)
    (h : (patchAt f i l).head? = some a') : ∃ a, l.head? = some a ∧ (a' = a ∨ a' = f a) := by
  cases l with
  | nil => simp at h
  | cons x xs =>
    cases i with
    | zero => simp [patchAt] at h; exact ⟨x, rfl, Or.inr h.symm⟩
    | succ i => simp [patchAt] at h; exact ⟨x, rfl, Or.inl h.symm⟩

/-! ### structure -/

/-- one stand `(arrival, departure)` of vehicle `vid` -/
structure StandOK (vid : String) (s : Pair α) : Prop where
  ak : s.1.kind = .arrival
  dk : s.2.kind = .departure
  av : s.1.vehicle = vid
  dv : s.2.vehicle = vid
  cs : s.1.cs = some ("CS_" ++ vid)
  etd : s.1.etd = some s.2.time
  eta : ∃ x, s.2.eta = some x

/-- desired SoC of a stand covers the consumption until the next connection -/
def CLink (minSoc : α) (s s' : Pair α) : Prop := s.1.desired = max minSoc (-s'.1.socDelta)

/-- loop invariant (between two rows that both exist) -/
def CInv (minSoc : α) (vid : String) (st : CsvState α) : Prop :=
  ∃ S : List (Pair α), st.events = flatPairs S ∧ (∀ s ∈ S, StandOK vid s) ∧
    ChainR (CLink minSoc) S ∧
    (st.last = none → S = []) ∧ (∀ i, st.last = some i → i + 2 = st.events.length) ∧
    (∀ s, S.getLast? = some s → s.1.desired = minSoc) ∧
    (st.events = [] → st.soc0 = minSoc) ∧
    (∀ a, st.events.head? = some a → st.soc0 = max minSoc (-a.socDelta))

/-- the last arrival of a vehicle (its trip has no successor in the table) -/
structure FinalArr (minSoc : α) (vid : String) (stop : Int) (a : VEvent α) : Prop where
  ak : a.kind = .arrival
  av : a.vehicle = vid
  cs : a.cs = some ("CS_" ++ vid)
  desired : a.desired = minSoc
  etd : a.etd = some (max (a.time + 8 * HOUR) stop)

/-- state after the last row -/
def CFinal (minSoc : α) (vid : String) (stop : Int) (st : CsvState α) : Prop :=
  ∃ (S : List (Pair α)) (tail : List (VEvent α)), st.events = flatPairs S ++ tail ∧
    (∀ s ∈ S, StandOK vid s) ∧ ChainR (CLink minSoc) S ∧
    ((tail = [] ∧ ∀ s, S.getLast? = some s → s.1.desired = minSoc) ∨
     (∃ a, tail = [a] ∧ FinalArr minSoc vid stop a ∧
        ∀ s, S.getLast? = some s → s.1.desired = max minSoc (-a.socDelta))) ∧
    (st.events = [] → st.soc0 = minSoc) ∧
    (∀ a, st.events.head? = some a → st.soc0 = max minSoc (-a.socDelta))

theorem CInv.toFinal {minSoc : α} {vid : String} {stop : Int} {st : CsvState α}
    (h : CInv minSoc vid st) : CFinal minSoc vid stop st := by
  obtain ⟨S, h1, h2, h3, _, _, h6, h7, h8⟩ := h
  exact ⟨S, [], by simp [h1], h2, h3, Or.inl ⟨rfl, h6⟩, h7, h8⟩

theorem max_of_lt_or (minSoc sum : α) :
    (if minSoc < sum then sum else minSoc) = max minSoc sum := by
  split
  · rename_i h; exact (max_eq_right h.le).symm
  · rename_i h; exact (max_eq_left (not_lt.mp h)).symm

/-- the state after the (possible) back-patch, before the new arrival is appended -/
theorem csv_patched (P : CsvParams α) (vid : String) (st : CsvState α) (sum : α)
    (h : CInv P.minSoc vid st) :
    ∃ S : List (Pair α), (csvAdjust P st sum).events = flatPairs S ∧ (∀ s ∈ S, StandOK vid s) ∧
      ChainR (CLink P.minSoc) S ∧ (csvAdjust P st sum).events.length = st.events.length ∧
      (∀ s, S.getLast? = some s → s.1.desired = max P.minSoc sum) ∧
      ((csvAdjust P st sum).events = [] → (csvAdjust P st sum).soc0 = max P.minSoc sum) ∧
      (∀ a, (csvAdjust P st sum).events.head? = some a →
        (csvAdjust P st sum).soc0 = max P.minSoc (-a.socDelta)) := by
  obtain ⟨S, h1, h2, h3, h4, h5, h6, h7, h8⟩ := h
  by_cases hlt : P.minSoc < sum
  · cases hl : st.last with
    | none =>
      have hS : S = [] := h4 hl
      have hst1 : csvAdjust P st sum = { st with soc0 := sum } := by simp [csvAdjust, hlt, hl]
      rw [hst1]
      subst hS
      refine ⟨[], h1, h2, h3, rfl, by simp, fun _ => (max_eq_right hlt.le).symm, ?_⟩
      intro a ha
      simp [h1, flatPairs] at ha
    | some i =>
      have hst1 : csvAdjust P st sum = { st with events := patchAt (setDesired sum) i st.events } := by
        simp [csvAdjust, hlt, hl]
      rw [hst1]
      have hi := h5 i hl
      -- S is not empty: split off the last stand
      rcases List.eq_nil_or_concat S with hS | ⟨S0, s, hS⟩
      · subst hS; simp [h1, flatPairs] at hi
      · rw [List.concat_eq_append] at hS
        subst hS
        have hlen : i = (flatPairs S0).length := by
          have h2len : (flatPairs (S0 ++ [s])).length = (flatPairs S0).length + 2 := by simp
          rw [h1, h2len] at hi; exact Nat.add_right_cancel hi
        have hev : st.events = flatPairs S0 ++ s.1 :: [s.2] := by rw [h1]; simp
        have hp : patchAt (setDesired sum) i st.events = flatPairs (S0 ++ [(setDesired sum s.1, s.2)]) := by
          rw [hlen, hev, patchAt_length_append]; simp
        have hs : StandOK vid s := h2 s (by simp)
        refine ⟨S0 ++ [(setDesired sum s.1, s.2)], hp, ?_, ?_, by simp, ?_, ?_, ?_⟩
        · intro x hx
          rcases List.mem_append.mp hx with hx | hx
          · exact h2 x (by simp [hx])
          · have : x = (setDesired sum s.1, s.2) := by simpa using hx
            subst this
            exact ⟨hs.ak, hs.dk, hs.av, hs.dv, hs.cs, hs.etd, hs.eta⟩
        · rw [chainR_snoc] at h3 ⊢
          exact ⟨h3.1, fun y hy => h3.2 y hy⟩
        · intro x hx
          have : x = (setDesired sum s.1, s.2) := by simpa using hx.symm
          subst this
          exact (max_eq_right hlt.le).symm
        · intro he
          exfalso
          have hl0 : st.events.length = 0 := by
            have : patchAt (setDesired sum) i st.events = [] := he
            have h2 := congrArg List.length this
            rw [length_patchAt] at h2
            exact h2
          omega
        · intro a ha
          obtain ⟨a0, ha0, hor⟩ := head?_patchAt (setDesired sum) i st.events a ha
          have := h8 a0 ha0
          rcases hor with rfl | rfl
          · exact this
          · exact this
  · have hst1 : csvAdjust P st sum = st := by simp [csvAdjust, hlt]
    rw [hst1]
    have hmax : max P.minSoc sum = P.minSoc := max_eq_left (not_lt.mp hlt)
    refine ⟨S, h1, h2, h3, rfl, ?_, ?_, h8⟩
    · intro s hs; rw [hmax]; exact h6 s hs
    · intro he; rw [hmax]; exact h7 he

theorem csvConnect_some (P : CsvParams α) (stop : Int) (vid : String) (st : CsvState α)
    (row n : CsvRow α) (sum : α) (h : CInv P.minSoc vid st) :
    CInv P.minSoc vid (csvConnect P stop vid st row (some n) sum) := by
  obtain ⟨S, e1, e2, e3, e4, e5, e6, e7⟩ := csv_patched P vid st sum h
  unfold csvConnect
  dsimp only
  set st1 : CsvState α := csvAdjust P st sum with hst1
  set A := csvArrEvent P.minSoc vid row.arr (csvDeparture stop row (some n)) sum with hA
  set D := csvDepEvent vid (csvDeparture stop row (some n)) n with hD
  refine ⟨S ++ [(A, D)], ?_, ?_, ?_, ?_, ?_, ?_, ?_, ?_⟩
  · show st1.events ++ [A] ++ [D] = _
    rw [e1]; simp
  · intro s hs
    rcases List.mem_append.mp hs with hs | hs
    · exact e2 s hs
    · have : s = (A, D) := by simpa using hs
      subst this
      exact ⟨rfl, rfl, rfl, rfl, rfl, rfl, ⟨n.arr, rfl⟩⟩
  · rw [chainR_snoc]
    refine ⟨e3, fun y hy => ?_⟩
    have := e5 y hy
    show y.1.desired = max P.minSoc (-A.socDelta)
    rw [this]; simp [hA, csvArrEvent]
  · intro hn; simp at hn
  · intro i hi
    have hi' : some st1.events.length = some i := hi
    have : st1.events.length = i := Option.some.inj hi'
    show i + 2 = (st1.events ++ [A] ++ [D]).length
    simp; omega
  · intro s hs
    have : s = (A, D) := by simpa using hs.symm
    subst this
    rfl
  · intro he
    have : (st1.events ++ [A] ++ [D]) = [] := he
    simp at this
  · intro a ha
    have ha' : (st1.events ++ [A] ++ [D]).head? = some a := ha
    show st1.soc0 = _
    cases hev : st1.events with
    | nil =>
      rw [hev] at ha'
      simp at ha'
      subst ha'
      rw [e6 hev]; simp [hA, csvArrEvent]
    | cons x xs =>
      rw [hev] at ha'
      simp at ha'
      subst ha'
      exact e7 x (by rw [hev]; rfl)

theorem csvConnect_none (P : CsvParams α) (stop : Int) (vid : String) (st : CsvState α)
    (row : CsvRow α) (sum : α) (h : CInv P.minSoc vid st) :
    CFinal P.minSoc vid stop (csvConnect P stop vid st row none sum) := by
  obtain ⟨S, e1, e2, e3, e4, e5, e6, e7⟩ := csv_patched P vid st sum h
  unfold csvConnect
  dsimp only
  set st1 : CsvState α := csvAdjust P st sum with hst1
  set A := csvArrEvent P.minSoc vid row.arr (csvDeparture stop row none) sum with hA
  refine ⟨S, [A], ?_, e2, e3, Or.inr ⟨A, rfl, ?_, ?_⟩, ?_, ?_⟩
  · show st1.events ++ [A] = _
    rw [e1]
  · refine ⟨rfl, rfl, rfl, rfl, ?_⟩
    show some (csvDeparture stop row none) = some (max (row.arr + 8 * HOUR) stop)
    unfold csvDeparture
    dsimp only
    congr 1
    split
    · rename_i hlt; exact (max_eq_right hlt.le).symm
    · rename_i hlt; exact (max_eq_left (not_lt.mp hlt)).symm
  · intro s hs
    rw [e5 s hs]; simp [hA, csvArrEvent]
  · intro he
    have : (st1.events ++ [A]) = [] := he
    simp at this
  · intro a ha
    have ha' : (st1.events ++ [A]).head? = some a := ha
    show st1.soc0 = _
    cases hev : st1.events with
    | nil =>
      rw [hev] at ha'
      simp at ha'
      subst ha'
      rw [e6 hev]; simp [hA, csvArrEvent]
    | cons x xs =>
      rw [hev] at ha'
      simp at ha'
      subst ha'
      exact e7 x (by rw [hev]; rfl)

/-- fields of the state a row step touches besides the warning counters -/
theorem csvRowStep_cases (P : CsvParams α) (ty : CsvType α) (stop : Int) (vid : String)
    (st st' : CsvState α) (row : CsvRow α) (next : Option (CsvRow α))
    (h : csvRowStep P ty stop vid st row next = .ok st') :
    ∃ delta, csvDelta P ty row = .ok delta ∧
      ((row.connect = 1 ∧ st'.events = (csvConnect P stop vid st row next (st.sum + delta)).events ∧
          st'.last = (csvConnect P stop vid st row next (st.sum + delta)).last ∧
          st'.sum = (csvConnect P stop vid st row next (st.sum + delta)).sum ∧
          st'.soc0 = (csvConnect P stop vid st row next (st.sum + delta)).soc0) ∨
       (row.connect ≠ 1 ∧ st'.events = st.events ∧ st'.last = st.last ∧ st'.sum = st.sum + delta ∧
          st'.soc0 = st.soc0)) := by
  unfold csvRowStep at h
  cases hd : csvDelta P ty row with
  | error e => simp [hd, bind, Except.bind] at h
  | ok delta =>
    simp only [hd, bind, Except.bind] at h
    refine ⟨delta, rfl, ?_⟩
    by_cases hc : row.connect = 1
    · simp only [hc, beq_self_eq_true, if_true, Except.ok.injEq] at h
      subst h
      exact Or.inl ⟨hc, rfl, rfl, rfl, rfl⟩
    · have : (row.connect == 1) = false := by simp [hc]
      simp only [this, Bool.false_eq_true, if_false, Except.ok.injEq] at h
      subst h
      exact Or.inr ⟨hc, rfl, rfl, rfl, rfl⟩

/-- `CInv`/`CFinal` only read events, last, soc0 -/
theorem CInv.congr {minSoc : α} {vid : String} {st st' : CsvState α} (h : CInv minSoc vid st)
    (he : st'.events = st.events) (hl : st'.last = st.last) (hs : st'.soc0 = st.soc0) :
    CInv minSoc vid st' := by
  unfold CInv at h ⊢
  rw [he, hl, hs]; exact h

theorem CFinal.congr {minSoc : α} {vid : String} {stop : Int} {st st' : CsvState α}
    (h : CFinal minSoc vid stop st) (he : st'.events = st.events) (hs : st'.soc0 = st.soc0) :
    CFinal minSoc vid stop st' := by
  unfold CFinal at h ⊢
  rw [he, hs]; exact h

/-- **structure theorem for one vehicle** -/
theorem csvRows_structure (P : CsvParams α) (ty : CsvType α) (stop : Int) (vid : String) :
    ∀ (rows : List (CsvRow α)) (st st' : CsvState α),
      csvRows P ty stop vid st rows = .ok st' → CInv P.minSoc vid st → CFinal P.minSoc vid stop st'
  | [], st, st', h, hi => by
    simp only [csvRows, Except.ok.injEq] at h
    subst h
    exact hi.toFinal
  | row :: rest, st, st', h, hi => by
    simp only [csvRows] at h
    cases h1 : csvRowStep P ty stop vid st row rest.head? with
    | error e => simp [h1, bind, Except.bind] at h
    | ok st1 =>
      simp only [h1, bind, Except.bind] at h
      obtain ⟨delta, _, hcase⟩ := csvRowStep_cases P ty stop vid st st1 row rest.head? h1
      cases rest with
      | nil =>
        simp only [csvRows, Except.ok.injEq] at h
        subst h
        rcases hcase with ⟨_, he, hl, _, hs⟩ | ⟨_, he, hl, _, hs⟩
        · exact (csvConnect_none P stop vid st row _ hi).congr he hs
        · exact (hi.toFinal).congr he hs
      | cons n rest' =>
        have hi1 : CInv P.minSoc vid st1 := by
          rcases hcase with ⟨_, he, hl, _, hs⟩ | ⟨_, he, hl, _, hs⟩
          · exact (csvConnect_some P stop vid st row n _ hi).congr he hl hs
          · exact hi.congr he hl hs
        exact csvRows_structure P ty stop vid (n :: rest') st1 st' h hi1

/-! ### order -/

/-- the fields of an event the order invariant reads; the desired-SoC back-patch leaves them alone -/
def tproj (e : VEvent α) : Int × Option Int := (e.time, e.eta)

theorem map_patchAt_of_proj {β γ : Type} (f : β → β) (g : β → γ) (hg : ∀ x, g (f x) = g x) :
    ∀ (i : Nat) (l : List β), (patchAt f i l).map g = l.map g
  | _, [] => by simp
  | 0, x :: xs => by simp [patchAt, hg]
  | i + 1, x :: xs => by simp [patchAt, map_patchAt_of_proj f g hg i xs]

theorem chainR_map {β γ : Type} (R : γ → γ → Prop) (g : β → γ) :
    ∀ l : List β, ChainR R (l.map g) ↔ ChainR (fun a b => R (g a) (g b)) l
  | [] => by simp [ChainR]
  | [_] => by simp [ChainR]
  | a :: b :: r => by
    have := chainR_map R g (b :: r)
    simp only [List.map_cons] at this ⊢
    simp only [ChainR, this]

/-- order relation between consecutive events (on the projections): times related by `R`, and an
announced arrival is not later than the next event -/
def TRel (R : Int → Int → Prop) (a b : Int × Option Int) : Prop :=
  R a.1 b.1 ∧ ∀ x, a.2 = some x → x ≤ b.1

/-- a trip table of one vehicle (sorted by departure) whose trips do not overlap:
`dep R arr` for every trip, `arr R next dep` for consecutive trips -/
def RowsOrd (R : Int → Int → Prop) (rows : List (CsvRow α)) : Prop :=
  (∀ r ∈ rows, R r.dep r.arr) ∧ ChainR (fun r r' => R r.arr r'.dep) rows

theorem RowsOrd.tail {R : Int → Int → Prop} {r : CsvRow α} {rows : List (CsvRow α)}
    (h : RowsOrd R (r :: rows)) : RowsOrd R rows := by
  refine ⟨fun x hx => h.1 x (by simp [hx]), ?_⟩
  cases rows with
  | nil => trivial
  | cons a b => exact h.2.2

theorem RowsOrd.bounds {R : Int → Int → Prop} (htr : ∀ a b c, R a b → R b c → R a c)
    (hle : ∀ a b, R a b → a ≤ b) :
    ∀ (n : CsvRow α) (rows : List (CsvRow α)), RowsOrd R (n :: rows) →
      ∀ r ∈ n :: rows, R n.dep r.arr ∧ n.arr ≤ r.arr
  | n, [], h, r, hr => by
    have : r = n := by simpa using hr
    subst this
    exact ⟨h.1 r (by simp), le_refl _⟩
  | n, m :: rows, h, r, hr => by
    rcases List.mem_cons.mp hr with rfl | hr
    · exact ⟨h.1 r (by simp), le_refl _⟩
    · have ih := RowsOrd.bounds htr hle m rows h.tail r hr
      have h1 : R n.dep n.arr := h.1 n (by simp)
      have h2 : R n.arr m.dep := h.2.1
      exact ⟨htr _ _ _ h1 (htr _ _ _ h2 ih.1), le_trans (hle _ _ (htr _ _ _ h2 (h.1 m (by simp)))) ih.2⟩

/-- order invariant at the top of the row loop; `rem` = rows still to be processed -/
def OrdInv (R : Int → Int → Prop) (st : CsvState α) (rem : List (CsvRow α)) : Prop :=
  ChainR (TRel R) (st.events.map tproj) ∧
  ∀ e, (st.events.map tproj).getLast? = some e →
    (∀ r ∈ rem, R e.1 r.arr) ∧ ∀ x, e.2 = some x → ∀ r ∈ rem, x ≤ r.arr

theorem csvConnect_events_proj (P : CsvParams α) (stop : Int) (vid : String) (st : CsvState α)
    (row : CsvRow α) (next : Option (CsvRow α)) (sum : α) :
    (csvConnect P stop vid st row next sum).events.map tproj =
      st.events.map tproj ++ (row.arr, none) ::
        (match next with | none => [] | some n => [(n.dep, some n.arr)]) := by
  have hp : ∀ i, (patchAt (setDesired sum) i st.events).map tproj = st.events.map tproj :=
    fun i => map_patchAt_of_proj (setDesired sum) tproj (fun _ => rfl) i _
  unfold csvConnect
  dsimp only
  have h1 : (csvAdjust P st sum).events.map tproj = st.events.map tproj := by
    unfold csvAdjust
    split
    · split
      · rfl
      · exact hp _
    · rfl
  cases next with
  | none =>
    dsimp only
    rw [List.map_append, h1]
    rfl
  | some n =>
    dsimp only
    rw [List.map_append, List.map_append, h1]
    simp [tproj, csvArrEvent, csvDepEvent, csvDeparture]

theorem csvRows_order (P : CsvParams α) (ty : CsvType α) (stop : Int) (vid : String)
    (R : Int → Int → Prop) (htr : ∀ a b c, R a b → R b c → R a c) (hle : ∀ a b, R a b → a ≤ b) :
    ∀ (rows : List (CsvRow α)) (st st' : CsvState α),
      csvRows P ty stop vid st rows = .ok st' → RowsOrd R rows → OrdInv R st rows →
      ChainR (TRel R) (st'.events.map tproj)
  | [], st, st', h, _, hi => by
    simp only [csvRows, Except.ok.injEq] at h
    subst h
    exact hi.1
  | row :: rest, st, st', h, ho, hi => by
    simp only [csvRows] at h
    cases h1 : csvRowStep P ty stop vid st row rest.head? with
    | error e => simp [h1, bind, Except.bind] at h
    | ok st1 =>
      simp only [h1, bind, Except.bind] at h
      obtain ⟨delta, _, hcase⟩ := csvRowStep_cases P ty stop vid st st1 row rest.head? h1
      apply csvRows_order P ty stop vid R htr hle rest st1 st' h ho.tail
      rcases hcase with ⟨_, he, _, _, _⟩ | ⟨_, he, _, _, _⟩
      · -- connecting row: arrival (and departure of the next trip) appended
        have hlastA : ∀ e, (st.events.map tproj).getLast? = some e → TRel R e (row.arr, none) := by
          intro e hl
          obtain ⟨b1, b2⟩ := hi.2 e hl
          exact ⟨b1 row (by simp), fun x hx => b2 x hx row (by simp)⟩
        unfold OrdInv
        rw [he, csvConnect_events_proj]
        cases rest with
        | nil =>
          dsimp only [List.head?]
          refine ⟨?_, fun e _ => ⟨fun r hr => by simp at hr, fun x _ r hr => by simp at hr⟩⟩
          rw [chainR_snoc]
          exact ⟨hi.1, hlastA⟩
        | cons n rest' =>
          dsimp only [List.head?]
          have hb := RowsOrd.bounds htr hle n rest' ho.tail
          have hAD : TRel R ((row.arr, none) : Int × Option Int) (n.dep, some n.arr) :=
            ⟨ho.2.1, fun x hx => by simp at hx⟩
          refine ⟨?_, ?_⟩
          · have : st.events.map tproj ++ [(row.arr, none), (n.dep, some n.arr)]
                = (st.events.map tproj ++ [(row.arr, none)]) ++ [(n.dep, some n.arr)] := by simp
            rw [this, chainR_snoc, chainR_snoc]
            refine ⟨⟨hi.1, hlastA⟩, ?_⟩
            intro y hy
            have : y = (row.arr, none) := by simpa using hy.symm
            subst this
            exact hAD
          · intro e hl
            have : e = (n.dep, some n.arr) := by
              have : (st.events.map tproj ++ [(row.arr, none), (n.dep, some n.arr)]).getLast?
                  = some (n.dep, some n.arr) := by
                rw [List.getLast?_append]; simp
              rw [this] at hl
              exact (Option.some.inj hl).symm
            subst this
            refine ⟨fun r hr => (hb r hr).1, fun x hx r hr => ?_⟩
            have : x = n.arr := by simpa using hx.symm
            subst this
            exact (hb r hr).2
      · -- trip does not end at a charging station: nothing appended
        unfold OrdInv
        rw [he]
        refine ⟨hi.1, fun e hl => ?_⟩
        obtain ⟨b1, b2⟩ := hi.2 e hl
        exact ⟨fun r hr => b1 r (by simp [hr]), fun x hx r hr => b2 x hx r (by simp [hr])⟩

/-! ### consumption -/

/-- consumption accumulated until the next connection: the specification the `soc_delta`s are
compared with.  Input: per trip `(consumption, ends at a charging station)`. -/
def segSums : α → List (α × Bool) → List α
  | _, [] => []
  | acc, (d, c) :: r => if c then (acc + d) :: segSums 0 r else segSums (acc + d) r

/-- minus the `soc_delta`s of the arrival events, in list order -/
def arrDeltas (evs : List (VEvent α)) : List α :=
  (evs.filter (fun e => e.kind == .arrival)).map (fun e => -e.socDelta)

def kproj (e : VEvent α) : EvKind × α := (e.kind, e.socDelta)

theorem arrDeltas_eq (evs : List (VEvent α)) :
    arrDeltas evs = ((evs.map kproj).filter (fun p => p.1 == .arrival)).map (fun p => -p.2) := by
  unfold arrDeltas
  induction evs with
  | nil => rfl
  | cons e r ih =>
    simp only [List.map_cons, List.filter_cons, kproj]
    split <;> simp_all [kproj]

theorem csvConnect_arrDeltas (P : CsvParams α) (stop : Int) (vid : String) (st : CsvState α)
    (row : CsvRow α) (next : Option (CsvRow α)) (sum : α) :
    arrDeltas (csvConnect P stop vid st row next sum).events = arrDeltas st.events ++ [sum] := by
  have hp : ∀ i, (patchAt (setDesired sum) i st.events).map kproj = st.events.map kproj :=
    fun i => map_patchAt_of_proj (setDesired sum) kproj (fun _ => rfl) i _
  have h1 : arrDeltas (csvAdjust P st sum).events = arrDeltas st.events := by
    unfold csvAdjust
    split
    · split
      · rfl
      · rw [arrDeltas_eq, arrDeltas_eq]; dsimp only; rw [hp]
    · rfl
  unfold csvConnect
  dsimp only
  cases next with
  | none =>
    dsimp only
    unfold arrDeltas at h1 ⊢
    rw [List.filter_append, List.map_append, h1]
    simp [csvArrEvent]
  | some n =>
    dsimp only
    unfold arrDeltas at h1 ⊢
    rw [List.filter_append, List.filter_append, List.map_append, List.map_append, h1]
    simp [csvArrEvent, csvDepEvent]

theorem csvRows_consumption (P : CsvParams α) (ty : CsvType α) (stop : Int) (vid : String) :
    ∀ (rows : List (CsvRow α)) (st st' : CsvState α),
      csvRows P ty stop vid st rows = .ok st' →
      ∃ ds : List (α × Bool),
        List.Forall₂ (fun r p => csvDelta P ty r = .ok p.1 ∧ p.2 = (r.connect == 1)) rows ds ∧
        arrDeltas st'.events = arrDeltas st.events ++ segSums st.sum ds
  | [], st, st', h => by
    simp only [csvRows, Except.ok.injEq] at h
    subst h
    exact ⟨[], List.Forall₂.nil, by simp [segSums]⟩
  | row :: rest, st, st', h => by
    simp only [csvRows] at h
    cases h1 : csvRowStep P ty stop vid st row rest.head? with
    | error e => simp [h1, bind, Except.bind] at h
    | ok st1 =>
      simp only [h1, bind, Except.bind] at h
      obtain ⟨delta, hdelta, hcase⟩ := csvRowStep_cases P ty stop vid st st1 row rest.head? h1
      obtain ⟨ds, hds, hev⟩ := csvRows_consumption P ty stop vid rest st1 st' h
      refine ⟨(delta, row.connect == 1) :: ds, List.Forall₂.cons ⟨hdelta, rfl⟩ hds, ?_⟩
      rcases hcase with ⟨hc, he, _, hs, _⟩ | ⟨hc, he, _, hs, _⟩
      · have hsum : st1.sum = 0 := by
          rw [hs]; unfold csvConnect; dsimp only; cases rest.head? <;> rfl
        rw [hev, he, csvConnect_arrDeltas, hsum]
        simp [segSums, hc]
      · have : (row.connect == 1) = false := by simp [hc]
        rw [hev, he, hs]
        simp [segSums, this]

/-! ### one vehicle, all vehicles -/

theorem csvVehicle_ok (P : CsvParams α) (stop : Int) (rows : List (CsvRow α)) (vid : String)
    (o : CsvVehicleOut α) (h : csvVehicle P stop rows vid = .ok o) :
    ∃ (ty : CsvType α) (st : CsvState α),
      csvRows P ty stop vid
        { events := [], last := none, sum := 0, soc0 := P.minSoc, w1 := 0, w2 := 0, w3 := 0 }
        (sortByDeparture (rows.filter (fun r => r.vid == vid))) = .ok st ∧
      o.events = st.events ∧ o.init.soc = st.soc0 ∧ o.init.id = vid ∧ o.init.cs = none ∧
      o.init.etd = none := by
  unfold csvVehicle at h
  dsimp only at h
  split at h
  · simp at h
  · rename_i first hfirst
    split at h
    · simp at h
    · rename_i ty hty
      cases hp : pyMaxList ty.curvePowers with
      | error e => simp [hp, bind, Except.bind] at h
      | ok pw =>
        simp only [hp, bind, Except.bind] at h
        cases hr : csvRows P ty stop vid
            { events := [], last := none, sum := 0, soc0 := P.minSoc, w1 := 0, w2 := 0, w3 := 0 }
            (sortByDeparture (rows.filter (fun r => r.vid == vid))) with
        | error e => simp [hr] at h
        | ok st =>
          simp only [hr, Except.ok.injEq] at h
          subst h
          exact ⟨ty, st, hr, rfl, rfl, rfl, rfl, rfl⟩

theorem CInv_init (minSoc : α) (vid : String) :
    CInv minSoc vid { events := [], last := none, sum := 0, soc0 := minSoc, w1 := 0, w2 := 0, w3 := 0 } :=
  ⟨[], rfl, by simp, trivial, fun _ => rfl, fun i hi => by simp at hi, by simp, fun _ => rfl,
    fun a ha => by simp at ha⟩

/-- every event of a finished vehicle carries the vehicle's id -/
theorem CFinal.vehicle {minSoc : α} {vid : String} {stop : Int} {st : CsvState α}
    (h : CFinal minSoc vid stop st) : ∀ e ∈ st.events, e.vehicle = vid := by
  obtain ⟨S, tail, h1, h2, _, h4, _, _⟩ := h
  intro e he
  rw [h1] at he
  rcases List.mem_append.mp he with he | he
  · unfold flatPairs at he
    obtain ⟨s, hs, he⟩ := List.mem_flatMap.mp he
    have := h2 s hs
    simp at he
    rcases he with rfl | rfl
    · exact this.av
    · exact this.dv
  · rcases h4 with ⟨rfl, _⟩ | ⟨a, rfl, ha, _⟩
    · simp at he
    · have : e = a := by simpa using he
      subst this; exact ha.av

theorem mapM_ok_forall₂ {ε β γ : Type} (f : β → Except ε γ) :
    ∀ (l : List β) (r : List γ), l.mapM f = .ok r → List.Forall₂ (fun a b => f a = .ok b) l r
  | [], r, h => by
    simp [pure, Except.pure] at h
    subst h; exact List.Forall₂.nil
  | a :: l, r, h => by
    rw [List.mapM_cons] at h
    cases ha : f a with
    | error e => simp [ha, bind, Except.bind] at h
    | ok b =>
      cases hl : l.mapM f with
      | error e => simp [ha, hl, bind, Except.bind] at h
      | ok r' =>
        simp [ha, hl, bind, Except.bind, pure, Except.pure] at h
        subst h
        exact List.Forall₂.cons ha (mapM_ok_forall₂ f l r' hl)

theorem distinctIds_subset : ∀ (l : List String) (x : String), x ∈ distinctIds l → x ∈ l
  | [], x, h => by simp [distinctIds] at h
  | y :: ys, x, h => by
    unfold distinctIds at h
    split at h
    · exact List.mem_cons_of_mem _ (distinctIds_subset ys x h)
    · rcases List.mem_cons.mp h with rfl | h
      · simp
      · exact List.mem_cons_of_mem _ (distinctIds_subset ys x h)

theorem distinctIds_nodup : ∀ l : List String, (distinctIds l).Nodup
  | [] => by simp [distinctIds]
  | y :: ys => by
    unfold distinctIds
    split
    · exact distinctIds_nodup ys
    · rename_i hc
      refine List.nodup_cons.mpr ⟨?_, distinctIds_nodup ys⟩
      intro hmem
      exact hc (by simpa using distinctIds_subset ys y hmem)

theorem sortedIds_nodup (rows : List (CsvRow α)) : (sortedIds rows).Nodup := by
  unfold sortedIds
  exact (stableSort_perm _ _).nodup_iff.mpr (distinctIds_nodup _)

/-- blocks tagged with pairwise distinct ids, each block carrying its own id: filtering the
concatenation by an id returns that id's block -/
theorem filter_blocks {γ : Type} (ev : γ → List (VEvent α)) :
    ∀ (ids : List String) (outs : List γ),
      List.Forall₂ (fun vid o => ∀ e ∈ ev o, e.vehicle = vid) ids outs → ids.Nodup →
      (∀ v, v ∉ ids → vehicleEvents v (outs.flatMap ev) = []) ∧
      ∀ vid o, (vid, o) ∈ ids.zip outs → vehicleEvents vid (outs.flatMap ev) = ev o
  | [], [], _, _ => by simp [vehicleEvents]
  | vid :: ids, o :: outs, h, hnd => by
    cases h with
    | cons h1 h2 =>
      obtain ⟨hnot, hnd'⟩ := List.nodup_cons.mp hnd
      obtain ⟨ih1, ih2⟩ := filter_blocks ev ids outs h2 hnd'
      have hself : vehicleEvents vid (ev o) = ev o := by
        unfold vehicleEvents
        rw [List.filter_eq_self]
        intro e he; simp [h1 e he]
      have hother : ∀ v, v ≠ vid → vehicleEvents v (ev o) = [] := by
        intro v hv
        unfold vehicleEvents
        rw [List.filter_eq_nil_iff]
        intro e he
        simp [h1 e he, Ne.symm hv]
      refine ⟨?_, ?_⟩
      · intro v hv
        have hv1 : v ≠ vid := fun h => hv (by simp [h])
        have hv2 : v ∉ ids := fun h => hv (by simp [h])
        rw [List.flatMap_cons, vehicleEvents_append, hother v hv1, ih1 v hv2]; rfl
      · intro vid' o' hm
        simp only [List.zip_cons_cons, List.mem_cons, Prod.mk.injEq] at hm
        rcases hm with ⟨rfl, rfl⟩ | hm
        · rw [List.flatMap_cons, vehicleEvents_append, hself, ih1 _ hnot]; simp
        · have hin : vid' ∈ ids := (List.of_mem_zip hm).1
          have hne : vid' ≠ vid := fun h => hnot (h ▸ hin)
          rw [List.flatMap_cons, vehicleEvents_append, hother _ hne, ih2 vid' o' hm]; rfl

/-- shape of a successful run of the csv generator -/
theorem generateFromCsv_ok (P : CsvParams α) (rows : List (CsvRow α)) (out : CsvOut α)
    (h : generateFromCsv P rows = .ok out) :
    ∃ outs : List (CsvVehicleOut α),
      List.Forall₂ (fun vid o => csvVehicle P out.stop rows vid = .ok o) (sortedIds rows) outs ∧
      out.events = outs.flatMap (·.events) ∧ out.vehicles = outs.map (·.init) ∧
      out.stop = out.start + P.days * DAY := by
  unfold generateFromCsv at h
  split at h
  · simp at h
  · rename_i start hstart
    cases hm : (sortedIds rows).mapM (csvVehicle P (start + P.days * DAY) rows) with
    | error e => simp [hm, bind, Except.bind] at h
    | ok outs =>
      simp only [hm, bind, Except.bind, Except.ok.injEq] at h
      subst h
      exact ⟨outs, mapM_ok_forall₂ _ _ _ hm, rfl, rfl, rfl⟩

theorem forall₂_of_mem_zip {β γ : Type} {R : β → γ → Prop} :
    ∀ {l : List β} {r : List γ}, List.Forall₂ R l r → ∀ a b, (a, b) ∈ l.zip r → R a b
  | [], [], _, a, b, h => by simp at h
  | x :: l, y :: r, h, a, b, hm => by
    cases h with
    | cons h1 h2 =>
      simp only [List.zip_cons_cons, List.mem_cons, Prod.mk.injEq] at hm
      rcases hm with ⟨rfl, rfl⟩ | hm
      · exact h1
      · exact forall₂_of_mem_zip h2 a b hm

theorem forall₂_exists_of_mem {β γ : Type} {R : β → γ → Prop} :
    ∀ {l : List β} {r : List γ}, List.Forall₂ R l r → ∀ a ∈ l, ∃ b, (a, b) ∈ l.zip r
  | [], [], _, a, h => by simp at h
  | x :: l, y :: r, h, a, hm => by
    cases h with
    | cons h1 h2 =>
      rcases List.mem_cons.mp hm with rfl | hm
      · exact ⟨y, by simp⟩
      · obtain ⟨b, hb⟩ := forall₂_exists_of_mem h2 a hm
        exact ⟨b, by simp [hb]⟩

/-- the empty per-vehicle loop state -/
def csvState0 (minSoc : α) : CsvState α :=
  { events := [], last := none, sum := 0, soc0 := minSoc, w1 := 0, w2 := 0, w3 := 0 }

/-- **per-vehicle view of a generated csv scenario**: the events of vehicle `vid` in the global
list are exactly the block produced by the row loop over the vehicle's trips sorted by departure,
and that block satisfies the structure invariant -/
theorem csv_view (P : CsvParams α) (rows : List (CsvRow α)) (out : CsvOut α)
    (h : generateFromCsv P rows = .ok out) :
    ∃ outs : List (CsvVehicleOut α),
      out.events = outs.flatMap (·.events) ∧ out.vehicles = outs.map (·.init) ∧
      (∀ v, v ∉ sortedIds rows → vehicleEvents v out.events = []) ∧
      ∀ vid ∈ sortedIds rows, ∃ o ∈ outs,
        vehicleEvents vid out.events = o.events ∧ o.init.id = vid ∧ o.init.cs = none ∧
        ∃ (ty : CsvType α) (st : CsvState α),
          csvRows P ty out.stop vid (csvState0 P.minSoc)
            (sortByDeparture (rows.filter (fun r => r.vid == vid))) = .ok st ∧
          o.events = st.events ∧ o.init.soc = st.soc0 ∧ CFinal P.minSoc vid out.stop st := by
  obtain ⟨outs, hf, he, hv, _⟩ := generateFromCsv_ok P rows out h
  have hfacts : ∀ vid o, (vid, o) ∈ (sortedIds rows).zip outs →
      o.init.id = vid ∧ o.init.cs = none ∧ ∃ (ty : CsvType α) (st : CsvState α),
        csvRows P ty out.stop vid (csvState0 P.minSoc)
          (sortByDeparture (rows.filter (fun r => r.vid == vid))) = .ok st ∧
        o.events = st.events ∧ o.init.soc = st.soc0 ∧ CFinal P.minSoc vid out.stop st := by
    intro vid o hm
    have hok := forall₂_of_mem_zip hf vid o hm
    obtain ⟨ty, st, h1, h2, h3, h4, h5, _⟩ := csvVehicle_ok P out.stop rows vid o hok
    exact ⟨h4, h5, ty, st, h1, h2, h3, csvRows_structure P ty out.stop vid _ _ st h1 (CInv_init P.minSoc vid)⟩
  have htag : List.Forall₂ (fun vid (o : CsvVehicleOut α) => ∀ e ∈ o.events, e.vehicle = vid)
      (sortedIds rows) outs := by
    refine List.Forall₂.imp ?_ hf
    intro vid o hok
    obtain ⟨ty, st, h1, h2, _⟩ := csvVehicle_ok P out.stop rows vid o hok
    rw [h2]
    exact (csvRows_structure P ty out.stop vid _ _ st h1 (CInv_init P.minSoc vid)).vehicle
  obtain ⟨b1, b2⟩ := filter_blocks (fun o : CsvVehicleOut α => o.events) _ _ htag (sortedIds_nodup rows)
  refine ⟨outs, he, hv, fun v hv' => by rw [he]; exact b1 v hv', fun vid hvid => ?_⟩
  obtain ⟨o, hm⟩ := forall₂_exists_of_mem hf vid hvid
  obtain ⟨f1, f2, f3⟩ := hfacts vid o hm
  exact ⟨o, (List.of_mem_zip hm).2, by rw [he]; exact b2 vid o hm, f1, f2, f3⟩

end SpiceEv.Gen
