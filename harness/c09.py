"""C09 — service guarantee: feasible charging demands are met by departure.

Real runs of greedy, balanced, balanced_market, peak_load_window, flex_window (balanced) and
distributed on scenarios built so that every standing period offers f x the time greedy charging
needs (f in {1, 1.05, 1.3, 2}) with an ample connector; the oracle reads each vehicle's SoC at its
departure step from the run-time trace.  Greedy is additionally compared with the SoC reachable by
charging at full available power throughout (independent step-by-step simulation with the real
Battery class).
"""
import copy
import datetime
import math
import random

import engine
import scen
import steptie
import tie_rulerun

engine.use_repo()

PID = "C09"
CHUNK = 4
STRATS = ["greedy", "balanced", "balanced_market", "peak_load_window", "flex_window", "distributed"]
RULE = ("one connector with ample power, 1-4 vehicles each with one standing period of ceil(f*N) steps where N is the "
        "number of steps full-power charging needs (computed with the real Battery), f in {1,1.05,1.3,2}; departures on "
        "and off the step grid; optional fixed load, price levels above the threshold, charging windows; "
        "non-trivial = at least one vehicle needs >= 2 steps; distinct = distinct (seed, index, strategy)")
ASSUMPTIONS = ["tolerance at departure 1e-4 (the property's)",
               "feasible = full-power charging at min(curve, station) reaches the desired SoC within the standing steps "
               "and the connector can supply all stations simultaneously",
               "finding GRD1 is recognised by mechanism: vehicle type min_charging_power > 0 and shortfall at departure <= "
               "min_charging_power * dt * efficiency / capacity (one step at the minimum power)"]
UNPROVED = ["the run-level guarantee (SoC at departure over a whole standing period) is proved for greedy and balanced on the "
            "ITERATED step model over an ideal-linear battery (constant curve below the desired SoC; Properties/C09_Run.lean: "
            "C09_greedy_run_*, C09_balanced_run_*, tied over whole standing periods by the `rulerun` lines of this check) - "
            "partial: no minimum-power cut-off, no stationary battery, price above the threshold, first vehicle or non-binding "
            "headroom; everything else (varying curves, the other four strategies) is decided by the "
            "oracle on real runs; for balanced / distributed / balanced_market on varying curves and for peak_load_window "
            "under varying headroom it is false on the unchanged code (findings F2, P2)",
            "the plan theorems (C09_*) are per step / per plan on the strategy models over an ideal battery"]

T0 = scen.T0


PROFILE_STRATS = ["greedy", "balanced_market", "peak_load_window", "flex_window"]


def gen_cases(tier, seed):
    n = 80 if tier == "quick" else 1500
    for i in range(n):
        for st in STRATS:
            yield {"seed": seed, "i": i, "strategy": st, "pid": PID}
        if i % 2 == 0:
            # one vehicle, time-varying fixed load: the connector headroom binds in some steps
            for st in PROFILE_STRATS:
                yield {"seed": seed, "i": i, "strategy": st, "pid": PID, "profile": True}
        else:
            # vehicles sharing a binding connector; a V2G vehicle above its desired SoC next to a fixed load
            for st in SHARED_STRATS:
                yield {"seed": seed, "i": i, "strategy": st, "pid": PID, "shared": True}
        if i % 4 == 0:
            # vehicles with a minimum charging power (0.2 x curve maximum, the ratio of the project's generators): greedy
            # - also as the opportunity sub-strategy of distributed - stalls once the power still needed is below it
            # (known finding GRD1, keyed by that mechanism in eval_case)
            yield {"seed": seed, "i": i, "strategy": "greedy", "pid": PID, "minpower": True}
            yield {"seed": seed, "i": i, "strategy": "distributed", "pid": PID, "minpower": True, "stype": "opps"}


SHARED_STRATS = ["greedy", "balanced", "distributed"]


def build_shared(case):
    """(a) two vehicles at one connector whose limit binds: `va` (served first: smaller id) stands at a station twice
    as strong as its curve, so it is offered more than it takes; `vb` is feasible with what `va` can never use
    (limit - curve maximum of va - fixed load) and stands f x the steps it needs at that power.  (b) a V2G vehicle
    arrives above its desired SoC (discharge limit below it) next to a fixed load at a dear price and leaves after 1-4
    steps: its demand is met from the start and must still be met when it leaves."""
    rng = random.Random("C09s:%s:%s:%s" % (case["seed"], case["i"], case["strategy"]))
    strat = case["strategy"]
    interval = rng.choice([10, 15, 15, 30, 45, 40, 90])
    dt = datetime.timedelta(minutes=interval)
    start = T0 + datetime.timedelta(days=rng.choice([0, 1, 4]), hours=rng.choice([0, 6, 14]))
    stype = rng.choice(["deps", "opps"])
    comp = {"vehicle_types": {}, "vehicles": {}, "grid_connectors": {}, "charging_stations": {}, "batteries": {}}
    ev = {"fixed_load": {}, "local_generation": {}, "grid_operator_signals": [], "vehicle_events": []}
    meta = {"vehicles": {}, "interval": interval}
    fixed = rng.choice([0.0, 3.0, 8.0])
    if rng.random() < 0.6:
        # (a) contention
        pa = rng.choice([11.0, 22.0])
        vta = {"name": "vta", "capacity": rng.choice([40, 76]), "mileage": 20, "charging_curve": [[0, pa], [1, pa]],
               "min_charging_power": 0, "battery_efficiency": 0.95, "v2g": False}
        cname, pts = rng.choice(scen.CURVES[:3])
        vtb = {"name": "vtb", "capacity": rng.choice([20, 40, 50]), "mileage": 20, "charging_curve": copy.deepcopy(pts),
               "min_charging_power": 0, "battery_efficiency": rng.choice([0.95, 1.0]), "v2g": False}
        vmax = max(p[1] for p in pts)
        csb = rng.choice([vmax, vmax / 2])
        comp["vehicle_types"] = {"vta": vta, "vtb": vtb}
        comp["charging_stations"] = {"CS_va_" + stype: {"max_power": 2 * pa, "min_power": 0, "parent": "GC1"},
                                     "CS_vb_" + stype: {"max_power": csb, "min_power": 0, "parent": "GC1"}}
        rating = fixed + pa + csb + rng.choice([0.5, 2.0])
        soc0, desired = rng.choice([0.2, 0.4, 0.6]), rng.choice([0.8, 0.9])
        need, traj = steps_needed(vtb, soc0, desired, csb, interval)
        f = rng.choice([1.3, 2.0])
        stand = max(need + 1, math.ceil(f * need))
        dep = start + stand * dt - datetime.timedelta(minutes=rng.choice([0, 0, 1]))
        # va needs the whole time (and more): it keeps drawing its curve maximum
        comp["vehicles"]["va"] = {"vehicle_type": "vta", "soc": 0.05, "desired_soc": 1.0,
                                  "connected_charging_station": "CS_va_" + stype,
                                  "estimated_time_of_departure": scen.iso(dep + 40 * dt)}
        comp["vehicles"]["vb"] = {"vehicle_type": "vtb", "soc": soc0, "desired_soc": desired,
                                  "connected_charging_station": "CS_vb_" + stype,
                                  "estimated_time_of_departure": scen.iso(dep)}
        seg = [q[1] for q in pts]
        meta["vehicles"]["vb"] = {"need": need, "stand": stand, "f": f, "const_curve": len(set(seg)) == 1,
                                  "cs": "CS_vb_" + stype, "dep_step": stand, "arrive_step": 0, "traj": traj,
                                  "soc0": soc0, "desired": desired, "cs_power": csb, "profile": "shared_connector"}
        dep_events = [("vb", dep)]
        n_steps = stand + 3
    else:
        # (b) V2G vehicle above its desired SoC
        p = rng.choice([11.0, 22.0])
        vt = {"name": "vtv", "capacity": rng.choice([40, 60]), "mileage": 20, "charging_curve": [[0, p], [1, p]],
              "min_charging_power": 0, "battery_efficiency": 0.95, "v2g": True, "v2g_power_factor": rng.choice([0.5, 1.0]),
              "discharge_limit": rng.choice([0.2, 0.5])}
        comp["vehicle_types"] = {"vtv": vt}
        comp["charging_stations"] = {"CS_vc_" + stype: {"max_power": p, "min_power": 0, "parent": "GC1"}}
        fixed = rng.choice([10.0, 30.0])
        rating = fixed + p + 5.0
        desired = rng.choice([0.6, 0.8])
        soc0 = round(desired + rng.choice([0.02, 0.05, 0.1]), 3)
        stand = rng.randint(1, 4)
        dep = start + stand * dt - datetime.timedelta(minutes=rng.choice([0, 0, 1]))
        comp["vehicles"]["vc"] = {"vehicle_type": "vtv", "soc": soc0, "desired_soc": desired,
                                  "connected_charging_station": "CS_vc_" + stype,
                                  "estimated_time_of_departure": scen.iso(dep)}
        meta["vehicles"]["vc"] = {"need": 0, "stand": stand, "f": 2.0, "const_curve": True, "cs": "CS_vc_" + stype,
                                  "dep_step": stand, "arrive_step": 0, "traj": [soc0], "soc0": soc0, "desired": desired,
                                  "cs_power": p, "profile": "v2g_above_desired"}
        dep_events = [("vc", dep)]
        n_steps = stand + 3
    comp["grid_connectors"]["GC1"] = {"max_power": rating, "voltage_level": "MV", "cost": {"type": "fixed", "value": 0.3}}
    if fixed:
        ev["fixed_load"]["load"] = {"start_time": scen.iso(start), "step_duration_s": interval * 60,
                                    "grid_connector_id": "GC1", "values": [fixed] * n_steps}
    for vid, d in dep_events:
        ev["vehicle_events"].append({
            "signal_time": scen.iso(d - datetime.timedelta(hours=2)), "start_time": scen.iso(d), "vehicle_id": vid,
            "event_type": "departure", "update": {"estimated_time_of_arrival": scen.iso(d + datetime.timedelta(hours=8))}})
    scn = {"scenario": {"start_time": scen.iso(start), "interval": interval, "n_intervals": n_steps},
           "components": comp, "events": ev}
    return {"scenario": scn, "strategy": strat, "options": {}, "meta": meta, "pid": PID}


def build_profile(case):
    """one vehicle at a connector whose headroom (rating - fixed load) varies from step to step; the standing
    time is f x the number of steps full-power charging under that headroom profile needs (real Battery)"""
    from spice_ev.battery import Battery
    from spice_ev.loading_curve import LoadingCurve
    rng = random.Random("C09p:%s:%s:%s" % (case["seed"], case["i"], case["strategy"]))
    strat = case["strategy"]
    interval = rng.choice([10, 15, 15, 30, 45, 40, 90])
    dt = datetime.timedelta(minutes=interval)
    start = T0 + datetime.timedelta(days=rng.choice([0, 1, 4]), hours=rng.choice([0, 6, 14]))
    cname, pts = rng.choice(scen.CURVES[:3])
    vt = {"name": "vt0", "capacity": rng.choice([20, 40, 50]), "mileage": 20, "charging_curve": copy.deepcopy(pts),
          "min_charging_power": 0, "battery_efficiency": rng.choice([0.95, 1.0]), "v2g": False}
    vmax = max(p[1] for p in pts)
    cs_power = rng.choice([vmax, vmax / 2])
    soc0, desired = rng.choice([0.2, 0.4, 0.6]), rng.choice([0.8, 0.9])
    horizon = int(20 * 60 / interval)
    share = [rng.choice([1, 1, 0.2, 0.4, 0.7]) for _ in range(horizon + 8)]
    rising = rng.random() < 0.5
    if rising:
        # fixed load rises later (headroom shrinks), the situation a look-ahead must foresee
        k0 = rng.randint(2, 8)
        share = [1 if t < k0 else rng.choice([0.2, 0.3, 0.5]) for t in range(horizon + 8)]
    b = Battery(float(vt["capacity"]), LoadingCurve(vt["charging_curve"]), soc0, float(vt["battery_efficiency"]))
    traj, need = [soc0], 0
    while desired - b.soc > 1e-5 and need < horizon:
        b.load(dt, max_power=min(cs_power, share[need] * cs_power), target_soc=1)
        need += 1
        traj.append(b.soc)
    if desired - b.soc > 1e-5:
        return {"scenario": None, "strategy": strat, "options": {}, "meta": {"vehicles": {}}, "pid": PID}
    f = rng.choice([1.3, 2.0])
    stand = min(horizon, max(need + 1, math.ceil(f * need)))
    dep_time = start + stand * dt - datetime.timedelta(minutes=rng.choice([0, 0, 1]))
    rating = 2 * cs_power + 5.0
    comp = {"vehicle_types": {"vt0": vt}, "charging_stations": {"CS_v0_deps": {"max_power": cs_power, "min_power": 0,
                                                                                  "parent": "GC1"}},
            "vehicles": {"v0": {"vehicle_type": "vt0", "soc": soc0, "desired_soc": desired,
                                "connected_charging_station": "CS_v0_deps",
                                "estimated_time_of_departure": scen.iso(dep_time)}},
            "grid_connectors": {"GC1": {"max_power": rating, "voltage_level": "MV",
                                        "cost": {"type": "fixed", "value": 0.3}}}, "batteries": {}}
    n_steps = stand + 3
    ev = {"fixed_load": {"building": {
        "start_time": scen.iso(start), "step_duration_s": interval * 60, "grid_connector_id": "GC1",
        "values": [round(rating - share[t] * cs_power - 0.01, 6) if share[t] < 1 else 1.0 for t in range(n_steps)]}},
        "local_generation": {}, "grid_operator_signals": [], "vehicle_events": [{
            "signal_time": scen.iso(dep_time - datetime.timedelta(hours=2)), "start_time": scen.iso(dep_time),
            "vehicle_id": "v0", "event_type": "departure",
            "update": {"estimated_time_of_arrival": scen.iso(dep_time + datetime.timedelta(hours=8))}}]}
    meta = {"interval": interval, "vehicles": {"v0": {
        "need": need, "stand": stand, "f": f, "const_curve": len(set(p[1] for p in pts)) == 1, "cs": "CS_v0_deps",
        "dep_step": stand, "arrive_step": 0, "traj": traj, "soc0": soc0, "desired": desired, "cs_power": cs_power,
        "profile": "rising_load" if rising else "random_load"}}}
    options = {}
    if strat == "balanced_market":
        # cheaper later: the plan must know that the headroom shrinks then
        for i in range(0, n_steps, rng.choice([2, 4])):
            ev["grid_operator_signals"].append({
                "signal_time": scen.iso(start - datetime.timedelta(hours=1)), "start_time": scen.iso(start + i * dt),
                "grid_connector_id": "GC1", "cost": {"type": "fixed", "value": round(0.5 - 0.4 * i / n_steps, 3)}})
    if strat == "flex_window":
        options["LOAD_STRAT"] = "balanced"
        comp["grid_connectors"]["GC1"]["window"] = True
    if strat == "peak_load_window":
        options["time_windows"] = "@TIME_WINDOWS"
        meta["time_windows"] = {"default_grid_operator": {"s1": {"start": "2020-01-01", "end": "2020-12-31",
                                                                 "windows": {lvl: [] for lvl in ["HV", "MV", "LV"]}}}}
    scn = {"scenario": {"start_time": scen.iso(start), "interval": interval, "n_intervals": n_steps},
           "components": comp, "events": ev}
    return {"scenario": scn, "strategy": strat, "options": options, "meta": meta, "pid": PID}


def steps_needed(vt, soc, desired, power_cap, interval_min, max_steps=4000):
    """steps of full-power charging needed to reach `desired` (real Battery, independent of any strategy)"""
    from spice_ev.battery import Battery
    from spice_ev.loading_curve import LoadingCurve
    b = Battery(float(vt["capacity"]), LoadingCurve(vt["charging_curve"]), soc, float(vt["battery_efficiency"]))
    dt = datetime.timedelta(minutes=interval_min)
    n, traj = 0, [soc]
    while desired - b.soc > 1e-5 and n < max_steps:
        b.load(dt, max_power=power_cap, target_soc=1)
        n += 1
        traj.append(b.soc)
    return n, traj


def build(case):
    if "scenario" in case:
        return case
    if case.get("minpower"):
        full = build({k: v for k, v in case.items() if k != "minpower"})
        if full.get("scenario"):
            for vt in full["scenario"]["components"]["vehicle_types"].values():
                vt["min_charging_power"] = round(0.2 * max(p[1] for p in vt["charging_curve"]), 3)
            full["meta"]["minpower"] = True
        return full
    if case.get("profile"):
        return build_profile(case)
    if case.get("shared"):
        return build_shared(case)
    rng = random.Random("C09:%s:%s:%s" % (case["seed"], case["i"], case["strategy"]))
    strat = case["strategy"]
    interval = rng.choice([5, 10, 15, 15, 30, 45, 25])
    dt = datetime.timedelta(minutes=interval)
    start = T0 + datetime.timedelta(days=rng.choice([0, 1, 4]), hours=rng.choice([0, 6, 14, 21]))
    n_veh = rng.randint(1, 4)
    comp = {"vehicle_types": {}, "vehicles": {}, "grid_connectors": {}, "charging_stations": {}, "batteries": {}}
    ev = {"fixed_load": {}, "local_generation": {}, "grid_operator_signals": [], "vehicle_events": []}
    meta = {"vehicles": {}, "interval": interval}
    f = rng.choice([1.0, 1.05, 1.3, 2.0])
    stype = rng.choice(["deps", "deps", "opps"])
    stype = case.get("stype", stype)
    total_station = 0.0
    horizon_steps = int(20 * 60 / interval)
    last_dep = 0
    for k in range(n_veh):
        cname, pts = rng.choice(scen.CURVES)
        tn = "vt%d" % k
        vt = {"name": tn, "capacity": rng.choice([20, 40, 50, 76]), "mileage": 20,
              "charging_curve": copy.deepcopy(pts), "min_charging_power": 0,
              "battery_efficiency": rng.choice([0.95, 0.9, 1.0]), "v2g": False}
        comp["vehicle_types"][tn] = vt
        vmax = max(p[1] for p in pts)
        cs_power = rng.choice([vmax, vmax, vmax / 2, vmax * 2])
        vid = "v%s" % rng.choice(["10", "2", "03", "7"])[0:2] + str(k)
        csid = "CS_%s_%s" % (vid, stype)
        comp["charging_stations"][csid] = {"max_power": cs_power, "min_power": 0, "parent": "GC1"}
        total_station += cs_power
        soc0 = rng.choice([0.1, 0.3, 0.5, 0.7])
        desired = rng.choice([0.8, 0.8, 0.99, 1.0, 0.6])
        if desired <= soc0:
            desired = min(1.0, soc0 + 0.2)
        need, traj = steps_needed(vt, soc0, desired, cs_power, interval)
        stand = max(1, math.ceil(f * need))
        if stand > horizon_steps:
            stand = horizon_steps
            if stand < need:
                continue
        arrive_step = rng.choice([0, 0, 1, 3])
        off = rng.choice([0, 0, 1, interval - 1]) if interval > 1 else 0
        dep_time = start + (arrive_step + stand) * dt - datetime.timedelta(minutes=off)
        lo, hi = traj[0], desired
        seg = [p for p in vt["charging_curve"] if lo <= p[0] <= hi]
        from runoracle import curve_max_on
        const = abs(curve_max_on(vt["charging_curve"], lo, hi)
                    - min([p[1] for p in seg] + [curve_max_on(vt["charging_curve"], lo, lo),
                                                 curve_max_on(vt["charging_curve"], hi, hi)])) < 1e-9
        veh = {"vehicle_type": tn, "soc": soc0, "desired_soc": desired}
        if arrive_step == 0:
            veh["connected_charging_station"] = csid
            veh["estimated_time_of_departure"] = scen.iso(dep_time)
        else:
            at = start + arrive_step * dt - datetime.timedelta(minutes=rng.choice([0, 0, 1]))
            ev["vehicle_events"].append({
                "signal_time": scen.iso(at - datetime.timedelta(hours=1)), "start_time": scen.iso(at),
                "vehicle_id": vid, "event_type": "arrival",
                "update": {"connected_charging_station": csid, "estimated_time_of_departure": scen.iso(dep_time),
                           "desired_soc": desired, "soc_delta": 0.0}})
        ev["vehicle_events"].append({
            "signal_time": scen.iso(dep_time - datetime.timedelta(hours=2)), "start_time": scen.iso(dep_time),
            "vehicle_id": vid, "event_type": "departure",
            "update": {"estimated_time_of_arrival": scen.iso(dep_time + datetime.timedelta(hours=8))}})
        comp["vehicles"][vid] = veh
        meta["vehicles"][vid] = {"need": need, "stand": stand, "f": f, "const_curve": const, "cs": csid,
                                 "dep_step": arrive_step + stand, "arrive_step": arrive_step, "traj": traj,
                                 "soc0": soc0, "desired": desired, "cs_power": cs_power}
        last_dep = max(last_dep, arrive_step + stand)
    fixed = rng.choice([0, 0, 5, 20])
    rating = (total_station + fixed) * rng.choice([1.0, 1.5, 3.0]) + 1.0
    comp["grid_connectors"]["GC1"] = {"max_power": rating, "voltage_level": "MV",
                                      "cost": {"type": "fixed", "value": 0.3}}
    n_steps = last_dep + rng.choice([2, 4])
    if fixed:
        ev["fixed_load"]["load"] = {"start_time": scen.iso(start), "step_duration_s": interval * 60,
                                    "grid_connector_id": "GC1",
                                    "values": [round(fixed * rng.uniform(0.3, 1.0), 3) for _ in range(n_steps)]}
    options = {}
    if rng.random() < 0.5 or strat == "balanced_market":
        for i in range(0, n_steps, rng.choice([2, 4, 8])):
            st = start + i * dt
            ev["grid_operator_signals"].append({
                "signal_time": scen.iso(st - datetime.timedelta(hours=24)), "start_time": scen.iso(st),
                "grid_connector_id": "GC1", "cost": {"type": "fixed", "value": rng.choice([0.1, 0.2, 0.3, 0.5])}})
    if strat == "flex_window" or rng.random() < 0.2:
        comp["grid_connectors"]["GC1"]["window"] = rng.random() < 0.5
        w = rng.random() < 0.5
        for i in range(0, n_steps, rng.choice([2, 3, 5])):
            w = not w
            st = start + i * dt
            ev["grid_operator_signals"].append({
                "signal_time": scen.iso(st - datetime.timedelta(hours=24)), "start_time": scen.iso(st),
                "grid_connector_id": "GC1", "window": w})
    if strat == "flex_window":
        options["LOAD_STRAT"] = "balanced"
    if strat == "peak_load_window":
        options["time_windows"] = "@TIME_WINDOWS"
        meta["time_windows"] = {"default_grid_operator": {"s1": {
            "start": "2020-01-01", "end": "2020-12-31", "windows": {
                lvl: [[rng.choice(["08:15", "11:00"]), rng.choice(["12:30", "13:00"])],
                      [rng.choice(["16:30", "17:45"]), rng.choice(["19:00", "20:00"])],
                      ["23:00", "01:00"]] for lvl in ["HV", "MV", "LV"]}}}}
    scn = {"scenario": {"start_time": scen.iso(start), "interval": interval, "n_intervals": n_steps},
           "components": comp, "events": ev}
    return {"scenario": scn, "strategy": strat, "options": options, "meta": meta, "pid": PID}


def eval_case(case):
    full = build(case)
    strat = full["strategy"]
    viol, stats = [], [strat]
    mv = full["meta"]["vehicles"]
    if not mv or full.get("scenario") is None:
        return {"lines": [], "impl": [], "violations": [], "nontrivial": False, "stats": ["empty"],
                "replay_case": full}
    # greedy / balanced: the plan theorems are about the step model, which is tied to the real step here
    # ... and the step model iterated over a standing period (`rulerun`) to the same single real run
    run, runtie = tie_rulerun.hook(full, lambda: scen.run_real(full, timeout_s=90))
    r, tie_lines, tie_impl = steptie.run_with_tie(full, run)
    if r.get("step_i") is None or r.get("escaped") or r.get("timeout"):
        return {"lines": [], "impl": [], "violations": [], "nontrivial": False, "stats": stats + ["no_run"],
                "replay_case": full}
    for vid, m in mv.items():
        # SoC when the vehicle leaves: first step at which it is no longer connected
        soc_dep = None
        for t in range(m["arrive_step"] + 1, r["step_i"]):
            pe = r["trace"][t]["post_events"]
            if pe and pe["vehicles"][vid]["cs"] is None:
                soc_dep = pe["vehicles"][vid]["soc"]
                dep_t = t
                break
        if soc_dep is None:
            stats.append("no_departure_seen")
            continue
        cls = "constant_curve" if m["const_curve"] else "varying_curve"
        tight = "tight" if m["f"] <= 1.05 else "slack"
        # finding GRD1, recognised by its mechanism: the vehicle type has a minimum charging power and the vehicle left
        # within ONE minimum-power step of its desired SoC (greedy's request `power_needed` was below the minimum and
        # clamp_power made it 0).  A larger shortfall, or any shortfall without a minimum power, stays unexplained.
        vt = full["scenario"]["components"]["vehicle_types"][full["scenario"]["components"]["vehicles"][vid]["vehicle_type"]]
        min_p = float(vt.get("min_charging_power", 0) or 0)
        one_min_step = min_p * (full["meta"]["interval"] / 60.0) * float(vt.get("battery_efficiency", 0.95)) / float(vt["capacity"])
        grd1 = (min_p > 0 and strat in ("greedy", "distributed") and 0 < m["desired"] - soc_dep <= one_min_step * (1 + 1e-9))
        if soc_dep < m["desired"] - 1e-4:
            if m.get("profile") in ("rising_load", "random_load"):
                cls = cls + "_headroom_" + m["profile"]
            viol.append(("service", "C09:desired_soc_missed:%s:needed_power_below_min_charging_power" % strat if grd1
                         else "C09:desired_soc_missed:%s:%s:%s" % (strat, cls, tight),
                         "%s left at step %d with %.6f < desired %.4f (needed %d steps, stood %d, f=%s)"
                         % (vid, dep_t, soc_dep, m["desired"], m["need"], m["stand"], m["f"])))
        if strat == "greedy":
            k = dep_t - m["arrive_step"]
            reach = m["traj"][min(k, len(m["traj"]) - 1)]
            if soc_dep < min(m["desired"], reach) - 1e-4:
                viol.append(("greedy_bound", "C09:greedy_below_full_power_trajectory"
                             + (":needed_power_below_min_charging_power" if grd1 else ""),
                             "%s: %.6f < min(desired %.4f, reachable %.6f) after %d steps"
                             % (vid, soc_dep, m["desired"], reach, k)))
        stats.append(cls)
        stats.append("f=%s" % m["f"])
    nontrivial = any(m["need"] >= 2 for m in mv.values())
    run_lines, run_impl, run_stats, run_num = runtie(r)
    return {"lines": tie_lines + run_lines, "impl": tie_impl + run_impl, "violations": viol, "nontrivial": nontrivial,
            "stats": stats + run_stats, "num": run_num, "replay_case": full}


def compare(case, impl, model):
    return steptie.compare(impl, model)[1]
