/-
Model of the charging strategy `peak_load_window` (spice_ev/strategies/peak_load_window.py, class
`PeakLoadWindow`): `step`, `step_gc` with the nested `charge_vehicle` / `within_window`, and the part of
`__init__` that derives `self.peak_power` from the event table (`initPeaks`), transliterated statement by
statement.  Core Lean only (no Mathlib) so that the driver links.

What `step` reads of the state derived in `__init__` is an input of the model:
  * `self.events`       — the event table: one list of events per timestep from `start_time` on
                          (`Ev`: local generation, fixed load, grid operator signal; all made known in advance);
  * `self.time_windows` — operator ↦ seasons (`Season` of Model/Util.lean, dates as ordinals, times as µs);
  * `self.peak_power`   — per connector (field `peak` of `PGc`), updated by every step inside a window;
  * `self.start_time`, `self.stop_time`, `self.interval`, `self.EPS`.

In-place simulations on the real battery objects (`vehicle.battery.soc = old_soc` …) are pure here: a
restored SoC is the old battery value.  The battery is a parameter (`BatOps`, Model/Strategies.lean).
Python dicts are insertion-ordered association lists; datetimes that are only compared or subtracted are
UTC instants in µs (`Int`), the current time is a `DateTime` because the window predicate reads its local
date and time of day.  Builtin `sum` is a parameter of the environment (`PEnv.sum`): CPython's compensated
float sum in the driver, `List.sum` in the proofs.

Loops with a data-dependent number of passes carry fuel:
  * the window-change scan (`while within_window(cur_time) == gc.window and cur_time <= self.stop_time`),
    fuel `scanFuel` = number of steps to `stop_time` + 2                      (`scan_fuel_suffices`);
  * the search for the balanced power on varying curves (`while balanced_power < max + step or first_run`),
    fuel `searchFuel` = 8 (≤ 5 passes in exact arithmetic)                      (`search_fuel_suffices`);
  * the bisection (`while max_power - min_power > self.EPS`), fuel `PEnv.bisectFuel` supplied by the caller
    (sufficient when `max − min ≤ 2^fuel · EPS`)                               (`bisect_fuel_suffices`).
-/
import SpiceEv.Py
import SpiceEv.Time
import SpiceEv.Model.StrategyUtil
import SpiceEv.Model.Strategies
import SpiceEv.Model.Util
namespace SpiceEv.PeakLoadWindow
open SpiceEv

/-- an entry of the event table `self.events[i]` (only the three local event types are put there) -/
inductive Ev (α : Type) where
  /-- `events.LocalEnergyGeneration(grid_connector_id, name, value)` -/
  | gen (gc name : String) (value : α)
  /-- `events.FixedLoad(grid_connector_id, name, value)` -/
  | load (gc name : String) (value : α)
  /-- `events.GridOperatorSignal(grid_connector_id, max_power)` (cost / target / window are not read) -/
  | signal (gc : String) (maxPower : Option α)

/-- one entry of the local list `timesteps` -/
structure Ts (α : Type) where
  power : α
  maxPower : α
  window : Bool

/-- a grid connector as the strategy sees it: the shared `GcS` plus operator, voltage level, the
`window` attribute it writes and its entry of `self.peak_power` -/
structure PGc (α : Type) where
  gc : GcS α
  operator : String
  level : Option String
  window : Option Bool
  peak : α

/-- a vehicle: the shared `VehicleS`, the powers of `vehicle_type.charging_curve.points` and the
attribute `vehicle.schedule` the strategy uses as scratch -/
structure PVeh (α B : Type) where
  v : VehicleS α B
  chargePowers : List α
  schedule : Option α

structure PWorld (α B : Type) where
  gcs : List (PGc α)
  stations : List (StationS α)
  vehicles : List (PVeh α B)
  batteries : List (StatBatS α B)

/-- strategy attributes and clock -/
structure PEnv (α : Type) where
  eps : α                              -- self.EPS
  tsPerHour : α                        -- timedelta(hours=1) / self.interval
  now : DateTime                       -- self.current_time
  interval : Int                       -- µs
  start : Int                          -- self.start_time (instant)
  stop : Int                           -- self.stop_time (instant)
  windows : List (String × List Season)  -- self.time_windows
  events : List (List (Ev α))          -- self.events
  sum : List α → α                     -- builtin `sum`
  bisectFuel : Nat

/-- `l[a:b]` with Python's index normalisation -/
def pySlice {β : Type} (l : List β) (a b : Int) : List β :=
  let n : Int := l.length
  let norm (i : Int) : Nat := (if i < 0 then (if i + n < 0 then 0 else i + n) else (if n < i then n else i)).toNat
  (l.drop (norm a)).take (norm b - norm a)

/-- `l[i] = v` for an index known to be in range (`List.set`; out of range leaves the list unchanged,
the callers check the index first) -/
def setAt {β : Type} (l : List β) (i : Nat) (v : β) : List β := l.set i v

/-- `l[i]`; `IndexError` when out of range -/
def getAt {β : Type} (l : List β) (i : Nat) : Py β :=
  match l[i]? with
  | some v => .ok v
  | none => .error .indexError

/-- stable insertion sort by an integer key (`sorted(..., key=…)` is stable) -/
def insertByKey {β : Type} (key : β → Int) (x : β) : List β → List β
  | [] => [x]
  | y :: ys => if key x < key y then x :: y :: ys else y :: insertByKey key x ys

def sortByKey {β : Type} (key : β → Int) (l : List β) : List β :=
  l.foldl (fun acc x => insertByKey key x acc) []

section
variable {α B : Type} [Add α] [Sub α] [Mul α] [Div α] [Neg α] [LT α] [LE α]
  [DecidableLT α] [DecidableLE α] [OfNat α 0] [OfNat α 1] [NatCast α] [IntCast α]

/-- `x == 0`, false for NaN -/
@[inline] def eqZero (x : α) : Bool := decide (x ≤ 0) && decide (0 ≤ x)
/-- Python true division: `ZeroDivisionError` iff the divisor equals zero -/
@[inline] def fdiv (a b : α) : Py α := if eqZero b then .error .zeroDivision else .ok (a / b)

def PWorld.station? (w : PWorld α B) (id : String) : Option (StationS α) := w.stations.find? (·.id == id)
def PWorld.setGc (w : PWorld α B) (g : PGc α) : PWorld α B :=
  { w with gcs := w.gcs.map (fun x => if x.gc.id == g.gc.id then g else x) }
def PWorld.setVehicle (w : PWorld α B) (v : PVeh α B) : PWorld α B :=
  { w with vehicles := w.vehicles.map (fun x => if x.v.id == v.v.id then v else x) }
def PWorld.setBattery (w : PWorld α B) (b : StatBatS α B) : PWorld α B :=
  { w with batteries := w.batteries.map (fun x => if x.id == b.id then b else x) }

/-- `sum(loads.values())` -/
def sumLoads (env : PEnv α) (l : List (String × α)) : α := env.sum (l.map (·.2))

/-- `vehicle.get_energy_needed()` = `max(desired_soc - battery.soc, 0) * battery.capacity` -/
def energyNeeded (ops : BatOps α B) (desired : α) (b : B) : α :=
  pymax (desired - ops.soc b) 0 * ops.capacity b

/-! ### gathering the vehicles -/

/-- the first loop of `step_gc`: vehicles connected at this connector (dict order) and the latest
estimated departure of ANY connected vehicle that still needs energy (`max_standing`, instant) -/
def gatherVehicles (ops : BatOps α B) (env : PEnv α) (w : PWorld α B) (gcId : String) :
    Py (List (PVeh α B) × Int) :=
  w.vehicles.foldlM (fun (acc : List (PVeh α B) × Int) pv =>
    match pv.v.cs with
    | none => .ok acc
    | some csId =>
      match w.station? csId with
      | none => .error .keyError
      | some cs =>
        let vs := if cs.parent == gcId then acc.1 ++ [pv] else acc.1
        match pv.v.etd with
        | none => .ok (vs, acc.2)
        | some etd =>
          if etd ≤ env.now.instant then .ok (vs, acc.2)
          else if pv.v.desiredSoc - ops.soc pv.v.bat < env.eps then .ok (vs, acc.2)
          else .ok (vs, if acc.2 < etd then etd else acc.2)) ([], env.now.instant)

/-! ### the window-change scan -/

/-- `while within_window(cur_time) == gc.window and cur_time <= self.stop_time:
       cur_time += self.interval; ts_until_window_change += 1` -/
def windowScan (env : PEnv α) (seasons : List Season) (level : String) (win : Bool) :
    Nat → DateTime → Int → Py Int
  | 0, _, _ => .error .fuel
  | fuel + 1, cur, n =>
    if (datetimeWithinTimeWindow cur seasons level == win) && decide (cur.instant ≤ env.stop) then
      windowScan env seasons level win fuel (cur.add env.interval) (n + 1)
    else .ok n

/-- fuel of the scan: the steps up to `stop_time`, plus two -/
def scanFuel (env : PEnv α) : Nat := (floorDiv (env.stop - env.now.instant) env.interval).toNat + 2

/-! ### the prognosis `timesteps` -/

/-- the `for event in event_list:` body -/
def applyEvent (gcId : String) (st : List (String × α) × α) : Ev α → List (String × α) × α
  | .gen g name v => if g != gcId then st else (sdSet st.1 name (-v), st.2)
  | .load g name v => if g != gcId then st else (sdSet st.1 name v, st.2)
  | .signal g mp =>
    match mp with
    | none => st
    | some m => if g != gcId then st else (st.1, m)

/-- `for event_list in future_event_lists:`; `cur` is `cur_time` BEFORE the increment -/
def buildTimesteps (env : PEnv α) (seasons : List Season) (level gcId : String) :
    List (List (Ev α)) → DateTime → List (String × α) × α → List (Ts α)
  | [], _, _ => []
  | evs :: rest, cur, st =>
    let cur := cur.add env.interval
    let st := evs.foldl (applyEvent gcId) st
    { power := sumLoads env st.1, maxPower := st.2,
      window := datetimeWithinTimeWindow cur seasons level }
      :: buildTimesteps env seasons level gcId rest cur st

/-! ### planning one vehicle -/

/-- what the passes over `connected_ts` carry: the battery being simulated, `power_levels`, and
`vehicle.schedule` -/
structure Plan (α B : Type) where
  bat : B
  levels : List α
  schedule : α

/-- the nested `charge_vehicle(power, ts_info)` ↦ (battery', p, avg_power) -/
def chargeVehicle (ops : BatOps α B) (cs : StationS α) (vmin : α) (b : B) (power : α) (ts : Ts α) :
    Py (B × α × α) := do
  let p := clampPower power cs.currentPower cs.maxPower cs.minPower vmin
  let p := pymin p (ts.maxPower - ts.power)
  let (b', avg) ← ops.load b none none (some p)
  .ok (b', p, avg)

/-- one `for ts_idx, ts in enumerate(connected_ts)` pass of the iterative search (varying curve);
the flag is `potential` -/
def searchPass (ops : BatOps α B) (cs : StationS α) (vmin bp maxCv : α) :
    List (Ts α) → Nat → Plan α B × Bool → Py (Plan α B × Bool)
  | [], _, st => .ok st
  | ts :: rest, i, st =>
    if ts.window then searchPass ops cs vmin bp maxCv rest (i + 1) st
    else do
      let (b', p, avg) ← chargeVehicle ops cs vmin st.1.bat bp ts
      let delta := ts.maxPower - ts.power
      let pot := if bp < pymin maxCv delta then true else st.2
      searchPass ops cs vmin bp maxCv rest (i + 1)
        ({ bat := b', levels := setAt st.1.levels i avg,
           schedule := if i == 0 then p else st.1.schedule }, pot)

/-- `while balanced_power < max_charge_vehicle + step or first_run:` -/
def searchLoop (ops : BatOps α B) (eps : α) (cs : StationS α) (vmin desired maxCv step : α) (bat0 : B)
    (connected : List (Ts α)) : Nat → α → Bool → Plan α B → Py (Plan α B)
  | 0, _, _, _ => .error .fuel
  | fuel + 1, bp, first, pl =>
    if bp < maxCv + step ∨ first = true then do
      let (pl', pot) ← searchPass ops cs vmin bp maxCv connected 0 ({ pl with bat := bat0 }, false)
      let needs := decide (eps < desired - ops.soc pl'.bat)
      -- repaired (fixes/PLW4_search_absorbed_step.diff): `balanced_power + step <= balanced_power` (pinned: `step <= 0`
      -- — a positive step that is absorbed by the floating-point addition repeated the same pass for ever)
      if !needs || !pot || decide (bp + step ≤ bp) then .ok pl'
      else searchLoop ops eps cs vmin desired maxCv step bat0 connected fuel (bp + step) false pl'
    else .ok pl

def searchFuel : Nat := 8

/-- the pass of the constant-curve branch; the counter is `num_outside_ts` -/
def constPass (ops : BatOps α B) (tsPerHour : α) (cs : StationS α) (vmin desired : α) :
    List (Ts α) → Nat → Plan α B × Int → Py (Plan α B × Int)
  | [], _, st => .ok st
  | ts :: rest, i, st =>
    if ts.window then constPass ops tsPerHour cs vmin desired rest (i + 1) st
    else do
      let power ← fdiv (energyNeeded ops desired st.1.bat * tsPerHour) ((st.2 : Int) : α)
      let pe ← fdiv power (ops.efficiency st.1.bat)
      let (b', p, avg) ← chargeVehicle ops cs vmin st.1.bat pe ts
      constPass ops tsPerHour cs vmin desired rest (i + 1)
        ({ bat := b', levels := setAt st.1.levels i avg,
           schedule := if i == 0 then p else st.1.schedule }, st.2 - 1)

/-- "peak shaving within load windows (greedy up to peak power)" -/
def shavePass (ops : BatOps α B) (tsPerHour : α) (cs : StationS α) (vmin desired peak : α) :
    List (Ts α) → Nat → Plan α B → Py (Plan α B)
  | [], _, st => .ok st
  | ts :: rest, i, st =>
    if !ts.window then do
      let lvl ← getAt st.levels i
      let (b', avg) ← ops.load st.bat none none (some lvl)
      shavePass ops tsPerHour cs vmin desired peak rest (i + 1)
        { st with bat := b', levels := setAt st.levels i avg }
    else do
      let need ← fdiv (energyNeeded ops desired st.bat * tsPerHour) (ops.efficiency st.bat)
      let power := pymin need (peak - ts.power)
      let (b', p, avg) ← chargeVehicle ops cs vmin st.bat power ts
      shavePass ops tsPerHour cs vmin desired peak rest (i + 1)
        { bat := b', levels := setAt st.levels i avg, schedule := if i == 0 then p else st.schedule }

/-- one pass of the bisection for the power level `target_power` -/
def bisectPass (ops : BatOps α B) (cs : StationS α) (vmin target : α) (copy : List α) :
    List (Ts α) → Nat → Plan α B → Py (Plan α B)
  | [], _, st => .ok st
  | ts :: rest, i, st =>
    if !ts.window then do
      let lvl ← getAt copy i
      let (b', avg) ← ops.load st.bat none none (some lvl)
      bisectPass ops cs vmin target copy rest (i + 1) { st with bat := b', levels := setAt st.levels i avg }
    else do
      let power := pymax (target - ts.power) 0
      let (b', p, avg) ← chargeVehicle ops cs vmin st.bat power ts
      bisectPass ops cs vmin target copy rest (i + 1)
        { bat := b', levels := setAt st.levels i avg, schedule := if i == 0 then p else st.schedule }

/-- `while max_power - min_power > self.EPS:` -/
def bisectLoop (ops : BatOps α B) (eps : α) (cs : StationS α) (vmin desired : α) (bat0 : B)
    (copy : List α) (connected : List (Ts α)) : Nat → α → α → Plan α B → Py (Plan α B)
  | 0, lo, hi, pl => if eps < hi - lo then .error .fuel else .ok pl
  | fuel + 1, lo, hi, pl =>
    if eps < hi - lo then do
      let target := (hi + lo) / ((2 : Nat) : α)
      let pl' ← bisectPass ops cs vmin target copy connected 0 { pl with bat := bat0 }
      if desired - ops.soc pl'.bat < eps then
        bisectLoop ops eps cs vmin desired bat0 copy connected fuel lo target pl'
      else bisectLoop ops eps cs vmin desired bat0 copy connected fuel target hi pl'
    else .ok pl

/-- `min([ts["power"] for ts in connected_ts])` (`ValueError` for an empty list) -/
def minPower : List (Ts α) → Py α
  | [] => .error .valueError
  | t :: ts => .ok (ts.foldl (fun m x => pymin m x.power) t.power)
/-- `max([ts["max_power"] for ts in connected_ts])` -/
def maxMaxPower : List (Ts α) → Py α
  | [] => .error .valueError
  | t :: ts => .ok (ts.foldl (fun m x => pymax m x.maxPower) t.maxPower)

/-- "add power levels to gc info": `ts_info["power"] += power_levels[ts_idx]` and the peak prognosis -/
def addLevels (eps : α) (levels : List α) : List (Ts α) → Nat → α → Py (List (Ts α) × α)
  | [], _, peak => .ok ([], peak)
  | ts :: rest, i, peak => do
    let lvl ← getAt levels i
    let ts' := { ts with power := ts.power + lvl }
    let peak' := if ts'.window = true ∧ eps < ts'.power - peak then ts'.power else peak
    let (rest', peak'') ← addLevels eps levels rest (i + 1) peak'
    .ok (ts' :: rest', peak'')

/-- `len(charge_powers) == 1` for the set of powers of the curve points -/
def constantCurve : List α → Bool
  | [] => false
  | p :: ps => ps.all (fun q => !(decide (q < p)) && !(decide (p < q)))

/-- `max(charge_powers)` (`ValueError` for an empty set) -/
def maxPowerOf : List α → Py α
  | [] => .error .valueError
  | p :: ps => .ok (ps.foldl (fun m x => pymax m x) p)

/-- `depart_idx`: the number of timesteps the vehicle is still connected (a vehicle without an estimated
departure, or one that should have left already, is assumed to leave at the next timestep) -/
def departIdx (env : PEnv α) (v : VehicleS α B) : Nat :=
  let nowI := env.now.instant
  let departure : Int := match v.etd with
    | none => nowI + env.interval
    | some d => if d ≤ nowI then nowI + env.interval else d
  (ceilDiv (departure - nowI) env.interval).toNat

/-- first stage of the vehicle body: "try to charge balanced outside of load windows" ↦ the plan after it
(battery = simulated state at departure) -/
def planOutside (ops : BatOps α B) (env : PEnv α) (cs : StationS α) (pv : PVeh α B)
    (connected : List (Ts α)) (nLevels : Nat) : Py (Plan α B) := do
  let v := pv.v
  let bat0 := v.bat
  let constant := constantCurve pv.chargePowers
  let pl0 : Plan α B := { bat := bat0, levels := List.replicate nLevels 0, schedule := 0 }
  let numOutside : Int := ((connected.filter (fun ts => !ts.window)).length : Nat)
  let eff := ops.efficiency bat0
  let balanced ← (if 0 < numOutside then do
      let a ← fdiv (energyNeeded ops v.desiredSoc bat0 * env.tsPerHour) ((numOutside : Int) : α)
      fdiv a eff
    else (.ok 0 : Py α))
  if 0 < balanced then
    if !constant then do
      let mx ← maxPowerOf pv.chargePowers
      let maxCv := clampPower mx cs.currentPower cs.maxPower cs.minPower v.minChargingPower
      let step := (maxCv - balanced) / ((3 : Nat) : α)
      searchLoop ops env.eps cs v.minChargingPower v.desiredSoc maxCv step bat0 connected searchFuel
        balanced true pl0
    else do
      let r ← constPass ops env.tsPerHour cs v.minChargingPower v.desiredSoc connected 0 (pl0, numOutside)
      .ok r.1
  else .ok pl0

/-- second stage: "not enough: peak shaving within load windows (greedy up to peak power)", then the
bisection for the power level -/
def planInside (ops : BatOps α B) (env : PEnv α) (cs : StationS α) (pv : PVeh α B)
    (connected : List (Ts α)) (peak : α) (pl1 : Plan α B) : Py (Plan α B) := do
  let v := pv.v
  let bat0 := v.bat
  if env.eps < v.desiredSoc - ops.soc pl1.bat then do
    let pl2 ← shavePass ops env.tsPerHour cs v.minChargingPower v.desiredSoc peak connected 0
      { pl1 with bat := bat0 }
    if env.eps < v.desiredSoc - ops.soc pl2.bat then do
      let lo ← minPower connected
      let hi ← maxMaxPower connected
      bisectLoop ops env.eps cs v.minChargingPower v.desiredSoc bat0 pl2.levels connected env.bisectFuel
        lo hi pl2
    else .ok pl2
  else .ok pl1

/-- the body of `for v_id, vehicle in vehicles.items():` ↦ (`vehicle.schedule`, timesteps', peak')
(the battery is restored at the end: `vehicle.battery.soc = old_soc`) -/
def planVehicle (ops : BatOps α B) (env : PEnv α) (cs : StationS α) (pv : PVeh α B)
    (timesteps : List (Ts α)) (peak : α) : Py (α × List (Ts α) × α) := do
  let n := departIdx env pv.v
  let connected := timesteps.take n
  let pl1 ← planOutside ops env cs pv connected n
  let pl3 ← planInside ops env cs pv connected peak pl1
  let (conn', peak') ← addLevels env.eps pl3.levels connected 0 peak
  .ok (pl3.schedule, conn' ++ timesteps.drop n, peak')

/-! ### stationary batteries -/

/-- first battery loop ("(dis)charging commands for stationary batteries"): per battery the planned
power `bat_info[b_id]["power"]`, with `gc_loads` carried along; battery states are restored afterwards -/
def planBattery (ops : BatOps α B) (env : PEnv α) (window : Bool) (selfPeak curMax : α) (untilChange : Int)
    (st : List (String × α) × List (String × α)) (b : StatBatS α B) :
    Py (List (String × α) × List (String × α)) := do
  let gcLoads := st.1
  if window then
    let power := sumLoads env gcLoads - selfPeak
    if b.minChargingPower ≤ power then do
      let (_, avg) ← ops.unload b.bat none none (some power)
      .ok (sdSet gcLoads b.id (-avg), st.2 ++ [(b.id, -power)])
    else if power ≤ -b.minChargingPower then do
      let (_, avg) ← ops.load b.bat none none (some (-power))
      .ok (sdSet gcLoads b.id avg, st.2 ++ [(b.id, -power)])
    else .ok (gcLoads, st.2 ++ [(b.id, 0)])
  else do
    let energy := (1 - ops.soc b.bat) * ops.capacity b.bat
    let p0 ← fdiv (energy * env.tsPerHour) (ops.efficiency b.bat)
    let p ← fdiv p0 ((untilChange : Int) : α)
    let p2 := pymin (curMax - sumLoads env gcLoads) p
    if b.minChargingPower ≤ p2 then do
      let (_, p3) ← ops.load b.bat none none (some p2)
      .ok (sdSet gcLoads b.id p3, st.2 ++ [(b.id, p2)])
    else .ok (gcLoads, st.2 ++ [(b.id, 0)])

/-- second battery loop ("store surplus power in batteries, apply commands") for one battery -/
def applyBattery (ops : BatOps α B) (env : PEnv α) (info : List (String × α))
    (st : GcS α × List (String × α) × List (StatBatS α B)) (b : StatBatS α B) :
    Py (GcS α × List (String × α) × List (StatBatS α B)) := do
  let (gc, gcLoads, done) := st
  match sdGet info b.id with
  | none => .error .keyError
  | some power =>
    if 0 ≤ power then
      let power := power - pymin (sumLoads env gcLoads) 0
      if b.minChargingPower ≤ power then do
        let (bat', avg) ← ops.load b.bat none none (some power)
        .ok ((gc.addLoad b.id avg).1, sdSet gcLoads b.id avg, done ++ [{ b with bat := bat' }])
      else .ok (gc, gcLoads, done ++ [b])
    else do
      let (bat', avg) ← ops.unload b.bat none none (some (-power))
      .ok ((gc.addLoad b.id (-avg)).1, sdSet gcLoads b.id (-avg), done ++ [{ b with bat := bat' }])

/-! ### `step_gc` and `step` -/

/-- the vehicle loop of `step_gc`, in sorted order; carries `timesteps`, the local `peak_power` and
the schedules -/
def planVehicles (ops : BatOps α B) (env : PEnv α) (w : PWorld α B) :
    List (PVeh α B) → List (Ts α) → α → Py (List (PVeh α B × α) × List (Ts α) × α)
  | [], ts, peak => .ok ([], ts, peak)
  | pv :: rest, ts, peak =>
    match pv.v.cs with
    | none => .error .keyError          -- `charging_stations[None]`; cannot happen for gathered vehicles
    | some csId =>
      match w.station? csId with
      | none => .error .keyError
      | some cs => do
        let (sched, ts', peak') ← planVehicle ops env cs pv ts peak
        let (more, ts'', peak'') ← planVehicles ops env w rest ts' peak'
        .ok ((pv, sched) :: more, ts'', peak'')

/-- "use surplus power to charge above desired soc": the final loop over the vehicles (REPAIRED, fixes/PLW2.diff):
the surplus `-min(timesteps[0]["power"], 0)` is handed out once, vehicle by vehicle, through `clamp_power`; a
vehicle's plan is never reduced (`max(clamp_power(planned + surplus, …), planned)`); what a vehicle draws beyond
its plan (`max(p - max(planned, 0), 0)`) is no longer available to the others.
(pinned commit: `vehicle.schedule -= min(timesteps[0]["power"], 0)` for EVERY vehicle, unclamped — finding D6) -/
def chargeVehicles (ops : BatOps α B) :
    List (PVeh α B × α) → α → PWorld α B × GcS α × List (String × α) → Py (PWorld α B × GcS α × List (String × α))
  | [], _, st => .ok st
  | (pv, planned) :: rest, surplus, (w, gc, cmds) =>
    match pv.v.cs with
    | none => .error .keyError
    | some csId => do
      let sched ← (if 0 < surplus then
          match w.station? csId with
          | none => (.error .keyError : Py α)
          | some cs => .ok (pymax (clampPower (planned + surplus) cs.currentPower cs.maxPower cs.minPower
              pv.v.minChargingPower) planned)
        else .ok planned)
      if 0 < sched then do
        let (bat', p) ← ops.load pv.v.bat none none (some sched)
        let w := w.setVehicle { pv with v := { pv.v with bat := bat' }, schedule := some sched }
        chargeVehicles ops rest (surplus - pymax (p - pymax planned 0) 0)
          (w, (gc.addLoad csId p).1, sdSet cmds csId p)
      else
        chargeVehicles ops rest surplus (w.setVehicle { pv with schedule := some sched }, gc, cmds)

/-- `PeakLoadWindow.step_gc(gc_id, gc)` ↦ (world', charging_stations) -/
def stepGc (ops : BatOps α B) (env : PEnv α) (w : PWorld α B) (g : PGc α) (level : String) :
    Py (PWorld α B × List (String × α)) := do
  let gcId := g.gc.id
  let nowI := env.now.instant
  let (vehicles, maxStanding) ← gatherVehicles ops env w gcId
  let ahead0 := ceilDiv (maxStanding - nowI) env.interval
  let bats := w.batteries.filter (fun b => b.parent == gcId)
  let seasons ← (match env.windows.lookup g.operator with
    | none => (.error .keyError : Py (List Season))
    | some s => .ok s)
  let window := datetimeWithinTimeWindow env.now seasons level
  let (ahead, untilChange) ← (if bats.isEmpty then (.ok (ahead0, 1) : Py (Int × Int)) else do
      let n ← windowScan env seasons level window (scanFuel env) (env.now.add env.interval) 1
      .ok (if window then (if ahead0 < n then n else ahead0) else ahead0, n))
  let eventIdx := floorDiv (nowI - env.start) env.interval + 1
  let future := [] :: pySlice env.events eventIdx (eventIdx + ahead)
  let timesteps := buildTimesteps env seasons level gcId future (env.now.add (-env.interval))
    (g.gc.loads, g.gc.curMax)
  let sorted := sortByKey (fun (pv : PVeh α B) => pv.v.etd.getD nowI) vehicles
  let (plans, timesteps, _) ← planVehicles ops env w sorted timesteps g.peak
  let ts0 ← getAt timesteps 0
  let (w, gc, cmds) ← chargeVehicles ops plans (-(pymin ts0.power 0)) (w, g.gc, [])
  -- REPAIRED (fixes/PLW1.diff): inside a window the batteries work against `min(self.peak_power, cur_max_power)`
  -- (pinned commit: against `self.peak_power`)
  let (gcLoads, info) ← bats.foldlM (planBattery ops env window (pymin g.peak gc.curMax) gc.curMax untilChange)
    (gc.loads, [])
  let (gc, _, done) ← bats.foldlM (applyBattery ops env info) (gc, gcLoads, [])
  let w := done.foldl (fun w b => w.setBattery b) w
  let peak := if window then pymax g.peak gc.currentLoad else g.peak
  .ok (w.setGc { g with gc := gc, window := some window, peak := peak }, cmds)

/-- `PeakLoadWindow.step()` ↦ (world', commands) -/
def step (ops : BatOps α B) (env : PEnv α) (w : PWorld α B) : Py (PWorld α B × List (String × α)) :=
  w.gcs.foldlM (fun (st : PWorld α B × List (String × α)) g0 =>
    -- the loop body reads the connector object (only this step_gc call changes it)
    match st.1.gcs.find? (·.gc.id == g0.gc.id) with
    | none => .error .keyError
    | some g =>
      match g.level with
      | none => .error .assertion                 -- `assert gc.voltage_level is not None`
      | some level => do
        let (w', cmds) ← stepGc ops env st.1 g level
        .ok (w', sdUpdate st.2 cmds)) (w, [])

/-! ### `__init__`: the peak of the fixed loads inside windows -/

/-- the per-timestep body of the `while cur_time <= stop_time:` loop of `__init__` for the event list of
that timestep: apply the events to the per-connector load dicts, then raise each connector's peak.
`loads`: connector ↦ load dict; `peaks`: connector ↦ (peak power, operator, level) -/
def initApply (loads : List (String × List (String × α))) : Ev α → Py (List (String × List (String × α)))
  | .gen g name v =>
    match sdGet loads g with                      -- `gc = gcs[gc_id]`
    | none => .error .keyError
    | some l => .ok (sdSet loads g (sdSet l name (-v)))
  | .load g name v =>
    match sdGet loads g with
    | none => .error .keyError
    | some l => .ok (sdSet loads g (sdSet l name v))
  | .signal g _ =>
    match sdGet loads g with
    | none => .error .keyError
    | some _ => .ok loads

/-- `self.peak_power` from the event table: for every timestep `cur = start + i·interval` and connector,
`if is_window and sum(current_loads) > peak: peak = sum` -/
def initPeaks (env : PEnv α) (gcs : List (PGc α)) :
    List (List (Ev α)) → DateTime → List (String × List (String × α)) → List (String × α) →
    Py (List (String × α))
  | [], _, _, peaks => .ok peaks
  | evs :: rest, cur, loads, peaks => do
    let loads ← evs.foldlM initApply loads
    let peaks ← gcs.foldlM (fun (peaks : List (String × α)) g => do
      let seasons ← (match env.windows.lookup g.operator with
        | none => (.error .keyError : Py (List Season))
        | some s => .ok s)
      -- `datetime_within_time_window(cur_time, …, gc.voltage_level)`: a level of None finds no window
      let isWin := match g.level with
        | none => false
        | some level => datetimeWithinTimeWindow cur seasons level
      let s := sumLoads env ((sdGet loads g.gc.id).getD [])
      let old := (sdGet peaks g.gc.id).getD 0
      .ok (if isWin = true ∧ old < s then sdSet peaks g.gc.id s else peaks)) peaks
    initPeaks env gcs rest (cur.add env.interval) loads peaks

end
end SpiceEv.PeakLoadWindow
