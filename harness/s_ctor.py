"""Scenario constructor, class_from_str, option handling, component construction: exact correspondence of
lean/SpiceEv/Model/ScenarioCtor.lean with the real code.

Streams (every case is one model line; `kind` selects the stream)
  time        real `Scenario(json)` on generated `scenario` sections (valid and malformed: missing / null / wrongly typed
              keys, both or neither of stop_time / n_intervals, zero / negative / fractional intervals, aware and naive
              times, off-grid and reversed spans, overflow) vs `ctor_time`: start, interval [us], n_intervals, stop_time,
              number of loop iterations, or the exception kind
  legacy      `components` / `constants`, `external_load` / `energy_feed_in` renames (in place, insertion order), connector
              look-up of the closing average-load loop vs `ctor_legacy`
  class       real `strategy.class_from_str` on the documented names, case variants and wrong names vs `class_from_str`
  stratinit   real base `Strategy(components, start, **options)` vs `strat_init`: every attribute of the object in insertion
              order, CONCURRENCY applied to the stations, error kinds (missing / zero interval)
  runopts     the five option assignments at the top of `Scenario.run` (the strategy class is replaced by a recorder)
  components  real `components.Components(obj)` on generated component dicts (valid, and with a dropped key / null /
              wrongly typed value) vs `components`: every attribute of every object in insertion order, derived fields,
              assertion / conversion error kinds

The module is a stand-alone development check (`./check S_CTOR`) and is hooked into the registered checks:
`c17.py` (time, legacy, class, stratinit, runopts, and the per-run step-count line `run_time_line`) and `c16.py`
(components).  Implementation lines carry the tag `@s_ctor ` so that `steptie.compare` dispatches to `compare` here.
"""
import contextlib
import copy
import datetime
import io
import random
import re
import warnings
from fractions import Fraction as F

import engine

engine.use_repo()

PID = "S_CTOR"
THEOREM_MODULES = ["C17_Ctor", "C17_Components"]
RULE = ("generated scenario sections / names / option dicts / component dicts, valid and malformed; exact comparison of "
        "the constructed values and of the exception kind with the Lean model; non-trivial = the construction succeeded")
CHUNK = 100
TAG = "@s_ctor "
US = datetime.timedelta(microseconds=1)


# ------------------------------------------------------------------------------------------ encoding

def enc_s(s):
    out = []
    for ch in s:
        if ch.isalnum() and ord(ch) < 128 or ch in "_.-+":
            out.append(ch)
        else:
            out.append("%%%02x" % ord(ch))
    return '"' + "".join(out)


def is_iso(s):
    try:
        datetime.datetime.fromisoformat(s)
        return True
    except Exception:
        return False


def enc_j(v, date=False):
    """JSON value -> tokens for the model's parser `pJ`; `date`: strings are rendered as date strings"""
    if v is None:
        return "n"
    if v is True:
        return "t"
    if v is False:
        return "f"
    if isinstance(v, int):
        return "i %d" % v
    if isinstance(v, float):
        return "r %s" % F(v)
    if isinstance(v, str):
        if date:
            return "d %d %s" % (1 if is_iso(v) else 0, enc_s(v))
        return "s " + enc_s(v)
    if isinstance(v, list):
        return " ".join(["a %d" % len(v)] + [enc_j(x) for x in v])
    if isinstance(v, dict):
        return " ".join(["o %d" % len(v)] + ["%s %s" % (enc_s(k), enc_j(x, date=k in DATE_KEYS)) for k, x in v.items()])
    raise TypeError(v)


DATE_KEYS = ("estimated_time_of_arrival", "estimated_time_of_departure")


def rdt(dt):
    """datetime -> `local offset` as the model prints it"""
    local = dt.toordinal() * 86400 * 10 ** 6 + ((dt.hour * 60 + dt.minute) * 60 + dt.second) * 10 ** 6 + dt.microsecond
    off = dt.utcoffset()
    return "%d %s" % (local, "N" if off is None else "S %d" % (off // US))


def key_tok(d, k, date=False):
    return "A" if k not in d else "P " + enc_j(d[k], date=date)


def parsed_tok(d, k):
    v = d.get(k)
    if isinstance(v, str) and is_iso(v):
        return rdt(datetime.datetime.fromisoformat(v))
    return "0 N"


def err(e):
    return "!" + type(e).__name__


# ------------------------------------------------------------------------------------------ time

def time_line(scen_section, has_scenario=True):
    sc = scen_section if has_scenario else {}
    return "ctor_time %d %s %s %s %s %s %s" % (
        1 if has_scenario else 0, key_tok(sc, "start_time", True), parsed_tok(sc, "start_time"),
        key_tok(sc, "interval"), key_tok(sc, "n_intervals"), key_tok(sc, "stop_time", True), parsed_tok(sc, "stop_time"))


def time_impl_of(s, steps=None):
    n = s.n_intervals
    return "%s %d %d %s %d" % (rdt(s.start_time), s.interval // US, n, rdt(s.stop_time),
                               len(range(n)) if steps is None else steps)


def real_scenario(j):
    from spice_ev import scenario
    with warnings.catch_warnings():
        warnings.simplefilter("ignore")
        return scenario.Scenario(j, "")


def eval_time(case):
    j = {"components": {}, "events": {}}
    if case.get("has_scenario", True):
        j["scenario"] = copy.deepcopy(case["scenario"])
    line = time_line(case["scenario"], case.get("has_scenario", True))
    try:
        s = real_scenario(j)
        impl = time_impl_of(s)
        ok = True
    except Exception as e:
        impl = err(e)
        ok = False
    stats = ["time_" + (impl if not ok else ("n_given" if "n_intervals" in case["scenario"] else "stop_given"))]
    viol = []
    if ok:
        # independent oracle: the property's reading of the time frame
        st, iv, n, sp = s.start_time, s.interval, s.n_intervals, s.stop_time
        given = [k for k in ("stop_time", "n_intervals") if case["scenario"].get(k) is not None]
        if len(given) != 1:
            viol.append(("one_key", "C17:ctor_accepts_both_or_neither", "constructed with %s given" % (given or "neither")))
        # in integer microseconds, so that no intermediate date / timedelta leaves CPython's range
        span = (sp - st) // US if (sp.tzinfo is None) == (st.tzinfo is None) else None
        if "n_intervals" in case["scenario"]:
            if span != n * (iv // US) or sp.utcoffset() != st.utcoffset():
                viol.append(("frame", "C17:ctor_stop_time", "stop %s != start + n*interval" % sp))
        elif iv > datetime.timedelta(0):
            # st + n*iv <= sp < st + (n+1)*iv
            if span is None or not (n * (iv // US) <= span < (n + 1) * (iv // US)):
                viol.append(("frame", "C17:ctor_n_intervals", "n=%d does not bracket the stop time" % n))
    return {"lines": [line], "impl": [TAG + impl], "violations": viol, "nontrivial": ok, "stats": stats}


STARTS = ["2020-01-01T00:00:00", "2021-03-28T01:30:00+01:00", "2019-12-31T23:45:00", "2020-02-29T12:00:00.250000",
          "2020-06-01", "2020-01-01T00:00:00+02:00", "2024-02-28T23:59:59-05:30"]


def gen_time(rnd):
    sc = {}
    start = rnd.choice(STARTS)
    sc["start_time"] = start
    sc["interval"] = rnd.choice([15, 15, 15, 1, 5, 10, 20, 30, 45, 60, 7, 1440, 7.5, 0.5, 0.25, 0.1, 1 / 3, 2.5, 12.75])
    mode = rnd.random()
    sdt = datetime.datetime.fromisoformat(start)
    iv = datetime.timedelta(minutes=sc["interval"])
    if mode < 0.4:
        sc["n_intervals"] = rnd.choice([0, 1, 2, 3, 4, 24, 96, 97, 672, rnd.randint(0, 3000)])
    else:
        k = rnd.choice([0, 1, 2, 5, 96, rnd.randint(0, 500)])
        off = rnd.choice([datetime.timedelta(0), datetime.timedelta(0), iv / 2, iv - US, US, -US, iv / 3,
                          datetime.timedelta(seconds=rnd.randint(0, 3600))])
        stop = sdt + k * iv + off
        if rnd.random() < 0.1:
            stop = sdt - k * iv - off        # reversed span
        if sdt.tzinfo is not None and rnd.random() < 0.3:
            stop = stop.astimezone(datetime.timezone(datetime.timedelta(hours=rnd.choice([-7, 0, 3, 5.75]))))
        sc["stop_time"] = stop.isoformat()
    # perturbations
    r = rnd.random()
    if r < 0.45:
        what = rnd.choice(["both", "neither", "n_null_stop", "stop_null_n", "both_null", "drop_start", "null_start",
                           "bad_start", "int_start", "drop_interval", "null_interval", "str_interval", "zero_interval",
                           "neg_interval", "huge_interval", "tiny_interval", "str_n", "list_n", "neg_n", "huge_n", "bad_stop",
                           "int_stop", "mix_tz", "far_start", "bool_interval", "tie_interval", "early_start",
                           "n_null_only", "stop_null_only", "no_scenario"])
        other = (sdt + 4 * iv).isoformat()
        if what == "both":
            sc.setdefault("n_intervals", 4)
            sc.setdefault("stop_time", other)
        elif what == "neither":
            sc.pop("n_intervals", None)
            sc.pop("stop_time", None)
        elif what == "n_null_stop":
            sc["n_intervals"] = None
            sc.setdefault("stop_time", other)
        elif what == "stop_null_n":
            sc["stop_time"] = None
            sc.setdefault("n_intervals", 4)
        elif what == "both_null":
            sc["stop_time"] = None
            sc["n_intervals"] = None
        elif what == "n_null_only":
            sc.pop("stop_time", None)
            sc["n_intervals"] = None
        elif what == "stop_null_only":
            sc.pop("n_intervals", None)
            sc["stop_time"] = None
        elif what == "drop_start":
            del sc["start_time"]
        elif what == "null_start":
            sc["start_time"] = None
        elif what == "bad_start":
            sc["start_time"] = rnd.choice(["yesterday", "", "2020-13-01T00:00:00", "2020-01-01T25:00:00"])
        elif what == "int_start":
            sc["start_time"] = rnd.choice([5, 1.5, [], {}, True])
        elif what == "drop_interval":
            del sc["interval"]
        elif what == "null_interval":
            sc["interval"] = None
        elif what == "str_interval":
            sc["interval"] = rnd.choice(["15", [15], {}])
        elif what == "zero_interval":
            sc["interval"] = rnd.choice([0, 0.0, 1e-9, 4e-9])
        elif what == "neg_interval":
            sc["interval"] = rnd.choice([-15, -0.5, -7.5, -1])
        elif what == "huge_interval":
            sc["interval"] = rnd.choice([10 ** 13, 1439999998560 + rnd.randint(-3, 3), 1e16, -10 ** 13, 5e8, 10 ** 9])
        elif what == "tiny_interval":
            sc["interval"] = rnd.choice([1 / 60e6, 1.5 / 60e6, 2.5 / 60e6, 0.5 / 60e6, 3.5 / 60e6, 1e-7, 123.4567891234])
        elif what == "tie_interval":
            k = rnd.randint(0, 40)
            sc["interval"] = rnd.choice([k + (2 * rnd.randint(0, 50) + 1) / 2 / 60e6, (2 * k + 1) / 2 / 60e6,
                                         k + 0.5 + 1 / 2 ** rnd.randint(20, 40)])
        elif what == "bool_interval":
            sc["interval"] = rnd.choice([True, False])
        elif what == "str_n":
            sc.pop("stop_time", None)
            sc["n_intervals"] = rnd.choice(["4", "x"])
        elif what == "list_n":
            sc.pop("stop_time", None)
            sc["n_intervals"] = rnd.choice([[4], {}])
        elif what == "neg_n":
            sc.pop("stop_time", None)
            sc["n_intervals"] = rnd.choice([-1, -96, -10 ** 6])
        elif what == "huge_n":
            sc.pop("stop_time", None)
            sc["n_intervals"] = rnd.choice([10 ** 9, 10 ** 12, 10 ** 16, -10 ** 16, 280000000 + rnd.randint(-10 ** 7, 10 ** 7)])
        elif what == "bad_stop":
            sc.pop("n_intervals", None)
            sc["stop_time"] = rnd.choice(["tomorrow", "2020-02-30T00:00:00", ""])
        elif what == "int_stop":
            sc.pop("n_intervals", None)
            sc["stop_time"] = rnd.choice([7, 2.5, [], {"a": 1}])
        elif what == "mix_tz":
            sc.pop("n_intervals", None)
            sc["stop_time"] = other + "+01:00" if sdt.tzinfo is None else other[:19]
        elif what == "far_start":
            sc["start_time"] = rnd.choice(["9999-12-31T23:00:00", "9999-12-30T00:00:00", "9999-12-31T23:59:59.999999"])
        elif what == "early_start":
            sc["start_time"] = rnd.choice(["0001-01-01T00:00:00", "0001-01-02T00:10:00"])
            if rnd.random() < 0.5:
                sc.pop("stop_time", None)
                sc["n_intervals"] = rnd.choice([-1, -2, -96, 3])
        elif what == "no_scenario":
            return {"kind": "time", "scenario": sc, "has_scenario": False}
    if rnd.random() < 0.1:
        sc["core_standing_time"] = {"times": [{"start": [22, 0], "end": [5, 0]}], "no_drive_days": [6]}
    # key order of the section is irrelevant to the code; shuffle it
    items = list(sc.items())
    rnd.shuffle(items)
    return {"kind": "time", "scenario": dict(items)}


def run_time_line(full, r):
    """step-count tie of a real run of a run-level check: the model computes the time frame and the number of loop
    iterations from the scenario section; a run that was not aborted must report exactly that many steps"""
    s = r.get("scenario_obj")
    if s is None or r.get("step_i") is None or r.get("escaped") or r.get("timeout"):
        return [], []
    sc = full["scenario"]["scenario"]
    steps = r["step_i"] if not r.get("aborted") else len(range(s.n_intervals))
    return [time_line(sc)], [TAG + time_impl_of(s, steps)]


# ------------------------------------------------------------------------------------------ legacy keys

def series(gc):
    return {"start_time": "2020-01-01T00:00:00", "step_duration_s": 900, "grid_connector_id": gc, "values": [1.0, 2.0]}


def gen_legacy(rnd):
    ev_keys = ["fixed_load", "external_load", "local_generation", "energy_feed_in", "grid_operator_signals", "vehicle_events"]
    rnd.shuffle(ev_keys)
    present = [k for k in ev_keys if rnd.random() < 0.55]
    return {"kind": "legacy", "components": rnd.random() < 0.6, "constants": rnd.random() < 0.6, "events": present,
            "gc_of": {k: rnd.choice(["G", "G", "G", "X", "C", "K"]) for k in ["fixed_load", "external_load"]},
            "no_events": rnd.random() < 0.1}


MARK = {"fixed_load": "FL", "external_load": "XL", "local_generation": "LG", "energy_feed_in": "EF",
        "grid_operator_signals": "GS", "vehicle_events": "VE"}


def eval_legacy(case):
    from spice_ev import scenario
    j = {"scenario": {"start_time": "2020-01-01T00:00:00", "interval": 15, "n_intervals": 2}}
    if case["components"]:
        j["components"] = {"grid_connectors": {"G": {"max_power": 10}, "C": {"max_power": 10}}}
    if case["constants"]:
        j["constants"] = {"grid_connectors": {"G": {"max_power": 10}, "K": {"max_power": 10}}}
    ev = {}
    for k in case["events"]:
        if k in ("grid_operator_signals", "vehicle_events"):
            ev[k] = []
        else:
            ev[k] = {MARK[k]: series(case["gc_of"].get(k, "G"))}
    if not case["no_events"]:
        j["events"] = ev
    # model inputs
    pick = 0 if case["components"] else 1 if case["constants"] else 2
    gcs = [["G", "C"], ["G", "K"], []][pick]
    ev_in = [] if case["no_events"] else [(k, MARK[k]) for k in case["events"]]
    # the series that end up under fixed_load (the model's own renaming is NOT used here: the harness states which
    # connector each series refers to, the model decides which series is looked up)
    fl_src = "external_load" if "external_load" in case["events"] else "fixed_load" if "fixed_load" in case["events"] else None
    fl = [] if (fl_src is None or case["no_events"]) else [case["gc_of"][fl_src]]
    line = "ctor_legacy %d %d %d %s %d %s %d %s" % (
        case["components"], case["constants"], len(ev_in), " ".join("%s %s" % kv for kv in ev_in) if ev_in else "",
        len(gcs), " ".join(gcs), len(fl), " ".join(fl))
    line = " ".join(line.split())
    seen = {}
    orig = scenario.components.Components

    def rec(obj):
        seen["gcs"] = list(obj.get("grid_connectors", {}))
        return orig(obj)
    scenario.components.Components = rec
    try:
        with warnings.catch_warnings():
            warnings.simplefilter("ignore")
            try:
                scenario.Scenario(j, "")
                res = "ok"
            except Exception as e:
                res = err(e)
    finally:
        scenario.components.Components = orig
    got_pick = {("G", "C"): 0, ("G", "K"): 1, (): 2}[tuple(seen["gcs"])]
    ev_out = [] if case["no_events"] else [(k, (next(iter(v)) if isinstance(v, dict) else MARK[k])) for k, v in ev.items()]
    impl = "%d ; %s ; %s" % (got_pick, " ".join(["%d" % len(ev_out)] + ["%s %s" % kv for kv in ev_out]), res)
    return {"lines": [line], "impl": [TAG + impl], "violations": [], "nontrivial": res == "ok",
            "stats": ["legacy_" + res, "legacy_pick_%d" % got_pick]}


# ------------------------------------------------------------------------------------------ class_from_str

NAMES = ['greedy', 'balanced', 'balanced_market', 'distributed', 'peak_load_window', 'peak_shaving', 'flex_window',
         'schedule']
CLASS_OF = {'greedy': 'Greedy', 'balanced': 'Balanced', 'balanced_market': 'BalancedMarket', 'distributed': 'Distributed',
            'peak_load_window': 'PeakLoadWindow', 'peak_shaving': 'PeakShaving', 'flex_window': 'FlexWindow',
            'schedule': 'Schedule'}


def gen_class(rnd):
    n = rnd.choice(NAMES)
    r = rnd.random()
    if r < 0.25:
        pass
    elif r < 0.55:
        n = "".join(ch.upper() if rnd.random() < 0.5 else ch for ch in n)
    elif r < 0.7:
        n = rnd.choice([n.replace("_", ""), n + "_", "_" + n, n.replace("_", "__"), n[:-1], n + "s", n.title(),
                        "".join(p.capitalize() for p in n.split("_"))])
    elif r < 0.8:
        n = rnd.choice(["__init__", "__INIT__", "", "_", "strategy", "Strategy", "greedy_balanced", "market", "window",
                        "peak", "peak_load", "flex", "__pycache__", "a_b_c"])
    else:
        n = "".join(rnd.choice("abgrdyeGRE_") for _ in range(rnd.randint(1, 8)))
    return {"kind": "class", "name": n}


def eval_class(case):
    from spice_ev import strategy
    name = case["name"]
    try:
        cls = strategy.class_from_str(name)
        impl = "ok " + cls.__name__
        ok = True
        viol = []
        # independent oracle: the documented names, in any letter case, give their own class
        want = CLASS_OF.get(name.lower())
        if want is None or cls.__name__ != want or not issubclass(cls, strategy.Strategy):
            viol.append(("class", "C17:class_from_str_wrong_class", "%r -> %s" % (name, cls)))
    except Exception as e:
        impl = err(e)
        ok = False
        viol = []
        if name in strategy.STRATEGIES:
            viol.append(("class", "C17:class_from_str_documented_name_fails", "%r -> %s" % (name, impl)))
    return {"lines": ["class_from_str " + enc_s(name)], "impl": [TAG + impl], "violations": viol, "nontrivial": ok,
            "stats": ["class_" + (impl if not ok else "ok")]}


# ------------------------------------------------------------------------------------------ Strategy.__init__

class Tok:
    """an opaque option value"""
    def __init__(self, s):
        self.s = s


def rav(v):
    from spice_ev import components
    if isinstance(v, Tok):
        return v.s
    if v is None:
        return "N"
    if isinstance(v, bool):
        return "b%d" % v
    if isinstance(v, int):
        return "i%d" % v
    if isinstance(v, float):
        return "q%s" % F(v)
    if isinstance(v, datetime.timedelta):
        return "i%d" % (v // US)
    if isinstance(v, datetime.datetime):
        return "i%d" % int(rdt(v).split()[0])
    if isinstance(v, (dict, list)) and not v:
        return "E"
    if isinstance(v, components.Components):
        return "W"
    raise TypeError("cannot render %r" % (v,))


OPT_KEYS = ["margin", "EPS", "ALLOW_NEGATIVE_SOC", "RESET_NEGATIVE_SOC", "PRICE_THRESHOLD", "HORIZON", "foo", "testing",
            "description", "negative_soc_tracker", "desired_counter", "margin_counter", "current_time",
            "ts_per_hour", "uses_window", "uses_schedule", "events", "stop_time", "n_intervals", "core_standing_time",
            "strategy_deps", "LOAD_STRAT", "timing"]


def gen_stratinit(rnd):
    keys = [k for k in OPT_KEYS if rnd.random() < 0.2]
    rnd.shuffle(keys)
    opts = [[k, "=v%d" % rnd.randint(0, 9)] for k in keys]
    r = rnd.random()
    interval = rnd.choice([15, 15, 60, 7, 0.5, 45]) if r < 0.85 else rnd.choice([None, "absent", 0, "int"])
    conc = rnd.choice([None, None, 0.5, 1.0, 0.25, 2.0, 0.0, 0.75])
    pos_i = rnd.randint(0, len(opts))
    pos_c = rnd.randint(0, len(opts) + 1)
    return {"kind": "stratinit", "opts": opts, "interval": interval, "conc": conc, "pos_i": pos_i, "pos_c": pos_c,
            "stations": [rnd.choice([11.0, 22.0, 3.5, 0.0, 150.0, 7.25]) for _ in range(rnd.randint(0, 3))],
            "start": rnd.choice(STARTS)}


def eval_stratinit(case):
    from spice_ev import strategy, components
    comp = components.Components({"grid_connectors": {"G": {"max_power": 100}},
                                  "charging_stations": {"cs%d" % i: {"max_power": p, "parent": "G"}
                                                        for i, p in enumerate(case["stations"])}})
    start = datetime.datetime.fromisoformat(case["start"])
    items = [(k, Tok(v)) for k, v in case["opts"]]
    toks = [(k, v) for k, v in case["opts"]]
    iv = case["interval"]
    iv_us = None
    if iv != "absent":
        if iv is None:
            val = None
        elif iv == "int":
            val = 15
        else:
            val = datetime.timedelta(minutes=iv)
            iv_us = val // US
        items.insert(case["pos_i"], ("interval", val))
        toks.insert(case["pos_i"], ("interval", "X"))
    if case["conc"] is not None:
        items.insert(min(case["pos_c"], len(items)), ("CONCURRENCY", case["conc"]))
        toks.insert(min(case["pos_c"], len(toks)), ("CONCURRENCY", "q%s" % F(case["conc"])))
    line = "strat_init %d %s %s %d %s %d %s" % (
        int(rdt(start).split()[0]), "N" if iv_us is None else "S %d" % iv_us,
        "N" if case["conc"] is None else "S %s" % F(case["conc"]),
        len(toks), " ".join("%s %s" % kv for kv in toks), len(case["stations"]),
        " ".join(str(F(p)) for p in case["stations"]))
    line = " ".join(line.split())
    try:
        st = strategy.Strategy(comp, start, **dict(items))
        attrs = list(vars(st).items())
        impl = "%s ; %s" % (" ".join(["%d" % len(attrs)] + ["%s %s" % (k, rav(v)) for k, v in attrs]),
                            " ".join(["%d" % len(case["stations"])] +
                                     [str(F(cs.max_power)) for cs in st.world_state.charging_stations.values()]))
        ok = True
    except Exception as e:
        impl = err(e)
        ok = False
    return {"lines": [line], "impl": [TAG + impl], "violations": [], "nontrivial": ok,
            "stats": ["stratinit_" + (impl if not ok else "ok")]}


def compare_stratinit(impl, model):
    a, b = impl.split(), model.split()
    if len(a) != len(b):
        return "different shape: impl %s model %s" % (impl[:300], model[:300])
    for i, (x, y) in enumerate(zip(a, b)):
        if x == y:
            continue
        if x.startswith("q") and y.startswith("q") and float(F(x[1:])) == float(F(y[1:])):
            # the model states 0.1, 1e-5 and timedelta / timedelta exactly; the implementation holds the correctly
            # rounded double
            continue
        return "token %d: impl %s model %s" % (i, x, y)
    return None


# ------------------------------------------------------------------------------------------ Scenario.run options

class _Stop(BaseException):
    pass


def gen_runopts(rnd):
    keys = [k for k in ["events", "interval", "stop_time", "n_intervals", "core_standing_time", "margin", "foo", "testing",
                        "CONCURRENCY", "timing"] if rnd.random() < 0.35]
    rnd.shuffle(keys)
    return {"kind": "runopts", "opts": [[k, "=u%d" % i] for i, k in enumerate(keys)], "cst": rnd.random() < 0.5,
            "name": rnd.choice(NAMES)}


def eval_runopts(case):
    from spice_ev import scenario, strategy, events
    j = {"scenario": {"start_time": "2020-01-01T00:00:00", "interval": 15, "n_intervals": 3}, "components": {}, "events": {}}
    if case["cst"]:
        j["scenario"]["core_standing_time"] = {"times": [{"start": [22, 0], "end": [5, 0]}], "no_drive_days": [6]}
    s = real_scenario(j)
    options = {k: Tok(v) for k, v in case["opts"]}
    got = {}

    class Rec:
        def __init__(self, comps, start, **kw):
            got["kw"] = list(kw.items())
            got["comps"] = comps
            got["start"] = start
            raise _Stop()
    orig = strategy.class_from_str
    asked = []

    def cfs(name):
        asked.append(name)
        return Rec
    strategy.class_from_str = cfs
    try:
        try:
            with contextlib.redirect_stdout(io.StringIO()):
                s.run(case["name"], options)
        except _Stop:
            pass
    finally:
        strategy.class_from_str = orig

    def rv(k, v):
        if isinstance(v, Tok):
            return v.s
        if isinstance(v, events.Events):
            return "EV" if v is not s.events else "EV_SHARED"
        if isinstance(v, dict):
            return "CST"
        return rav(v)
    impl_kv = [(k, rv(k, v)) for k, v in got.get("kw", [])]
    same = [(k, rv(k, v)) for k, v in options.items()] == impl_kv and got.get("comps") is s.components \
        and got.get("start") == s.start_time and asked == [case["name"]]
    impl = " ".join(["%d" % len(impl_kv)] + ["%s %s" % kv for kv in impl_kv]) + ("" if same else " caller_dict_differs")
    line = "run_options %d %s EV i%d i%d i%d %s" % (
        len(case["opts"]), " ".join("%s %s" % (k, v) for k, v in case["opts"]), s.interval // US,
        int(rdt(s.stop_time).split()[0]), s.n_intervals, "CST" if case["cst"] else "N")
    return {"lines": [" ".join(line.split())], "impl": [TAG + impl], "violations": [], "nontrivial": True,
            "stats": ["runopts"]}


# ------------------------------------------------------------------------------------------ components

def rj(v):
    if v is None:
        return "n"
    if v is True:
        return "t"
    if v is False:
        return "f"
    if isinstance(v, int):
        return "i%d" % v
    if isinstance(v, float):
        return "r%s" % F(v)
    if isinstance(v, str):
        return enc_s(v)
    if isinstance(v, list):
        return "[" + ",".join(rj(x) for x in v) + "]"
    if isinstance(v, dict):
        return "{" + ",".join("%s:%s" % (enc_s(k), rj(x)) for k, x in v.items()) + "}"
    raise TypeError(v)


def rcurve(c):
    return "C" + ";".join("%s,%s" % (F(x), F(y)) for x, y in c.points) + ":" + str(F(c.max_power))


def rval(v, comps):
    from spice_ev import components, loading_curve, battery
    if v is None:
        return "N"
    if isinstance(v, bool):
        return "b%d" % v
    if isinstance(v, int):
        return "i%d" % v
    if isinstance(v, float):
        return "q%s" % F(v)
    if isinstance(v, str):
        return enc_s(v)
    if isinstance(v, dict):
        return "J" + rj(v)
    if isinstance(v, loading_curve.LoadingCurve):
        return rcurve(v)
    if isinstance(v, components.VehicleType):
        return "T" + enc_s([k for k, t in comps["vehicle_types"].items() if t is v][0])
    if isinstance(v, datetime.datetime):
        return "@"
    if isinstance(v, battery.Battery):
        return "B(%s|%s|%s|%s|%s|%s)" % (F(v.capacity), F(v.soc), F(v.efficiency), rval(v.loss_rate, comps),
                                         rcurve(v.loading_curve), rcurve(v.unloading_curve))
    raise TypeError("cannot render %r" % (v,))


CURVES = [[[0, 11], [1, 11]], [[0, 22.0], [0.8, 22.0], [1, 2.0]], [[1, 0.0], [0, 50], [0.5, 50]], [[0, 3.5], [1.0, 3.5]],
          [[0.0, 0], [1, 0]], [[0, 100], [0.25, 60.5], [0.5, 80], [1, 10]]]
BAD_CURVES = [[], [[0, 11]], [[0.1, 11], [1, 11]], [[0, 11], [0.9, 11]], [[0, 11, 3], [1, 11]], [[0], [1, 11]], [[], [1, 2]],
              "abc", "", 5, None, {}, [1, 2], [[0, 11], 5], True, [[0, 1], [0.5], [1, 1]]]


def wrong(rnd, kind):
    """a value of the wrong JSON type / an edge value for a key of conversion `kind`"""
    pool = [None, "x", "", "12", [], [1], {}, {"a": 1}, True, False, 0, -3, 2.5, 7]
    return rnd.choice(pool)


def gen_components(rnd):
    comp = {}
    gcs = {}
    for i in range(rnd.randint(0, 2)):
        g = {"max_power": rnd.choice([100, 63.5, 0, 1000.0])}
        for k, vals in (("grid_operator", ["default_grid_operator", "op2"]), ("voltage_level", ["MV", "LV", None]),
                        ("current_loads", [{}, {"a": 1.5}]), ("number_cs", [None, 0, 2, 3.0]),
                        ("cost", [{}, {"type": "fixed", "value": 0.3}]), ("target", [None, 10, 12.5]),
                        ("window", [None, True, False])):
            if rnd.random() < 0.4:
                g[k] = rnd.choice(vals)
        gcs["GC%d" % i] = g
    comp["grid_connectors"] = gcs
    comp["charging_stations"] = {"CS%d" % i: dict({"max_power": rnd.choice([11, 22.0, 3.7]), "parent": "GC0"},
                                                  **({"min_power": rnd.choice([0, 1.5])} if rnd.random() < 0.3 else {}),
                                                  **({"current_power": 2.0} if rnd.random() < 0.1 else {}))
                                 for i in range(rnd.randint(0, 2))}
    vts = {}
    for i in range(rnd.randint(0, 2)):
        t = {"name": "t%d" % i, "capacity": rnd.choice([50, 76.5, 8]) if rnd.random() < 0.93 else rnd.choice([0, 0.0, -5]),
             "charging_curve": rnd.choice(CURVES)}
        for k, vals in (("min_charging_power", [0, 0.5, 0, 1, 11, 22, 200]), ("battery_efficiency", [0.95, 1, 0.5]),
                        ("v2g", [True, False, None, 1, 0, "yes", ""]), ("v2g_power_factor", [0.5, 1, 0.25, 0, 2]),
                        ("discharge_limit", [0.5, 0]), ("discharge_curve", CURVES + [None]),
                        ("loss_rate", [0, 0.5, None, 1])):
            if rnd.random() < 0.35:
                t[k] = rnd.choice(vals)
        vts["t%d" % i] = t
    comp["vehicle_types"] = vts
    vs = {}
    for i in range(rnd.randint(0, 3) if (vts or rnd.random() < 0.1) else 0):
        v = {"vehicle_type": rnd.choice(list(vts)) if vts and rnd.random() < 0.93 else rnd.choice(["t0", "nope", 5])}
        for k, vals in (("connected_charging_station", ["CS0", None, "CSx", 5]),
                        ("estimated_time_of_arrival", ["2020-01-01T06:00:00", None, "2020-01-02T06:00:00+02:00"]),
                        ("estimated_time_of_departure", ["2020-01-01T08:00:00", None]),
                        ("desired_soc", [0.8, 1, 0, None]), ("soc", [0.5, 0, 1, -0.25, None, 2]),
                        ("schedule", [None, 5, 2.5])):
            if rnd.random() < 0.4:
                v[k] = rnd.choice(vals)
        vs["V%d" % i] = v
    comp["vehicles"] = vs
    bs = {}
    for i in range(rnd.randint(0, 2)):
        b = {"charging_curve": rnd.choice(CURVES), "parent": "GC0"}
        for k, vals in (("capacity", [100, 50.5, -1, -0.5, 100, 25, 0, None]), ("min_charging_power", [0, 1.5, 0, 0.5, 500]),
                        ("soc", [0, 0.5, 1]), ("efficiency", [0.95, 1]), ("discharge_curve", CURVES + [None]),
                        ("loss_rate", [{}, {"relative": 1.5}, {"fixed_absolute": 1, "fixed_relative": 0.5}, None])):
            if rnd.random() < 0.4:
                b[k] = rnd.choice(vals)
        bs["BAT%d" % i] = b
    comp["batteries"] = bs
    comp["photovoltaics"] = {"PV%d" % i: {"nominal_power": rnd.choice([10, 5.5]), "parent": "GC0"}
                             for i in range(rnd.randint(0, 1))}
    # drop empty sections sometimes, shuffle the section order (the code's order is fixed)
    for k in list(comp):
        if not comp[k] and rnd.random() < 0.5:
            del comp[k]
    r = rnd.random()
    what = "valid"
    if r < 0.5:
        secs = [k for k in comp if comp[k]]
        if secs:
            sec = rnd.choice(secs)
            oid = rnd.choice(list(comp[sec]))
            obj = comp[sec][oid]
            m = rnd.random()
            if m < 0.25 and obj:
                k = rnd.choice(list(obj))
                del obj[k]
                what = "drop"
            elif m < 0.45 and obj:
                k = rnd.choice(list(obj))
                obj[k] = None
                what = "null"
            elif m < 0.8 and obj:
                k = rnd.choice(list(obj))
                if "curve" in k:
                    obj[k] = rnd.choice(BAD_CURVES)
                elif "estimated" in k:
                    obj[k] = rnd.choice(["soon", "", 5, [], "2020-01-01", "2020-01-01T06:00", True])
                else:
                    obj[k] = wrong(rnd, k)
                what = "wrong_type"
            elif m < 0.9:
                comp[sec][oid] = rnd.choice([None, [], "x", 5, {}])
                what = "object_not_dict"
            else:
                comp[sec] = rnd.choice([None, [], "x", 5])
                what = "section_not_dict"
    items = list(comp.items())
    rnd.shuffle(items)
    top = dict(items)
    if rnd.random() < 0.02:
        top = rnd.choice([None, [], "x"])
    return {"kind": "components", "obj": top, "what": what}


def eval_components(case):
    from spice_ev import components
    obj = copy.deepcopy(case["obj"])
    line = "components " + enc_j(case["obj"])
    try:
        with warnings.catch_warnings():
            warnings.simplefilter("ignore")
            c = components.Components(obj)
        cd = vars(c)
        secs = []
        for sec in ("grid_connectors", "charging_stations", "vehicle_types", "vehicles", "batteries", "photovoltaics"):
            objs = []
            for k, o in cd[sec].items():
                attrs = [(a, v) for a, v in vars(o).items() if a != "EPS"]
                objs.append("%s %s" % (enc_s(k), " ".join(["%d" % len(attrs)] + ["%s %s" % (a, rval(v, cd)) for a, v in attrs])))
            secs.append(" ".join(["%d" % len(objs)] + objs))
        impl = " ; ".join(secs)
        ok = True
    except Exception as e:
        impl = err(e)
        ok = False
    return {"lines": [line], "impl": [TAG + impl], "violations": [], "nontrivial": ok,
            "stats": ["components_%s_%s" % (case["what"], impl if not ok else "ok")]}


_NUM = re.compile(r"-?\d+(?:/\d+)?")


def close_tokens(x, y):
    """curve / battery tokens: same skeleton, numbers equal up to the float rounding of `LoadingCurve.clamped`
    (the model clamps exactly; the bit-level tie of `clamped` is C03's)"""
    if _NUM.sub("#", x) != _NUM.sub("#", y):
        return False
    for p, q in zip(_NUM.findall(x), _NUM.findall(y)):
        p, q = F(p), F(q)
        if p != q and abs(p - q) > F(1, 10 ** 12) * max(1, abs(p)):
            return False
    return True


def compare_components(impl, model):
    a, b = impl.split(), model.split()
    if len(a) != len(b):
        return "different shape: impl %s model %s" % (impl[:300], model[:300])
    for i, (x, y) in enumerate(zip(a, b)):
        if x == y or (y == "?" and x.startswith('"')):
            continue
        if x[:1] in "CB" and x[:1] == y[:1] and close_tokens(x, y):
            continue
        return "token %d (%s): impl %s model %s" % (i, a[i - 1] if i else "", x, y)
    return None


# ------------------------------------------------------------------------------------------ simulate.simulate options

_INPUT = {}


def _input_file():
    """one shared, never-changing scenario file for the `input` argument (its content is not read by the recorder)"""
    import os
    import tempfile
    if "p" not in _INPUT or not os.path.exists(_INPUT["p"]):
        p = os.path.join(tempfile.gettempdir(), "s_ctor_input_%d.json" % os.getuid())
        if not os.path.exists(p):
            tmp = "%s.%d" % (p, os.getpid())
            with open(tmp, "w") as f:
                f.write("{}")
            os.replace(tmp, p)
        _INPUT["p"] = p
    return _INPUT["p"]


def gen_simopts(rnd):
    args = {}
    for k, vals in (("cost_calc", [True, False, None]), ("margin", [0.05, 0.5, 1, None]),
                    ("save_timeseries", ["ts.csv", None]), ("save_soc", ["soc.csv", None]),
                    ("save_results", ["r.json", None]), ("testing", [True, False]), ("eta", [True, False]),
                    ("visual", [True, False]), ("cost_parameters_file", ["p.json"]), ("output", ["o.csv"]),
                    ("config", [None])):
        if rnd.random() < 0.5:
            args[k] = rnd.choice(vals)
    r = rnd.random()
    if r < 0.6:
        args["strategy"] = rnd.choice(NAMES)
    elif r < 0.8:
        args["strategy"] = rnd.choice(["Greedy", "GREEDY", "peak", "", None, 5, ["greedy"], "balanced ", "PeakShaving"])
    r = rnd.random()
    if r < 0.7:
        so = []
        for _ in range(rnd.randint(0, 4)):
            k = rnd.choice(["CONCURRENCY", "HORIZON", "margin", "PRICE_THRESHOLD", "LOAD_STRAT", "testing", "timing",
                            "strategy_opps", "foo"])
            v = rnd.choice(["0.5", "1", "24", "-3", "+7.25", ".5", "5.", "needy", "balanced", "", "1.2.3", "-", ".", "0x10",
                            "1a", "--1", 2, 0.25, True])
            so.append([k, v])
        if so and rnd.random() < 0.15:
            i = rnd.randrange(len(so))
            so[i] = rnd.choice([[so[i][0]], so[i] + ["x"], [so[i][0], None], [so[i][0], [1]], 5, None, "abc", "", []])
        args["strategy_option"] = so
    elif r < 0.8:
        args["strategy_option"] = rnd.choice([None, [], 0, 5, "ab", "", False, True, 2.5])
    inp = rnd.choice(["present"] * 8 + ["absent", "none", "int", "missing"])
    return {"kind": "simopts", "args": args, "input": inp}


def eval_simopts(case):
    import simulate
    args = copy.deepcopy(case["args"])
    inp = case["input"]
    state = {"absent": 0, "none": 1, "int": 1, "missing": 2, "present": 3}[inp]
    if inp == "present":
        args["input"] = _input_file()
    elif inp == "none":
        args["input"] = None
    elif inp == "int":
        args["input"] = 5
    elif inp == "missing":
        args["input"] = "/nonexistent/s_ctor/scenario.json"
    line = "simulate_options %d %s" % (state, enc_j(case["args"]))
    got = {}

    class Rec:
        def __init__(self, j, path=""):
            got["loaded"] = j

        def run(self, name, options):
            got["name"] = name
            got["options"] = list(options.items())
            raise _Stop()
    orig = simulate.Scenario
    simulate.Scenario = Rec
    try:
        try:
            simulate.simulate(args)
            impl = "!returned"
        except _Stop:
            impl = "%s %s" % (got["name"], " ".join(["%d" % len(got["options"])] +
                                                   ["%s %s" % (k, rj(v)) for k, v in got["options"]]))
        except BaseException as e:
            if isinstance(e, KeyboardInterrupt):
                raise
            impl = err(e)
    finally:
        simulate.Scenario = orig
    ok = not impl.startswith("!")
    viol = []
    from spice_ev import strategy
    if ok and got["name"] not in strategy.STRATEGIES:
        viol.append(("strategy", "C17:simulate_runs_undocumented_strategy", repr(got["name"])))
    return {"lines": [line], "impl": [TAG + impl], "violations": viol, "nontrivial": ok,
            "stats": ["simopts_" + (impl if not ok else "ok")]}


def compare_simopts(impl, model):
    a, b = impl.split(), model.split()
    if len(a) != len(b):
        return "different shape: impl %s model %s" % (impl[:300], model[:300])
    for i, (x, y) in enumerate(zip(a, b)):
        if x == y:
            continue
        if x.startswith("r") and y.startswith("r") and float(F(x[1:])) == float(F(y[1:])):
            continue            # float("0.1"): the model holds the decimal, Python its nearest double
        return "token %d (%s): impl %s model %s" % (i, a[i - 1] if i else "", x, y)
    return None


# ------------------------------------------------------------------------------------------ util.sanitize

def gen_sanitize(rnd):
    alphabet = 'abcXYZ019_-. </|\\>:"?*' + "\u00e4\u20ac()[]{}'"
    s = "".join(rnd.choice(alphabet) for _ in range(rnd.randint(0, 14)))
    chars = rnd.choice(["", "", "", "/", "abc", ":*", "\u00e4", "<>", " ", "..", 'a"'])
    return {"kind": "sanitize", "s": s, "chars": chars}


def eval_sanitize(case):
    from spice_ev import util
    s, chars = case["s"], case["chars"]
    line = " ".join(["sanitize", "%d" % len(s)] + ["%d" % ord(c) for c in s] + ["%d" % len(chars)] + ["%d" % ord(c) for c in chars])
    try:
        out = util.sanitize(s, chars) if chars else util.sanitize(s)
        impl = " ".join(["%d" % len(out)] + ["%d" % ord(c) for c in out])
        ok = True
    except Exception as e:
        impl, ok = err(e), False
    viol = []
    if ok:
        bad = chars or '</|\\>:"?*'
        if any(c in bad for c in out) or [c for c in s if c not in bad] != list(out):
            viol.append(("sanitize", "C18:sanitize_wrong", "%r -> %r" % (s, out)))
    return {"lines": [line], "impl": [TAG + impl], "violations": viol, "nontrivial": ok and out != s, "stats": ["sanitize"]}


# ------------------------------------------------------------------------------------------ set_options_from_config

_PARSER = {}


def simulate_parser():
    """the argparse parser of simulate.py, rebuilt from the statements of its `if __name__ == "__main__"` block"""
    if "p" not in _PARSER:
        import argparse
        import ast
        from spice_ev.strategy import STRATEGIES
        src = (engine.REPO / "simulate.py").read_text()
        tree = ast.parse(src)
        stmts = []
        for node in tree.body:
            if isinstance(node, ast.If) and "__name__" in ast.dump(node.test):
                for st in node.body:
                    seg = ast.get_source_segment(src, st)
                    if seg.startswith("parser = ") or seg.startswith("parser.add_argument"):
                        stmts.append(seg)
        ns = {"argparse": argparse, "STRATEGIES": STRATEGIES}
        exec("\n".join(stmts), ns)
        _PARSER["p"] = ns["parser"]
    return _PARSER["p"]


CFG_KEYS = ["strategy", "margin", "input", "strategy_option", "cost_calc", "visual", "eta", "save_results", "testing",
            "config", "output", "skip_flex_report", "save_soc", "save_timeseries", "cost_parameters_file", "help"]


def gen_cfg(rnd):
    r = rnd.random()
    if r < 0.08:
        body = rnd.choice(["# comment", "#", "", "   ", "\t", "#strategy = greedy", "  # margin = 1"])
    else:
        k = rnd.choice(CFG_KEYS) if rnd.random() < 0.85 else rnd.choice(["Strategy", "strat", "margins", "", "foo", "save-soc"])
        v = rnd.choice(["greedy", "balanced", "peak_load_window", "Greedy", '"greedy"', '"schedule"', "0.1", "1", "-2",
                        "true", "false", "null", "True", '"0.5"', '"x"', "[1, 2]", '["greedy"]', '[["CONCURRENCY", 0.5]]',
                        '["a", null]', "{}", '{"a": 1}', "examples/scenario.json", "a b", "", "1e", "0.5.1", "[1,",
                        '"unterminated', "1 2", ".5", "+3", "[]", "[true]", '[[1]]', "out#1.json", '"a#b"', "x # note"])
        eq = rnd.choice(["=", "=", "=", " = ", " =", "= ", "  =\t", "==", "", " "])
        body = k + eq + v
        if rnd.random() < 0.05:
            body += rnd.choice(["=x", " = 3"])
    line = rnd.choice(["", "", " ", "\t", "  "]) + body + rnd.choice(["", "", " ", "  ", "\t"])
    return {"kind": "cfg", "line": line, "check": rnd.random() < 0.8}


def eval_cfg(case):
    import argparse
    import json
    import os
    import tempfile
    from spice_ev import util
    line = case["line"]
    # what json.loads says about the text after a single '=' (the model decides itself whether there is one)
    parts = line.strip().split("=")
    parsed = "N"
    raw = None
    if len(parts) == 2:
        raw = parts[1].strip()
        try:
            parsed = "S " + enc_j(json.loads(raw))
        except ValueError:
            parsed = "N"
    mline = " ".join(["cfg_line", "1" if case["check"] else "0", "%d" % len(line)] + ["%d" % ord(c) for c in line] + [parsed])
    f = tempfile.NamedTemporaryFile("w", suffix=".cfg", prefix="s_ctor_", delete=False, encoding="utf-8")
    f.write(line + "\n")
    f.close()
    ns = argparse.Namespace(config=f.name)
    try:
        with contextlib.redirect_stdout(io.StringIO()), contextlib.redirect_stderr(io.StringIO()):
            util.set_options_from_config(ns, check=simulate_parser() if case["check"] else None, verbose=False)
        new = {k: v for k, v in vars(ns).items() if not (k == "config" and v == f.name)}
        if not new:
            impl = "skip"
        else:
            (k, v), = new.items()
            val = ('"' + v) if (parsed == "N" and isinstance(v, str)) else rj(v)
            impl = "set %s %s" % (" ".join(["%d" % len(k)] + ["%d" % ord(c) for c in k]), val)
        ok = True
    except BaseException as e:
        if isinstance(e, KeyboardInterrupt):
            raise
        impl, ok = err(e), False
    finally:
        os.unlink(f.name)
    return {"lines": [mline], "impl": [TAG + impl], "violations": [], "nontrivial": ok and impl != "skip",
            "stats": ["cfg_" + (impl.split()[0] if ok else impl)]}


# ------------------------------------------------------------------------------------------ check interface

GEN = {"time": gen_time, "legacy": gen_legacy, "class": gen_class, "stratinit": gen_stratinit, "runopts": gen_runopts,
       "components": gen_components, "simopts": gen_simopts, "sanitize": gen_sanitize, "cfg": gen_cfg}
EVAL = {"time": eval_time, "legacy": eval_legacy, "class": eval_class, "stratinit": eval_stratinit,
        "runopts": eval_runopts, "components": eval_components, "simopts": eval_simopts, "sanitize": eval_sanitize,
        "cfg": eval_cfg}
QUICK = {"time": 3000, "legacy": 600, "class": 800, "stratinit": 1500, "runopts": 400, "components": 3000, "simopts": 2000,
         "sanitize": 1000, "cfg": 1500}


BLOCK = 100


def cases_for(kinds, tier, seed, pid="S_CTOR"):
    """block cases of the given streams (a block = BLOCK generated inputs, re-derived from (pid, kind, seed, block))"""
    for kind in kinds:
        n = QUICK[kind] * (1 if tier == "quick" else 10)
        for b in range((n + BLOCK - 1) // BLOCK):
            yield {"ctor": True, "kind": kind, "seed": seed, "block": b, "pid": pid}


def block_cases(case):
    kind = case["kind"]
    rnd = random.Random("%s:%s:%s:%s" % (case["pid"], kind, case["seed"], case["block"]))
    out = []
    if kind == "class" and case["block"] == 0:
        out += [{"kind": "class", "name": name} for name in
                NAMES + [x.upper() for x in NAMES] + [CLASS_OF[x] for x in NAMES]]
    while len(out) < BLOCK:
        out.append(GEN[kind](rnd))
    return out


def gen_cases(tier, seed):
    return cases_for(list(GEN), tier, seed)


def eval_case(case):
    if "block" not in case:
        return EVAL[case["kind"]](case)
    res = {"lines": [], "impl": [], "violations": [], "nontrivial": False, "stats": []}
    for sub in block_cases(case):
        r = EVAL[sub["kind"]](sub)
        res["lines"] += r["lines"]
        res["impl"] += r["impl"]
        res["stats"] += r["stats"]
        res["nontrivial"] = res["nontrivial"] or r["nontrivial"]
        if r["violations"] and not res["violations"]:
            res["violations"] = r["violations"]
            res["replay_case"] = dict(sub, ctor=True)
    return res


def compare(case, impl, model):
    """`impl` may carry the tag (stand-alone check) or not (dispatched by steptie.compare)"""
    if impl.startswith(TAG):
        impl = impl[len(TAG):]
    if impl == model:
        return None
    if model.startswith("!") or impl.startswith("!"):
        return "impl %s model %s" % (impl[:200], model[:200])
    if " ts_per_hour " in impl:
        return compare_stratinit(impl, model)
    if " cost_calculation " in impl:
        return compare_simopts(impl, model)
    if " ; " in model and model.count(" ; ") == 5:
        return compare_components(impl, model)
    a, b = impl.split(), model.split()
    for i, (x, y) in enumerate(zip(a, b)):
        if x != y:
            return "token %d: impl %s model %s" % (i, x, y)
    return "different shape: impl %s model %s" % (impl[:300], model[:300])
