/- Library root.  All modules under SpiceEv/ are built through the `globs` entry of lakefile.toml;
   see Driver.lean for the executable model and SpiceEv/Properties/Cxx.lean for the theorems. -/
import SpiceEv.Py
import SpiceEv.Wire
