"""Property oracles evaluated on the outputs and the per-step trace of REAL simulation runs
(independent Python statements of C04, C05, C06, C17) and the adapter that renders a recorded run
for the Lean run-loop model (`runloop` driver command)."""
import datetime
import math

from wire import enc

EPS = 1e-5


def fdt(s):
    return datetime.datetime.fromisoformat(s)


def ceil_div(a, b):
    return -((-a) // b)


def expected_limits(case):
    """independent statement of 'currently valid limit = min(rating, latest operator limit)':
    per connector a list with one limit per step"""
    scn = case["scenario"]
    t0 = fdt(scn["scenario"]["start_time"])
    dt = datetime.timedelta(minutes=scn["scenario"]["interval"])
    n = scn["scenario"]["n_intervals"]
    out = {}
    for gid, gc in scn["components"]["grid_connectors"].items():
        rating = float(gc["max_power"])
        evs = []
        for idx, e in enumerate(scn["events"].get("grid_operator_signals", [])):
            if e["grid_connector_id"] != gid or e.get("max_power") is None:
                continue
            start, sig = fdt(e["start_time"]), fdt(e["signal_time"])
            bucket = max(0, ceil_div(sig - t0, dt))
            k = max(bucket, ceil_div(start - t0, dt))
            # simultaneous events: the one that became known later is the latest
            evs.append((k, start, bucket, idx, float(e["max_power"])))
        lims, cur = [], rating
        for t in range(n):
            for k, start, bucket, idx, mp in sorted(e for e in evs if e[0] == t):
                cur = min(rating, mp) if rating else mp
            lims.append(cur)
        out[gid] = lims
    return out


def expected_costs(case):
    """independent statement of 'the price in force = the cost of the latest operator signal that carries one' (latest by
    effect step, then start time, then arrival): per connector one cost dict per step"""
    scn = case["scenario"]
    t0 = fdt(scn["scenario"]["start_time"])
    dt = datetime.timedelta(minutes=scn["scenario"]["interval"])
    n = scn["scenario"]["n_intervals"]
    out = {}
    for gid, gc in scn["components"]["grid_connectors"].items():
        evs = []
        for idx, e in enumerate(scn["events"].get("grid_operator_signals", [])):
            if e["grid_connector_id"] != gid or e.get("cost") is None:
                continue
            start, sig = fdt(e["start_time"]), fdt(e["signal_time"])
            bucket = max(0, ceil_div(sig - t0, dt))
            evs.append((max(bucket, ceil_div(start - t0, dt)), start, bucket, idx, e["cost"]))
        costs, cur = [], gc.get("cost")
        for t in range(n):
            for _, _, _, _, c in sorted((e for e in evs if e[0] == t), key=lambda e: e[:4]):
                cur = c
            costs.append(cur)
        out[gid] = costs
    return out


def classify(case, r, t, gid):
    """narrow trigger description of a limit break at step t (used in violation keys)"""
    tr = r["trace"][t]["post_strategy"]
    g = tr["gcs"][gid]
    cs_keys, gen_keys = set(r["cs_keys"]), set(r["gen_keys"])
    bats = set(case["scenario"]["components"].get("batteries", {}))
    kinds = set()
    gen = fixed = 0.0
    amount = {"cs": [0.0, 0.0], "bat": [0.0, 0.0]}     # [drawn, fed back] by stations / stationary batteries
    for k, v in g["loads"]:
        if k in cs_keys:
            amount["cs"][0 if v > 0 else 1] += abs(v)
            if v > EPS:
                kinds.add("cs_charge")
            elif v < -EPS:
                kinds.add("cs_discharge")
        elif k in bats:
            amount["bat"][0 if v > 0 else 1] += abs(v)
            if v > EPS:
                kinds.add("bat_charge")
            elif v < -EPS:
                kinds.add("bat_discharge")
        elif k in gen_keys:
            gen -= v
        else:
            fixed += v
    ctx = []
    if gen - fixed > EPS:
        ctx.append("surplus")
    if g["cur_max_power"] < g["max_power"]:
        ctx.append("oplimit")
    classify.amount = amount
    return "+".join(sorted(kinds)) or "none", "+".join(ctx) or "plain", fixed, gen


def strat_label(case):
    """strategy name in violation keys; flex_window is split by its sub-strategy class (the balanced sub-strategy is the
    one the properties name; greedy and needy share the peak-shaving passes)"""
    st = case["strategy"]
    if st == "flex_window":
        return "flex_window:" + ("balanced" if case["options"].get("LOAD_STRAT", "balanced") == "balanced"
                                 else "peak_shaving_passes")
    return st


def base_within(g, fixed, gen):
    """fixed load and generation alone (feed-in curtailed at the rating) respect the limit"""
    base = max(-g["max_power"], fixed - gen)
    return abs(base) <= g["cur_max_power"] + EPS


def check_c04(case, r):
    v = []
    if r.get("step_i") is None:
        return v
    lims = expected_limits(case)
    strat = case["strategy"]
    for t in range(r["step_i"]):
        tr = r["trace"][t]["post_strategy"]
        last_aborted = (t == r["step_i"] - 1) and r["aborted"]
        for gid, g in tr["gcs"].items():
            load = r["totalLoad"][gid][t]
            lim = lims[gid][t]
            # (the failing step of an aborted run is reported from partial state - distributed raises the limit for a
            # battery and an exception in the sub-strategy leaves it raised; the run is flagged at that step - I.7)
            if g["cur_max_power"] != lim and not r["trace"][t].get("event_error") \
                    and not (r["trace"][t].get("strat_error") and t == r["step_i"] - 1 and r["aborted"]):
                v.append(("current_limit", "C04:current_limit_not_min_rating_latest_signal",
                          "step %d %s: cur_max_power=%r expected %r" % (t, gid, g["cur_max_power"], lim)))
            if abs(load) > lim + EPS:
                if not last_aborted:
                    v.append(("monitor", "C04:limit_exceeded_but_reported_valid",
                              "step %d %s: |%r| > %r and run continued / not flagged" % (t, gid, load, lim)))
                kinds, ctx, fixed, gen = classify(case, r, t, gid)
                failing = r["trace"][t].get("event_error") or r["trace"][t].get("strat_error")
                if base_within(g, fixed, gen) and not failing:
                    # who contributes most in the direction of the overshoot
                    am = classify.amount
                    d = 0 if load > 0 else 1
                    who = "none" if max(am["cs"][d], am["bat"][d]) <= EPS else (
                        "vehicles" if am["cs"][d] >= am["bat"][d] else "batteries")
                    opt = case.get("options") or {}
                    if strat == "peak_load_window" or (strat == "distributed" and "peak_load_window" in (
                            opt.get("strategy_deps"), opt.get("strategy_opps"))):
                        # after the repairs PLW1/PLW2 one mechanism is left: the level accounted for the current step
                        # is re-simulated from its own average, which is not the identity at NEGATIVE SoC (B14)
                        pe = r["trace"][t].get("post_events")
                        neg = pe is not None and any(
                            vs["soc"] < 0 and vs["cs"] is not None and abs(dict(g["loads"]).get(vs["cs"], 0.0)) > EPS
                            for vs in pe["vehicles"].values())
                        who += ":negative_soc_resimulation" if neg else ""
                    if strat == "flex_window" and strat_label(case).endswith("balanced") and load < 0 \
                            and "cs_discharge" in kinds and "bat_discharge" in kinds and not g.get("window"):
                        # the one mechanism the balanced sub-strategy is not proved free of (notes/S_FLEX_WINDOW.md, 3a):
                        # outside a window the battery pass discharges after the V2G pass has already made the load negative
                        who = "v2g_then_battery_discharge"
                    v.append(("strategy_respects_limit",
                              "C04:strategy_breaks_limit:%s:%s:%s" % (
                                  strat_label(case), "draw" if load > 0 else "feedin", who),
                              "step %d %s: load %r limit %r (fixed %r, generation %r alone are within; "
                              "contributors %s (%s); context %s)" % (t, gid, load, lim, fixed, gen, kinds, who, ctx)))
    return v


def curve_max_on(points, a, b):
    """max of the piecewise-linear curve on [a,b] (clipped to [0,1])"""
    lo, hi = max(0.0, min(a, b)), min(1.0, max(a, b))
    pts = sorted((float(x), float(y)) for x, y in points)

    def at(s):
        if s <= pts[0][0]:
            return pts[0][1]
        for p, q in zip(pts, pts[1:]):
            if s <= q[0]:
                return p[1] + (q[1] - p[1]) * (s - p[0]) / (q[0] - p[0])
        return pts[-1][1]
    cand = [at(lo), at(hi)] + [y for x, y in pts if lo <= x <= hi]
    return max(cand)


def vehicle_info(case, vid):
    comp = case["scenario"]["components"]
    veh = comp["vehicles"][vid]
    vt = comp["vehicle_types"][veh["vehicle_type"]]
    return veh, vt


def check_c05(case, r):
    v = []
    if r.get("step_i") is None:
        return v
    comp = case["scenario"]["components"]
    conc = r["concurrency"]
    strat = case["strategy"]
    cs_keys = set(r["cs_keys"])
    for t in range(r["step_i"]):
        pre = r["trace"][t]["post_events"]
        tr = r["trace"][t]["post_strategy"]
        if r["trace"][t].get("event_error") or r["trace"][t].get("strat_error"):
            continue   # failing step: reported from the stale/dummy state, run flagged as aborted (C17)
        by_cs = {}
        for vid, vs in tr["vehicles"].items():
            if vs["cs"] is not None:
                by_cs.setdefault(vs["cs"], []).append(vid)
        if t == 0:
            for k, c in tr["css"].items():
                want = float(comp["charging_stations"][k]["max_power"]) * conc
                if k in comp["charging_stations"] and c["max_power"] != want:
                    v.append(("concurrency", "C05:station_maximum_not_concurrency_scaled",
                              "%s: strategy uses %r, CONCURRENCY * rating = %r" % (k, c["max_power"], want)))
        for gid, g in tr["gcs"].items():
            for k, load in g["loads"]:
                if k not in cs_keys:
                    continue
                cmax = float(comp["charging_stations"][k]["max_power"]) * conc
                direction = "charge" if load > 0 else "discharge"
                if abs(load) > cmax + EPS:
                    v.append(("station_limit", "C05:station_limit:%s:%s" % (strat_label(case), direction),
                              "step %d %s: |%r| > %r" % (t, k, load, cmax)))
                if abs(load) > EPS and not by_cs.get(k):
                    v.append(("only_connected", "C05:power_without_connected_vehicle:%s" % strat,
                              "step %d %s carries %r without a connected vehicle" % (t, k, load)))
                for vid in by_cs.get(k, [])[:1]:
                    veh, vt = vehicle_info(case, vid)
                    if load < -EPS and not vt.get("v2g", False):
                        v.append(("no_v2g_no_discharge", "C05:discharge_without_v2g:%s" % strat,
                                  "step %d %s: %r at %s" % (t, vid, load, k)))
                    if pre is None or vid not in pre["vehicles"]:
                        continue
                    s0, s1 = pre["vehicles"][vid]["soc"], tr["vehicles"][vid]["soc"]
                    if len(by_cs[k]) > 1 or s0 < 0:
                        continue   # curves are defined on [0,1]
                    nops = len([o for o in r["trace"][t].get("ops", []) if o[1] == "veh:" + vid
                                and abs(o[4]) > EPS])
                    multi = "several_battery_calls_in_one_step" if nops > 1 else "single_battery_call"
                    if load > EPS:
                        bound = curve_max_on(vt["charging_curve"], s0, s1)
                        if load > bound * (1 + 1e-9) + EPS:
                            v.append(("vehicle_curve", "C05:above_charging_curve:%s:%s" % (strat, multi),
                                      "step %d %s: %r > curve max %r on [%r,%r]" % (t, vid, load, bound, s0, s1)))
                    elif load < -EPS:
                        dc = vt.get("discharge_curve") or [
                            [x, float(vt.get("v2g_power_factor", 0.5)) * y] for x, y in vt["charging_curve"]]
                        bound = curve_max_on(dc, s0, s1)
                        if -load > bound * (1 + 1e-9) + EPS:
                            v.append(("vehicle_curve", "C05:above_discharge_curve:%s:%s" % (strat, multi),
                                      "step %d %s: %r > discharge curve max %r" % (t, vid, -load, bound)))
        # commands only for stations (reported results)
        for k, p in r["results"][t]["commands"].items():
            if abs(p) > EPS and not by_cs.get(k):
                v.append(("only_connected", "C05:command_without_connected_vehicle:%s" % strat,
                          "step %d command %s=%r" % (t, k, p)))
    return v


def close(a, b, rel=1e-9, ab=1e-9):
    return abs(a - b) <= ab + rel * max(abs(a), abs(b))


def check_c06(case, r):
    v = []
    if r.get("step_i") is None:
        return v
    comp = case["scenario"]["components"]
    strat = case["strategy"]
    dt_h = case["scenario"]["scenario"]["interval"] / 60.0
    cs_keys = set(r["cs_keys"])
    vids = r["vehicle_ids_sorted"]
    for t in range(r["step_i"]):
        rec = r["trace"][t]
        pre, tr, post = rec["post_events"], rec["post_strategy"], rec["post_losses"]
        if rec.get("event_error") or rec.get("strat_error"):
            # the failing step is reported from the dummy/partial state and the run is flagged as aborted
            continue
        for gid, g in tr["gcs"].items():
            total = sum(x for _, x in g["loads"])
            want = max(-g["max_power"], total)
            got = r["totalLoad"][gid][t]
            if not close(got, want):
                v.append(("gc_sum", "C06:connector_power_not_sum_of_loads:%s" % strat,
                          "step %d %s: reported %r, loads sum (curtailed) %r" % (t, gid, got, want)))
            rep = sum(r["fixedLoads"][gid][t].values()) + sum(r["connChargeByTS"][gid][t].values())
            if not close(got, max(-g["max_power"], rep)):
                v.append(("gc_sum", "C06:connector_power_not_sum_of_reported_components:%s" % strat,
                          "step %d %s: reported %r, reported components sum %r" % (t, gid, got, rep)))
        # the step's commands name every station that carries power (reports read the commands)
        cmds = r["results"][t]["commands"] if t < len(r.get("results", [])) else None
        if cmds is not None:
            for gid, g in tr["gcs"].items():
                for k, x in g["loads"]:
                    if k in cs_keys and abs(x) > EPS and not close(cmds.get(k, 0.0), x):
                        v.append(("gc_sum", "C06:station_power_not_in_commands:%s" % strat,
                                  "step %d %s: connector %s carries %r, command %r" % (t, k, gid, x, cmds.get(k))))
        if pre is None:
            continue
        # vehicles
        cs_load = {}
        for gid, g in tr["gcs"].items():
            for k, x in g["loads"]:
                cs_load[k] = x
        n_at_cs = {}
        for vid, vs in tr["vehicles"].items():
            if vs["cs"]:
                n_at_cs[vs["cs"]] = n_at_cs.get(vs["cs"], 0) + 1
        for vi, vid in enumerate(vids):
            veh, vt = vehicle_info(case, vid)
            s0, s1 = pre["vehicles"][vid]["soc"], tr["vehicles"][vid]["soc"]
            cs = tr["vehicles"][vid]["cs"]
            cap, eta = float(vt["capacity"]), float(vt.get("battery_efficiency", 0.95))
            if s1 > 1 + 1e-12:
                v.append(("capacity", "C06:soc_above_one:%s" % strat, "step %d %s soc %r" % (t, vid, s1)))
            if cs is None or cs not in cs_keys:
                if s1 != s0:
                    v.append(("disconnected_const", "C06:disconnected_vehicle_soc_changed:%s" % strat,
                              "step %d %s: %r -> %r" % (t, vid, s0, s1)))
                continue
            if n_at_cs.get(cs, 0) > 1:
                continue
            p = cs_load.get(cs, 0)
            want = p * dt_h * eta / cap if p >= 0 else p * dt_h / (eta * cap)
            if not close(s1 - s0, want, rel=1e-7, ab=1e-9):
                # a step with both a charge and a discharge of this battery is judged on its operations
                ops = [o for o in rec.get("ops", []) if o[1] == "veh:" + vid]
                # the operations that were kept: the chain that leads from the SoC before the strategy step to
                # the SoC after it (look-ahead probes on the real object are restored and are not on the chain)
                cands, chain, cur = [ops], [], s1
                for o in reversed(ops):
                    if o[3] == cur:
                        chain.append(o)
                        cur = o[2]
                        if cur == s0:
                            cands.append(list(chain))
                ok = False
                for c in cands:
                    c_want = sum((o[4] * dt_h * eta / cap) if o[0] == "load" else (-o[4] * dt_h / (eta * cap))
                                 for o in c)
                    c_net = sum(o[4] if o[0] == "load" else -o[4] for o in c)
                    # (an operation below EPS in power still moves the SoC by more than the tolerance of this clause:
                    # a 5e-6 kW V2G correction after a 5.5 kW charge surfaced with overdue vehicles in the grammar)
                    kinds = set(o[0] for o in c)
                    if len(kinds) == 2 and close(s1 - s0, c_want, rel=1e-7, ab=1e-9) and close(p, c_net):
                        ok = True
                if not ok:
                    v.append(("energy_step", "C06:vehicle_energy_not_power_times_time:%s" % strat,
                              "step %d %s: dSoC %r, station power %r => expected %r"
                              % (t, vid, s1 - s0, p, want)))
            if r["socs"][t][vi] is not None and pre["vehicles"][vid]["cs"] is not None \
                    and r["socs"][t][vi] != pre["vehicles"][vid]["soc"]:
                v.append(("reported_soc", "C06:reported_soc_differs:%s" % strat,
                          "step %d %s: reported %r, state %r" % (t, vid, r["socs"][t][vi], s0)))
            # vehicles carry no self-discharge in the scenario space
            if post["vehicles"][vid]["soc"] != s1:
                v.append(("losses", "C06:vehicle_soc_changed_by_losses", "step %d %s" % (t, vid)))
        # stationary batteries
        for bid, b in comp.get("batteries", {}).items():
            cap = float(b.get("capacity", -1))
            cap = cap if cap >= 0 else 2.0 ** 64
            eta = float(b.get("efficiency", 0.95))
            s0, s1, s2 = pre["batteries"][bid]["soc"], tr["batteries"][bid]["soc"], post["batteries"][bid]["soc"]
            p = dict(tr["gcs"].get(b["parent"], {"loads": []})["loads"]).get(bid, 0)
            want = p * dt_h * eta / cap if p >= 0 else p * dt_h / (eta * cap)
            if not close(s1 - s0, want, rel=1e-7, ab=1e-9):
                v.append(("energy_step", "C06:battery_energy_not_power_times_time:%s" % strat,
                          "step %d %s: dSoC %r, power %r => expected %r" % (t, bid, s1 - s0, p, want)))
            if s1 > 1 + 1e-12:
                v.append(("capacity", "C06:battery_soc_above_one:%s" % strat, "step %d %s soc %r" % (t, bid, s1)))
            lr = b.get("loss_rate") or {}
            if lr:
                want2 = max(s1 * (1 - lr.get("relative", 0) / 100) - lr.get("fixed_relative", 0) / 100
                            - lr.get("fixed_absolute", 0) / cap, 0)
            else:
                want2 = s1
            if not close(s2, want2, rel=1e-12, ab=1e-15):
                v.append(("losses", "C06:self_discharge_formula", "step %d %s: %r -> %r, expected %r"
                          % (t, bid, s1, s2, want2)))
            if s1 >= 0 and not (0 <= s2 <= s1):
                v.append(("losses", "C06:self_discharge_raises_or_negative", "step %d %s: %r -> %r"
                          % (t, bid, s1, s2)))
            if not close(r["batteryLevels"][bid][t], s0 * cap, rel=1e-12, ab=1e-12):
                v.append(("reported_soc", "C06:reported_battery_level_differs",
                          "step %d %s: %r vs %r" % (t, bid, r["batteryLevels"][bid][t], s0 * cap)))
    return v


def check_c17(case, r, fault_step=None):
    v = []
    strat = case["strategy"]
    if r.get("timeout"):
        v.append(("terminates", "C17:run_did_not_terminate:%s" % strat, "watchdog fired"))
        return v
    if r.get("escaped"):
        where = (r.get("escaped_tb") or "").strip().split("\n")
        site = ""
        for ln in reversed(where):
            if "File" in ln and "spice_ev" in ln:
                site = ln.strip().split(",")[0].split("/")[-1].strip('"') + ":" + ln.strip().split(" in ")[-1]
                break
        v.append(("no_crash", "C17:exception_escaped:%s:%s:%s" % (strat, r["escaped"].split(":")[0], site),
                  r["escaped"][:300]))
        return v
    n, si = r["n_intervals"], r["step_i"]
    gcs = list(case["scenario"]["components"]["grid_connectors"])
    lens = {"socs": len(r["socs"]), "disconnect": len(r["disconnect"]), "connected": len(r["connected"]),
            "results": len(r["results"])}
    for gid in gcs:
        for name in ("totalLoad", "fixedLoads", "connChargeByTS", "localGenerationPower", "prices",
                     "gcPowerSchedule", "gcWindowSchedule"):
            lens["%s[%s]" % (name, gid)] = len(r[name][gid])
    for bid in r["batteryLevels"]:
        lens["batteryLevels[%s]" % bid] = len(r["batteryLevels"][bid])
    bad = {k: x for k, x in lens.items() if x != si}
    if bad:
        v.append(("equal_length", "C17:series_length_differs_from_step_count", "step_i=%d %r" % (si, bad)))
    if r["aborted"] and si > n:
        v.append(("run_shape", "C17:more_steps_than_configured", "%d > %d" % (si, n)))
    if not r["aborted"] and si != n:
        v.append(("run_shape", "C17:unflagged_short_run", "step_i=%d n=%d not labelled aborted" % (si, n)))
    errs = [i for i, rec in enumerate(r["trace"]) if rec.get("event_error") or rec.get("strat_error")]
    if errs:
        if not r["aborted"]:
            v.append(("loud", "C17:error_swallowed:%s" % strat, "error at step %d, run not flagged" % errs[0]))
        if si != errs[0] + 1:
            v.append(("loud", "C17:run_did_not_stop_at_failing_step:%s" % strat,
                      "error at step %d, step_i=%d" % (errs[0], si)))
    # "a violated safety check is not silently ignored: the run stops at that step": every reported step but the last one
    # of a run flagged as aborted keeps every connector within the limit the code itself holds for that step
    for t in range(si):
        if t == si - 1 and r["aborted"]:
            continue
        tr = r["trace"][t].get("post_strategy")
        if not tr:
            continue
        for gid, g in tr["gcs"].items():
            if g.get("cur_max_power") is None or t >= len(r["totalLoad"][gid]):
                continue
            load = r["totalLoad"][gid][t]
            if load is not None and abs(load) > g["cur_max_power"] + EPS:
                v.append(("loud", "C17:violated_safety_check_ignored:%s" % strat,
                          "step %d %s: |%r| > %r and the run went on (step_i=%d, aborted=%s)"
                          % (t, gid, load, g["cur_max_power"], si, r["aborted"])))
                return v
    inj = [i for i, rec in enumerate(r["trace"]) if rec.get("injected")]
    if inj:
        if not r["aborted"] or si != inj[0] + 1:
            v.append(("loud", "C17:injected_fault_not_reported:%s" % strat,
                      "fault at %d, step_i=%d aborted=%s" % (fault_step, si, r["aborted"])))
    return v


# ------------------------------------------------------------------------------------------
# adapter: recorded run -> `runloop` protocol line, and the implementation's outputs in the
# driver's output format

def check_c07_keeps(case, r):
    """C07, run level: the concrete strategy's own step (between the end of the base class's event processing and the
    battery losses) leaves the pending event queue and the event-set connector attributes (limit, cost, target, window,
    fixed-load / generation entries) exactly as they were — except what the strategy writes by design
    (`keeps.written_by_design`). Evaluated on every step of a real run in which neither part raised."""
    import keeps
    out = []
    opts = case.get("options", {})
    skip = keeps.written_by_design(case["strategy"], sub=[opts.get("strategy_deps", "balanced"),
                                                         opts.get("strategy_opps", "greedy")])
    for t, rec in enumerate(r.get("trace") or []):
        a, b = rec.get("post_events"), rec.get("post_strategy")
        if not a or not b or rec.get("event_error") or "keeps" not in a or "keeps" not in b:
            continue
        if r.get("aborted") and t == len(r["trace"]) - 1:
            continue                      # the failing step: the strategy raised half-way, the run ends here (C17)
        ka, kb = a["keeps"], b["keeps"]
        if ka["queue"] != kb["queue"]:
            out.append(("keeps_queue", "C07:keeps:queue:%s" % case["strategy"],
                        "step %d: future_events before the strategy's step %s, after %s" % (t, ka["queue"][:6], kb["queue"][:6])))
        for gid, attrs in ka["attrs"].items():
            after = kb["attrs"].get(gid)
            if after is None:
                out.append(("keeps_attrs", "C07:keeps:connector_removed:%s" % case["strategy"], "step %d: %s" % (t, gid)))
                continue
            for k in keeps.ATTRS:
                if k in skip:
                    continue
                if attrs[k] != after[k]:
                    out.append(("keeps_attrs", "C07:keeps:%s:%s" % (k, case["strategy"]),
                                "step %d connector %s: %s before the strategy's step %s, after %s"
                                % (t, gid, k, attrs[k], after[k])))
        for vid, attrs in ka.get("vehicles", {}).items():
            after = kb.get("vehicles", {}).get(vid)
            if after is None:
                out.append(("keeps_vehicle", "C07:keeps:vehicle_removed:%s" % case["strategy"], "step %d: %s" % (t, vid)))
                continue
            for k in keeps.VATTRS:
                if k not in skip and attrs[k] != after[k]:
                    out.append(("keeps_vehicle", "C07:keeps:vehicle_%s:%s" % (k, case["strategy"]),
                                "step %d vehicle %s: %s before the strategy's step %s, after %s"
                                % (t, vid, k, attrs[k], after[k])))
        if len(out) >= 3:
            break
    return out[:3]


def tokf(x):
    return enc(float(x))


def runloop_line(case, r):
    n = r["n_intervals"]
    gen = r["gen_keys"]
    parts = ["runloop f", tokf(EPS), str(len(gen))] + list(gen) + [str(n), str(len(r["trace"]))]
    vids = r["vehicle_ids_sorted"]
    for rec in r["trace"]:
        w = rec["post_losses"]
        parts.append("1" if rec.get("event_error") else "0")
        parts.append("1" if rec.get("strat_error") else "0")
        parts.append(str(len(w["gcs"])))
        for gid, g in w["gcs"].items():
            parts += [gid, tokf(g["max_power"]), tokf(g["cur_max_power"]), str(len(g["loads"]))]
            for k, x in g["loads"]:
                parts.append(k)
                parts.append("N" if (isinstance(x, int) and x == 0) else "S " + tokf(x))
        st = []
        for vid in vids:
            cs = w["vehicles"][vid]["cs"]
            if cs is not None and cs in w["css"]:
                st.append((cs, w["css"][cs]["parent"], w["css"][cs]["max_power"]))
        parts.append(str(len(st)))
        for cs, parent, mp in st:
            parts += [cs, parent, tokf(mp)]
    return " ".join(parts)


def runloop_impl(case, r):
    gcs = list(r["totalLoad"].keys())
    steps = []
    for t in range(r["step_i"]):
        ok = not (r["aborted"] and t == r["step_i"] - 1)
        steps.append(("1" if ok else "0") + " " + " ".join(tokf(r["totalLoad"][g][t]) for g in gcs) + " ; "
                     + " ".join(tokf(r["localGenerationPower"][g][t]) for g in gcs))
    return "%d %s | " % (r["step_i"], "1" if r["aborted"] else "0") + " | ".join(steps)


def runloop_compare(impl, model):
    """numbers compared by value (+0.0 == -0.0), everything else textually"""
    from wire import dec
    a, b = impl.split(), model.split()
    if len(a) != len(b):
        return "different shape: %d vs %d tokens" % (len(a), len(b))
    for i, (x, y) in enumerate(zip(a, b)):
        if x == y:
            continue
        if x.startswith("x") and y.startswith("x"):
            fx, fy = dec(x), dec(y)
            if fx == fy or (math.isnan(fx) and math.isnan(fy)):
                continue
            return "token %d: impl %r model %r" % (i, fx, fy)
        return "token %d: impl %s model %s" % (i, x, y)
    return None
