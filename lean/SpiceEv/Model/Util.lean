/-
Model of the time-window helpers of spice_ev/util.py
  datetime_within_time_window, dt_within_core_standing_time, get_time_windows_from_json
and of Schedule.dt_to_end_of_time_window (spice_ev/strategies/schedule.py), transliterated
statement by statement on the datetime model of SpiceEv/Time.lean.  Core Lean only.

Representation (what the harness adapter copies field by field):
* `date` → ordinal, `time` → µs since midnight, `datetime` → `DateTime`, `timedelta` → µs;
* dicts → insertion-ordered association lists; a missing key is `none` where the code
  distinguishes it (`.get(k, default)` vs `[k]`);
* the `holidays` list holds ISO strings in Python and the code tests `dt.date().isoformat() in
  holidays`; the adapter sends the ordinal of every entry that is a canonical ISO date and 0 (which
  is no date) for any other string, so membership of the date ordinal is the same test.
-/
import SpiceEv.Py
import SpiceEv.Time
namespace SpiceEv

/-! ## datetime_within_time_window -/

/-- one season of a grid operator's window table -/
structure Season where
  /-- `season["start"]`, date ordinal -/
  start : Int
  /-- `season["end"]`, date ordinal -/
  stop : Int
  /-- `season["windows"]`: voltage level ↦ list of `(start, end)` times of day; `none` = no such key -/
  windows : Option (List (String × List (Int × Int))) := none
  deriving Repr, DecidableEq

/-- `season.get("windows", {}).get(voltage_level, [])` -/
def Season.levelWindows (s : Season) (level : String) : List (Int × Int) :=
  ((s.windows.getD []).lookup level).getD []

/-- the `for window in windows:` loop; `t = dt.time()` -/
def windowsLoop (t : Int) : List (Int × Int) → Bool
  | [] => false                                     -- "same season, but not within time windows"
  | w :: ws =>
    if w.2 < w.1 then
      -- crossing midnight
      if decide (t ≥ w.1) || decide (t < w.2) then true else windowsLoop t ws
    else if decide (w.1 ≤ t) && decide (t < w.2) then true
    else windowsLoop t ws

/-- `datetime_within_time_window(dt, time_windows, voltage_level)`;
`seasons = time_windows.values()` in insertion order -/
def datetimeWithinTimeWindow (dt : DateTime) (seasons : List Season) (level : String) : Bool :=
  match seasons with
  | [] => false
  | s :: rest =>
    if decide (s.start ≤ dt.date) && decide (dt.date ≤ s.stop) then
      -- same season: check times of voltage level, skip other seasons
      windowsLoop dt.time (s.levelWindows level)
    else datetimeWithinTimeWindow dt rest level

/-! ## dt_within_core_standing_time -/

/-- `datetime.time(*args)` for integer positional arguments -/
def pyTime (args : List Int) : Py Int :=
  let mk (h m s us : Int) : Py Int :=
    match mkTimeOfDay? h m s us with
    | some t => .ok t
    | none => .error .valueError
  match args with
  | [] => mk 0 0 0 0
  | [h] => mk h 0 0 0
  | [h, m] => mk h m 0 0
  | [h, m, s] => mk h m s 0
  | [h, m, s, us] => mk h m s us
  | [h, m, s, us, _] => do      -- fifth positional argument is tzinfo: an int is a TypeError,
      let _ ← mk h m s us        -- raised after the range check
      .error .typeError
  | _ => .error .typeError

/-- one entry of `core_standing_time["times"]`: `{"start": (h, m, …), "end": (h, m, …)}` -/
structure CoreWindow where
  start : Option (List Int)
  stop : Option (List Int)
  deriving Repr, DecidableEq

/-- `[datetime.time(*time_window[key]) for key in ['start', 'end']]` -/
def CoreWindow.parse (w : CoreWindow) : Py (Int × Int) := do
  let s ← match w.start with
    | none => .error .keyError
    | some a => pyTime a
  let e ← match w.stop with
    | none => .error .keyError
    | some a => pyTime a
  pure (s, e)

structure CoreStandingTime where
  /-- `.get('no_drive_days', [])` -/
  noDriveDays : Option (List Int) := none
  /-- `.get('holidays', [])`, as date ordinals (see file header) -/
  holidays : Option (List Int) := none
  /-- `.get('times', [])` -/
  times : Option (List CoreWindow) := none
  deriving Repr, DecidableEq

/-- the `for time_window in core_standing_time.get('times', []):` loop; `t = dt.time()` -/
def coreTimesLoop (t : Int) : List CoreWindow → Py Bool
  | [] => pure false
  | w :: ws => do
    let (s, e) ← w.parse
    -- distinct handling necessary depending on whether standing time over midnight or not
    if e < s then
      if decide (t ≥ s) || decide (t < e) then pure true else coreTimesLoop t ws
    else
      if decide (s ≤ t) && decide (t ≤ e) then pure true else coreTimesLoop t ws

/-- `dt_within_core_standing_time(dt, core_standing_time)` -/
def dtWithinCoreStandingTime (dt : DateTime) (cst : Option CoreStandingTime) : Py Bool :=
  match cst with
  | none => pure true
  | some c =>
    if (c.noDriveDays.getD []).any (fun dayOff => dayOff == dt.weekday) then pure true
    else if (c.holidays.getD []).contains dt.date then pure true
    else coreTimesLoop dt.time (c.times.getD [])

/-! ## get_time_windows_from_json -/

/-- `d[k] = v` on an insertion-ordered dict -/
def dictSet {β : Type} (d : List (String × β)) (k : String) (v : β) : List (String × β) :=
  match d with
  | [] => [(k, v)]
  | (k', v') :: rest => if k' == k then (k', v) :: rest else (k', v') :: dictSet rest k v

/-- body of the conversion loop for one season (dates/times are already parsed by the adapter):
`windows_json[season]["windows"][voltage_level] = [... .get(voltage_level, [])]` -/
def convertSeason (level : String) (s : Season) : Py Season :=
  match s.windows with
  | none => .error .keyError
  | some w => .ok { s with windows := some (dictSet w level ((w.lookup level).getD [])) }

/-- `while cur_time < stop: time_windows.append(pred(cur_time)); cur_time += interval` -/
def seriesLoop (pred : DateTime → Bool) (stop : DateTime) (interval : Int) :
    Nat → DateTime → Array Bool → Py (Array Bool)
  | fuel, cur, acc =>
    match cur.lt? stop with
    | none => .error .typeError
    | some false => .ok acc
    | some true =>
      match fuel with
      | 0 => .error .fuel
      | fuel + 1 => seriesLoop pred stop interval fuel (cur.add interval) (acc.push (pred cur))

/-- number of loop iterations: `⌈(stop − start) / interval⌉`, 0 if that is negative -/
def seriesLength (start stop : DateTime) (interval : Int) : Nat :=
  (ceilDiv (stop.instant - start.instant) interval).toNat

/-- `get_time_windows_from_json(filepath, grid_operator, voltage_level, scenario)` after
`json.load`: `file` = the JSON object (operator ↦ seasons in file order). -/
def getTimeWindowsFromJson (file : List (String × List Season)) (operator level : String)
    (start stop : DateTime) (interval : Int) (fuel : Nat) : Py (List Bool) := do
  let seasons ← match file.lookup operator with
    | none => .error .keyError
    | some s => pure s
  let seasons ← seasons.mapM (convertSeason level)
  let r ← seriesLoop (fun t => datetimeWithinTimeWindow t seasons level) stop interval fuel start #[]
  pure r.toList

/-! ## Schedule.dt_to_end_of_time_window -/

/-- `while dt_within_core_standing_time(current_time + duration, cst): duration += interval` -/
def dtToEndLoop (cur : DateTime) (cst : Option CoreStandingTime) : Nat → Int → Py Int
  | fuel, duration => do
    if (← dtWithinCoreStandingTime (cur.add duration) cst) then
      match fuel with
      | 0 => .error .fuel
      | fuel + 1 => dtToEndLoop cur cst fuel (duration + usPerMinute)
    else pure duration

/-- `Schedule.dt_to_end_of_time_window()` with `self.current_time = cur` -/
def dtToEndOfTimeWindow (cur : DateTime) (cst : Option CoreStandingTime) (fuel : Nat) : Py Int :=
  dtToEndLoop cur cst fuel 0

/-- fuel the driver supplies: one week for every day up to the last listed holiday that is still
ahead, plus two weeks (proved sufficient: `C15_end_of_window`) -/
def dtToEndFuel (cur : DateTime) (cst : Option CoreStandingTime) : Nat :=
  match cst with
  | none => 0
  | some c =>
    let last := (c.holidays.getD []).foldl (fun m h => if m < h then h else m) cur.date
    ((last - cur.date).toNat + 2) * minutesPerWeek

end SpiceEv
