"""peak_load_window: the search loop `while balanced_power < max_charge_vehicle + step or first_run` does not advance
when `balanced_power + step == balanced_power` in IEEE arithmetic (step = (max - balanced)/3 below half an ulp)."""
import sys, json, math, pathlib, time, faulthandler
REPO = sys.argv[2] if len(sys.argv) > 2 else "/tmp/w3/loopfuel/repo"
sys.path.insert(0, REPO)
from spice_ev import scenario

CAP, EFF, N, TPH, MAXCV, DESIRED = 50, 0.95, 16, 4.0, 11.0, 1.0
target = math.nextafter(MAXCV, 0)

def bal(soc):
    b = max(DESIRED - soc, 0) * CAP * TPH / N
    return b / EFF

# float search for an initial SoC that makes balanced_power exactly one ulp below the vehicle's maximum
soc = 1 - MAXCV * EFF * N / TPH / CAP
found = None
for k in range(-2000, 2000):
    s = soc
    for _ in range(abs(k)):
        s = math.nextafter(s, 1.0 if k < 0 else 0.0)
    if bal(s) == target:
        found = s
        break
print("soc", repr(found), "balanced", repr(bal(found)) if found is not None else None, "target", repr(target))
mode = sys.argv[1]   # exact | round | control
if mode == "round":      # soc 0.164: round numbers only; the coincidence happens at the third step
    found = round(found, 6)
elif mode == "control":  # a vehicle that needs less than its maximum: finishes
    found = 0.2
print("mode", mode, "initial soc", repr(found))
d = {
    "scenario": {"start_time": "2018-01-01T00:00:00+02:00", "interval": 15, "n_intervals": 24},
    "components": {
        "vehicle_types": {"t": {"name": "t", "capacity": CAP, "mileage": 40,
                                "charging_curve": [[0, 11], [0.8, 11], [1, 0]], "min_charging_power": 0,
                                "battery_efficiency": EFF, "v2g": False}},
        "vehicles": {"v_0": {"connected_charging_station": "CS", "estimated_time_of_departure":
                             "2018-01-01T04:00:00+02:00", "desired_soc": DESIRED, "soc": found, "vehicle_type": "t"}},
        "grid_connectors": {"GC1": {"max_power": 530, "voltage_level": "MV", "cost": {"type": "fixed", "value": 0.3}}},
        "charging_stations": {"CS": {"max_power": 22, "min_power": 0, "parent": "GC1"}},
        "batteries": {}},
    "events": {"grid_operator_signals": [], "vehicle_events": [], "external_load": {}, "energy_feed_in": {}}}
faulthandler.dump_traceback_later(30, exit=True)
t = time.time()
s = scenario.Scenario(d, pathlib.Path("."))
s.run("peak_load_window", {"time_windows": pathlib.Path(REPO) / "tests/test_data/input_test_strategies/time_windows_example.json"})
print("done", mode, s.step_i, s.n_intervals, "%.1fs" % (time.time() - t))
