/- driver command for Model/Strategies.lean (greedy / balanced step on the Float battery model) -/
import SpiceEv.Wire
import SpiceEv.Model.Strategies
import SpiceEv.Model.Battery
import SpiceEv.Cmd.Battery
import SpiceEv.Cmd.StrategyUtil
namespace SpiceEv.Cmd.Strategies
open SpiceEv

instance : IntCast Float := ⟨Float.ofInt⟩

def pPoint : P (Float × Float) := do let a ← P.num Float; let b ← P.num Float; pure (a, b)

/-- battery exactly as the real object holds it:
`capacity efficiency soc EPS <n> loading points… loading max <m> unloading points… unloading max` -/
def pBattery : P (Battery Float) := do
  let cap ← P.num Float; let eff ← P.num Float; let soc ← P.num Float; let eps ← P.num Float
  let lp ← P.list pPoint; let lm ← P.num Float
  let up ← P.list pPoint; let um ← P.num Float
  pure ⟨cap, ⟨lp, lm⟩, ⟨up, um⟩, soc, eff, eps⟩

def pCost : P (Option (GcCost Float)) := do
  let t ← P.tok
  if t == "N" then pure none
  else if t == "F" then (fun v => some (GcCost.fixed v)) <$> P.num Float
  else if t == "P" then (fun cs => some (GcCost.polynomial cs)) <$> P.list (P.num Float)
  else failure

def pGc : P (GcS Float) := do
  let id ← P.tok; let cm ← P.num Float; let cost ← pCost
  let loads ← P.list (do let k ← P.tok; let v ← P.num Float; pure (k, v))
  pure ⟨id, cm, cost, loads⟩

def pCs : P (StationS Float) := do
  let id ← P.tok; let parent ← P.tok
  let mx ← P.num Float; let mn ← P.num Float; let cur ← P.num Float
  pure ⟨id, parent, mx, mn, cur⟩

def pVeh : P (VehicleS Float (Battery Float)) := do
  let id ← P.tok; let cs ← P.opt P.tok; let des ← P.num Float; let etd ← P.opt P.int
  let mc ← P.num Float; let v2g ← P.bool; let dl ← P.num Float; let bat ← pBattery
  pure ⟨id, cs, des, etd, mc, v2g, dl, bat⟩

def pBat : P (StatBatS Float (Battery Float)) := do
  let id ← P.tok; let parent ← P.tok; let mc ← P.num Float; let bat ← pBattery
  pure ⟨id, parent, mc, bat⟩

/-- the battery operations of the strategies for one fixed interval `T` (hours) -/
def floatOps (T : Float) : BatOps Float (Battery Float) where
  soc b := b.soc
  capacity b := b.capacity
  efficiency b := b.efficiency
  unloadMaxPower b := b.unloadingCurve.maxPower
  load b mp ts tp := (b.load T mp ts tp).map (fun r => (r.1, r.2.1))
  unload b mp ts tp := (b.unload T mp ts tp).map (fun r => (r.1, r.2.1))
  available b := (b.getAvailablePower T).map (fun r => r.2)

def rNum (x : Float) : String := Wire.render x
def rKV (kv : String × Float) : String := kv.1 ++ " " ++ rNum kv.2

/-- `rulestep <g|b> eps threshold tsPerHour now interval <gcs> <stations> <vehicles> <batteries>` →
`commands | loads per connector | station power | vehicle SoCs | battery SoCs` or the exception -/
def cmdRuleStep : P String := do
  let r ← P.tok
  let rule ← (if r == "g" then pure Rule.greedy else if r == "b" then pure Rule.balanced else failure)
  let eps ← P.num Float; let thr ← P.num Float; let tsph ← P.num Float
  let now ← P.int; let interval ← P.int
  let gcs ← P.list pGc; let css ← P.list pCs; let vs ← P.list pVeh; let bs ← P.list pBat
  let env : StratEnv Float := ⟨eps, thr, tsph, now, interval⟩
  let ops := floatOps (Cmd.Battery.hoursOfMicros interval)
  match ruleStep rule ops env ⟨gcs, css, vs, bs⟩ with
  | .error e => pure (renderErr e)
  | .ok (w, cmds) =>
    pure (renderList rKV cmds ++ " | " ++
      " ; ".intercalate (w.gcs.map (fun g => g.id ++ " " ++ renderList rKV g.loads)) ++ " | " ++
      " ".intercalate (w.stations.map (fun s => rNum s.currentPower)) ++ " | " ++
      " ".intercalate (w.vehicles.map (fun v => rNum v.bat.soc)) ++ " | " ++
      " ".intercalate (w.batteries.map (fun b => rNum b.bat.soc)))

def handlers : List (String × Handler) := [("rulestep", runP cmdRuleStep)]

end SpiceEv.Cmd.Strategies
