/-
C07 — "stays in force until superseded": the concrete strategies' own step keeps what events set.

`Properties/C07.lean` proves the property's sentences for `Strategy.step`'s event processing with the strategy's own
action of a step as a parameter `rest`, under the hypotheses `KeepsQueue rest` / `KeepsConnectors rest`.  This file
discharges them for the strategy MODELS (the definitions the driver runs against the real classes, step by step, bit for
bit): greedy, balanced (`ruleStep`), peak_shaving, balanced_market, schedule, flex_window.  peak_load_window and
distributed (own world / state types) are in `Properties/C07_StrategiesWorlds.lean`.

Vocabulary (`Proofs/C07Keeps.lean`, `Proofs/C07Adapter.lean`, `Proofs/C07Concrete.lean`; all structural, no arithmetic —
the frame theorems hold for every number type the models run on, they are stated here for an ordered field only because
`KeepsConnectors` is):
* `restLoads S g`   the entries of `g.loads` (`current_loads`) whose name is outside `S`, in order
* `gcKey S g = (g.id, g.curMax, g.cost, restLoads S g)`   the event-set state a connector record of the models carries
* `sbName w`        the names a step of world `w` may book under: ids of its charging stations and stationary batteries
* `GcKeeps S gcs gcs'`  same ids in the same order, and every record of `gcs'` carries the key of a record of `gcs`;
                    with distinct ids this is `gcs'.map (gcKey S) = gcs.map (gcKey S)` (`C07_keeps_pointwise`)
* `restOf X stepM`  the action of a strategy model on C07's state: view the state as the model's world (`X` supplies what
                    C07's state does not carry), run the model's step, write connector records and vehicles back
* `psStepM`, `schedStepM`, `fwStepM`  the steps of those models as functions `SWorld → Py (SWorld × commands)`
The models take the pending events they look at (`world_state.future_events`) as an INPUT (`events`, `env.events`,
`env.future`) and do not return them: a model cannot edit the queue; that the real classes do not either is checked on
every step of every tied run (digest of the queue in the step ties, oracle `runoracle.check_c07_keeps`).
-/
import SpiceEv.Proofs.C07Concrete
import SpiceEv.Proofs.C07KeepsVehRule
import SpiceEv.Proofs.C07KeepsVehPeakShaving
import SpiceEv.Proofs.C07KeepsVehBalancedMarket
import SpiceEv.Proofs.C07KeepsVehSchedule
import SpiceEv.Proofs.C07KeepsVehFlexWindow
set_option linter.unusedSectionVars false
set_option linter.unusedVariables false
namespace SpiceEv
open Keeps
variable {α : Type} [Field α] [LinearOrder α] [IsStrictOrderedRing α] {B : Type}

/-- **Reading of the frame.**  With pairwise distinct connector ids `GcKeeps` is the pointwise statement: connector by
connector, id, limit (`cur_max_power`), cost and every load entry under a name outside `S` are unchanged. -/
theorem C07_keeps_pointwise (S : String → Bool) (gcs gcs' : List (GcS α)) (h : GcKeeps S gcs gcs')
    (hnd : (gcs.map (·.id)).Nodup) :
    gcs'.map (fun g => (g.id, g.curMax, g.cost, restLoads S g)) =
      gcs.map (fun g => (g.id, g.curMax, g.cost, restLoads S g)) :=
  h.map_key hnd

/-- **greedy, balanced.**  `Greedy.step` / `Balanced.step` (with `distribute_surplus_power`, `update_batteries`) keep id,
limit, cost and the fixed-load / generation entries of every connector. -/
theorem C07_greedy_balanced_keeps (rule : Rule) (ops : BatOps α B) (env : StratEnv α) (w w' : SWorld α B)
    (cmds : List (String × α)) (h : ruleStep rule ops env w = .ok (w', cmds)) :
    GcKeeps (sbName w) w.gcs w'.gcs :=
  ruleStep_keeps rule ops env w w' cmds h

example : keptAndBooked kWorld (ruleStep .greedy kOps kEnv kWorld) = true ∧
    keptAndBooked kWorld (ruleStep .balanced kOps kEnv kWorld) = true := by decide +kernel

/-- **peak_shaving.**  `PeakShaving.step` (look-ahead over the events it is given, simulations on copies, fast-charge
bisection, battery plan) keeps id, limit, cost and the fixed-load / generation entries of every connector. -/
theorem C07_peak_shaving_keeps (ops : PeakShaving.Ops α B) (env : PeakShaving.Env α)
    (events : List (PeakShaving.Ev α)) (w w' : SWorld α B) (cmds : List (String × α)) (sched : List α)
    (h : PeakShaving.step ops env events w = .ok (w', cmds, sched)) :
    GcKeeps (sbName w) w.gcs w'.gcs :=
  Keeps.PeakShaving.step_keeps ops env events w w' cmds sched h

example : keptAndBooked kWorld (psStepM psOpsK psEnvK [] kWorld) = true := by decide +kernel

/-- **balanced_market.**  `BalancedMarket.step` (price forecast from the events in `env`, bisections, V2G search, battery
block) keeps id, limit, cost and the fixed-load / generation entries of every connector. -/
theorem C07_balanced_market_keeps (ops : BalancedMarket.Ops α B) (env : BalancedMarket.Env α) (w w' : SWorld α B)
    (cmds : List (String × α)) (h : BalancedMarket.step ops env w = .ok (w', cmds)) :
    GcKeeps (sbName w) w.gcs w'.gcs :=
  Keeps.BalancedMarket.step_keeps ops env w w' cmds h

example : keptAndBooked kWorld (BalancedMarket.step bmOpsK bmEnvK kWorld) = true := by decide +kernel

/-- **schedule** (individual and collective, inside / outside core standing time, V2G pass, battery pass): id, limit,
cost and the fixed-load / generation entries of every connector are kept.  Target and window are inputs of the model
(`env.gx`), it has no way to write them. -/
theorem C07_schedule_keeps (ops : Sched.Ops α B) (env : Sched.Env α) (w w' : SWorld α B)
    (st st' : Sched.CState α) (cmds : List (String × α)) (h : Sched.step ops env w st = .ok (w', st', cmds)) :
    GcKeeps (sbName w) w.gcs w'.gcs :=
  Keeps.Sched.step_keeps ops env w w' st st' cmds h

example : keptAndBooked kWorld (schedStepM schedOpsK schedEnvK schedStK kWorld) = true := by decide +kernel

/-- **flex_window** (all `LOAD_STRAT`s): id, limit, cost and the fixed-load / generation entries of the connector are
kept. -/
theorem C07_flex_window_keeps (ops : BatOps α B) (env : FlexWindow.FEnv α) (w w' : SWorld α B)
    (window win' : Option Bool) (events : List (FlexWindow.FEvent α)) (cmds : List (String × α))
    (h : FlexWindow.step ops env w window events = .ok (w', win', cmds)) :
    GcKeeps (sbName w) w.gcs w'.gcs :=
  Keeps.FlexWindow.step_keeps ops env w w' window win' events cmds h

example : keptAndBooked kWorld (fwStepM kOps (fwEnvK .balanced) (some true) [] (fun _ => .exception) kWorld) = true ∧
    keptAndBooked kWorld (fwStepM kOps (fwEnvK .greedy) (some true) [] (fun _ => .exception) kWorld) = true := by
  decide +kernel

/-- **flex_window writes `gc.window`** (`gc.window = timesteps[0]["window"]`): the value written is the window of the
first forecast timestep; if no event of the list it is given is due (every start after the present step — what
`Strategy.step` guarantees for `world_state.future_events`), that IS the value it read: the event-set window stays in
force. -/
theorem C07_flex_window_window_rewritten (ops : BatOps α B) (env : FlexWindow.FEnv α) (w w' : SWorld α B)
    (window win' : Option Bool) (events : List (FlexWindow.FEvent α)) (cmds : List (String × α))
    (h : FlexWindow.step ops env w window events = .ok (w', win', cmds)) :
    (∃ gc t0 rest, FlexWindow.theGc w = .ok gc ∧ FlexWindow.forecast env gc window events = .ok (t0 :: rest) ∧
      win' = t0.window) ∧
    ((∀ e ∈ events, env.base.now < e.start) → win' = window) :=
  ⟨Keeps.FlexWindow.step_window ops env w w' window win' events cmds h,
   fun hfut => Keeps.FlexWindow.step_window_unchanged ops env w w' window win' events cmds hfut h⟩

example : (match FlexWindow.step kOps (fwEnvK .balanced) kWorld (some true) [] with
    | .ok r => r.2.1 | .error _ => none) = some true ∧
    (match FlexWindow.step kOps (fwEnvK .balanced) kWorld (some false) [] with
    | .ok r => r.2.1 | .error _ => none) = some false := by decide +kernel

/-! ### vehicle events stay in force: the strategies change a vehicle only through its battery

`vehKey v = (id, connected_charging_station, desired_soc, estimated_time_of_departure, min_charging_power, v2g,
discharge_limit)` — what vehicle events set, and the vehicle-type data.  `VehKeeps K ids vs'`: the ids of `vs'` are `ids`
(same vehicles, same order) and every record of `vs'` carries a key of `K`; with distinct ids: pointwise equality
(`KeepsVeh.VehKeeps.map_key`).  No simulated copy (scaled `desired_soc`, shifted departure) reaches the world. -/

/-- **greedy, balanced, peak_shaving, balanced_market, schedule, flex_window: a vehicle is changed only through its
battery** — id, station, desired SoC, departure estimate and type data of every vehicle are those before the step. -/
theorem C07_strategies_keep_vehicles (rule : Rule) (ops : BatOps α B) (env : StratEnv α)
    (psOps : PeakShaving.Ops α B) (psEnv : PeakShaving.Env α) (psEvents : List (PeakShaving.Ev α))
    (bmOps : BalancedMarket.Ops α B) (bmEnv : BalancedMarket.Env α)
    (sOps : Sched.Ops α B) (sEnv : Sched.Env α) (st st' : Sched.CState α)
    (fEnv : FlexWindow.FEnv α) (window win' : Option Bool) (fEvents : List (FlexWindow.FEvent α))
    (w w' : SWorld α B) (cmds : List (String × α)) (sched : List α) :
    let Kept := KeepsVeh.VehKeeps (w.vehicles.map KeepsVeh.vehKey) (w.vehicles.map (·.id)) w'.vehicles
    (ruleStep rule ops env w = .ok (w', cmds) → Kept) ∧
    (PeakShaving.step psOps psEnv psEvents w = .ok (w', cmds, sched) → Kept) ∧
    (BalancedMarket.step bmOps bmEnv w = .ok (w', cmds) → Kept) ∧
    (Sched.step sOps sEnv w st = .ok (w', st', cmds) → Kept) ∧
    (FlexWindow.step ops fEnv w window fEvents = .ok (w', win', cmds) → Kept) :=
  ⟨KeepsVeh.ruleStep_vkeeps rule ops env w w' cmds,
   KeepsVeh.PeakShaving.step_vkeeps psOps psEnv psEvents w w' cmds sched,
   KeepsVeh.BalancedMarket.step_vkeeps bmOps bmEnv w w' cmds,
   KeepsVeh.Sched.step_vkeeps sOps sEnv w w' st st' cmds,
   KeepsVeh.FlexWindow.step_vkeeps ops fEnv w w' window win' fEvents cmds⟩

example : vehKeptAndCharged kWorld (ruleStep .greedy kOps kEnv kWorld) = true ∧
    vehKeptAndCharged kWorld (psStepM psOpsK psEnvK [] kWorld) = true ∧
    vehKeptAndCharged kWorld (BalancedMarket.step bmOpsK bmEnvK kWorld) = true ∧
    vehKeptAndCharged kWorld (schedStepM schedOpsK schedEnvK schedStK kWorld) = true ∧
    vehKeptAndCharged kWorld (fwStepM kOps (fwEnvK .balanced) (some true) [] (fun _ => .exception) kWorld) = true := by
  decide +kernel

/-! ### the abstract hypotheses of `Properties/C07.lean`, discharged -/

/-- **`KeepsConnectors` / `KeepsQueue` hold for every strategy model with a frame theorem**: the action `restOf X stepM` of
a model whose step satisfies `Frame stepM` (the five theorems above) leaves clock, queue, stations and batteries alone and
every connector unchanged up to station / battery entries. -/
theorem C07_strategy_keeps_connectors (X : Extra α B) (stepM : SWorld α B → Py (SWorld α B × List (String × α)))
    (hframe : Frame stepM) : KeepsConnectors (restOf X stepM) ∧ KeepsQueue (restOf X stepM) :=
  ⟨keepsConnectors_restOf X stepM hframe, keepsQueue_restOf X stepM hframe⟩

/-- … and the five models satisfy `Frame` -/
theorem C07_strategy_frames (rule : Rule) (ops : BatOps α B) (env : StratEnv α)
    (psOps : PeakShaving.Ops α B) (psEnv : PeakShaving.Env α) (psEvents : List (PeakShaving.Ev α))
    (bmOps : BalancedMarket.Ops α B) (bmEnv : BalancedMarket.Env α)
    (sOps : Sched.Ops α B) (sEnv : Sched.Env α) (sSt : Sched.CState α)
    (fEnv : FlexWindow.FEnv α) (window : Option Bool) (fEvents : List (FlexWindow.FEvent α))
    (toErr : FlexWindow.FErr → PyErr) :
    Frame (ruleStep rule ops env) ∧ Frame (psStepM psOps psEnv psEvents) ∧ Frame (BalancedMarket.step bmOps bmEnv) ∧
    Frame (schedStepM sOps sEnv sSt) ∧ Frame (fwStepM ops fEnv window fEvents toErr) :=
  ⟨ruleStep_frame rule ops env, psStepM_frame psOps psEnv psEvents, bmStep_frame bmOps bmEnv,
   schedStepM_frame sOps sEnv sSt, fwStepM_frame ops fEnv window fEvents toErr⟩

/-- non-vacuity of the adapter: on the toy state (connector `GC1` 20 kW, fixed price, 6 kW fixed load; station `CS1`,
battery `BAT1`) the greedy action books 11 kW on the station and discharges the battery, and limit, cost-independent
attributes and the fixed-load entry of the connector are what they were -/
example : (restOf kExtra (ruleStep .greedy kOps kEnv) kStrat).2.isNone = true ∧
    ((alGet? "GC1" (restOf kExtra (ruleStep .greedy kOps kEnv) kStrat).1.world.connectors).map
      (fun c => (c.maxPower, c.curMaxPower, c.target, c.window))) = some (20, some 20, none, none) ∧
    ((alGet? "GC1" (restOf kExtra (ruleStep .greedy kOps kEnv) kStrat).1.world.connectors).map (·.loads)) =
      some [("load", 6), ("CS1", 11), ("BAT1", -17)] := by decide +kernel

/-- **Effect step for a concrete strategy** (`C07_effect_step` with the strategy's action in place of `rest`, no
hypothesis on it left): the `j`-th executed base step has clock `start + j·Δ`, pops exactly (a prefix of, when it raises)
the stable sort by start time of the events whose effect step is `j`, and leaves the signalled, not yet started events. -/
theorem C07_effect_step_concrete (X : Extra α B) (stepM : SWorld α B → Py (SWorld α B × List (String × α)))
    (hframe : Frame stepM)
    (cfg : Cfg α) (start : Int) (n : Nat) (hΔ : 0 < cfg.interval) (hn : 0 < n)
    (w : World α) (conc : α) (s0 : Strat α) (hinit : Strat.init w start cfg.interval conc = .ok s0)
    (all : List (Event α)) (roe : Strat α → Strat α) (j : Nat) (r : StepResult α)
    (hr : (runLoop cfg (restOf X stepM) roe s0 (bucketsOf start n cfg.interval all)).trace[j]? = some r) :
    let due := sortByStart ((((bucketsOf start n cfg.interval all).take (j + 1)).flatten).filter
        (fun e => effectStep start n cfg.interval e == some j))
    j < n ∧
    r.strat.now = start + (j : Int) * cfg.interval ∧
    r.popped <+: due ∧
    (r.err = none → r.popped = due ∧
      r.strat.world.queue = pendingList (start + (j : Int) * cfg.interval)
        (((bucketsOf start n cfg.interval all).take (j + 1)).flatten)) ∧
    ∀ e, e ∈ due ↔ e ∈ all ∧ effectStep start n cfg.interval e = some j :=
  effect_step_restOf X stepM hframe cfg start n hΔ hn w conc s0 hinit all roe j r hr

/-- **In force until superseded, for a concrete strategy** (`C07_in_force` without a hypothesis on the strategy's
action): after the `j`-th step of a run of `Strategy.step` + the strategy model's own step, cost, target, window, limit
and every fixed-load / generation entry of a connector have the value set by the last event of the application log that
set them. -/
theorem C07_in_force_concrete (X : Extra α B) (stepM : SWorld α B → Py (SWorld α B × List (String × α)))
    (hframe : Frame stepM)
    (cfg : Cfg α) (s0 : Strat α) (Bs : List (List (Event α)))
    (roe : Strat α → Strat α) (j : Nat) (r : StepResult α)
    (hr : (runLoop cfg (restOf X stepM) roe s0 Bs).trace[j]? = some r) (herr : r.err = none)
    (g : String) (c0 : Connector α) (hc0 : alGet? g s0.world.connectors = some c0) :
    let log := appliedLog (runLoop cfg (restOf X stepM) roe s0 Bs).trace j
    ∃ c, alGet? g r.strat.world.connectors = some c ∧
      c.maxPower = c0.maxPower ∧
      c.cost = lastSet (Event.setsCost g) c0.cost log ∧
      c.target = lastSet (Event.setsTarget g) c0.target log ∧
      c.window = lastSet (Event.setsWindow g) c0.window log ∧
      c.curMaxPower = lastSet (Event.setsLimit g c0.maxPower) c0.curMaxPower log ∧
      ∀ nm, isSBof s0 nm = false →
        alGet? nm c.loads = lastSet (Event.setsLoad g nm) (alGet? nm c0.loads) log :=
  in_force_restOf X stepM hframe cfg s0 Bs roe j r hr herr g c0 hc0

/-- **A limit can lower but never raise the rating, for a concrete strategy** (`C07_limit_lower_only` without a
hypothesis on the strategy's action). -/
theorem C07_limit_lower_only_concrete (X : Extra α B) (stepM : SWorld α B → Py (SWorld α B × List (String × α)))
    (hframe : Frame stepM)
    (cfg : Cfg α) (s0 : Strat α) (Bs : List (List (Event α)))
    (roe : Strat α → Strat α) (j : Nat) (r : StepResult α)
    (hr : (runLoop cfg (restOf X stepM) roe s0 Bs).trace[j]? = some r) (herr : r.err = none)
    (g : String) (c0 : Connector α) (hc0 : alGet? g s0.world.connectors = some c0)
    (hrating : c0.maxPower ≠ 0) (hnew : c0.curMaxPower = some c0.maxPower) :
    ∃ c y, alGet? g r.strat.world.connectors = some c ∧ c.maxPower = c0.maxPower ∧
      c.curMaxPower = some y ∧ y ≤ c0.maxPower :=
  (limit_lower_only_restOf X stepM hframe cfg s0 Bs roe j r hr herr g c0 hc0 hrating hnew).2

/-- non-vacuity of the three: a two-step run of the base step + the greedy model's action on the toy state with a limit
signal (15 kW, due in the second step): no exception, the limit in force after step 2 is 15, the fixed-load entry is
still 6 and the station entry written by the strategy in step 1 has been deleted by the base step and re-booked -/
example :
    let ev : Event ℚ := ⟨0, 1000, .gridSignal "GC1" (some 15) none none none⟩
    let cfg : Cfg ℚ := ⟨900, 1/100000, 1/10, false, false⟩
    let run := runLoop cfg (restOf kExtra (ruleStep .greedy kOps kEnv)) id kStrat [[ev], []]
    run.error.isNone = true ∧
    run.trace.map (fun r => (r.err.isNone, (alGet? "GC1" r.strat.world.connectors).map (fun c => (c.curMaxPower, c.loads))))
      = [(true, some (some 20, [("load", 6)])), (true, some (some 15, [("load", 6)]))] ∧
    (alGet? "GC1" run.strat.world.connectors).map (fun c => (c.curMaxPower, alGet? "load" c.loads))
      = some (some 15, some 6) := by
  decide +kernel

end SpiceEv
