/-
List lemmas used by the generator proofs (C19): `patchAt`, per-vehicle filtering, a chain
predicate with append lemmas.  Nothing here depends on the number type.
-/
import Mathlib.Tactic.Linarith
import SpiceEv.Model.GenEvent

set_option linter.unusedSectionVars false
set_option linter.unusedSimpArgs false
namespace SpiceEv.Gen

variable {β : Type}

/-! ### `patchAt` -/

@[simp] theorem patchAt_nil (f : β → β) (i : Nat) : patchAt f i ([] : List β) = [] := by
  cases i <;> rfl

@[simp] theorem length_patchAt (f : β → β) : ∀ (i : Nat) (l : List β), (patchAt f i l).length = l.length
  | _, [] => by simp
  | 0, _ :: _ => rfl
  | i + 1, _ :: xs => by simp [patchAt, length_patchAt f i xs]

theorem getElem?_patchAt (f : β → β) :
    ∀ (i j : Nat) (l : List β), (patchAt f i l)[j]? = if j = i then (l[j]?).map f else l[j]?
  | _, _, [] => by simp [patchAt]
  | 0, 0, x :: xs => by simp [patchAt]
  | 0, j + 1, x :: xs => by simp [patchAt]
  | i + 1, 0, x :: xs => by simp [patchAt]
  | i + 1, j + 1, x :: xs => by
    simp only [patchAt, List.getElem?_cons_succ, getElem?_patchAt f i j xs]
    simp

/-- patching an element on which `p` is false (before and after) does not change the filter -/
theorem filter_patchAt_of_false (f : β → β) (p : β → Bool) :
    ∀ (i : Nat) (l : List β), (∀ e, l[i]? = some e → p e = false ∧ p (f e) = false) →
      (patchAt f i l).filter p = l.filter p
  | _, [], _ => by simp
  | 0, x :: xs, h => by
    have := h x (by simp)
    simp [patchAt, List.filter_cons, this.1, this.2]
  | i + 1, x :: xs, h => by
    have ih := filter_patchAt_of_false f p i xs (fun e he => h e (by simpa using he))
    simp [patchAt, List.filter_cons, ih]

/-- if index `i` holds the last element satisfying `p`, the filter is `filter (take i) ++ [that]` -/
theorem filter_last_at (p : β → Bool) :
    ∀ (i : Nat) (l : List β) (a : β), l[i]? = some a → p a = true →
      (∀ j e, i < j → l[j]? = some e → p e = false) →
      l.filter p = (l.take i).filter p ++ [a]
  | _, [], _, h, _, _ => by simp at h
  | 0, x :: xs, a, h, hp, hl => by
    simp at h; subst h
    have : xs.filter p = [] := by
      rw [List.filter_eq_nil_iff]
      intro e he
      obtain ⟨j, hj⟩ := List.getElem?_of_mem he
      have := hl (j + 1) e (by omega) (by simpa using hj)
      simp [this]
    simp [List.filter_cons, hp, this]
  | i + 1, x :: xs, a, h, hp, hl => by
    have ih := filter_last_at p i xs a (by simpa using h) hp
      (fun j e hj he => hl (j + 1) e (by omega) (by simpa using he))
    simp only [List.take_succ_cons, List.filter_cons]
    split <;> simp [ih]

/-- … and after patching that element (with `p` still true) only the last entry changes -/
theorem filter_patchAt_last (f : β → β) (p : β → Bool) :
    ∀ (i : Nat) (l : List β) (a : β), l[i]? = some a → p (f a) = true →
      (∀ j e, i < j → l[j]? = some e → p e = false) →
      (patchAt f i l).filter p = (l.take i).filter p ++ [f a]
  | _, [], _, h, _, _ => by simp at h
  | 0, x :: xs, a, h, hp, hl => by
    simp at h; subst h
    have : xs.filter p = [] := by
      rw [List.filter_eq_nil_iff]
      intro e he
      obtain ⟨j, hj⟩ := List.getElem?_of_mem he
      have := hl (j + 1) e (by omega) (by simpa using hj)
      simp [this]
    simp [patchAt, List.filter_cons, hp, this]
  | i + 1, x :: xs, a, h, hp, hl => by
    have ih := filter_patchAt_last f p i xs a (by simpa using h) hp
      (fun j e hj he => hl (j + 1) e (by omega) (by simpa using he))
    simp only [patchAt, List.take_succ_cons, List.filter_cons]
    split <;> simp [ih]

/-! ### the stable insertion sort -/

theorem insertBy_perm (le : β → β → Bool) (a : β) : ∀ l : List β, (insertBy le a l).Perm (a :: l)
  | [] => List.Perm.refl _
  | b :: l => by
    unfold insertBy
    split
    · exact List.Perm.refl _
    · exact ((insertBy_perm le a l).cons b).trans (List.Perm.swap a b l)

theorem stableSort_perm (le : β → β → Bool) : ∀ l : List β, (stableSort le l).Perm l
  | [] => List.Perm.refl _
  | a :: l => by
    show (insertBy le a (stableSort le l)).Perm (a :: l)
    exact (insertBy_perm le a _).trans ((stableSort_perm le l).cons a)

/-! ### chains -/

/-- `R` holds between every two consecutive elements -/
def ChainR (R : β → β → Prop) : List β → Prop
  | [] => True
  | [_] => True
  | a :: b :: r => R a b ∧ ChainR R (b :: r)

instance ChainR.decidable (R : β → β → Prop) [DecidableRel R] : ∀ l : List β, Decidable (ChainR R l)
  | [] => isTrue trivial
  | [_] => isTrue trivial
  | a :: b :: r =>
    have := ChainR.decidable R (b :: r)
    inferInstanceAs (Decidable (R a b ∧ ChainR R (b :: r)))

theorem chainR_snoc (R : β → β → Prop) :
    ∀ (l : List β) (x : β), ChainR R (l ++ [x]) ↔ ChainR R l ∧ ∀ y, l.getLast? = some y → R y x
  | [], x => by simp [ChainR]
  | [a], x => by simp [ChainR]
  | a :: b :: r, x => by
    have ih := chainR_snoc R (b :: r) x
    simp only [List.cons_append] at ih ⊢
    simp only [ChainR, ih, List.getLast?_cons_cons]
    tauto

/-- replacing the last element by one that is related to the same predecessors keeps the chain -/
theorem chainR_replace_last (R : β → β → Prop) (l : List β) (x x' : β)
    (h : ChainR R (l ++ [x])) (hx : ∀ y, R y x → R y x') : ChainR R (l ++ [x']) := by
  rw [chainR_snoc] at h ⊢
  exact ⟨h.1, fun y hy => hx y (h.2 y hy)⟩

theorem chainR_imp {R S : β → β → Prop} (h : ∀ a b, R a b → S a b) :
    ∀ l : List β, ChainR R l → ChainR S l
  | [], _ => trivial
  | [_], _ => trivial
  | a :: b :: r, hc => ⟨h a b hc.1, chainR_imp h (b :: r) hc.2⟩

end SpiceEv.Gen
