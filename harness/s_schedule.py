"""S_SCHEDULE — step-level correspondence of the Lean model of `spice_ev/strategies/schedule.py`
(Model/StratSchedule.lean, command `step_schedule`) with the real class `Schedule`.

The real `Scenario.run('schedule', …)` is executed on scenarios of harness/scen.py (both sub-strategies,
fixed load, generation, stationary batteries, V2G, limit/price/window/target signals, per-vehicle schedule
events, CONCURRENCY, station/vehicle minimum power, core standing times with no-drive days).  `Schedule.step`
is wrapped at run time: the complete state the step can read — world state, the attributes the class keeps
between steps, the visible future events, the connector's average-fixed-load table — is rendered as one
protocol line, the real step runs, and commands, connector loads, station power, all SoCs and the kept
attributes after the step (or the exception kind) are compared with the model's line by value (bit level).

(a) `render_world`, `render_result`; (b) `tie(full)` context manager for run-level checks;
(c) stand-alone development check `./check S_SCHEDULE`.
"""
import contextlib
import datetime
import random

import engine
import scen
from wire import enc, dec

engine.use_repo()

PID = "S_SCHEDULE"
CHUNK = 2
THEOREM_MODULES = ["C04_Schedule", "C05_Schedule", "C06_Schedule", "C11_Schedule", "C17_Schedule"]
RULE = ("scenarios from the grammar in harness/scen.py for strategy 'schedule' (individual and collective sub-strategy, "
        "feasible and infeasible trips, all optional features drawn by the grammar), 30 % unchanged and 70 % with one directed "
        "odd-branch variant (vehicle without schedule, connector without target, two connectors, 0 kW station, discharge limit 1, "
        "no departure time, shared station); every strategy step of every run is "
        "one model evaluation; non-trivial = a run with at least one step in which a station carries power; "
        "distinct = distinct (seed, index, sub-strategy)")
ASSUMPTIONS = ["the model is the code repaired by fixes/SCH1.diff, SCH2.diff, SCH3.diff (lost V2G commands, excess branch and target "
               "above the limit); on a tree without them the collective steps concerned disagree",
               "floats compared by value (+0.0 == -0.0), no tolerance",
               "Python ints that occur where floats are expected (0 defaults, JSON ints) are rendered as the equal float",
               "all datetimes are timezone-aware (the adapter refuses naive ones)"]
UNPROVED = ["fuel of the bisections (1100) is supplied by the driver, the fuel of the collective retry loop is computed per "
            "step from the proved bound (n*M+1)*A + n*M + n (retry_fuel; Properties/C17_Schedule.lean: "
            "C17_schedule_step_total); sufficiency is proved over ordered fields, not for IEEE doubles (observed: 1207 "
            "retry iterations in one step, corpus/S_SCHEDULE)"]
FUEL = 1100
RETRY_FUEL = 10000000   # fallback only (non-finite headroom); see retry_fuel()


def retry_fuel(strat):
    """fuel of the collective retry loop (`while len(vehicles) > 0`), computed from the bound PROVED in
    Properties/C17_Schedule.lean (`C17_schedule_retry_loop_terminates`, `C17_schedule_step_total`):
    (n*M + 1)*A + n*M + n  with  n >= number of vehicles / stored queue entries, connector headroom <= EPS*A,
    headroom + 1 <= EPS*M.  Exact rational arithmetic on the doubles of the world state, one unit of slack on A and M for
    the rounding of `cur_max_power - get_current_load()` in the code."""
    import math
    from fractions import Fraction as Fr
    try:
        eps = Fr(strat.EPS)
        head = Fr(0)
        for gc in strat.world_state.grid_connectors.values():
            h = Fr(gc.cur_max_power) - sum((Fr(v) for v in gc.current_loads.values()), Fr(0))
            head = max(head, h)
        n = max(len(getattr(strat, "energy_needed_per_vehicle", None) or {}), len(strat.world_state.vehicles))
        a = math.ceil(head / eps) + 1
        m = math.ceil((head + 1) / eps) + 1
        return (n * m + 1) * a + n * m + n
    except (ValueError, OverflowError, TypeError, ZeroDivisionError):
        return RETRY_FUEL
US_DAY = 86400 * 1000000


def f(x):
    return enc(float(x))


def inst(dt):
    """UTC microseconds since midnight of ordinal 0 (the axis of `DateTime.instant`)"""
    off = dt.utcoffset()
    if off is None:
        raise ValueError("naive datetime in the world state")
    loc = dt.toordinal() * US_DAY + ((dt.hour * 60 + dt.minute) * 60 + dt.second) * 1000000 + dt.microsecond
    return loc - ((off.days * 86400 + off.seconds) * 1000000 + off.microseconds)


def td_us(td):
    return (td.days * 86400 + td.seconds) * 1000000 + td.microseconds


def w_dt(d):
    off = d.utcoffset()
    o = "N" if off is None else "S %d" % td_us(off)
    return "%d %d %s" % (d.toordinal(), ((d.hour * 60 + d.minute) * 60 + d.second) * 1000000 + d.microsecond, o)


def w_list(xs, fn=str):
    return " ".join([str(len(xs))] + [fn(x) for x in xs])


def w_opt(x, fn):
    return "N" if x is None else "S " + fn(x)


def hol_ord(s):
    try:
        d = datetime.date.fromisoformat(s)
    except Exception:
        return 0
    return d.toordinal() if d.isoformat() == s else 0


def w_core(c):
    if c is None:
        return "N"

    def win(w):
        return "%s %s" % (w_opt(w.get("start"), w_list), w_opt(w.get("end"), w_list))
    return "S %s %s %s" % (w_opt(c.get("no_drive_days"), w_list),
                           w_opt(c.get("holidays"), lambda hs: w_list(hs, lambda h: str(hol_ord(h)))),
                           w_opt(c.get("times"), lambda ts: w_list(ts, win)))


def r_battery(b):
    lp, up = b.loading_curve.points, b.unloading_curve.points
    return " ".join([f(b.capacity), f(b.efficiency), f(b.soc), f(b.EPS), str(len(lp))]
                    + ["%s %s" % (f(p[0]), f(p[1])) for p in lp] + [f(b.loading_curve.max_power), str(len(up))]
                    + ["%s %s" % (f(p[0]), f(p[1])) for p in up] + [f(b.unloading_curve.max_power)])


_AVG_CACHE = {}


def r_avg(tbl):
    if tbl is None:
        return "N"
    key = id(tbl)
    hit = _AVG_CACHE.get(key)
    if hit is None or hit[0] is not tbl:
        hit = (tbl, "S " + w_list(tbl, lambda day: w_list(day, f)))
        _AVG_CACHE.clear()
        _AVG_CACHE[key] = hit
    return hit[1]


def r_event(ev):
    from spice_ev import events
    head = str(inst(ev.start_time))
    if type(ev) is events.GridOperatorSignal:
        return "%s G %s %s" % (head, w_opt(ev.target, f), w_opt(ev.window, lambda b: "1" if b else "0"))
    if type(ev) is events.LocalEnergyGeneration:
        return "%s L %s %s" % (head, ev.name, f(ev.value))
    if type(ev) is events.VehicleEvent:
        if ev.event_type == "schedule":
            return "%s S %s %s" % (head, ev.vehicle_id, w_opt(ev.update.get("schedule"), f))
        if ev.event_type == "departure":
            return "%s D %s" % (head, ev.vehicle_id)
    return head + " O"


def r_state(strat):
    kv = lambda d: w_list(list(d.items()), lambda it: "%s %s" % (it[0], f(it[1])))
    return " ".join([
        "1" if strat.currently_in_core_standing_time else "0",
        "1" if strat.overcharge_necessary else "0",
        w_list(getattr(strat, "power_for_vehicles_per_TS", []), f),
        w_list(getattr(strat, "charge_window", []), lambda b: "1" if b else "0"),
        f(getattr(strat, "energy_available_for_vehicles_on_schedule", 0)),
        kv(getattr(strat, "energy_needed_per_vehicle", {})),
        kv(getattr(strat, "extra_energy_per_vehicle", {})),
        f(getattr(strat, "bat_power_for_vehicles", 0))])


def render_world(strat):
    ws = strat.world_state
    parts = ["step_schedule", f(strat.EPS), f(strat.ts_per_hour), w_dt(strat.current_time),
             str(td_us(strat.interval)), str(strat.ITERATIONS), str(FUEL), str(retry_fuel(strat)),
             "1" if strat.LOAD_STRAT == "collective" else "0",
             "1" if strat.warn_core_standing_time else "0", w_core(strat.core_standing_time)]
    inst(strat.current_time)
    parts.append(str(len(ws.grid_connectors)))
    for gid, gc in ws.grid_connectors.items():
        parts += [gid, f(gc.cur_max_power), w_opt(gc.target, f), r_avg(gc.avg_fixed_load), str(len(gc.current_loads))]
        for k, v in gc.current_loads.items():
            parts += [k, f(v)]
    parts.append(str(len(ws.charging_stations)))
    for cid, cs in ws.charging_stations.items():
        parts += [cid, cs.parent, f(cs.max_power), f(cs.min_power), f(cs.current_power)]
    parts.append(str(len(ws.vehicles)))
    for vid, v in ws.vehicles.items():
        etd = v.estimated_time_of_departure
        parts += [vid, w_opt(v.connected_charging_station, str), f(v.desired_soc),
                  "N" if etd is None else "S %d" % inst(etd),
                  f(v.vehicle_type.min_charging_power), "1" if v.vehicle_type.v2g else "0",
                  f(v.vehicle_type.discharge_limit), r_battery(v.battery),
                  w_opt(v.schedule, f), f(v.vehicle_type.charging_curve.max_power)]
    parts.append(str(len(ws.batteries)))
    for bid, b in ws.batteries.items():
        parts += [bid, b.parent, f(b.min_charging_power), r_battery(b)]
    parts.append(w_list(ws.future_events, r_event))
    parts.append(r_state(strat))
    return " ".join(parts)


def render_result(strat, cmds):
    ws = strat.world_state
    kv = lambda d: " ".join([str(len(d))] + ["%s %s" % (k, f(v)) for k, v in d.items()])
    return (kv(cmds) + " | " + " ; ".join("%s %s" % (gid, kv(gc.current_loads)) for gid, gc in ws.grid_connectors.items())
            + " | " + " ".join(f(cs.current_power) for cs in ws.charging_stations.values())
            + " | " + " ".join(f(v.battery.soc) for v in ws.vehicles.values())
            + " | " + " ".join(f(b.soc) for b in ws.batteries.values())
            + " | " + r_state(strat))


COUNTED = ["evaluate_core_standing_time_ahead", "charge_vehicles_during_core_standing_time",
           "charge_vehicles_during_core_standing_time_v2g", "charge_vehicles_after_core_standing_time",
           "charge_vehicles", "charge_individually", "sim_balanced_charging"]


@contextlib.contextmanager
def tie(full=None, count_calls=False):
    """wrap the real `Schedule.step` for the duration of a `scen.run_real(full)`; yields a dict with
    `lines` (model requests), `impl` (implementation results) per step, `active` (steps with power),
    `calls` (how often each method of the class ran) and `errors` (adapter failures, e.g. a naive datetime —
    the caller must treat a non-empty list as a harness error, never as a violation)"""
    from spice_ev.strategies import schedule as sched_mod
    cls = sched_mod.Schedule
    orig = cls.step
    out = {"lines": [], "impl": [], "active": 0, "calls": {}, "errors": []}
    saved = {}

    def wrapped(self):
        # an adapter failure must never look like a failure of the strategy (Scenario.run catches Exception around
        # the step): it is recorded in out["errors"] and the real step runs untouched
        try:
            line = render_world(self)
        except Exception as e:
            out["errors"].append("render_world at %s: %r" % (self.current_time, e))
            return orig(self)
        try:
            res = orig(self)
        except Exception as e:
            out["lines"].append(line)
            out["impl"].append("!" + type(e).__name__)
            raise
        try:
            rendered = render_result(self, res["commands"])
        except Exception as e:
            out["errors"].append("render_result at %s: %r" % (self.current_time, e))
            return res
        out["lines"].append(line)
        out["impl"].append(rendered)
        if any(abs(x) > 1e-5 for x in res["commands"].values()):
            out["active"] += 1
        return res

    def counting(name, fn):
        def g(self, *a, **k):
            out["calls"][name] = out["calls"].get(name, 0) + 1
            return fn(self, *a, **k)
        return g
    cls.step = wrapped
    if count_calls:
        for name in COUNTED:
            saved[name] = getattr(cls, name)
            setattr(cls, name, counting(name, saved[name]))
    try:
        yield out
    finally:
        cls.step = orig
        for name, fn in saved.items():
            setattr(cls, name, fn)


VARIANTS = ["plain", "plain", "plain", "no_vehicle_schedule", "no_target", "two_connectors", "zero_station",
            "discharge_limit_1", "no_departure_time", "shared_station"]


def directed(full, rng, variant):
    """odd-branch variants of a generated scenario (still valid input files): they reach the exceptions and the
    Python locals that leak from one loop iteration to the next (`add_power`, `discharge_limit`)"""
    scn = full["scenario"]
    comp, ev = scn["components"], scn["events"]
    vids = list(comp["vehicles"])
    if variant == "no_vehicle_schedule":
        vid = rng.choice(vids)
        comp["vehicles"][vid].pop("schedule", None)
        ev["vehicle_events"] = [e for e in ev["vehicle_events"]
                                if not (e["vehicle_id"] == vid and e["event_type"] == "schedule")]
    elif variant == "no_target":
        for gc in comp["grid_connectors"].values():
            gc.pop("target", None)
        keep_after = rng.choice([0, 1, 3])
        k = 0
        for e in ev["grid_operator_signals"]:
            if "target" in e:
                k += 1
                if k <= keep_after or keep_after == 0:
                    e.pop("target")
    elif variant == "zero_station":
        cid = rng.choice(list(comp["charging_stations"]))
        comp["charging_stations"][cid]["max_power"] = 0
        comp["charging_stations"][cid]["min_power"] = 0
    elif variant == "discharge_limit_1":
        for vt in comp["vehicle_types"].values():
            vt["v2g"] = True
            vt["discharge_limit"] = rng.choice([1.0, 1.0, 0.999995])
    elif variant == "no_departure_time":
        for v in comp["vehicles"].values():
            v.pop("estimated_time_of_departure", None)
    elif variant == "shared_station":
        cid = list(comp["charging_stations"])[0]
        for v in comp["vehicles"].values():
            if "connected_charging_station" in v:
                v["connected_charging_station"] = cid
        for e in ev["vehicle_events"]:
            if "connected_charging_station" in e.get("update", {}):
                e["update"]["connected_charging_station"] = cid
    return full


def gen_cases(tier, seed):
    n = 200 if tier == "quick" else 2000
    for i in range(n):
        for collective in (False, True):
            yield {"seed": seed, "i": i, "collective": collective, "variant": VARIANTS[i % len(VARIANTS)], "pid": PID}


def eval_case(case):
    if "scenario" in case:
        full = case
    else:
        rng = random.Random("S_SCHEDULE:%s:%s:%s" % (case["seed"], case["i"], case["collective"]))
        variant = case.get("variant", "plain")
        full = scen.gen_scenario(rng, strategy="schedule", feasible=rng.random() < 0.8, max_steps=40,
                                 n_gc=2 if (variant == "two_connectors" and not case["collective"]) else None,
                                 features={"collective": case["collective"]})
        full = directed(full, rng, variant)
        full["variant"] = variant
        full["pid"] = PID
    with tie(full, count_calls=True) as out:
        res = scen.run_real(full, timeout_s=120, collect_ops=False)
    if out["errors"]:
        raise RuntimeError("S_SCHEDULE adapter error: " + "; ".join(out["errors"][:3]))
    stats = ["collective" if full["options"].get("LOAD_STRAT") == "collective" else "individual",
             "variant:" + full.get("variant", "plain")]
    stats += ["called:" + k for k in out["calls"]]
    stats += ["raised:" + x for x in set(out["impl"]) if x.startswith("!")]
    if res.get("timeout"):
        stats.append("timeout")
    return {"lines": out["lines"], "impl": out["impl"], "violations": [], "nontrivial": out["active"] > 0,
            "stats": stats, "replay_case": full, "num": {"steps_compared": len(out["lines"])}}


def compare(case, impl, model, tol=0.0):
    a, b = impl.split(), model.split()
    if len(a) != len(b):
        return "different shape (%d vs %d tokens): %s  //  %s" % (len(a), len(b), impl[:300], model[:300])
    for i, (x, y) in enumerate(zip(a, b)):
        if x == y:
            continue
        if x.startswith("x") and y.startswith("x"):
            fx, fy = dec(x), dec(y)
            if fx == fy or abs(fx - fy) <= tol * max(1.0, abs(fx), abs(fy)):
                continue
            return "token %d: impl %r model %r" % (i, fx, fy)
        return "token %d: impl %s model %s" % (i, x, y)
    return None
