"""step correspondence of S_SCHEDULE without the engine: dev.py <seed> <n> [start]  (VERIF_REPO = repo under test)"""
import os, sys
HERE = os.path.dirname(os.path.abspath(__file__))
VERIF = os.path.abspath(os.path.join(HERE, "..", ".."))
REPO = os.environ.get("VERIF_REPO", "/repo")
import time, collections
sys.path.insert(0, os.path.join(VERIF, "harness"))
import engine, s_schedule as S
seed = int(sys.argv[1]); n = int(sys.argv[2]); start = int(sys.argv[3]) if len(sys.argv) > 3 else 0
stats = collections.Counter(); bad = 0; steps = 0
t0 = time.time()
for i in range(start, start + n):
    for coll in (False, True):
        case = {"seed": seed, "i": i, "collective": coll, "variant": S.VARIANTS[i % len(S.VARIANTS)], "pid": "S_SCHEDULE"}
        r = S.eval_case(case)
        outs = engine.drive(r["lines"])
        steps += len(outs)
        for s in r["stats"]: stats[s] += 1
        for k, (io, mo) in enumerate(zip(r["impl"], outs)):
            d = S.compare(case, io, mo)
            if d is not None:
                bad += 1
                if bad <= 5:
                    print("DISAGREE", case, "step", k, d)
                    print("  impl ", io[:600]); print("  model", mo[:600])
                break
print("steps", steps, "bad", bad, "time %.1f" % (time.time() - t0))
for k, v in sorted(stats.items()): print("  ", k, v)
