import sys, os, time, collections
os.environ.setdefault("VERIF_REPO", "/repo")
sys.path.insert(0, os.path.join(os.path.dirname(os.path.abspath(__file__)), "..", "..", "harness"))
import warnings; warnings.simplefilter("ignore")
import engine, s_flex_window as S
seed = int(sys.argv[1]); lo = int(sys.argv[2]); hi = int(sys.argv[3])
tot = 0; bad = 0; stats = collections.Counter(); t0 = time.time()
for i in range(lo, hi):
    r = S.eval_case({"seed": seed, "i": i, "pid": S.PID})
    for s in r["stats"]: stats[s] += 1
    outs = engine.drive(r["lines"])
    for k, (ln, io, mo) in enumerate(zip(r["lines"], r["impl"], outs)):
        tot += 1
        d = S.compare(None, io, mo)
        if d is not None:
            bad += 1
            if bad <= int(os.environ.get("SHOW", "5")):
                print("CASE", i, "line", k, ln.split()[0], ln.split()[1], d)
                print("  impl ", io[:600]); print("  model", mo[:600])
                if os.environ.get("DUMP"):
                    open("/tmp/bad_%d_%d.txt" % (i, k), "w").write(ln + "\n" + io + "\n" + mo + "\n")
            break
print("total", tot, "bad", bad, "time %.1f" % (time.time() - t0)); print(dict(stats))
