/-
Helper lemmas for the text model of `util.read_grid_file` / `util.sanitize` (Model/GridFile.lean).
-/
import SpiceEv.Model.GridFile
import SpiceEv.Model.ScheduleGen
import Mathlib.Data.List.Basic
import Mathlib.Data.List.Sublists
import Mathlib.Tactic.Linarith
set_option linter.unusedSectionVars false
set_option linter.unusedSimpArgs false
set_option linter.unusedVariables false
set_option linter.unusedTactic false
set_option linter.unreachableTactic false
namespace SpiceEv.GridFile
open SpiceEv

/-! ### sanitize -/

/-- the set of characters `sanitize` removes -/
def banned (chars : List Char) : List Char := if chars.isEmpty then defaultChars else chars

theorem sanitize_eq (s chars : List Char) :
    sanitize s chars = s.filter (fun c => !(banned chars).contains c) := rfl

/-! ### DictReader rows -/

theorem lookup_reverse_zip_some (names row : List String) (key : String)
    (hk : key ∈ names) (hl : names.length ≤ row.length) :
    ∃ v, (names.zip row).reverse.lookup key = some v := by
  have hmem : key ∈ ((names.zip row).reverse).map (·.1) := by
    rw [List.map_reverse, List.mem_reverse, List.map_fst_zip (by omega)]
    exact hk
  generalize (names.zip row).reverse = L at hmem
  induction L with
  | nil => cases hmem
  | cons kv L ih =>
    obtain ⟨k, v⟩ := kv
    rw [List.lookup_cons]
    by_cases e : (key == k) = true
    · exact ⟨v, by simp [e]⟩
    · have e' : (key == k) = false := by simpa using e
      simp only [e']
      simp only [List.map_cons, List.mem_cons] at hmem
      rcases hmem with h | h
      · subst h; simp at e
      · exact ih h

/-- in a row that is at least as long as the header every named column has a text -/
theorem rowGet_full (names row : List String) (key : String) (hk : key ∈ names)
    (hl : names.length ≤ row.length) : ∃ t, rowGet names row key = some (some t) := by
  unfold rowGet
  have : names.drop row.length = [] := List.drop_eq_nil_of_le hl
  rw [this]
  obtain ⟨v, hv⟩ := lookup_reverse_zip_some names row key hk hl
  simp [hv]

/-- a name that is not in the header is a KeyError, whatever the row -/
theorem rowGet_missing (names row : List String) (key : String) (hk : key ∉ names) :
    rowGet names row key = none := by
  unfold rowGet
  have h1 : (names.drop row.length).contains key = false := by
    simp only [List.contains_eq_mem, decide_eq_false_iff_not]
    intro h; exact hk (List.mem_of_mem_drop h)
  rw [h1]
  have : (names.zip row).reverse.lookup key = none := by
    rw [List.lookup_eq_none_iff]
    intro p hp
    have hp' : p ∈ names.zip row := List.mem_reverse.mp hp
    have : p.1 ∈ names := (List.of_mem_zip (a := p.1) (b := p.2) hp').1
    simp only [bne_iff_ne, ne_eq]
    intro e
    subst e; exact hk this
  simp [this]

/-- the missing names of a short row are `None` -/
theorem rowGet_short (names row : List String) (key : String)
    (hk : key ∈ names.drop row.length) : rowGet names row key = some none := by
  unfold rowGet
  have : (names.drop row.length).contains key = true := by simpa using hk
  rw [this]; rfl

/-! ### the row loop on well-formed rows -/

/-- the parsed cells of a data row: (residual load, curtailment) -/
def rowValues (names row : List String) : Option (FVal × FVal) :=
  match rowGet names row "residual load", rowGet names row "curtailment" with
  | some (some r), some (some c) =>
    match parseFloat r, parseFloat c with
    | some vr, some vc => some (vr, vc)
    | _, _ => none
  | _, _ => none

/-- the start time `read_grid_file` derives from the first data row with all columns -/
def startOf (names row : List String) : Option Int :=
  match rowGet names row "timestamp" with
  | some (some t) => strptime t
  | _ => none

theorem rowStep_wellformed (names : List String) (a : Acc) (row : List String) (idx : Nat)
    (vr vc : FVal) (hts : rowGet names row "timestamp" ≠ some none)
    (hv : rowValues names row = some (vr, vc))
    (hsign : ((a.neg || vc.ltZero) && (a.pos || vc.gtZero)) = false) :
    rowStep names a (row, idx) = .ok
      { residual := vr :: a.residual, curtailment := vc.abs :: a.curtailment,
        neg := a.neg || vc.ltZero, pos := a.pos || vc.gtZero,
        start := if idx == 0 then startOf names row else a.start } := by
  unfold rowValues at hv
  cases hr : rowGet names row "residual load" with
  | none => simp [hr] at hv
  | some r' =>
    cases r' with
    | none => simp [hr] at hv
    | some r =>
      cases hc : rowGet names row "curtailment" with
      | none => simp [hr, hc] at hv
      | some c' =>
        cases c' with
        | none => simp [hr, hc] at hv
        | some c =>
          simp only [hr, hc] at hv
          cases hpr : parseFloat r with
          | none => simp [hpr] at hv
          | some vr' =>
            cases hpc : parseFloat c with
            | none => simp [hpr, hpc] at hv
            | some vc' =>
              simp only [hpr, hpc, Option.some.injEq, Prod.mk.injEq] at hv
              obtain ⟨rfl, rfl⟩ := hv
              unfold rowStep startOf
              by_cases h0 : (idx == 0) = true
              · cases hts' : rowGet names row "timestamp" with
                | none => simp [h0, hts', hr, hc, hpr, hpc, hsign, bind, Except.bind, pure, Except.pure]
                | some t' =>
                  cases t' with
                  | none => exact absurd hts' hts
                  | some t => simp [h0, hts', hr, hc, hpr, hpc, hsign, bind, Except.bind, pure, Except.pure]
              · simp [h0, hr, hc, hpr, hpc, hsign, bind, Except.bind, pure, Except.pure]

/-- the whole loop on rows that are all well-formed and sign-consistent -/
theorem rows_wellformed (names : List String) :
    ∀ (rows : List (List String)) (k : Nat) (a : Acc) (vals : List (FVal × FVal)),
      rows.map (rowValues names) = vals.map some →
      (∀ row ∈ rows, rowGet names row "timestamp" ≠ some none) →
      ((a.neg = false ∧ ∀ v ∈ vals, v.2.ltZero = false) ∨ (a.pos = false ∧ ∀ v ∈ vals, v.2.gtZero = false)) →
      ∃ a', (rows.zipIdx k).foldlM (rowStep names) a = .ok a' ∧
        a'.residual = (vals.map (·.1)).reverse ++ a.residual ∧
        a'.curtailment = (vals.map (fun v => v.2.abs)).reverse ++ a.curtailment ∧
        a'.start = (match rows with
          | [] => a.start
          | row :: _ => if k == 0 then startOf names row else a.start) := by
  intro rows
  induction rows with
  | nil =>
    intro k a vals hv _ _
    cases vals with
    | nil => exact ⟨a, rfl, by simp, by simp, rfl⟩
    | cons v vs => simp at hv
  | cons row rows ih =>
    intro k a vals hv hts hsign
    cases vals with
    | nil => simp at hv
    | cons v vals =>
      simp only [List.map_cons, List.cons.injEq] at hv
      obtain ⟨hv1, hv2⟩ := hv
      have hs1 : ((a.neg || v.2.ltZero) && (a.pos || v.2.gtZero)) = false := by
        rcases hsign with ⟨h1, h2⟩ | ⟨h1, h2⟩
        · simp [h1, h2 v List.mem_cons_self]
        · simp [h1, h2 v List.mem_cons_self]
      have hstep := rowStep_wellformed names a row k v.1 v.2 (hts row List.mem_cons_self) hv1 hs1
      rw [List.zipIdx_cons, List.foldlM_cons, hstep]
      have hsign' : (((a.neg || v.2.ltZero) = false ∧ ∀ w ∈ vals, w.2.ltZero = false) ∨
          ((a.pos || v.2.gtZero) = false ∧ ∀ w ∈ vals, w.2.gtZero = false)) := by
        rcases hsign with ⟨h1, h2⟩ | ⟨h1, h2⟩
        · left; exact ⟨by simp [h1, h2 v List.mem_cons_self], fun w hw => h2 w (List.mem_cons_of_mem _ hw)⟩
        · right; exact ⟨by simp [h1, h2 v List.mem_cons_self], fun w hw => h2 w (List.mem_cons_of_mem _ hw)⟩
      obtain ⟨a', h1, h2, h3, h4⟩ := ih (k + 1)
        { residual := v.1 :: a.residual, curtailment := v.2.abs :: a.curtailment,
          neg := a.neg || v.2.ltZero, pos := a.pos || v.2.gtZero,
          start := if k == 0 then startOf names row else a.start } vals hv2
        (fun r hr => hts r (List.mem_cons_of_mem _ hr)) hsign'
      refine ⟨a', h1, ?_, ?_, ?_⟩
      · rw [h2]; simp
      · rw [h3]; simp
      · rw [h4]
        cases rows with
        | nil => rfl
        | cons r rs => simp

/-! ### which rows are rejected -/

/-- the malformed kinds of one data row -/
def RowRejected (names : List String) (a : Acc) (row : List String) (idx : Nat) : Prop :=
  (idx = 0 ∧ rowGet names row "timestamp" = some none) ∨
  rowGet names row "residual load" = none ∨ rowGet names row "residual load" = some none ∨
  rowGet names row "curtailment" = none ∨ rowGet names row "curtailment" = some none ∨
  (∃ t v, rowGet names row "curtailment" = some (some t) ∧ parseFloat t = some v ∧
    ((a.neg || v.ltZero) && (a.pos || v.gtZero)) = true)

theorem rowStep_error_iff (names : List String) (a : Acc) (row : List String) (idx : Nat) :
    (∃ e, rowStep names a (row, idx) = .error e) ↔ RowRejected names a row idx := by
  unfold RowRejected rowStep
  by_cases h0 : idx = 0
  · subst h0
    cases hts : rowGet names row "timestamp" with
    | none =>
      cases hr : rowGet names row "residual load" with
      | none => simp [hts, hr, bind, Except.bind, pure, Except.pure]
      | some r' =>
        cases r' with
        | none => simp [hts, hr, bind, Except.bind, pure, Except.pure]
        | some r =>
          cases hc : rowGet names row "curtailment" with
          | none => cases hp : parseFloat r <;> simp [hts, hr, hc, hp, bind, Except.bind, pure, Except.pure]
          | some c' =>
            cases c' with
            | none => cases hp : parseFloat r <;> simp [hts, hr, hc, hp, bind, Except.bind, pure, Except.pure]
            | some c =>
              cases hp : parseFloat r <;> cases hq : parseFloat c <;>
                simp [hts, hr, hc, hp, hq, bind, Except.bind, pure, Except.pure] <;>
                (split <;> simp_all)
    | some t' =>
      cases t' with
      | none => simp [hts, bind, Except.bind, pure, Except.pure]
      | some t =>
        cases hr : rowGet names row "residual load" with
        | none => simp [hts, hr, bind, Except.bind, pure, Except.pure]
        | some r' =>
          cases r' with
          | none => simp [hts, hr, bind, Except.bind, pure, Except.pure]
          | some r =>
            cases hc : rowGet names row "curtailment" with
            | none => cases hp : parseFloat r <;> simp [hts, hr, hc, hp, bind, Except.bind, pure, Except.pure]
            | some c' =>
              cases c' with
              | none => cases hp : parseFloat r <;> simp [hts, hr, hc, hp, bind, Except.bind, pure, Except.pure]
              | some c =>
                cases hp : parseFloat r <;> cases hq : parseFloat c <;>
                  simp [hts, hr, hc, hp, hq, bind, Except.bind, pure, Except.pure] <;>
                  (split <;> simp_all)
  · have h0' : (idx == 0) = false := by simpa using h0
    cases hr : rowGet names row "residual load" with
    | none => simp [h0, h0', hr, bind, Except.bind, pure, Except.pure]
    | some r' =>
      cases r' with
      | none => simp [h0, h0', hr, bind, Except.bind, pure, Except.pure]
      | some r =>
        cases hc : rowGet names row "curtailment" with
        | none => cases hp : parseFloat r <;> simp [h0, h0', hr, hc, hp, bind, Except.bind, pure, Except.pure]
        | some c' =>
          cases c' with
          | none => cases hp : parseFloat r <;> simp [h0, h0', hr, hc, hp, bind, Except.bind, pure, Except.pure]
          | some c =>
            cases hp : parseFloat r <;> cases hq : parseFloat c <;>
              simp [h0, h0', hr, hc, hp, hq, bind, Except.bind, pure, Except.pure] <;>
              (split <;> simp_all)

/-! ### the row loop ends in the value model of Model/ScheduleGen.lean -/

/-- what the value model (`ScheduleGen.readResidual` / `readCurtailment`) sees of a cell: `none` = non-numeric -/
def cellRat (t : String) : Option Rat :=
  match parseFloat t with
  | some (.num q) => some q
  | _ => none

/-- the cell is a finite number or not a number at all (no `nan`, no `inf`) -/
def FiniteCell (t : String) : Prop := parseFloat t = none ∨ ∃ q, parseFloat t = some (.num q)

/-- `xs[-1] if row_idx > 0 else 0` -/
def prevOf (k : Nat) (l : List FVal) : FVal := if k > 0 then l.headD (.num 0) else .num 0

theorem readResidual_length (l : List (Option Rat)) (prev : Option Rat) :
    (ScheduleGen.readResidual l prev).length = l.length := by
  induction l generalizing prev with
  | nil => rfl
  | cons x xs ih => cases x <;> simp [ScheduleGen.readResidual, ih]

theorem prevOf_succ (k : Nat) (x : FVal) (l : List FVal) : prevOf (k + 1) (x :: l) = x := by
  simp [prevOf]

theorem rowStep_texts (names : List String) (a : Acc) (row : List String) (idx : Nat) (r c : String)
    (hts : rowGet names row "timestamp" ≠ some none)
    (hr : rowGet names row "residual load" = some (some r))
    (hc : rowGet names row "curtailment" = some (some c)) :
    rowStep names a (row, idx) =
      (let res := match parseFloat r with | some v => v | none => prevOf idx a.residual
       let start := if idx == 0 then startOf names row else a.start
       match parseFloat c with
       | some v =>
         if (a.neg || v.ltZero) && (a.pos || v.gtZero) then .error (.py .assertion)
         else .ok { residual := res :: a.residual, curtailment := v.abs :: a.curtailment,
                    neg := a.neg || v.ltZero, pos := a.pos || v.gtZero, start := start }
       | none => .ok { residual := res :: a.residual, curtailment := prevOf idx a.curtailment :: a.curtailment,
                       neg := a.neg, pos := a.pos, start := start }) := by
  unfold rowStep startOf prevOf
  by_cases h0 : (idx == 0) = true
  · have hk : ¬ idx > 0 := by
      have h00 : idx = 0 := by simpa using h0
      omega
    cases hts' : rowGet names row "timestamp" with
    | none =>
      cases hp : parseFloat r <;> cases hq : parseFloat c <;>
        simp [h0, hk, hts', hr, hc, hp, hq, bind, Except.bind, pure, Except.pure] <;> (split <;> simp_all)
    | some t' =>
      cases t' with
      | none => exact absurd hts' hts
      | some t =>
        cases hp : parseFloat r <;> cases hq : parseFloat c <;>
          simp [h0, hk, hts', hr, hc, hp, hq, bind, Except.bind, pure, Except.pure] <;> (split <;> simp_all)
  · have hk : idx > 0 := by
      have : idx ≠ 0 := by simpa using h0
      omega
    cases hp : parseFloat r <;> cases hq : parseFloat c <;>
      simp [h0, hk, hr, hc, hp, hq, bind, Except.bind, pure, Except.pure] <;> (split <;> simp_all)

theorem abs_num (q : Rat) : (FVal.num q).abs = .num (ScheduleGen.absNum q) := by
  unfold FVal.abs ScheduleGen.absNum
  by_cases h : q < 0
  · have : ¬ (0 : Rat) < q := by intro h'; exact absurd (lt_trans h h') (lt_irrefl _)
    simp [h, this]
  · by_cases h' : (0 : Rat) < q
    · simp [h, h']
    · have : q = 0 := le_antisymm (not_lt.mp h') (not_lt.mp h)
      subst this; simp

/-- the cells of the data rows, as texts: (residual load, curtailment) -/
def RowTexts (names : List String) (row : List String) (p : String × String) : Prop :=
  rowGet names row "residual load" = some (some p.1) ∧ rowGet names row "curtailment" = some (some p.2) ∧
  rowGet names row "timestamp" ≠ some none ∧ FiniteCell p.1 ∧ FiniteCell p.2

theorem rows_value_model (names : List String) :
    ∀ (rows : List (List String)) (cells : List (String × String)), List.Forall₂ (RowTexts names) rows cells →
    ∀ (k : Nat) (a : Acc) (prevR prevC : Option Rat),
      prevOf k a.residual = .num (prevR.getD 0) → prevOf k a.curtailment = .num (prevC.getD 0) →
      match ScheduleGen.readCurtailment (cells.map (fun p => cellRat p.2)) prevC a.neg a.pos with
      | .ok lc => ∃ a', (rows.zipIdx k).foldlM (rowStep names) a = .ok a' ∧
          a'.residual = ((ScheduleGen.readResidual (cells.map (fun p => cellRat p.1)) prevR).map FVal.num).reverse
            ++ a.residual ∧
          a'.curtailment = (lc.map FVal.num).reverse ++ a.curtailment ∧
          a'.start = (match rows with
            | [] => a.start
            | row :: _ => if k == 0 then startOf names row else a.start) ∧
          lc.length = cells.length
      | .error _ => (rows.zipIdx k).foldlM (rowStep names) a = .error (.py .assertion) := by
  intro rows cells hf
  induction hf with
  | nil =>
    intro k a prevR prevC _ _
    simp only [List.map_nil, ScheduleGen.readCurtailment, ScheduleGen.readResidual]
    exact ⟨a, rfl, by simp, by simp, rfl, rfl⟩
  | @cons row p rows cells hrow _ ih =>
    intro k a prevR prevC hpr hpc
    obtain ⟨hr, hc, hts, hfr, hfc⟩ := hrow
    rw [List.zipIdx_cons, List.foldlM_cons, rowStep_texts names a row k p.1 p.2 hts hr hc]
    -- the residual cell
    have hres : ∃ (vr : Rat) (prevR' : Option Rat),
        (match parseFloat p.1 with | some v => v | none => prevOf k a.residual) = .num vr ∧
        ScheduleGen.readResidual (cellRat p.1 :: cells.map (fun p => cellRat p.1)) prevR
          = vr :: ScheduleGen.readResidual (cells.map (fun p => cellRat p.1)) (some vr) := by
      rcases hfr with hn | ⟨q, hq⟩
      · refine ⟨prevR.getD 0, none, ?_, ?_⟩
        · simp [hn, hpr]
        · simp [cellRat, hn, ScheduleGen.readResidual]
      · refine ⟨q, none, ?_, ?_⟩
        · simp [hq]
        · simp [cellRat, hq, ScheduleGen.readResidual]
    obtain ⟨vr, _, hvr, hrr⟩ := hres
    simp only [List.map_cons]
    rw [hrr, hvr]
    rcases hfc with hn | ⟨q, hq⟩
    · -- non-numeric curtailment: previous value
      have hcell : cellRat p.2 = none := by simp [cellRat, hn]
      simp only [hn, hcell, ScheduleGen.readCurtailment]
      have := ih (k + 1)
        { residual := FVal.num vr :: a.residual, curtailment := prevOf k a.curtailment :: a.curtailment,
          neg := a.neg, pos := a.pos, start := if k == 0 then startOf names row else a.start }
        (some vr) (some (prevC.getD 0)) (prevOf_succ _ _ _) (by rw [prevOf_succ, hpc]; rfl)
      simp only at this
      cases hrc : ScheduleGen.readCurtailment (cells.map (fun p => cellRat p.2)) (some (prevC.getD 0)) a.neg a.pos with
      | error e =>
        rw [hrc] at this
        simp only [bind, Except.bind]
        exact this
      | ok lc =>
        rw [hrc] at this
        obtain ⟨a', h1, h2, h3, h4, h5⟩ := this
        simp only [bind, Except.bind]
        refine ⟨a', h1, ?_, ?_, ?_, ?_⟩
        · rw [h2]; simp
        · rw [h3, hpc]; simp
        · rw [h4]; cases rows <;> simp
        · simp [h5]
    · -- numeric curtailment
      have hcell : cellRat p.2 = some q := by simp [cellRat, hq]
      have hlt : (FVal.num q).ltZero = decide (q < 0) := rfl
      have hgt : (FVal.num q).gtZero = decide (0 < q) := rfl
      simp only [hq, hcell, ScheduleGen.readCurtailment, hlt, hgt]
      by_cases hflag : ((a.neg || decide (q < 0)) && (a.pos || decide (0 < q))) = true
      · simp only [hflag, if_true]; rfl
      · simp only [hflag, if_false, Bool.false_eq_true]
        have := ih (k + 1)
          { residual := FVal.num vr :: a.residual, curtailment := (FVal.num q).abs :: a.curtailment,
            neg := a.neg || decide (q < 0), pos := a.pos || decide (0 < q),
            start := if k == 0 then startOf names row else a.start }
          (some vr) (some (ScheduleGen.absNum q)) (prevOf_succ _ _ _) (by rw [prevOf_succ, abs_num]; rfl)
        simp only at this
        cases hrc : ScheduleGen.readCurtailment (cells.map (fun p => cellRat p.2)) (some (ScheduleGen.absNum q))
            (a.neg || decide (q < 0)) (a.pos || decide (0 < q)) with
        | error e =>
          rw [hrc] at this
          simp only [bind, Except.bind]
          exact this
        | ok lc =>
          rw [hrc] at this
          obtain ⟨a', h1, h2, h3, h4, h5⟩ := this
          simp only [bind, Except.bind]
          refine ⟨a', h1, ?_, ?_, ?_, ?_⟩
          · rw [h2]; simp
          · rw [h3, abs_num]; simp
          · rw [h4]; cases rows <;> simp
          · simp [h5]

end SpiceEv.GridFile
