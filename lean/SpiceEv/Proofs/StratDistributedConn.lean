/-
"Only a station with a connected vehicle carries power" and "a station is discharged only through a V2G-capable
connected vehicle" through the greedy / balanced step, the connector loop (write-back of the virtual worlds) and the
final surplus pass of `Distributed.step`.

The invariant is stated against the list of vehicle keys `(id, connected station, V2G capability)`, which no pass
changes (every write to a vehicle is `{ v with bat := … }`): a station with power ≠ 0 has a key connected to it, a
station with power < 0 has a V2G key connected to it.
-/
import SpiceEv.Proofs.StratDistributedLower
set_option linter.unusedSectionVars false
set_option linter.unusedSimpArgs false
set_option linter.unusedVariables false
namespace SpiceEv.Distrib.Conn
open SpiceEv SpiceEv.Frame SpiceEv.Distrib
variable {α B : Type} [Field α] [LinearOrder α] [IsStrictOrderedRing α]

/-- what never changes at a vehicle during a step: id, `connected_charging_station`, `vehicle_type.v2g` -/
def vkey (v : VehicleS α B) : String × Option String × Bool := (v.id, v.cs, v.v2g)

/-- the keys of the vehicles of a world, in dict order -/
def VK (w : SWorld α B) : List (String × Option String × Bool) := w.vehicles.map vkey

/-- a dict has one entry per id -/
def KeyCons (KS : List (String × Option String × Bool)) : Prop := ∀ a ∈ KS, ∀ b ∈ KS, a.1 = b.1 → a = b

/-- a station with power has a connected vehicle -/
def ConnK (KS : List (String × Option String × Bool)) (ss : List (StationS α)) : Prop :=
  ∀ s ∈ ss, s.currentPower ≠ 0 → ∃ k ∈ KS, k.2.1 = some s.id

/-- a discharging station has a connected V2G-capable vehicle -/
def NegK (KS : List (String × Option String × Bool)) (ss : List (StationS α)) : Prop :=
  ∀ s ∈ ss, s.currentPower < 0 → ∃ k ∈ KS, k.2.1 = some s.id ∧ k.2.2 = true

/-- the invariant of all passes; the flag `n` switches the V2G part on (the "connected" part alone asks less of a
peak_shaving / peak_load_window sub-strategy) -/
def CInv (n : Bool) (KS : List (String × Option String × Bool)) (w : SWorld α B) : Prop :=
  VK w = KS ∧ ConnK KS w.stations ∧ (n = true → NegK KS w.stations)

theorem keyCons_of_nodup (KS : List (String × Option String × Bool)) (h : (KS.map (·.1)).Nodup) : KeyCons KS := by
  intro a ha b hb e
  exact List.inj_on_of_nodup_map h ha hb e

theorem vk_nodup (w : SWorld α B) (h : (w.vehicles.map (·.id)).Nodup) : KeyCons (VK w) := by
  apply keyCons_of_nodup
  unfold VK
  rw [List.map_map]
  exact h

theorem keyCons_sub (KS : List (String × Option String × Bool)) (l : List (VehicleS α B)) (w : SWorld α B)
    (hc : KeyCons (VK w)) (hl : ∀ v ∈ l, v ∈ w.vehicles) : KeyCons (l.map vkey) := by
  intro a ha b hb e
  simp only [List.mem_map] at ha hb
  obtain ⟨x, hx, rfl⟩ := ha
  obtain ⟨y, hy, rfl⟩ := hb
  exact hc _ (List.mem_map.mpr ⟨x, hl x hx, rfl⟩) _ (List.mem_map.mpr ⟨y, hl y hy, rfl⟩) e

/-- writing a new battery into a vehicle of the world keeps the keys -/
theorem setVehicle_vk (w : SWorld α B) (v : VehicleS α B) (bat' : B) (hc : KeyCons (VK w)) (hv : v ∈ w.vehicles) :
    VK (w.setVehicle { v with bat := bat' }) = VK w := by
  unfold VK SWorld.setVehicle
  simp only [List.map_map]
  apply List.map_congr_left
  intro x hx
  simp only [Function.comp]
  split
  · rename_i hid
    have hid' : x.id = v.id := by simpa using hid
    have := hc (vkey x) (List.mem_map.mpr ⟨x, hx, rfl⟩) (vkey v) (List.mem_map.mpr ⟨v, hv, rfl⟩) hid'
    rw [this]; rfl
  · rfl

/-- one booking at the station the vehicle is connected to: charge (`0 ≤ d`) or a discharge of a V2G vehicle -/
theorem cinv_book (n : Bool) (KS : List (String × Option String × Bool)) (hc : KeyCons KS) (w : SWorld α B)
    (v : VehicleS α B) (bat' : B) (g' : GcS α) (cs : StationS α) (d : α)
    (hv : v ∈ w.vehicles) (hcs : cs ∈ w.stations) (hvc : v.cs = some cs.id) (hd : 0 ≤ d ∨ v.v2g = true)
    (h : CInv n KS w) :
    CInv n KS (((w.setVehicle { v with bat := bat' }).setGc g').setStation
      { cs with currentPower := cs.currentPower + d }) := by
  obtain ⟨h1, h2, h3⟩ := h
  have hk : vkey v ∈ KS := by rw [← h1]; exact List.mem_map.mpr ⟨v, hv, rfl⟩
  refine ⟨?_, ?_, ?_⟩
  · have := setVehicle_vk w v bat' (by rw [h1]; exact hc) hv
    rw [← h1, ← this]; rfl
  · intro s hs hp
    rcases mem_setStation' _ _ s hs with rfl | ⟨hsm, _⟩
    · exact ⟨vkey v, hk, hvc⟩
    · exact h2 s (by simpa using hsm) hp
  · intro hn s hs hp
    rcases mem_setStation' _ _ s hs with rfl | ⟨hsm, _⟩
    · rcases hd with hd | hd
      · have hp' : cs.currentPower + d < 0 := hp
        obtain ⟨k, hk1, hk2, hk3⟩ := h3 hn cs hcs (by linarith)
        exact ⟨k, hk1, hk2, hk3⟩
      · exact ⟨vkey v, hk, hvc, hd⟩
    · exact h3 hn s (by simpa using hsm) hp

theorem allocVehicle_cinv (n : Bool) (KS : List (String × Option String × Bool)) (hc : KeyCons KS) (rule : Rule)
    (ops : BatOps α B) (law : BatLaw ops) (env : StratEnv α)
    (st st' : SWorld α B × List (String × α) × List (String × α)) (vid : String)
    (hinv : CInv n KS st.1) (h : allocVehicle rule ops env st vid = .ok st') : CInv n KS st'.1 := by
  obtain ⟨v, hv, hcase⟩ := allocVehicle_cases rule ops env st st' vid h
  rcases hcase with ⟨_, he⟩ | ⟨csId, cs, gc, cheap, power, used, bat', avg, hcs, hst, hgc, _, _, hcc, he⟩
  · rw [he]; exact hinv
  · rw [he]
    obtain ⟨hcsm, hcsid⟩ := station?_some' _ _ _ hst
    exact cinv_book n KS hc st.1 v bat' _ cs avg (vehicle?_some _ _ _ hv).1 hcsm (by rw [hcs, hcsid])
      (Or.inl (chargeCall_nonneg rule ops law env cheap v power bat' avg hcc)) hinv

theorem surplusVehicle_cinv (n : Bool) (KS : List (String × Option String × Bool)) (hc : KeyCons KS)
    (ops : BatOps α B) (law : BatLaw ops) (env : StratEnv α)
    (cheap : List (String × Bool)) (w w' : SWorld α B) (cmds cmds' : List (String × α)) (v : VehicleS α B)
    (hv : v ∈ w.vehicles) (hinv : CInv n KS w) (h : surplusVehicle ops env cheap w cmds v = .ok (w', cmds')) :
    CInv n KS w' := by
  rcases surplusVehicle_shape ops law env cheap w w' cmds cmds' v h with
    ⟨rfl, _⟩ | ⟨csId, cs, gc, bat', d, hcs, hst, hgc, hloc, rfl, _⟩
  · exact hinv
  · obtain ⟨hcsm, hcsid⟩ := station?_some' _ _ _ hst
    apply cinv_book n KS hc w v bat' _ cs d hv hcsm (by rw [hcs, hcsid]) _ hinv
    obtain ⟨_, hsh⟩ := surplusLocal_shape ops law env _ v csId cs gc bat' d _ hloc
    rcases hsh with ⟨p, _, d0, _, _⟩ | ⟨p, ts, avg, _, _, g0, g1, g2, g3, _⟩
    · exact Or.inl d0
    · exact Or.inr g3

theorem surplusBody_cinv (n : Bool) (KS : List (String × Option String × Bool)) (hc : KeyCons KS)
    (ops : BatOps α B) (law : BatLaw ops) (env : StratEnv α)
    (cheap : List (String × Bool)) (st st' : SWorld α B × List (String × α)) (v0 : VehicleS α B)
    (hinv : CInv n KS st.1) (h : surplusBody ops env cheap st v0 = .ok st') : CInv n KS st'.1 := by
  unfold surplusBody at h
  split at h
  · simp only [Except.ok.injEq] at h; subst h; exact hinv
  · rename_i v hv
    obtain ⟨w', c'⟩ := st'
    exact surplusVehicle_cinv n KS hc ops law env cheap st.1 w' st.2 c' v (vehicle?_some _ _ _ hv).1 hinv h

theorem batBody_cinv (n : Bool) (KS : List (String × Option String × Bool)) (ops : BatOps α B) (env : StratEnv α)
    (cheap : List (String × Bool)) (w w' : SWorld α B) (b0 : StatBatS α B) (hinv : CInv n KS w)
    (h : batBody ops env cheap w b0 = .ok w') : CInv n KS w' := by
  rcases batBody_cases ops env cheap w w' b0 h with ⟨_, rfl⟩ | ⟨b, _, hcase⟩
  · exact hinv
  · rcases hcase with ⟨_, rfl⟩ | ⟨gc, isCheap, r, _, _, _, rfl⟩
    · exact hinv
    · exact hinv

theorem cinv_reset (n : Bool) (w : SWorld α B) : CInv n (VK w) (resetStations w) := by
  refine ⟨rfl, ?_, ?_⟩
  · intro s hs hp
    unfold resetStations at hs
    simp only [List.mem_map] at hs
    obtain ⟨x, hx, rfl⟩ := hs
    exact absurd rfl hp
  · intro _ s hs hp
    unfold resetStations at hs
    simp only [List.mem_map] at hs
    obtain ⟨x, hx, rfl⟩ := hs
    exact absurd hp (lt_irrefl (0 : α))

/-- **the greedy / balanced step keeps the vehicle keys, books only at stations with a connected vehicle and
discharges only at stations with a connected V2G-capable vehicle** -/
theorem ruleStep_cinv (n : Bool) (rule : Rule) (ops : BatOps α B) (law : BatLaw ops) (env : StratEnv α)
    (w w' : SWorld α B) (cmds : List (String × α)) (hc : KeyCons (VK w))
    (h : ruleStep rule ops env w = .ok (w', cmds)) : CInv n (VK w) w' := by
  unfold ruleStep at h
  cases ha : availBatPower ops w with
  | error e => simp [ha, bind, Except.bind] at h
  | ok avail =>
    simp only [ha, bind, Except.bind] at h
    cases hf : (sortedVehicleIds (resetStations w)).foldlM (allocVehicle rule ops env)
        (resetStations w, [], avail) with
    | error e => simp [hf] at h
    | ok st1 =>
      obtain ⟨w1, c1, a1⟩ := st1
      simp only [hf] at h
      have h1 : CInv n (VK w) w1 :=
        foldlM_inv (allocVehicle rule ops env) (fun s => CInv n (VK w) s.1)
          (fun s x s' hi hs => allocVehicle_cinv n (VK w) hc rule ops law env s s' x hi hs) _ _ (w1, c1, a1)
          (cinv_reset n w) hf
      cases hds : distributeSurplus ops env w1 with
      | error e => simp [hds] at h
      | ok r2 =>
        obtain ⟨w2, c2⟩ := r2
        simp only [hds] at h
        have h2 : CInv n (VK w) w2 := by
          rw [distributeSurplus_unfold] at hds
          cases hch : w1.gcs.mapM (cheapEntry env) with
          | error e => simp [hch, bind, Except.bind] at hds
          | ok cheap =>
            simp only [hch, bind, Except.bind] at hds
            exact foldlM_inv (surplusBody ops env cheap) (fun s => CInv n (VK w) s.1)
              (fun s x s' hi hs => surplusBody_cinv n (VK w) hc ops law env cheap s s' x hi hs)
              w1.vehicles (w1, []) (w2, c2) h1 hds
        cases hu : updateBatteries ops env w2 with
        | error e => simp [hu] at h
        | ok w3 =>
          simp only [hu, Except.ok.injEq, Prod.mk.injEq] at h
          obtain ⟨rfl, _⟩ := h
          rw [updateBatteries_unfold] at hu
          cases hch : w2.gcs.mapM (cheapEntry env) with
          | error e => simp [hch, bind, Except.bind] at hu
          | ok cheap =>
            simp only [hch, bind, Except.bind] at hu
            exact foldlM_inv (batBody ops env cheap) (fun s => CInv n (VK w) s)
              (fun s x s' hi hs => batBody_cinv n (VK w) ops env cheap s s' x hi hs)
              w2.batteries w2 w3 h2 hu

/-- distributed's final surplus pass keeps the invariant -/
theorem distributeSurplusOn_cinv (n : Bool) (KS : List (String × Option String × Bool)) (hc : KeyCons KS)
    (ops : BatOps α B) (law : BatLaw ops) (env : StratEnv α)
    (w w' : SWorld α B) (ids : List String) (cmds' : List (String × α)) (hinv : CInv n KS w)
    (h : distributeSurplusOn ops env w ids = .ok (w', cmds')) : CInv n KS w' := by
  unfold distributeSurplusOn at h
  simp only [bind, Except.bind] at h
  split at h
  · cases h
  · rename_i cheap _
    refine foldlM_inv _ (fun (st : SWorld α B × List (String × α)) => CInv n KS st.1) ?_ ids (w, []) (w', cmds') hinv h
    intro st id st' hi hs
    split at hs
    · simp only [Except.ok.injEq] at hs; subst hs; exact hi
    · rename_i v hv
      obtain ⟨w1, c1⟩ := st'
      exact surplusVehicle_cinv n KS hc ops law env cheap st.1 w1 st.2 c1 v (vehicle?_some _ _ _ hv).1 hi hs

/-! ### the virtual world of a connector and the write-back -/

theorem foldlM_inv_mem {σ β : Type} (f : σ → β → Py σ) (P : σ → Prop) :
    ∀ (l : List β) (s s' : σ), (∀ s b s', b ∈ l → P s → f s b = .ok s' → P s') → P s →
      l.foldlM f s = .ok s' → P s' := by
  intro l
  induction l with
  | nil =>
    intro s s' _ hs h
    simp only [List.foldlM_nil, pure, Except.pure, Except.ok.injEq] at h
    subst h; exact hs
  | cons b rest ih =>
    intro s s' hf hs h
    simp only [List.foldlM_cons, bind, Except.bind] at h
    split at h
    · cases h
    · rename_i s1 hs1
      exact ih s1 s' (fun s b s' hb => hf s b s' (by simp [hb])) (hf s b s1 (by simp) hs hs1) h

/-- the connected vehicles are vehicles of the world -/
theorem connectedAt_mem (w : SWorld α B) (gcId : String) (cands : List String) (cvs : List (VehicleS α B))
    (h : connectedAt w gcId cands = .ok cvs) : ∀ v ∈ cvs, v ∈ w.vehicles := by
  unfold connectedAt at h
  refine foldlM_inv _ (fun (acc : List (VehicleS α B)) => ∀ v ∈ acc, v ∈ w.vehicles) ?_ cands [] cvs
    (by intro v hv; simp at hv) h
  intro acc id acc' hi hs
  split at hs
  · simp only [Except.ok.injEq] at hs; subst hs; exact hi
  · rename_i v hv
    split at hs
    · simp only [Except.ok.injEq] at hs; subst hs; exact hi
    · split at hs
      · simp only [Except.ok.injEq] at hs; subst hs; exact hi
      · split at hs
        · cases hs
        · split at hs
          · simp only [Except.ok.injEq] at hs; subst hs
            intro v' hv'
            rcases List.mem_append.mp hv' with h' | h'
            · exact hi v' h'
            · simp only [List.mem_cons, List.not_mem_nil, or_false] at h'
              subst h'
              exact (vehicle?_some _ _ _ hv).1
          · simp only [Except.ok.injEq] at hs; subst hs; exact hi

/-- every station of the virtual world has one of the connected vehicles at it -/
theorem subStations_conn (w : SWorld α B) (cvs : List (VehicleS α B)) (stations : List (StationS α))
    (h : subStations w cvs = .ok stations) : ∀ s ∈ stations, ∃ v ∈ cvs, v.cs = some s.id := by
  unfold subStations at h
  refine foldlM_inv_mem _ (fun (acc : List (StationS α)) => ∀ s ∈ acc, ∃ v ∈ cvs, v.cs = some s.id) cvs [] stations
    ?_ (by intro s hs; simp at hs) h
  intro acc v acc' hvm hi hs
  split at hs
  · simp only [Except.ok.injEq] at hs; subst hs; exact hi
  · rename_i csId hcs
    split at hs
    · cases hs
    · rename_i cs hst
      split at hs
      · simp only [Except.ok.injEq] at hs; subst hs; exact hi
      · simp only [Except.ok.injEq] at hs; subst hs
        intro s hs'
        rcases List.mem_append.mp hs' with h' | h'
        · exact hi s h'
        · simp only [List.mem_cons, List.not_mem_nil, or_false] at h'
          subst h'
          exact ⟨v, hvm, by rw [hcs, (station?_some' _ _ _ hst).2]⟩

theorem oppsBattery_occ (dops : DOps α B) (de : DEnv α) (ini : DInit α) (lk : Look α) (w : SWorld α B)
    (gcId : String) (st st' : OppsPrep α B) (bId : String)
    (h : oppsBattery dops de ini lk w true gcId st bId = .ok st') : st'.vveh = st.vveh ∧ st'.vcs = st.vcs := by
  unfold oppsBattery at h
  split at h
  · cases h
  · simp only [if_true, bind, Except.bind] at h
    split at h
    · cases h
    · split at h
      · simp only [Except.ok.injEq] at h; subst h; exact ⟨rfl, rfl⟩
      · split at h
        · cases h
        · split at h
          · cases h
          · split at h
            · simp only [Except.ok.injEq] at h; subst h; exact ⟨rfl, rfl⟩
            · simp only [Except.ok.injEq] at h; subst h; exact ⟨rfl, rfl⟩

/-- an occupied opportunity station gets no virtual vehicle; a vacant one has no real station in its virtual world -/
theorem oppsPrep_case (dops : DOps α B) (de : DEnv α) (ini : DInit α) (lk : Look α) (w : SWorld α B)
    (gcId : String) (batIds : List String) (gc : GcS α) (prep : OppsPrep α B) (cvs : List (VehicleS α B))
    (stations : List (StationS α)) (hst : subStations w cvs = .ok stations)
    (h : batIds.foldlM (oppsBattery dops de ini lk w (!cvs.isEmpty) gcId) ⟨gc, [], [], []⟩ = .ok prep) :
    (cvs = [] ∧ stations = []) ∨ (prep.vveh = [] ∧ prep.vcs = []) := by
  cases cvs with
  | nil =>
    left
    simp only [subStations, List.foldlM_nil, pure, Except.pure, Except.ok.injEq] at hst
    exact ⟨rfl, hst.symm⟩
  | cons x xs =>
    right
    simp only [List.isEmpty_cons, Bool.not_false] at h
    exact foldlM_inv (oppsBattery dops de ini lk w true gcId)
      (fun (st : OppsPrep α B) => st.vveh = [] ∧ st.vcs = [])
      (fun st b st' hi hs => by
        obtain ⟨a1, a2⟩ := oppsBattery_occ dops de ini lk w gcId st st' b hs
        exact ⟨a1.trans hi.1, a2.trans hi.2⟩) batIds ⟨gc, [], [], []⟩ prep ⟨rfl, rfl⟩ h

theorem setVehicle_vk' (w : SWorld α B) (x : VehicleS α B)
    (h : ∀ y ∈ w.vehicles, y.id = x.id → vkey y = vkey x) : VK (w.setVehicle x) = VK w := by
  unfold VK SWorld.setVehicle
  simp only [List.map_map]
  apply List.map_congr_left
  intro y hy
  simp only [Function.comp]
  split
  · rename_i hid
    exact (h y hy (by simpa using hid)).symm
  · rfl

/-- the write-back keeps the keys if the vehicles written carry the keys the world has under their ids -/
theorem writeBack_vk (w sub : SWorld α B) (a b : List String)
    (h : ∀ v' ∈ sub.vehicles, b.contains v'.id = true → ∀ k ∈ VK w, k.1 = v'.id → k = vkey v') :
    VK (writeBack w sub a b) = VK w := by
  unfold writeBack
  have h1 : ∀ (l : List (StationS α)) (w : SWorld α B),
      VK (l.foldl (fun (w : SWorld α B) s => if a.contains s.id then w.setStation s else w) w) = VK w := by
    intro l
    induction l with
    | nil => intro w; rfl
    | cons x xs ih => intro w; simp only [List.foldl_cons]; rw [ih]; split <;> rfl
  have h2 : ∀ (l : List (VehicleS α B)) (w1 : SWorld α B), (∀ x ∈ l, x ∈ sub.vehicles) → VK w1 = VK w →
      VK (l.foldl (fun (w : SWorld α B) v => if b.contains v.id then w.setVehicle v else w) w1) = VK w := by
    intro l
    induction l with
    | nil => intro w1 _ e; exact e
    | cons x xs ih =>
      intro w1 hl e
      simp only [List.foldl_cons]
      apply ih _ (fun y hy => hl y (by simp [hy]))
      split
      · rename_i hcx
        rw [← e]
        apply setVehicle_vk'
        intro y hy hid
        exact h x (hl x (by simp)) hcx (vkey y) (by rw [← e]; exact List.mem_map.mpr ⟨y, hy, rfl⟩) hid
      · exact e
  exact h2 sub.vehicles _ (fun x hx => hx) (h1 sub.stations w)

theorem syncStations_vehicles (vw : SWorld α B) : (syncStations vw).vehicles = vw.vehicles := by
  unfold syncStations
  split <;> rfl

theorem foldl_setGc_vehicles (l : List (GcS α)) (w : SWorld α B) :
    (l.foldl (fun (w : SWorld α B) g => w.setGc g) w).vehicles = w.vehicles := by
  induction l generalizing w with
  | nil => rfl
  | cons x xs ih => simp only [List.foldl_cons]; rw [ih]; rfl

theorem foldl_setBattery_vehicles (l : List (StatBatS α B)) (w : SWorld α B) :
    (l.foldl (fun (w : SWorld α B) b => w.setBattery b) w).vehicles = w.vehicles := by
  induction l generalizing w with
  | nil => rfl
  | cons x xs ih => simp only [List.foldl_cons]; rw [ih]; rfl

/-- writing a connector's virtual world back keeps the invariant: the stations written are those of the connected
vehicles, the vehicles written carry their old keys, a discharging station of the virtual world has a connected V2G
vehicle among the connected vehicles -/
theorem finishC (n : Bool) (KS : List (String × Option String × Bool)) (hc : KeyCons KS) (w vw W : SWorld α B)
    (stations : List (StationS α)) (cvs : List (VehicleS α B))
    (hS : W.stations = (writeBack w vw (stations.map (·.id)) (cvs.map (·.id))).stations)
    (hV : W.vehicles = (writeBack w vw (stations.map (·.id)) (cvs.map (·.id))).vehicles)
    (hw : CInv n KS w) (hcv : ∀ v ∈ cvs, v ∈ w.vehicles) (hst : ∀ s ∈ stations, ∃ v ∈ cvs, v.cs = some s.id)
    (hvk : ∀ v' ∈ vw.vehicles, v'.id ∈ cvs.map (·.id) → ∃ v ∈ cvs, vkey v = vkey v')
    (hneg : n = true → ∀ s ∈ vw.stations, s.id ∈ stations.map (·.id) → s.currentPower < 0 →
      ∃ v ∈ cvs, v.cs = some s.id ∧ v.v2g = true) : CInv n KS W := by
  obtain ⟨h1, h2, h3⟩ := hw
  have hin : ∀ v ∈ cvs, vkey v ∈ KS := fun v hv => by rw [← h1]; exact List.mem_map.mpr ⟨v, hcv v hv, rfl⟩
  refine ⟨?_, ?_, ?_⟩
  · have e : VK W = VK (writeBack w vw (stations.map (·.id)) (cvs.map (·.id))) := by unfold VK; rw [hV]
    rw [e, writeBack_vk, h1]
    intro v' hv' hcon k hk hid
    obtain ⟨v, hv, e2⟩ := hvk v' hv' (by simpa using hcon)
    rw [h1] at hk
    rw [← e2]
    refine hc k hk (vkey v) (hin v hv) ?_
    rw [hid]
    have : (vkey v).1 = (vkey v').1 := by rw [e2]
    exact this.symm
  · intro s hs hp
    rw [hS] at hs
    rcases writeBack_stations_strong _ _ _ _ s hs with ⟨hm, _⟩ | ⟨hm, hcon⟩
    · exact h2 s hm hp
    · have hmem : s.id ∈ stations.map (·.id) := by simpa using hcon
      simp only [List.mem_map] at hmem
      obtain ⟨s0, hs0, e0⟩ := hmem
      obtain ⟨v, hv, hvc⟩ := hst s0 hs0
      exact ⟨vkey v, hin v hv, by rw [← e0]; exact hvc⟩
  · intro hn s hs hp
    rw [hS] at hs
    rcases writeBack_stations_strong _ _ _ _ s hs with ⟨hm, _⟩ | ⟨hm, hcon⟩
    · exact h3 hn s hm hp
    · have hmem : s.id ∈ stations.map (·.id) := by simpa using hcon
      obtain ⟨v, hv, hvc, hv2⟩ := hneg hn s hm hmem hp
      exact ⟨vkey v, hin v hv, hvc, hv2⟩

/-- the same from the two conclusions of the contract `SubConn` -/
theorem finishC_strong (n : Bool) (KS : List (String × Option String × Bool)) (hc : KeyCons KS) (w vw W : SWorld α B)
    (stations : List (StationS α)) (cvs : List (VehicleS α B))
    (hS : W.stations = (writeBack w vw (stations.map (·.id)) (cvs.map (·.id))).stations)
    (hV : W.vehicles = (writeBack w vw (stations.map (·.id)) (cvs.map (·.id))).vehicles)
    (hw : CInv n KS w) (hcv : ∀ v ∈ cvs, v ∈ w.vehicles) (hst : ∀ s ∈ stations, ∃ v ∈ cvs, v.cs = some s.id)
    (hvk : vw.vehicles.map vkey = cvs.map vkey) (hneg : n = true → NegK (cvs.map vkey) vw.stations) :
    CInv n KS W := by
  refine finishC n KS hc w vw W stations cvs hS hV hw hcv hst ?_ ?_
  · intro v' hv' _
    have : vkey v' ∈ cvs.map vkey := by rw [← hvk]; exact List.mem_map.mpr ⟨v', hv', rfl⟩
    simpa [List.mem_map] using this
  · intro hn s hs _ hp
    obtain ⟨k, hk, e1, e2⟩ := hneg hn s hs hp
    simp only [List.mem_map] at hk
    obtain ⟨v, hv, rfl⟩ := hk
    exact ⟨v, hv, e1, e2⟩

/-! ### the contract of a sub-strategy's run and the connector loop -/

/-- what the loop needs from `strat.step()` on `⟨[g], ss, vs, bs⟩` followed by DIST2: if the vehicles have one key per
id, the vehicles come back with the same keys (id, connected station, V2G capability) in the same order, and — under
the premises of `SubOK` — a station with negative power afterwards has a V2G-capable vehicle connected to it -/
def SubConn (n : Bool) (run : SWorld α B → Py (SWorld α B × List (String × α))) : Prop :=
  ∀ (g : GcS α) (ss : List (StationS α)) (vs : List (VehicleS α B)) (bs : List (StatBatS α B))
    (vw' : SWorld α B) (cmds : List (String × α)), run ⟨[g], ss, vs, bs⟩ = .ok (vw', cmds) →
    KeyCons (vs.map vkey) →
    vw'.vehicles.map vkey = vs.map vkey ∧
    (n = true → MaxOK ss → (∀ s ∈ ss, s.parent = g.id) → (∀ s ∈ ss, (sdGet g.loads s.id).getD 0 = 0) →
      (∀ s ∈ ss, ∀ b ∈ bs, s.id ≠ b.id) → NegK (vs.map vkey) (syncStations vw').stations)

theorem ruleStep_subConn (n : Bool) (rule : Rule) (ops : BatOps α B) (law : BatLaw ops) (env : StratEnv α) :
    SubConn n (ruleStep rule ops env) := by
  intro g ss vs bs vw' cmds h hkc
  have hci := ruleStep_cinv n rule ops law env ⟨[g], ss, vs, bs⟩ vw' cmds hkc h
  refine ⟨hci.1, ?_⟩
  intro hn hmax hpar hno hd
  obtain ⟨g1, hg1, hid, _, _⟩ := ruleStep_single rule ops env g ss vs bs vw' cmds h
  have hb := (ruleStep_booked rule ops law env ⟨[g], ss, vs, bs⟩ vw' cmds
    (by
      intro s hs g' hg' _
      simp only [List.mem_cons, List.not_mem_nil, or_false] at hg'
      subst hg'; exact hno s hs) (fun s hs b hb => hd s hs b hb) h).1
  have hp := ruleStep_static (fun s => s.parent = g.id) (fun s c hs => hs) rule ops env _ vw' cmds hpar h
  rw [syncStations_noop vw' g1 hg1 hb (fun s hs => (hp s hs).trans hid.symm)]
  exact hci.2.2 hn

def SideConn (n : Bool) (dops : DOps α B) (sub : SubStrat α) (de : DEnv α) : Prop :=
  match sub.ps with
  | some cfg => ∀ events future, SubConn n (psRun dops sub cfg de.env.now events future)
  | none =>
    match sub.plw with
    | some cfg => ∀ peaks extra, SubConn n (plwRun dops sub cfg de peaks extra)
    | none => True

theorem depsFinishC (n : Bool) (KS : List (String × Option String × Bool)) (hc : KeyCons KS) (w vw' : SWorld α B)
    (stations : List (StationS α)) (cvs : List (VehicleS α B))
    (hw : CInv n KS w) (hcv : ∀ v ∈ cvs, v ∈ w.vehicles) (hst : ∀ s ∈ stations, ∃ v ∈ cvs, v.cs = some s.id)
    (hvk : vw'.vehicles.map vkey = cvs.map vkey) (hneg : n = true → NegK (cvs.map vkey) (syncStations vw').stations) :
    CInv n KS (mergeDeps w (syncStations vw') stations cvs) := by
  refine finishC_strong n KS hc w (syncStations vw') _ stations cvs ?_ ?_ hw hcv hst
    (by rw [syncStations_vehicles]; exact hvk) hneg
  · unfold mergeDeps
    simp only [foldl_setBattery_stations, foldl_setGc_stations]
  · unfold mergeDeps
    simp only [foldl_setBattery_vehicles, foldl_setGc_vehicles]

theorem oppsFinishC (n : Bool) (KS : List (String × Option String × Bool)) (hc : KeyCons KS) (w vw' : SWorld α B)
    (stations vcs : List (StationS α)) (cvs vveh : List (VehicleS α B)) (pg : GcS α) (bats : List (StatBatS α B))
    (hw : CInv n KS w) (hcv : ∀ v ∈ cvs, v ∈ w.vehicles) (hst : ∀ s ∈ stations, ∃ v ∈ cvs, v.cs = some s.id)
    (hcase : (cvs = [] ∧ stations = []) ∨ (vveh = [] ∧ vcs = []))
    (hsub : KeyCons ((cvs ++ vveh).map vkey) → vw'.vehicles.map vkey = (cvs ++ vveh).map vkey ∧
      (n = true → NegK ((cvs ++ vveh).map vkey) (syncStations vw').stations)) :
    CInv n KS ({ ((writeBack w (syncStations vw') (stations.map (·.id)) (cvs.map (·.id))).setGc pg) with
      batteries := bats } : SWorld α B) := by
  rcases hcase with ⟨rfl, rfl⟩ | ⟨rfl, rfl⟩
  · refine finishC n KS hc w (syncStations vw') _ [] [] rfl rfl hw hcv hst ?_ ?_
    · intro v' _ hm; simp at hm
    · intro _ s _ hm; simp at hm
  · simp only [List.append_nil] at hsub
    obtain ⟨c1, c2⟩ := hsub (keyCons_sub KS cvs w (by rw [hw.1]; exact hc) hcv)
    exact finishC_strong n KS hc w (syncStations vw') _ stations cvs rfl rfl hw hcv hst
      (by rw [syncStations_vehicles]; exact c1) c2

/-- **one connector's treatment preserves the invariant** (the structure of `stepGc_loop3`) -/
theorem stepGc_loopC (n : Bool) (KS : List (String × Option String × Bool)) (hc : KeyCons KS)
    (dops : DOps α B) (law : BatLaw dops.bat) (de : DEnv α)
    (hsd : SideOK dops de.deps de) (hso : SideOK dops de.opps de)
    (hcd : SideConn n dops de.deps de) (hco : SideConn n dops de.opps de)
    (ncs : List (String × Option Int)) (conn : List (String × List String)) (lk : Look α)
    (w0 : SWorld α B) (ini0 : DInit α) (K : List String) (hyp : LoopHyp w0 ini0 K)
    (gcId : String) (R : List String) (hnot : gcId ∉ R)
    (st st' : SWorld α B × DInit α × List (String × α)) (hinv : LoopInv w0 ini0 K (gcId :: R) st)
    (hinvC : CInv n KS st.1)
    (h : stepGc dops de ncs conn lk st gcId = .ok st') : CInv n KS st'.1 := by
  unfold stepGc at h
  split at h
  · cases h
  · rename_i gc hgc
    obtain ⟨hgm, hgid⟩ := gc?_some _ _ gc hgc
    have hgc0 : gc ∈ w0.gcs := hinv.fresh gc hgm (by rw [hgid]; simp)
    simp only [bind, Except.bind] at h
    split at h
    · cases h
    · split at h
      · cases h
      · rename_i cands _ _ cvs hcv
        split at h
        · simp only [Except.ok.injEq] at h; subst h; exact hinvC
        · split at h
          · cases h
          · rename_i kind _
            split at h
            · cases h
            · rename_i stations hst
              have hss := subStations_local st.1 gcId cvs stations (connectedAt_local st.1 gcId cands cvs hcv) hst
              have hcvm := connectedAt_mem st.1 gcId cands cvs hcv
              have hstc := subStations_conn st.1 cvs stations hst
              have hkc : KeyCons (cvs.map vkey) := keyCons_sub KS cvs st.1 (by rw [hinvC.1]; exact hc) hcvm
              have hbat : (sdGet st.2.1.gcBattery gcId).getD [] = (sdGet ini0.gcBattery gcId).getD [] := by
                rw [hinv.gcb]
              obtain ⟨w', ini', acc'⟩ := st'
              have hmaxS : MaxOK stations := fun s hs => (hinv.ok s (hss s hs).1).1
              have hnoS : ∀ s ∈ stations, (sdGet gc.loads s.id).getD 0 = 0 :=
                fun s hs => hyp.noEntry gc hgc0 s.id (hinv.ids s (hss s hs).1)
              cases kind with
              | deps =>
                have hprem : (∀ s ∈ stations, s.parent = gc.id) ∧
                    (∀ s ∈ stations, ∀ b ∈ depotBatteries st.1 ((sdGet st.2.1.gcBattery gcId).getD []), s.id ≠ b.id) := by
                  refine ⟨fun s hs => (hss s hs).2.trans hgid.symm, ?_⟩
                  intro s hs b hb e
                  have hbi := (depotBatteries_mem st.1 _ b hb).1
                  rw [hbat] at hbi
                  exact hyp.disj gcId b.id hbi (e ▸ hinv.ids s (hss s hs).1)
                unfold stepDeps at h
                rcases subClass de.deps with ⟨hps, hpl⟩ | ⟨cfg, hps⟩ | ⟨hps, cfg, hpl⟩
                · simp only [hps, hpl] at h
                  unfold stepDepsRule at h
                  simp only [bind, Except.bind] at h
                  split at h
                  · cases h
                  · rename_i r hr
                    obtain ⟨vw', cmds⟩ := r
                    simp only [Except.ok.injEq, Prod.mk.injEq] at h
                    obtain ⟨rfl, rfl, rfl⟩ := h
                    obtain ⟨c1, c2⟩ := ruleStep_subConn n _ dops.bat law _ gc stations cvs _ vw' cmds hr hkc
                    exact depsFinishC n KS hc st.1 vw' stations cvs hinvC hcvm hstc c1 (fun hn => c2 hn hmaxS hprem.1 hnoS hprem.2)
                · simp only [hps] at h
                  unfold stepDepsPS at h
                  simp only [bind, Except.bind] at h
                  split at h
                  · cases h
                  · rename_i r hr
                    obtain ⟨vw', cmds, evs'⟩ := r
                    simp only [Except.ok.injEq, Prod.mk.injEq] at h
                    obtain ⟨rfl, rfl, rfl⟩ := h
                    have hsubc : SubConn n (psRun dops de.deps cfg de.env.now st.2.1.depsEvents
                        (subFuture de.future gc.id cvs)) := by
                      simp only [SideConn, hps] at hcd
                      exact hcd _ _
                    obtain ⟨c1, c2⟩ := hsubc gc stations cvs _ vw' cmds (by unfold psRun; rw [hr]; rfl) hkc
                    exact depsFinishC n KS hc st.1 vw' stations cvs hinvC hcvm hstc c1 (fun hn => c2 hn hmaxS hprem.1 hnoS hprem.2)
                · simp only [hps, hpl] at h
                  unfold stepDepsPLW at h
                  simp only [bind, Except.bind] at h
                  split at h
                  · cases h
                  · rename_i r hr
                    obtain ⟨vw', cmds, pk'⟩ := r
                    simp only [Except.ok.injEq, Prod.mk.injEq] at h
                    obtain ⟨rfl, rfl, rfl⟩ := h
                    have hsubc : SubConn n (plwRun dops de.deps cfg de st.2.1.depsPeaks []) := by
                      simp only [SideConn, hps, hpl] at hcd
                      exact hcd _ _
                    obtain ⟨c1, c2⟩ := hsubc gc stations cvs _ vw' cmds (by unfold plwRun; rw [hr]; rfl) hkc
                    exact depsFinishC n KS hc st.1 vw' stations cvs hinvC hcvm hstc c1 (fun hn => c2 hn hmaxS hprem.1 hnoS hprem.2)
              | opps =>
                unfold stepOpps at h
                have prepFacts : ∀ prep : OppsPrep α B,
                    ((sdGet st.2.1.gcBattery gcId).getD []).foldlM
                      (oppsBattery dops de st.2.1 lk st.1 (!cvs.isEmpty) gcId) ⟨gc, [], [], []⟩ = .ok prep →
                    prep.gc.id = gcId ∧
                    (∀ s ∈ prep.vcs, s ∈ st.2.1.virtualCs ∧
                      ∃ b ∈ (sdGet st.2.1.gcBattery gcId).getD [], s.id = virtName b) ∧
                    MaxOK (stations ++ prep.vcs) ∧ (∀ s ∈ stations ++ prep.vcs, s.parent = prep.gc.id) ∧
                    (∀ s ∈ stations ++ prep.vcs, (sdGet prep.gc.loads s.id).getD 0 = 0) := by
                  intro prep hprep
                  obtain ⟨p1, p2, p3⟩ := oppsPrep_facts dops de st.2.1 lk st.1 _ gcId _ ⟨gc, [], [], []⟩ prep rfl hprep
                  have p2' : prep.gc.id = gcId := p2.trans hgid
                  refine ⟨p2', p3, ?_, ?_, ?_⟩
                  · intro s hs
                    rcases List.mem_append.mp hs with h' | h'
                    · exact hmaxS s h'
                    · exact (hinv.virt s (p3 s h').1).1
                  · intro s hs
                    rw [p2']
                    rcases List.mem_append.mp hs with h' | h'
                    · exact (hss s h').2
                    · obtain ⟨hm, b, hb, e⟩ := p3 s h'
                      obtain ⟨_, s0, hs0, e1, e2⟩ := hinv.virt s hm
                      rw [e2]
                      exact hyp.vpar gcId b (by rw [← hbat]; exact hb) s0 hs0 (e1.symm.trans e)
                  · intro s hs
                    rw [p1]
                    rcases List.mem_append.mp hs with h' | h'
                    · exact hnoS s h'
                    · obtain ⟨hm, _⟩ := p3 s h'
                      obtain ⟨_, s0, hs0, e1, _⟩ := hinv.virt s hm
                      rw [e1]; exact hyp.noVirt gc hgc0 s0 hs0
                rcases subClass de.opps with ⟨hps, hpl⟩ | ⟨cfg, hps⟩ | ⟨hps, cfg, hpl⟩
                · simp only [hps, hpl] at h
                  unfold stepOppsRule at h
                  simp only [bind, Except.bind] at h
                  split at h
                  · cases h
                  · rename_i prep hprep
                    obtain ⟨q1, q2, q3, q4, q5⟩ := prepFacts prep hprep
                    have hcase := oppsPrep_case dops de st.2.1 lk st.1 gcId _ gc prep cvs stations hst hprep
                    split at h
                    · cases h
                    · rename_i r hr
                      obtain ⟨vw', cmds⟩ := r
                      obtain ⟨⟨g1, hg1, hid⟩, hrest⟩ := ruleStep_subOK _ dops.bat law _ prep.gc _ _ _ vw' cmds hr
                      simp only [hg1] at h
                      split at h
                      · cases h
                      · rename_i post hpost
                        simp only [Except.ok.injEq, Prod.mk.injEq] at h
                        obtain ⟨rfl, rfl, rfl⟩ := h
                        exact oppsFinishC n KS hc st.1 vw' stations prep.vcs cvs prep.vveh post.gc post.bats hinvC hcvm
                          hstc hcase (fun hk => by
                            obtain ⟨c1, c2⟩ := ruleStep_subConn n _ dops.bat law _ prep.gc _ _ _ vw' cmds hr hk
                            exact ⟨c1, fun hn => c2 hn q3 q4 q5 (by intro s _ b hb; simp at hb)⟩)
                · simp only [hps] at h
                  unfold stepOppsPS at h
                  simp only [bind, Except.bind] at h
                  split at h
                  · cases h
                  · rename_i prep hprep
                    obtain ⟨q1, q2, q3, q4, q5⟩ := prepFacts prep hprep
                    have hcase := oppsPrep_case dops de st.2.1 lk st.1 gcId _ gc prep cvs stations hst hprep
                    split at h
                    · cases h
                    · rename_i r hr
                      obtain ⟨vw', cmds, evs'⟩ := r
                      have hsub : SubOK (psRun dops de.opps cfg de.env.now st.2.1.oppsEvents
                          (subFuture de.future gcId cvs)) := by
                        simp only [SideOK, hps] at hso
                        exact hso _ _
                      obtain ⟨⟨g1, hg1, hid⟩, hrest⟩ := hsub prep.gc _ _ _ vw' cmds
                        (by unfold psRun; rw [hr]; rfl)
                      simp only [hg1] at h
                      split at h
                      · cases h
                      · rename_i post hpost
                        simp only [Except.ok.injEq, Prod.mk.injEq] at h
                        obtain ⟨rfl, rfl, rfl⟩ := h
                        have hsubc : SubConn n (psRun dops de.opps cfg de.env.now st.2.1.oppsEvents
                            (subFuture de.future gcId cvs)) := by
                          simp only [SideConn, hps] at hco
                          exact hco _ _
                        exact oppsFinishC n KS hc st.1 vw' stations prep.vcs cvs prep.vveh post.gc post.bats hinvC hcvm
                          hstc hcase (fun hk => by
                            obtain ⟨c1, c2⟩ := hsubc prep.gc _ _ _ vw' cmds (by unfold psRun; rw [hr]; rfl) hk
                            exact ⟨c1, fun hn => c2 hn q3 q4 q5 (by intro s _ b hb; simp at hb)⟩)
                · simp only [hps, hpl] at h
                  unfold stepOppsPLW at h
                  simp only [bind, Except.bind] at h
                  split at h
                  · cases h
                  · rename_i prep hprep
                    obtain ⟨q1, q2, q3, q4, q5⟩ := prepFacts prep hprep
                    have hcase := oppsPrep_case dops de st.2.1 lk st.1 gcId _ gc prep cvs stations hst hprep
                    split at h
                    · cases h
                    · rename_i r hr
                      obtain ⟨vw', cmds, pk'⟩ := r
                      have hsub : SubOK (plwRun dops de.opps cfg de st.2.1.oppsPeaks
                          (prep.vveh.filterMap (fun v => (sdGet st.2.1.virtualVt (virtName v.id)).map
                            (fun vt => (v.id, vt.chargingCurve.points.map (·.2), (none : Option α)))))) := by
                        simp only [SideOK, hps, hpl] at hso
                        exact hso _ _
                      obtain ⟨⟨g1, hg1, hid⟩, hrest⟩ := hsub prep.gc _ _ _ vw' cmds
                        (by unfold plwRun; rw [hr]; rfl)
                      simp only [hg1] at h
                      split at h
                      · cases h
                      · rename_i post hpost
                        simp only [Except.ok.injEq, Prod.mk.injEq] at h
                        obtain ⟨rfl, rfl, rfl⟩ := h
                        have hsubc : SubConn n (plwRun dops de.opps cfg de st.2.1.oppsPeaks
                            (prep.vveh.filterMap (fun v => (sdGet st.2.1.virtualVt (virtName v.id)).map
                              (fun vt => (v.id, vt.chargingCurve.points.map (·.2), (none : Option α)))))) := by
                          simp only [SideConn, hps, hpl] at hco
                          exact hco _ _
                        exact oppsFinishC n KS hc st.1 vw' stations prep.vcs cvs prep.vveh post.gc post.bats hinvC hcvm
                          hstc hcase (fun hk => by
                            obtain ⟨c1, c2⟩ := hsubc prep.gc _ _ _ vw' cmds (by unfold plwRun; rw [hr]; rfl) hk
                            exact ⟨c1, fun hn => c2 hn q3 q4 q5 (by intro s _ b hb; simp at hb)⟩)

theorem stepGc_loop_foldC (n : Bool) (KS : List (String × Option String × Bool)) (hc : KeyCons KS)
    (dops : DOps α B) (law : BatLaw dops.bat) (de : DEnv α)
    (hsd : SideOK dops de.deps de) (hso : SideOK dops de.opps de)
    (hcd : SideConn n dops de.deps de) (hco : SideConn n dops de.opps de)
    (ncs : List (String × Option Int)) (conn : List (String × List String)) (lk : Look α)
    (w0 : SWorld α B) (ini0 : DInit α) (K : List String) (hyp : LoopHyp w0 ini0 K)
    (ids : List String) (hnd : ids.Nodup)
    (st st' : SWorld α B × DInit α × List (String × α)) (hinv : LoopInv w0 ini0 K ids st)
    (hinvC : CInv n KS st.1)
    (h : ids.foldlM (stepGc dops de ncs conn lk) st = .ok st') :
    LoopInv w0 ini0 K [] st' ∧ CInv n KS st'.1 := by
  induction ids generalizing st with
  | nil =>
    simp only [List.foldlM_nil, pure, Except.pure, Except.ok.injEq] at h
    subst h; exact ⟨hinv, hinvC⟩
  | cons id rest ih =>
    simp only [List.nodup_cons] at hnd
    simp only [List.foldlM_cons, bind, Except.bind] at h
    split at h
    · cases h
    · rename_i st1 hst1
      exact ih hnd.2 st1
        (stepGc_loop dops law de hsd hso ncs conn lk w0 ini0 K hyp id rest hnd.1 st st1 hinv hst1)
        (stepGc_loopC n KS hc dops law de hsd hso hcd hco ncs conn lk w0 ini0 K hyp id rest hnd.1 st st1 hinv
          hinvC hst1) h

/-- **after the complete step**: the vehicle keys are those of the beginning, a station with power has a connected
vehicle, a station with negative power has a connected V2G-capable vehicle -/
theorem step_conn (n : Bool) (dops : DOps α B) (law : BatLaw dops.bat) (de : DEnv α)
    (hsd : SideOK dops de.deps de) (hso : SideOK dops de.opps de)
    (hcd : SideConn n dops de.deps de) (hco : SideConn n dops de.opps de)
    (s s' : DState α B) (cmds : List (String × α))
    (hgnd : (s.world.gcs.map (·.id)).Nodup) (hvnd : (s.world.vehicles.map (·.id)).Nodup)
    (hmax : ∀ st ∈ s.world.stations, 0 ≤ st.maxPower) (hvirt : ∀ st ∈ s.init.virtualCs, 0 ≤ st.maxPower)
    (hyp : LoopHyp (resetStations s.world) s.init (s.world.stations.map (·.id)))
    (h : step dops de s = .ok (s', cmds)) : CInv n (VK s.world) s'.world := by
  have hc : KeyCons (VK s.world) := vk_nodup s.world hvnd
  unfold step at h
  simp only [bind, Except.bind] at h
  split at h
  · cases h
  · rename_i lk _
    split at h
    · cases h
    · rename_i connected _
      split at h
      · cases h
      · rename_i st1 hfold
        obtain ⟨w1, ini1, c1⟩ := st1
        simp only at h
        split at h
        · cases h
        · rename_i ids _
          split at h
          · cases h
          · rename_i r hsur
            obtain ⟨w2, c2⟩ := r
            simp only [Except.ok.injEq, Prod.mk.injEq] at h
            obtain ⟨rfl, _⟩ := h
            obtain ⟨_, i2⟩ := stepGc_loop_foldC n (VK s.world) hc dops law de hsd hso hcd hco s.numberCs
              connected lk (resetStations s.world) s.init (s.world.stations.map (·.id))
              hyp _ hgnd _ (w1, ini1, c1) (loopInv_init s.world s.init [] hmax hvirt _)
              (cinv_reset n s.world) hfold
            exact distributeSurplusOn_cinv n (VK s.world) hc dops.bat law de.env w1 w2 ids c2 i2 hsur

/-! ### a second concrete state for the non-vacuity examples: a V2G discharge and an idle station -/

/-- `toyOps` whose discharge also follows a `max_power` request (the V2G branch of the surplus pass) -/
def toyOpsV (A : ℚ) : BatOps ℚ ℚ where
  soc b := b
  capacity _ := 100
  efficiency _ := 1
  unloadMaxPower _ := A
  load b mp _ tp := .ok (b, max (mp.getD (tp.getD 0)) 0)
  unload b mp _ tp := .ok (b, min (max (mp.getD (tp.getD 0)) 0) A)
  available _ := .ok A

def toyDOpsV (A : ℚ) : DOps ℚ ℚ := ⟨toyOpsV A, fun _ soc => .ok soc, fun _ s => s, fun _ => A, List.sum⟩

theorem toyOpsV_law (A : ℚ) (hA : 0 ≤ A) : BatLaw (toyOpsV A) where
  load_max := by
    intro b p b' avg h
    simp only [toyOpsV, Option.getD_some, Except.ok.injEq, Prod.mk.injEq] at h
    obtain ⟨_, rfl⟩ := h
    exact ⟨le_max_right _ _, le_refl _⟩
  load_target := by
    intro b p b' avg h
    simp only [toyOpsV, Option.getD_some, Option.getD_none, Except.ok.injEq, Prod.mk.injEq] at h
    obtain ⟨_, rfl⟩ := h
    exact ⟨le_max_right _ _, le_refl _⟩
  unload_max := by
    intro b p ts b' avg h
    simp only [toyOpsV, Option.getD_some, Except.ok.injEq, Prod.mk.injEq] at h
    obtain ⟨_, rfl⟩ := h
    exact ⟨le_min (le_max_right _ _) hA, min_le_left _ _⟩
  unload_target := by
    intro b x b' avg h
    simp only [toyOpsV, Option.getD_some, Option.getD_none, Except.ok.injEq, Prod.mk.injEq] at h
    obtain ⟨_, rfl⟩ := h
    exact ⟨le_min (le_max_right _ _) hA, min_le_left _ _⟩
  available_nonneg := by
    intro b a h
    simp only [toyOpsV, Except.ok.injEq] at h
    subst h; exact hA

/-- `toyState` with a 4 kW fixed load at the depot connector GC2, the depot vehicle V2G-capable and above its desired
SoC (it supports the connector with 4 kW in the sub-strategy's surplus pass), and a third station nobody is connected to -/
def toyStateV2G : DState ℚ ℚ :=
  { world := ⟨[⟨"GC1", 10, some (.fixed (3/10)), [("load", 4)]⟩, ⟨"GC2", 20, some (.fixed (3/10)), [("load", 4)]⟩],
              [⟨"CS_v1_opps", "GC1", 11, 0, 0⟩, ⟨"CS_v2_deps", "GC2", 11, 0, 0⟩, ⟨"CS_v3_deps", "GC2", 11, 0, 0⟩],
              [⟨"v1", some "CS_v1_opps", 4/5, some 3600000000, 0, false, 1/2, 1/5⟩,
               ⟨"v2", some "CS_v2_deps", 1/5, some 3600000000, 0, true, 1/2, 4/5⟩],
              [⟨"BAT", "GC1", 0, 1/2⟩]⟩,
    numberCs := [("GC1", none), ("GC2", none)],
    connected := [("GC1", []), ("GC2", [])],
    init := { strategies := [("GC1", .opps), ("GC2", .deps)], gcBattery := [("GC1", ["BAT"])], virtualVt := [],
              virtualCs := [] },
    future := [] }

/-- `toyStateV2G` meets the premises of the loop -/
theorem toyStateV2G_loopHyp :
    LoopHyp (resetStations toyStateV2G.world) toyStateV2G.init (toyStateV2G.world.stations.map (·.id)) ∧
    (toyStateV2G.world.gcs.map (·.id)).Nodup ∧ (toyStateV2G.world.vehicles.map (·.id)).Nodup ∧
    (∀ st ∈ toyStateV2G.world.stations, 0 ≤ st.maxPower) ∧
    (∀ st ∈ toyStateV2G.init.virtualCs, 0 ≤ st.maxPower) := by
  refine ⟨⟨?_, ?_, ?_, ?_⟩, by decide, by decide, ?_, ?_⟩
  · intro g hg k hk
    simp only [resetStations, toyStateV2G, List.mem_cons, List.not_mem_nil, or_false, List.map_cons, List.map_nil]
      at hg hk
    rcases hg with rfl | rfl <;> rcases hk with rfl | rfl | rfl <;> decide
  · intro g _ s0 hs0
    simp [toyStateV2G] at hs0
  · intro g' b hb
    simp only [toyStateV2G, sdGet] at hb
    split at hb
    · simp only [Option.getD_some, List.mem_cons, List.not_mem_nil, or_false] at hb
      subst hb; decide
    · simp at hb
  · intro g' b _ s0 hs0
    simp [toyStateV2G] at hs0
  · intro st hst
    simp only [toyStateV2G, List.mem_cons, List.not_mem_nil, or_false] at hst
    rcases hst with rfl | rfl | rfl <;> norm_num
  · intro st hst
    simp [toyStateV2G] at hst

end SpiceEv.Distrib.Conn
