/-
Helper lemmas for the aggregate theorems of C18 that `C18_aggregates` (Properties/C18.lean) does not
cover: the standing-time counters (`countWindow`, `loadCount`), the flex range per window, the average
needed energy, the per-battery maxima, and totality (`.ok`) of `aggLoop`, `aggregateLocal`,
`aggregateTimeseries` on well-shaped run records.
-/
import SpiceEv.Proofs.Report
set_option linter.unusedSectionVars false
set_option linter.unusedSimpArgs false
set_option linter.unusedVariables false
set_option linter.unusedTactic false
set_option linter.unreachableTactic false
namespace SpiceEv.ReportAgg
open SpiceEv SpiceEv.Report

/-! ### sums of naturals -/

theorem natSum_foldl (l : List Nat) (a : Nat) : l.foldl (· + ·) a = a + l.sum := by
  induction l generalizing a with
  | nil => simp
  | cons x xs ih => simp [ih, Nat.add_assoc]

@[simp] theorem natSum_eq_sum (l : List Nat) : natSum l = l.sum := by
  unfold natSum; rw [natSum_foldl]; simp

section field
variable {α : Type} [Field α] [LinearOrder α] [IsStrictOrderedRing α]

/-! ### reference quantities -/

/-- number of vehicles with a connected SoC in one row of `scenario.socs` -/
def connCount (socs : List (Option α)) : Nat := (socs.filter (·.isSome)).length

/-- number of vehicles whose standing period ends between two consecutive rows of `scenario.socs`
(connected in `prev`, not connected in `socs`) -/
def endsCount (prev socs : List (Option α)) : Nat :=
  ((prev.zip socs).filter (fun q => q.1.isSome && q.2.isNone)).length

/-- number of ended standing periods over a whole series of rows -/
def standEnds : List (Option α) → List (List (Option α)) → Nat
  | _, [] => 0
  | prev, row :: rows => endsCount prev row + standEnds row rows

/-- `flex["max"][idx] - flex["min"][idx]`, 0 without band -/
def flexRangeD (R : RunData α) (idx : Nat) : α :=
  match R.flex with
  | .band mn _ mx _ => mx.getD idx 0 - mn.getD idx 0
  | _ => 0

/-- the steps (with index) that fall into report window `w` -/
def stepsIn (R : RunData α) (w : Nat) : List (StepData α × Nat) :=
  R.steps.zipIdx.filter (fun p => windowIndex R.startLocal R.interval p.2 = w)

theorem pyIndex_getD {xs : List α} {i : Nat} {v : α} (h : pyIndex xs i = .ok v) : xs.getD i 0 = v := by
  have := pyIndex_ok h
  simp [List.getD, this]

theorem pyIndex_of_lt {β : Type} (xs : List β) (i : Nat) (h : i < xs.length) :
    pyIndex xs i = .ok xs[i] := by
  unfold pyIndex; rw [List.getElem?_eq_getElem h]

theorem flexRange_ok {R : RunData α} {idx : Nat} {fr : α} (h : flexRange R idx = .ok fr) :
    fr = flexRangeD R idx := by
  unfold flexRange at h; unfold flexRangeD
  cases hf : R.flex with
  | skipped => simp [hf] at h; exact h.symm
  | failed => simp [hf] at h; exact h.symm
  | band mn base mx ivs =>
    simp only [hf] at h
    obtain ⟨a, ha, h⟩ := bind_ok h
    obtain ⟨b, hb, h⟩ := bind_ok h
    simp [pure, Except.pure] at h
    simp only []
    rw [pyIndex_getD ha, pyIndex_getD hb]; exact h.symm

/-- the flex band (if there is one) is at least as long as the run -/
def FlexLong (R : RunData α) : Prop :=
  ∀ mn base mx ivs, R.flex = .band mn base mx ivs →
    R.steps.length ≤ mn.length ∧ R.steps.length ≤ base.length ∧ R.steps.length ≤ mx.length

theorem flexRange_total {R : RunData α} (hF : FlexLong R) {idx : Nat} (hi : idx < R.steps.length) :
    ∃ fr, flexRange R idx = .ok fr := by
  unfold flexRange
  cases hf : R.flex with
  | skipped => exact ⟨_, rfl⟩
  | failed => exact ⟨_, rfl⟩
  | band mn base mx ivs =>
    obtain ⟨h1, _, h3⟩ := hF mn base mx ivs hf
    simp only
    rw [pyIndex_of_lt mx idx (by omega), pyIndex_of_lt mn idx (by omega)]
    exact ⟨_, rfl⟩

/-! ### one iteration of the loop -/

theorem aggStep_full {R : RunData α} {st st' : AggState α} {p : StepData α × Nat}
    (h : aggStep R st p = .ok st') :
    ∃ lc, updLoadCount st.loadCount p.1.socs = .ok lc ∧
      (∃ fr, flexRange R p.2 = .ok fr) ∧
      st'.loadCount = lc ∧
      st'.loadWindow = modifyNth st.loadWindow (windowIndex R.startLocal R.interval p.2)
        (fun w => w ++ [(flexRangeD R p.2, p.1.totalLoad)]) ∧
      st'.countWindow = modifyNth st.countWindow (windowIndex R.startLocal R.interval p.2)
        (fun c => List.zipWith (fun c t => c + (if (t : Option α).isSome then 1 else 0)) c p.1.socs) := by
  unfold aggStep at h
  obtain ⟨fr, hfr, h⟩ := bind_ok h
  obtain ⟨lc, hlc, h⟩ := bind_ok h
  simp [pure, Except.pure] at h
  subst h
  have := flexRange_ok hfr
  subst this
  exact ⟨lc, hlc, ⟨_, hfr⟩, rfl, rfl, rfl⟩

theorem aggStep_total {R : RunData α} {st : AggState α} {p : StepData α × Nat} {lc : List (List Nat)}
    {fr : α} (h1 : flexRange R p.2 = .ok fr) (h2 : updLoadCount st.loadCount p.1.socs = .ok lc) :
    ∃ st', aggStep R st p = .ok st' := by
  unfold aggStep
  simp only [h1, h2, bind, Except.bind, pure, Except.pure]
  exact ⟨_, rfl⟩

/-! ### `count_window` -/

theorem zipWith_count (c : List Nat) (socs : List (Option α)) (h : c.length = socs.length) :
    (List.zipWith (fun c t => c + (if (t : Option α).isSome then 1 else 0)) c socs).length = c.length ∧
    (List.zipWith (fun c t => c + (if (t : Option α).isSome then 1 else 0)) c socs).sum
      = c.sum + connCount socs := by
  induction c generalizing socs with
  | nil => cases socs with
    | nil => simp [connCount]
    | cons s ss => simp at h
  | cons x xs ih =>
    cases socs with
    | nil => simp at h
    | cons s ss =>
      simp only [List.length_cons, Nat.add_right_cancel_iff] at h
      obtain ⟨h1, h2⟩ := ih ss h
      refine ⟨by simp [h], ?_⟩
      simp only [List.zipWith_cons_cons, List.sum_cons, h2]
      cases s with
      | none => simp [connCount]; omega
      | some v => simp [connCount]; omega

/-- the buckets of `count_window` after the loop -/
theorem aggFold_count (R : RunData α) (n : Nat) :
    ∀ (ps : List (StepData α × Nat)) (st0 st : AggState α),
      ps.foldlM (aggStep R) st0 = .ok st →
      (∀ p ∈ ps, p.1.socs.length = n) →
      (∀ (w : Nat) (c : List Nat), st0.countWindow[w]? = some c → c.length = n) →
      st.countWindow.length = st0.countWindow.length ∧
      (∀ (w : Nat) (c : List Nat), st.countWindow[w]? = some c → c.length = n) ∧
      ∀ w, w < st0.countWindow.length →
        (st.countWindow[w]?.getD []).sum = (st0.countWindow[w]?.getD []).sum +
          ((ps.filter (fun p => windowIndex R.startLocal R.interval p.2 = w)).map
            (fun p => connCount p.1.socs)).sum := by
  intro ps
  induction ps with
  | nil =>
    intro st0 st h _ h0
    simp [pure, Except.pure] at h; subst h
    exact ⟨rfl, h0, by simp⟩
  | cons p ps ih =>
    intro st0 st h hs h0
    rw [List.foldlM_cons] at h
    obtain ⟨st1, h1, h⟩ := bind_ok h
    obtain ⟨lc, _, _, _, _, hcw⟩ := aggStep_full h1
    have hp : p.1.socs.length = n := hs p List.mem_cons_self
    have h0' : ∀ (w : Nat) (c : List Nat), st1.countWindow[w]? = some c → c.length = n := by
      intro w c hc
      rw [hcw, modifyNth_getElem?] at hc
      by_cases e : w = windowIndex R.startLocal R.interval p.2
      · rw [if_pos e] at hc
        cases hw : st0.countWindow[w]? with
        | none => simp [hw] at hc
        | some c0 =>
          simp [hw] at hc
          have hc0 := h0 w c0 hw
          rw [← hc, (zipWith_count c0 p.1.socs (by omega)).1, hc0]
      · rw [if_neg e] at hc; exact h0 w c hc
    obtain ⟨hl, hall, hsum⟩ := ih st1 st h (fun q hq => hs q (List.mem_cons_of_mem _ hq)) h0'
    have hl1 : st1.countWindow.length = st0.countWindow.length := by rw [hcw, modifyNth_length]
    refine ⟨hl.trans hl1, hall, ?_⟩
    intro w hw
    rw [hsum w (hl1 ▸ hw)]
    have hw' : st0.countWindow[w]? = some st0.countWindow[w] := List.getElem?_eq_getElem hw
    have : (st1.countWindow[w]?.getD []).sum = (st0.countWindow[w]?.getD []).sum +
        (if windowIndex R.startLocal R.interval p.2 = w then connCount p.1.socs else 0) := by
      rw [hcw, modifyNth_getElem?]
      by_cases e : w = windowIndex R.startLocal R.interval p.2
      · rw [if_pos e, if_pos e.symm, hw']
        simp only [Option.map_some, Option.getD_some]
        exact (zipWith_count _ p.1.socs (by rw [h0 w _ hw', hp])).2
      · have e' : ¬ windowIndex R.startLocal R.interval p.2 = w := fun x => e x.symm
        rw [if_neg e, if_neg e']; simp
    rw [this]
    by_cases e : windowIndex R.startLocal R.interval p.2 = w
    · simp [List.filter_cons, e]; omega
    · simp [List.filter_cons, e]

/-! ### `load_window` with the flex range -/

theorem aggFold_bucket (R : RunData α) :
    ∀ (ps : List (StepData α × Nat)) (st0 st : AggState α),
      ps.foldlM (aggStep R) st0 = .ok st →
      st.loadWindow.length = st0.loadWindow.length ∧
      ∀ w, w < st0.loadWindow.length →
        st.loadWindow[w]?.getD [] = st0.loadWindow[w]?.getD [] ++
          ((ps.filter (fun p => windowIndex R.startLocal R.interval p.2 = w)).map
            (fun p => (flexRangeD R p.2, p.1.totalLoad))) := by
  intro ps
  induction ps with
  | nil =>
    intro st0 st h
    simp [pure, Except.pure] at h; subst h
    simp
  | cons p ps ih =>
    intro st0 st h
    rw [List.foldlM_cons] at h
    obtain ⟨st1, h1, h⟩ := bind_ok h
    obtain ⟨lc, _, _, _, hlw, _⟩ := aggStep_full h1
    obtain ⟨hl, hb⟩ := ih st1 st h
    have hl1 : st1.loadWindow.length = st0.loadWindow.length := by rw [hlw, modifyNth_length]
    refine ⟨hl.trans hl1, ?_⟩
    intro w hw
    rw [hb w (hl1 ▸ hw)]
    have hw' : st0.loadWindow[w]? = some st0.loadWindow[w] := List.getElem?_eq_getElem hw
    have : st1.loadWindow[w]?.getD [] = st0.loadWindow[w]?.getD [] ++
        (if windowIndex R.startLocal R.interval p.2 = w then [(flexRangeD R p.2, p.1.totalLoad)] else []) := by
      rw [hlw, modifyNth_getElem?]
      by_cases e : w = windowIndex R.startLocal R.interval p.2
      · rw [if_pos e, if_pos e.symm, hw']; simp
      · have e' : ¬ windowIndex R.startLocal R.interval p.2 = w := fun x => e x.symm
        rw [if_neg e, if_neg e']; simp
    rw [this, List.append_assoc]
    congr 1
    by_cases e : windowIndex R.startLocal R.interval p.2 = w
    · simp [List.filter_cons, e]
    · simp [List.filter_cons, e]

/-! ### `load_count` -/

/-- invariant of one vehicle's counter list (kept reversed: head = `counts[-1]`) against the
vehicle's entry in the previous row: the running count is positive iff the vehicle was connected -/
def LcInv (c : List Nat) (p : Option α) : Prop := ∃ h t, c = h :: t ∧ (0 < h ↔ p.isSome = true)

theorem updLoadCount_ok :
    ∀ (lc : List (List Nat)) (prev : List (Option α)), List.Forall₂ LcInv lc prev →
      ∀ (socs : List (Option α)), lc.length = socs.length →
      ∃ lc', updLoadCount lc socs = .ok lc' ∧ List.Forall₂ LcInv lc' socs ∧
        (lc'.map List.sum).sum = (lc.map List.sum).sum + connCount socs ∧
        (lc'.map List.length).sum = (lc.map List.length).sum + endsCount prev socs := by
  intro lc prev hinv
  induction hinv with
  | nil =>
    intro socs hl
    cases socs with
    | nil => exact ⟨[], rfl, List.Forall₂.nil, by simp [connCount], by simp [endsCount]⟩
    | cons s ss => simp at hl
  | @cons c p lc prev hcp _ ih =>
    intro socs hl
    cases socs with
    | nil => simp at hl
    | cons soc socs =>
      simp only [List.length_cons, Nat.add_right_cancel_iff] at hl
      obtain ⟨rest, hr, hinv', hs, hn⟩ := ih socs hl
      obtain ⟨h, t, rfl, hpos⟩ := hcp
      cases soc with
      | none =>
        by_cases hh : 0 < h
        · refine ⟨(0 :: h :: t) :: rest, ?_, ?_, ?_, ?_⟩
          · simp [updLoadCount, hr, bind, Except.bind, hh]
          · exact List.Forall₂.cons ⟨0, h :: t, rfl, by simp⟩ hinv'
          · simp [hs, connCount]; omega
          · have hp : p.isSome = true := hpos.mp hh
            simp [hn, endsCount, hp]; omega
        · refine ⟨(h :: t) :: rest, ?_, ?_, ?_, ?_⟩
          · simp [updLoadCount, hr, bind, Except.bind, hh]
          · exact List.Forall₂.cons ⟨h, t, rfl, by simp; omega⟩ hinv'
          · simp [hs, connCount]; omega
          · have hp : p.isSome = false := by
              rcases hq : p.isSome with _ | _
              · rfl
              · exact absurd (hpos.mpr hq) hh
            simp [hn, endsCount, hp]; omega
      | some v =>
        refine ⟨((h + 1) :: t) :: rest, ?_, ?_, ?_, ?_⟩
        · simp [updLoadCount, hr, bind, Except.bind]
        · exact List.Forall₂.cons ⟨h + 1, t, rfl, by simp⟩ hinv'
        · simp [hs, connCount]; omega
        · simp [hn, endsCount]; omega

theorem aggFold_loadCount (R : RunData α) (n : Nat) :
    ∀ (ps : List (StepData α × Nat)) (st0 st : AggState α) (prev : List (Option α)),
      ps.foldlM (aggStep R) st0 = .ok st →
      (∀ p ∈ ps, p.1.socs.length = n) → st0.loadCount.length = n →
      List.Forall₂ LcInv st0.loadCount prev →
      (st.loadCount.map List.sum).sum = (st0.loadCount.map List.sum).sum
        + (ps.map (fun p => connCount p.1.socs)).sum ∧
      (st.loadCount.map List.length).sum = (st0.loadCount.map List.length).sum
        + standEnds prev (ps.map (·.1.socs)) := by
  intro ps
  induction ps with
  | nil =>
    intro st0 st prev h _ _ _
    simp [pure, Except.pure] at h; subst h
    simp [standEnds]
  | cons p ps ih =>
    intro st0 st prev h hs hl hinv
    rw [List.foldlM_cons] at h
    obtain ⟨st1, h1, h⟩ := bind_ok h
    obtain ⟨lc, hlc, _, hlc1, _, _⟩ := aggStep_full h1
    have hp : p.1.socs.length = n := hs p List.mem_cons_self
    obtain ⟨lc', hlc', hinv', hsum, hlen⟩ := updLoadCount_ok _ _ hinv p.1.socs (by omega)
    rw [hlc] at hlc'; cases hlc'
    have hl1 : st1.loadCount.length = n := by rw [hlc1, hinv'.length_eq, hp]
    obtain ⟨a, b⟩ := ih st1 st p.1.socs h (fun q hq => hs q (List.mem_cons_of_mem _ hq)) hl1
      (hlc1 ▸ hinv')
    rw [hlc1] at a b
    refine ⟨?_, ?_⟩
    · rw [a, hsum]; simp; omega
    · rw [b, hlen]; simp [standEnds]; omega

theorem aggFold_total (R : RunData α) (n : Nat) :
    ∀ (ps : List (StepData α × Nat)) (st0 : AggState α) (prev : List (Option α)),
      (∀ p ∈ ps, p.1.socs.length = n) → st0.loadCount.length = n →
      List.Forall₂ LcInv st0.loadCount prev →
      (∀ p ∈ ps, ∃ fr, flexRange R p.2 = .ok fr) →
      ∃ st, ps.foldlM (aggStep R) st0 = .ok st := by
  intro ps
  induction ps with
  | nil => intro st0 _ _ _ _ _; exact ⟨st0, rfl⟩
  | cons p ps ih =>
    intro st0 prev hs hl hinv hfr
    have hp : p.1.socs.length = n := hs p List.mem_cons_self
    obtain ⟨lc', hlc', hinv', _, _⟩ := updLoadCount_ok _ _ hinv p.1.socs (by omega)
    obtain ⟨fr, hfr1⟩ := hfr p List.mem_cons_self
    obtain ⟨st1, h1⟩ := aggStep_total (st := st0) hfr1 hlc'
    obtain ⟨lc, hlc, _, hlc1, _, _⟩ := aggStep_full h1
    rw [hlc'] at hlc; cases hlc
    obtain ⟨st, hst⟩ := ih st1 p.1.socs (fun q hq => hs q (List.mem_cons_of_mem _ hq))
      (by rw [hlc1, hinv'.length_eq, hp]) (hlc1 ▸ hinv') (fun q hq => hfr q (List.mem_cons_of_mem _ hq))
    exact ⟨st, by rw [List.foldlM_cons, h1]; exact hst⟩

theorem aggInit_inv (n : Nat) :
    List.Forall₂ (LcInv (α := α)) (aggInit (α := α) n).loadCount (List.replicate n none) := by
  simp only [aggInit]
  induction n with
  | zero => exact List.Forall₂.nil
  | succ k ih =>
    rw [List.replicate_succ, List.replicate_succ]
    exact List.Forall₂.cons ⟨0, [], rfl, by simp⟩ ih

/-! ### the loop, summarised -/

theorem list4 {β : Type} (l : List β) (d : β) (h : l.length = 4) :
    l = [l[0]?.getD d, l[1]?.getD d, l[2]?.getD d, l[3]?.getD d] := by
  match l, h with
  | [a, b, c, e], _ => rfl

theorem filter4_partition_nat {β : Type} (W : β → Nat) (hW : ∀ p, W p < 4) (g : β → Nat) (l : List β) :
    ((l.filter (fun p => W p = 0)).map g).sum + ((l.filter (fun p => W p = 1)).map g).sum
    + ((l.filter (fun p => W p = 2)).map g).sum + ((l.filter (fun p => W p = 3)).map g).sum
    = (l.map g).sum := by
  induction l with
  | nil => simp
  | cons p l ih =>
    have := hW p
    have h : W p = 0 ∨ W p = 1 ∨ W p = 2 ∨ W p = 3 := by omega
    rw [List.map_cons, List.sum_cons, ← ih]
    rcases h with h | h | h | h <;> simp [List.filter_cons, h] <;> omega

/-- every row of `scenario.socs` has one entry per vehicle (the run loop builds it that way) -/
def SocsShaped (R : RunData α) : Prop := ∀ s ∈ R.steps, s.socs.length = R.vehicles.length

/-- connected vehicle-steps in report window `w` -/
def windowCount (R : RunData α) (w : Nat) : Nat := ((stepsIn R w).map (fun p => connCount p.1.socs)).sum

/-- connected vehicle-steps of the whole run -/
def totalCount (R : RunData α) : Nat := (R.steps.map (fun s => connCount s.socs)).sum

/-- number of entries of `load_count` after the loop: one per vehicle plus one per ended standing period -/
def numLoadsSpec (R : RunData α) : Nat :=
  R.vehicles.length + standEnds (List.replicate R.vehicles.length none) (R.steps.map (·.socs))

theorem windowCount_partition (R : RunData α) :
    windowCount R 0 + windowCount R 1 + windowCount R 2 + windowCount R 3 = totalCount R := by
  unfold windowCount stepsIn totalCount
  rw [filter4_partition_nat (fun p : StepData α × Nat => windowIndex R.startLocal R.interval p.2)
    (fun p => windowIndex_lt R.startLocal R.interval p.2) (fun p => connCount p.1.socs) R.steps.zipIdx]
  rw [zipIdx_map_comp (fun s : StepData α => connCount s.socs) R.steps 0]

structure LoopFacts (R : RunData α) (st : AggState α) : Prop where
  lw_len : st.loadWindow.length = 4
  lw : ∀ w, w < 4 → st.loadWindow[w]?.getD [] =
    (stepsIn R w).map (fun p => (flexRangeD R p.2, p.1.totalLoad))
  cw_len : st.countWindow.length = 4
  cw : ∀ w, w < 4 → (st.countWindow[w]?.getD []).sum = windowCount R w
  lc_sum : (st.loadCount.map List.sum).sum = totalCount R
  lc_len : (st.loadCount.map List.length).sum = numLoadsSpec R

theorem zipIdx_shape {R : RunData α} (hs : SocsShaped R) :
    ∀ p ∈ R.steps.zipIdx, p.1.socs.length = R.vehicles.length := by
  intro p hp
  apply hs
  have : p.1 ∈ (R.steps.zipIdx.map (·.1)) := List.mem_map_of_mem hp
  rwa [zipIdx_map_fst] at this

theorem aggLoop_facts {R : RunData α} {st : AggState α} (hs : SocsShaped R)
    (h : aggLoop R = .ok st) : LoopFacts R st := by
  unfold aggLoop at h
  have hz := zipIdx_shape hs
  obtain ⟨b1, b2⟩ := aggFold_bucket R _ _ _ h
  obtain ⟨c1, _, c3⟩ := aggFold_count R R.vehicles.length _ _ _ h hz (by
    intro w c hc
    simp only [aggInit, List.getElem?_replicate] at hc
    split at hc
    · cases hc; simp
    · cases hc)
  obtain ⟨l1, l2⟩ := aggFold_loadCount R R.vehicles.length _ _ _ _ h hz (by simp [aggInit])
    (aggInit_inv R.vehicles.length)
  have i4 : (aggInit (α := α) R.vehicles.length).loadWindow.length = 4 := by simp [aggInit]
  have j4 : (aggInit (α := α) R.vehicles.length).countWindow.length = 4 := by simp [aggInit]
  rw [i4] at b1 b2; rw [j4] at c1 c3
  refine ⟨b1, ?_, c1, ?_, ?_, ?_⟩
  · intro w hw
    rw [b2 w hw]
    have : ((aggInit (α := α) R.vehicles.length).loadWindow[w]?.getD []) = [] := by
      have : w = 0 ∨ w = 1 ∨ w = 2 ∨ w = 3 := by omega
      rcases this with rfl | rfl | rfl | rfl <;> simp [aggInit]
    rw [this]; rfl
  · intro w hw
    rw [c3 w hw]
    have : ((aggInit (α := α) R.vehicles.length).countWindow[w]?.getD []).sum = 0 := by
      have : w = 0 ∨ w = 1 ∨ w = 2 ∨ w = 3 := by omega
      rcases this with rfl | rfl | rfl | rfl <;> simp [aggInit]
    rw [this]; simp [windowCount, stepsIn]
  · rw [l1]
    have : (((aggInit (α := α) R.vehicles.length).loadCount.map List.sum).sum) = 0 := by
      simp [aggInit]
    rw [this, zipIdx_map_comp (fun s : StepData α => connCount s.socs) R.steps 0]; simp [totalCount]
  · rw [l2]
    have : (((aggInit (α := α) R.vehicles.length).loadCount.map List.length).sum) = R.vehicles.length := by
      simp [aggInit]
    rw [this, zipIdx_map_comp (fun s : StepData α => s.socs) R.steps 0]; rfl

theorem aggLoop_total {R : RunData α} (hs : SocsShaped R) (hF : FlexLong R) :
    ∃ st, aggLoop R = .ok st := by
  unfold aggLoop
  refine aggFold_total R R.vehicles.length _ _ _ (zipIdx_shape hs) (by simp [aggInit])
    (aggInit_inv R.vehicles.length) ?_
  intro p hp
  obtain ⟨i, hi, rfl⟩ := List.getElem_of_mem hp
  simp only [List.getElem_zipIdx, Nat.zero_add]
  exact flexRange_total hF (by simpa using hi)

theorem totalStanding_eq {R : RunData α} {st : AggState α} (F : LoopFacts R st) :
    totalStanding st = totalCount R := by
  unfold totalStanding
  rw [natSum_eq_sum, list4 st.countWindow [] F.cw_len]
  simp only [List.map_cons, List.map_nil, natSum_eq_sum, List.sum_cons, List.sum_nil]
  rw [F.cw 0 (by omega), F.cw 1 (by omega), F.cw 2 (by omega), F.cw 3 (by omega),
    ← windowCount_partition R]
  omega

/-! ### the standing-time entries -/

theorem fAvgTotal_ok {R : RunData α} {st : AggState α} {r : α} (F : LoopFacts R st)
    (h : fAvgTotal R st = .ok r) :
    r = ((totalCount R : ℕ) : α) / ((max R.vehicles.length 1 : ℕ) : α) / R.stepsPerHour := by
  unfold fAvgTotal at h
  obtain ⟨a, ha, h⟩ := bind_ok h
  rw [(pydiv_ok_inv h).2, (pydiv_ok_inv ha).2, totalStanding_eq F]

theorem fPerc_ok {R : RunData α} {st : AggState α} {l : List α} (F : LoopFacts R st)
    (h : fPerc st = .ok l) :
    l.length = 4 ∧ ∀ w, w < 4 → l[w]? = some
      (if 0 < totalCount R then ((windowCount R w : ℕ) : α) * ((100 : ℕ) : α) / ((totalCount R : ℕ) : α)
       else 0) := by
  unfold fPerc at h
  have hf := mapM_ok_forall₂ _ _ _ h
  have hl : st.countWindow.length = l.length := hf.length_eq
  have h4 := F.cw_len
  refine ⟨by omega, ?_⟩
  intro w hw
  have hw1 : w < st.countWindow.length := by omega
  have hw2 : w < l.length := by omega
  have := (List.forall₂_iff_get.mp hf).2 w hw1 hw2
  simp only [List.get_eq_getElem, totalStanding_eq F, natSum_eq_sum] at this
  have hc := F.cw w hw
  rw [List.getElem?_eq_getElem hw1] at hc
  simp only [Option.getD_some] at hc
  rw [hc] at this
  rw [List.getElem?_eq_getElem hw2]
  by_cases hp : 0 < totalCount R
  · simp only [hp, if_true] at this ⊢
    rw [(pydiv_ok_inv this).2]
  · simp only [hp, if_false] at this ⊢
    simp [pure, Except.pure] at this
    rw [this]

theorem fAvgSingle_ok {R : RunData α} {st : AggState α} {r : α} (F : LoopFacts R st)
    (h : fAvgSingle R st = .ok r) :
    r = if 0 < numLoadsSpec R then
          ((totalCount R : ℕ) : α) / R.stepsPerHour / ((numLoadsSpec R : ℕ) : α)
        else 0 := by
  unfold fAvgSingle at h
  simp only [natSum_eq_sum] at h
  have e1 : (st.loadCount.map natSum) = st.loadCount.map List.sum := by
    apply List.map_congr_left; intro a _; exact natSum_eq_sum a
  rw [e1, F.lc_sum, F.lc_len] at h
  by_cases hp : 0 < numLoadsSpec R
  · have hp' : numLoadsSpec R > 0 := hp
    simp only [hp', hp, if_true] at h ⊢
    obtain ⟨a, ha, h⟩ := bind_ok h
    rw [(pydiv_ok_inv h).2, (pydiv_ok_inv ha).2]
  · have hp' : ¬ numLoadsSpec R > 0 := hp
    simp only [hp', hp, if_false] at h ⊢
    simp [pure, Except.pure] at h
    exact h.symm

/-! ### average flex range per window -/

theorem fAvgFlex_ok {R : RunData α} {st : AggState α} {r : Option (List α)} (F : LoopFacts R st)
    (h : fAvgFlex R st = .ok r) :
    (R.flex = .skipped ∧ r = none) ∨
    (R.flex ≠ .skipped ∧ ∃ l, r = some l ∧ l.length = 4 ∧ ∀ w, w < 4 → l[w]? = some
      (if (stepsIn R w).isEmpty then 0
       else ((stepsIn R w).map (fun p => flexRangeD R p.2)).sum / (((stepsIn R w).length : ℕ) : α))) := by
  unfold fAvgFlex at h
  have key : ∀ (l : List α), st.loadWindow.mapM (fun w =>
        if w.isEmpty then pure (0 : α) else pydiv (pysum (w.map (·.1))) ((w.length : Nat) : α)) = .ok l →
      l.length = 4 ∧ ∀ w, w < 4 → l[w]? = some
        (if (stepsIn R w).isEmpty then 0
         else ((stepsIn R w).map (fun p => flexRangeD R p.2)).sum / (((stepsIn R w).length : ℕ) : α)) := by
    intro l hl
    have hf := mapM_ok_forall₂ _ _ _ hl
    have hlen : st.loadWindow.length = l.length := hf.length_eq
    have h4 := F.lw_len
    refine ⟨by omega, ?_⟩
    intro w hw
    have hw1 : w < st.loadWindow.length := by omega
    have hw2 : w < l.length := by omega
    have := (List.forall₂_iff_get.mp hf).2 w hw1 hw2
    simp only [List.get_eq_getElem] at this
    have hb := F.lw w hw
    rw [List.getElem?_eq_getElem hw1] at hb
    simp only [Option.getD_some] at hb
    rw [hb] at this
    rw [List.getElem?_eq_getElem hw2]
    by_cases he : (stepsIn R w).isEmpty = true
    · have he' : ((stepsIn R w).map (fun p => (flexRangeD R p.2, p.1.totalLoad))).isEmpty = true := by
        simpa using he
      simp only [he', he, if_true] at this ⊢
      simp [pure, Except.pure] at this
      rw [this]
    · have he' : ¬ ((stepsIn R w).map (fun p => (flexRangeD R p.2, p.1.totalLoad))).isEmpty = true := by
        simpa using he
      simp only [he', he, if_false] at this ⊢
      rw [(pydiv_ok_inv this).2, pysum_eq_sum]
      simp [List.map_map, Function.comp_def]
  cases hf : R.flex with
  | skipped =>
    left; simp [hf, pure, Except.pure] at h; exact ⟨rfl, h.symm⟩
  | failed =>
    right; simp only [hf] at h
    obtain ⟨l, hl, h⟩ := bind_ok h
    simp [pure, Except.pure] at h
    exact ⟨by simp, l, h.symm, key l hl⟩
  | band mn base mx ivs =>
    right; simp only [hf] at h
    obtain ⟨l, hl, h⟩ := bind_ok h
    simp [pure, Except.pure] at h
    exact ⟨by simp, l, h.symm, key l hl⟩

/-! ### average needed energy -/

theorem mapM_pydiv_ok (ivs : List (α × Nat)) (h : ∀ i ∈ ivs, i.2 ≠ 0) :
    ivs.mapM (fun i => pydiv i.1 ((i.2 : Nat) : α)) = .ok (ivs.map (fun i => i.1 / ((i.2 : Nat) : α))) := by
  induction ivs with
  | nil => rfl
  | cons i l ih =>
    have h1 : ((i.2 : Nat) : α) ≠ 0 := Nat.cast_ne_zero.mpr (h i List.mem_cons_self)
    rw [List.mapM_cons, pydiv_ok _ h1, ih (fun x hx => h x (List.mem_cons_of_mem _ hx))]; rfl

theorem mapM_pydiv_err (ivs : List (α × Nat)) (h : ∃ i ∈ ivs, i.2 = 0) :
    ∃ e, ivs.mapM (fun i => pydiv i.1 ((i.2 : Nat) : α)) = .error e := by
  induction ivs with
  | nil => obtain ⟨i, hi, _⟩ := h; cases hi
  | cons i l ih =>
    rw [List.mapM_cons]
    by_cases hz : i.2 = 0
    · rw [hz, Nat.cast_zero, pydiv_zero]; exact ⟨_, rfl⟩
    · have h1 : ((i.2 : Nat) : α) ≠ 0 := Nat.cast_ne_zero.mpr hz
      rw [pydiv_ok _ h1]
      obtain ⟨j, hj, hj0⟩ := h
      rcases List.mem_cons.mp hj with rfl | hj
      · exact absurd hj0 hz
      · obtain ⟨e, he⟩ := ih ⟨j, hj, hj0⟩
        rw [he]; exact ⟨e, rfl⟩

theorem fNeeded_band {R : RunData α} {mn base mx : List α} {ivs : List (α × Nat)}
    (hf : R.flex = .band mn base mx ivs) :
    fNeeded R = if ivs ≠ [] ∧ ∀ i ∈ ivs, i.2 ≠ 0 then
        some ((ivs.map (fun i => i.1 / ((i.2 : Nat) : α))).sum / ((ivs.length : ℕ) : α))
      else none := by
  unfold fNeeded
  simp only [hf]
  by_cases hall : ∀ i ∈ ivs, i.2 ≠ 0
  · rw [mapM_pydiv_ok ivs hall]
    by_cases hne : ivs = []
    · subst hne
      simp [bind, Except.bind, pydiv_zero, pysum]
    · have hl : ((ivs.length : ℕ) : α) ≠ 0 :=
        Nat.cast_ne_zero.mpr (fun h0 => hne (List.length_eq_zero_iff.mp h0))
      simp only [bind, Except.bind, pydiv_ok _ hl, pysum_eq_sum]
      rw [if_pos ⟨hne, hall⟩]
  · have : ∃ i ∈ ivs, i.2 = 0 := by
      by_contra hc; apply hall; intro i hi h0; exact hc ⟨i, hi, h0⟩
    obtain ⟨e, he⟩ := mapM_pydiv_err (α := α) ivs this
    rw [he]
    simp only [bind, Except.bind]
    rw [if_neg (fun hh => hall hh.2)]

theorem fNeeded_noband {R : RunData α} (hf : R.flex = .skipped ∨ R.flex = .failed) :
    fNeeded R = none := by
  unfold fNeeded
  rcases hf with hf | hf <;> simp [hf]

/-! ### per-battery maxima -/

theorem fMaxStored_ok {R : RunData α} {r : Option (List (String × α))} (h : fMaxStored R = .ok r) :
    (r = none ∧ ∀ bl ∈ R.batteryLevels, ∀ x ∈ bl.2, x = 0) ∨
    (∃ l, r = some l ∧ (∃ bl ∈ R.batteryLevels, ∃ x ∈ bl.2, x ≠ 0) ∧
      List.Forall₂ (fun (bl : String × List α) (e : String × α) =>
        e.1 = bl.1 ∧ e.2 ∈ bl.2 ∧ ∀ x ∈ bl.2, x ≤ e.2) R.batteryLevels l) := by
  unfold fMaxStored at h
  by_cases ha : R.batteryLevels.any (fun bl => bl.2.any truthy) = true
  · right
    simp only [ha, if_true] at h
    obtain ⟨l, hl, h⟩ := bind_ok h
    simp [pure, Except.pure] at h
    refine ⟨l, h.symm, ?_, ?_⟩
    · obtain ⟨bl, hbl, hx⟩ := List.any_eq_true.mp ha
      obtain ⟨x, hx, ht⟩ := List.any_eq_true.mp hx
      exact ⟨bl, hbl, x, hx, (truthy_iff x).mp ht⟩
    · refine (mapM_ok_forall₂ _ _ _ hl).imp ?_
      intro bl e hbe
      obtain ⟨m, hm, hbe⟩ := bind_ok hbe
      simp [pure, Except.pure] at hbe
      subst hbe
      exact ⟨rfl, pymaxList_ok hm⟩
  · left
    simp only [ha] at h
    simp [pure, Except.pure] at h
    refine ⟨h.symm, ?_⟩
    intro bl hbl x hx
    by_contra hne
    exact ha (List.any_eq_true.mpr ⟨bl, hbl, List.any_eq_true.mpr ⟨x, hx, (truthy_iff x).mpr hne⟩⟩)

/-! ### totality: the report functions return on every well-shaped run record -/

theorem foldlM_total {β γ : Type} (F : γ → β → Py γ) :
    ∀ (l : List β) (a : γ), (∀ acc b, b ∈ l → ∃ r, F acc b = .ok r) → ∃ r, l.foldlM F a = .ok r := by
  intro l
  induction l with
  | nil => intro a _; exact ⟨a, rfl⟩
  | cons b l ih =>
    intro a h
    obtain ⟨a1, h1⟩ := h a b List.mem_cons_self
    obtain ⟨r, hr⟩ := ih a1 (fun acc x hx => h acc x (List.mem_cons_of_mem _ hx))
    exact ⟨r, by rw [List.foldlM_cons, h1]; exact hr⟩

theorem pymaxList_total {l : List α} (h : l ≠ []) : ∃ m, pymaxList l = .ok m := by
  cases l with
  | nil => exact absurd rfl h
  | cons x xs => exact ⟨_, rfl⟩

/-- **well-shaped run record** for `aggregate_local_results`: what `Scenario.run` guarantees about the
series it stores, plus the two data conditions under which the source does not divide by zero or take
the maximum of an empty list -/
structure WellShaped (R : RunData α) : Prop where
  /-- `stepsPerHour` is not 0 (else: ZeroDivisionError in "sum of energy") -/
  sph : R.stepsPerHour ≠ 0
  /-- one SoC entry per vehicle in every row (longer row: IndexError in `load_count[i]`) -/
  socs : SocsShaped R
  /-- the flex band covers the run (shorter: IndexError in `flex["max"][idx]`) -/
  flex : FlexLong R
  /-- one battery level per step (an empty level list next to a non-zero one: ValueError in `max`) -/
  levels : ∀ bl ∈ R.batteryLevels, bl.2.length = R.steps.length
  /-- no unlimited battery (else `batteryLevels[batID]`: KeyError / `max([])`: ValueError are possible) -/
  fin : ∀ b ∈ myBatteries R, b.2.2 ≤ ((2 ^ 63 : Nat) : α)
  /-- peak_load_window reports at least one step (else `max([])`: ValueError) -/
  plw : R.isPlw = true → R.steps ≠ []

theorem fAvgFlex_total (R : RunData α) (st : AggState α) : ∃ r, fAvgFlex R st = .ok r := by
  have key : ∃ l, st.loadWindow.mapM (fun w =>
        if w.isEmpty then pure (0 : α) else pydiv (pysum (w.map (·.1))) ((w.length : Nat) : α)) = .ok l := by
    apply mapM_ok_of_forall
    intro w _
    by_cases he : w.isEmpty = true
    · simp only [he, if_true]; exact ⟨_, rfl⟩
    · simp only [he]
      have : ((w.length : ℕ) : α) ≠ 0 := Nat.cast_ne_zero.mpr (fun h0 => he (by
        rw [List.length_eq_zero_iff.mp h0]; rfl))
      exact ⟨_, pydiv_ok _ this⟩
  obtain ⟨l, hl⟩ := key
  unfold fAvgFlex
  cases R.flex with
  | skipped => exact ⟨_, rfl⟩
  | failed => simp only [hl, bind, Except.bind]; exact ⟨_, rfl⟩
  | band mn base mx ivs => simp only [hl, bind, Except.bind]; exact ⟨_, rfl⟩

theorem fSumPerWindow_total {R : RunData α} (h : R.stepsPerHour ≠ 0) (st : AggState α) :
    ∃ r, fSumPerWindow R st = .ok r := by
  unfold fSumPerWindow
  apply mapM_ok_of_forall
  intro w _; exact ⟨_, pydiv_ok _ h⟩

theorem fAvgSingle_total {R : RunData α} (h : R.stepsPerHour ≠ 0) (st : AggState α) :
    ∃ r, fAvgSingle R st = .ok r := by
  unfold fAvgSingle
  by_cases hp : natSum (st.loadCount.map List.length) > 0
  · simp only [hp, if_true]
    have : ((natSum (st.loadCount.map List.length) : ℕ) : α) ≠ 0 := Nat.cast_ne_zero.mpr (by omega)
    simp only [pydiv_ok _ h, pydiv_ok _ this, bind, Except.bind]; exact ⟨_, rfl⟩
  · simp only [hp, if_false]; exact ⟨_, rfl⟩

theorem fAvgTotal_total {R : RunData α} (h : R.stepsPerHour ≠ 0) (st : AggState α) :
    ∃ r, fAvgTotal R st = .ok r := by
  unfold fAvgTotal
  have : ((max R.vehicles.length 1 : ℕ) : α) ≠ 0 := Nat.cast_ne_zero.mpr (by omega)
  simp only [pydiv_ok _ h, pydiv_ok _ this, bind, Except.bind]; exact ⟨_, rfl⟩

theorem fPerc_total (st : AggState α) : ∃ r, fPerc (α := α) st = .ok r := by
  unfold fPerc
  apply mapM_ok_of_forall
  intro c _
  by_cases hp : totalStanding st > 0
  · simp only [hp, if_true]
    have : ((totalStanding st : ℕ) : α) ≠ 0 := Nat.cast_ne_zero.mpr (by omega)
    exact ⟨_, pydiv_ok _ this⟩
  · simp only [hp, if_false]; exact ⟨_, rfl⟩

theorem fPlw_total {R : RunData α} (h : R.isPlw = true → R.steps ≠ []) : ∃ r, fPlw R = .ok r := by
  unfold fPlw
  cases hp : R.isPlw with
  | false => exact ⟨_, rfl⟩
  | true =>
    have hne : loadsOf R ≠ [] := by
      unfold loadsOf; intro h0; exact h hp (List.map_eq_nil_iff.mp h0)
    obtain ⟨m, hm⟩ := pymaxList_total hne
    simp only [if_true, hm, bind, Except.bind]
    by_cases hz : isZero m = true
    · simp only [hz, if_true]; exact ⟨_, rfl⟩
    · simp only [hz]
      have : m ≠ 0 := fun h0 => hz ((isZero_iff m).mpr h0)
      simp only [pydiv_ok _ this]; exact ⟨_, rfl⟩

theorem fPeaks_total (R : RunData α) (st : AggState α) : ∃ r, fPeaks R st = .ok r := by
  unfold fPeaks
  by_cases ha : (loadsOf R).any truthy = true
  · have hne : loadsOf R ≠ [] := by
      intro h0; rw [h0] at ha; simp at ha
    obtain ⟨m, hm⟩ := pymaxList_total hne
    simp only [ha, if_true, hm, bind, Except.bind]; exact ⟨_, rfl⟩
  · simp only [ha]; exact ⟨_, rfl⟩

theorem fAvgDrawn_total (R : RunData α) : ∃ r, fAvgDrawn R = .ok r := by
  unfold fAvgDrawn
  by_cases hp : R.steps.length > 0
  · simp only [hp, if_true]
    have : ((R.steps.length : ℕ) : α) ≠ 0 := Nat.cast_ne_zero.mpr (by omega)
    exact ⟨_, pydiv_ok _ this⟩
  · simp only [hp, if_false]; exact ⟨_, rfl⟩

theorem fFeedIn_total {R : RunData α} (h : R.stepsPerHour ≠ 0)
    (ts : Option (List String × List (List (Cell α)))) : ∃ r, fFeedIn R ts = .ok r := by
  unfold fFeedIn
  cases ts with
  | none => exact ⟨_, rfl⟩
  | some t => simp only [pydiv_ok _ h, bind, Except.bind]; exact ⟨_, rfl⟩

theorem fMaxStored_total {R : RunData α} (h : ∀ bl ∈ R.batteryLevels, bl.2.length = R.steps.length) :
    ∃ r, fMaxStored R = .ok r := by
  unfold fMaxStored
  by_cases ha : R.batteryLevels.any (fun bl => bl.2.any truthy) = true
  · simp only [ha, if_true]
    obtain ⟨bl, hbl, hx⟩ := List.any_eq_true.mp ha
    obtain ⟨x, hx, _⟩ := List.any_eq_true.mp hx
    have hpos : 0 < R.steps.length := by
      rw [← h bl hbl]; exact List.length_pos_of_mem hx
    have : ∃ l, R.batteryLevels.mapM (fun bl => do let m ← pymaxList bl.2; pure (bl.1, m)) = .ok l := by
      apply mapM_ok_of_forall
      intro b hb
      have hne : b.2 ≠ [] := by
        intro h0; have := h b hb; rw [h0] at this; simp at this; omega
      obtain ⟨m, hm⟩ := pymaxList_total hne
      simp only [hm, bind, Except.bind]; exact ⟨_, rfl⟩
    obtain ⟨l, hl⟩ := this
    rw [hl]; exact ⟨_, rfl⟩
  · simp only [ha]; exact ⟨_, rfl⟩

theorem fTotalCap_total {R : RunData α} (hfin : ∀ b ∈ myBatteries R, b.2.2 ≤ ((2 ^ 63 : Nat) : α)) :
    ∃ r, fTotalCap R = .ok r := by
  unfold fTotalCap
  apply foldlM_total
  intro acc b hb
  have : ¬ ((2 ^ 63 : Nat) : α) < b.2.2 := not_lt.mpr (hfin b hb)
  rw [if_neg this]; exact ⟨_, rfl⟩

theorem fBatEnergy_total {R : RunData α} (h : R.stepsPerHour ≠ 0) : ∃ r, fBatEnergy R = .ok r := by
  unfold fBatEnergy
  apply foldlM_total
  intro acc s _
  apply foldlM_total
  intro acc b _
  simp only [pydiv_ok _ h, bind, Except.bind]; exact ⟨_, rfl⟩

theorem fBatCycles_total {R : RunData α} (h : R.stepsPerHour ≠ 0)
    (hfin : ∀ b ∈ myBatteries R, b.2.2 ≤ ((2 ^ 63 : Nat) : α)) : ∃ r, fBatCycles R = .ok r := by
  unfold fBatCycles
  obtain ⟨cap, hcap⟩ := fTotalCap_total hfin
  obtain ⟨e, he⟩ := fBatEnergy_total (R := R) h
  simp only [hcap, bind, Except.bind]
  by_cases ht : truthy cap = true
  · have : cap ≠ 0 := (truthy_iff cap).mp ht
    simp only [ht, if_true, he, pydiv_ok _ this]; exact ⟨_, rfl⟩
  · simp only [ht]; exact ⟨_, rfl⟩

theorem fVehicleCycles_total (R : RunData α) : ∃ r, fVehicleCycles R = .ok r := by
  unfold fVehicleCycles
  by_cases hp : (0 : α) < vehicleCapOf R
  · simp only [hp, if_true]; exact ⟨_, pydiv_ok _ (ne_of_gt hp)⟩
  · simp only [hp, if_false]; exact ⟨_, rfl⟩

theorem aggregateLocal_total {R : RunData α} (W : WellShaped R)
    (ts : Option (List String × List (List (Cell α)))) : ∃ res, aggregateLocal R ts = .ok res := by
  obtain ⟨st, h1⟩ := aggLoop_total W.socs W.flex
  obtain ⟨a2, h2⟩ := fAvgFlex_total R st
  obtain ⟨a4, h4⟩ := fSumPerWindow_total W.sph st
  obtain ⟨a5, h5⟩ := fAvgSingle_total W.sph st
  obtain ⟨a6, h6⟩ := fAvgTotal_total W.sph st
  obtain ⟨a7, h7⟩ := fPerc_total (α := α) st
  obtain ⟨a8, h8⟩ := fPlw_total W.plw
  obtain ⟨a9, h9⟩ := fPeaks_total R st
  obtain ⟨a10, h10⟩ := fAvgDrawn_total R
  obtain ⟨a12, h12⟩ := fFeedIn_total W.sph ts
  obtain ⟨a13, h13⟩ := fMaxStored_total W.levels
  obtain ⟨a14, h14⟩ := fBatCycles_total W.sph W.fin
  obtain ⟨a15, h15⟩ := fVehicleCycles_total R
  have h3 : fSumEnergy R = .ok ((pysum (loadsOf R)) / R.stepsPerHour) := pydiv_ok _ W.sph
  have h11 : fGenEnergy R = .ok ((pysum (R.steps.map (·.localGen))) / R.stepsPerHour) := pydiv_ok _ W.sph
  unfold aggregateLocal
  simp only [h1, h2, h3, h4, h5, h6, h7, h8, h9, h10, h11, h12, h13, h14, h15, bind, Except.bind]
  exact ⟨_, rfl⟩

/-! ### totality of `aggregate_timeseries` -/

theorem lookup_some_of_mem {β : Type} (L : List (String × β)) (k : String) (h : k ∈ L.map (·.1)) :
    ∃ v, L.lookup k = some v := by
  induction L with
  | nil => cases h
  | cons kv L ih =>
    obtain ⟨k', v⟩ := kv
    rw [lookup_cons']
    by_cases e : k = k'
    · exact ⟨v, by rw [if_pos e]⟩
    · rw [if_neg e]
      simp only [List.map_cons, List.mem_cons] at h
      rcases h with h | h
      · exact absurd h e
      · exact ih h

/-- **well-shaped run record** for `aggregate_timeseries` -/
structure WellShapedTs (R : RunData α) : Prop where
  /-- the flex band covers the run (shorter: IndexError) -/
  flex : FlexLong R
  /-- every battery with a level series is a component (else KeyError) -/
  levelsKnown : ∀ bl ∈ R.batteryLevels, ∃ b, R.batteries.lookup bl.1 = some b
  /-- one battery level per step (shorter: IndexError) -/
  levelsLong : ∀ bl ∈ R.batteryLevels, R.steps.length ≤ bl.2.length
  /-- one SoC entry per vehicle in every row (shorter: IndexError) -/
  socs : SocsShaped R
  /-- a vehicle connected at a station of this connector has a SoC (else `1 - None`: TypeError) -/
  connSoc : ∀ s ∈ R.steps, ∀ (i : Nat) (vid cs : String),
    (sortedStr (R.vehicles.map (·.1)))[i]? = some vid → s.connected.lookup vid = some cs →
    R.stations.lookup cs = some R.gcId → ∃ v, s.socs[i]? = some (some v)

theorem bind_total {β γ : Type} {x : Py β} {f : β → Py γ} (P : β → Prop)
    (hx : ∃ a, x = .ok a ∧ P a) (hf : ∀ a, P a → ∃ r, f a = .ok r) : ∃ r, (x >>= f) = .ok r := by
  obtain ⟨a, ha, hp⟩ := hx
  obtain ⟨r, hr⟩ := hf a hp
  exact ⟨r, by rw [ha]; exact hr⟩

theorem batteryStored_total {R : RunData α} (W : WellShapedTs R) {idx : Nat} (hi : idx < R.steps.length) :
    ∃ r, batteryStored R idx = .ok r := by
  unfold batteryStored
  apply bind_total (fun cur => ∀ lv ∈ cur, R.steps.length ≤ lv.length)
  · have hk := W.levelsKnown
    have hl := W.levelsLong
    generalize R.batteryLevels = L at hk hl
    induction L with
    | nil => exact ⟨[], rfl, by simp⟩
    | cons bl L ih =>
      obtain ⟨b, hb⟩ := hk bl List.mem_cons_self
      obtain ⟨cur, hc, hcl⟩ := ih (fun x hx => hk x (List.mem_cons_of_mem _ hx))
        (fun x hx => hl x (List.mem_cons_of_mem _ hx))
      rw [List.filterMapM_cons]
      simp only [hb, bind, Except.bind]
      by_cases e : (b.1 == R.gcId) = true
      · simp only [e, if_true, hc]
        refine ⟨bl.2 :: cur, rfl, ?_⟩
        intro lv hlv
        rcases List.mem_cons.mp hlv with rfl | hlv
        · exact hl bl List.mem_cons_self
        · exact hcl lv hlv
      · simp only [e]
        exact ⟨cur, hc, hcl⟩
  · intro cur hcl
    obtain ⟨vals, hv⟩ := mapM_ok_of_forall (fun (levels : List α) => pyIndex levels idx) cur (by
      intro lv hlv
      exact ⟨_, pyIndex_of_lt lv idx (by have := hcl lv hlv; omega)⟩)
    simp only [bind, Except.bind, hv]; exact ⟨_, rfl⟩

theorem maxFlexEnergy_total {R : RunData α} (W : WellShapedTs R) {s : StepData α} (hs : s ∈ R.steps) :
    ∃ r, maxFlexEnergy R s = .ok r := by
  unfold maxFlexEnergy
  apply foldlM_total
  intro acc p hp
  obtain ⟨i, hi, rfl⟩ := List.getElem_of_mem hp
  simp only [List.getElem_zipIdx, Nat.zero_add]
  rw [List.length_zipIdx] at hi
  cases hc : s.connected.lookup (sortedStr (R.vehicles.map (·.1)))[i] with
  | none => exact ⟨_, rfl⟩
  | some cs =>
    simp only
    cases hst : R.stations.lookup cs with
    | none => exact ⟨_, rfl⟩
    | some parent =>
      simp only
      by_cases hpar : (parent != R.gcId) = true
      · simp only [hpar, if_true]; exact ⟨_, rfl⟩
      · simp only [hpar]
        have hpe : parent = R.gcId := by simpa using hpar
        subst hpe
        have hmem : (sortedStr (R.vehicles.map (·.1)))[i] ∈ R.vehicles.map (·.1) := by
          have := List.getElem_mem hi
          unfold sortedStr at this ⊢
          exact List.mem_mergeSort.mp this
        obtain ⟨v, hv⟩ := lookup_some_of_mem R.vehicles _ hmem
        obtain ⟨x, hx⟩ := W.connSoc s hs i _ cs (List.getElem?_eq_getElem hi) hc hst
        have hidx : pyIndex s.socs i = .ok (some x) := by
          unfold pyIndex; rw [hx]
        simp only [hv, hidx, bind, Except.bind, pure, Except.pure]
        exact ⟨_, rfl⟩

theorem aggregateTimeseries_total (rnd : α → α) {R : RunData α} (W : WellShapedTs R) :
    ∃ t, aggregateTimeseries rnd R = .ok t := by
  have hrows : ∃ rows, (R.steps.zipIdx).mapM (fun p =>
      tsRow rnd R (flagsOf R) (csIdsOf R) (csByUc (csIdsOf R)) p.2 p.1) = .ok rows := by
    apply mapM_ok_of_forall
    intro p hp
    obtain ⟨i, hi, rfl⟩ := List.getElem_of_mem hp
    simp only [List.getElem_zipIdx, Nat.zero_add]
    rw [List.length_zipIdx] at hi
    have hs : R.steps[i] ∈ R.steps := List.getElem_mem hi
    have hbat : ∃ bat, batCells rnd R (flagsOf R) i R.steps[i] = .ok bat := by
      unfold batCells
      by_cases hb : (flagsOf R).hasBatteries = true
      · obtain ⟨r, hr⟩ := batteryStored_total W hi
        simp only [hb, if_true, hr, bind, Except.bind]; exact ⟨_, rfl⟩
      · simp only [hb]; exact ⟨_, rfl⟩
    have hflex : ∃ fl, flexCells rnd R (flagsOf R) i R.steps[i] = .ok fl := by
      unfold flexCells
      by_cases hb : (flagsOf R).hasFlex = true
      · obtain ⟨r, hr⟩ := maxFlexEnergy_total W hs
        simp only [hb, if_true, hr, bind, Except.bind]
        cases hf : R.flex with
        | skipped => exact ⟨_, rfl⟩
        | failed => exact ⟨_, rfl⟩
        | band mn base mx ivs =>
          obtain ⟨h1, h2, h3⟩ := W.flex mn base mx ivs hf
          simp only [pyIndex_of_lt mn i (by omega), pyIndex_of_lt base i (by omega),
            pyIndex_of_lt mx i (by omega)]
          exact ⟨_, rfl⟩
      · simp only [hb]; exact ⟨_, rfl⟩
    obtain ⟨bat, hb⟩ := hbat
    obtain ⟨fl, hf⟩ := hflex
    exact ⟨_, by unfold tsRow; rw [hb, hf]; rfl⟩
  obtain ⟨rows, hr⟩ := hrows
  exact ⟨_, by unfold aggregateTimeseries; simp only [hr]; rfl⟩

end field
/-! ### example data for the non-vacuity statements of Properties/C18_Aggregates.lean -/

/-- the two-step example run of Proofs/Report.lean with a flex band (range 4 and 6 kW) and one standing
interval that needs 6 kWh for 2 vehicles -/
def exRunFlex : RunData ℚ := { exRun with flex := .band [-1, -2] [0, 0] [3, 4] [(6, 2)] }

/-- three steps, two vehicles: vehicle 0 stands in steps 0-1 and leaves, vehicle 1 stands in step 1-2 -/
def exRunStand : RunData ℚ :=
  { exRun with
    steps := [{ exStep 0 11 12 3 2 0 (some 0) with socs := [some 0, none], disconnect := [none, none] },
              { exStep 900000000 0 1 1 0 0 none with socs := [some (1/2), some (1/4)], disconnect := [none, none] },
              { exStep 1800000000 0 1 1 0 0 none with socs := [none, some (1/2)], disconnect := [none, none] }],
    vehicles := [("car", 50, true), ("van", 80, false)],
    batteryLevels := [("BAT", [5, 5, 7])] }

/-- `x` raised exactly `e` -/
def errIs {β : Type} (x : Py β) (e : PyErr) : Bool :=
  match x with
  | .ok _ => false
  | .error e' => e' == e

end SpiceEv.ReportAgg
