"""C19 — scenario generators emit well-formed, reproducible, drivable scenarios.

Correspondence (leg C).  The REAL generators are run in-process:
  * statistics — through `generate.generate` (argument namespace → JSON file → parsed back) with
    a generated vehicle-types file; `generate_trip` inside the real module is wrapped so that the
    exact draws are recorded and fed to the Lean model (`c19stat f …`, IEEE doubles, bit equality of
    the whole vehicle/event/station table).  A second, exact stream (`c19stat q …`) replaces
    `generate_trip` by a scripted adversarial source (ties `arrival == departure`, zero durations,
    zero distances, trips longer than a day, zero capacity) on `Q` rationals.
    `random.gauss` is wrapped too: the clipping `min(max(x, lo), hi)` of `generate_trip` is compared
    with the model's `c19clamp`.
  * csv — random trip tables written to a csv file, `generate.generate(mode="csv")`, `c19csv f`.
  * simbev — synthetic SimBEV directories, `generate.generate(mode="simbev")`, `c19simbev f`.
Oracle (leg O), independent of the model, on the implementation's scenario dict: loads with
`spice_ev.scenario.Scenario`; per vehicle the events alternate departure/arrival in chronological
order; announced arrival/departure times agree with the neighbouring events (or the documented
fallback); `soc_delta` in [-1, 0]; desired SoC >= min_soc and >= consumption until the next
connection (x (1 + buffer) for statistics); same seed => identical scenario (paired in-process
run, plus subprocess pairs under different PYTHONHASHSEED).
Exploration only (no theorem): statistics scenario for the shipped vehicle types, simulated with
the real `Scenario.run('greedy')` and ample connector power => `negative_soc_tracker` stays empty.
"""
import contextlib
import copy
import datetime as dt
import io
import json
import os
import random
import shutil
import subprocess
import sys
import tempfile
import warnings
from argparse import Namespace
from fractions import Fraction as F
from pathlib import Path

import engine
from exact import Q
from wire import canon, dec, enc, encf, err

PID = "C19"
CHUNK = 40
RULE = ("statistics: seeds x 1-14 days x intervals {1,5,15,30,60} x fleets of 1-3 generated vehicle types "
        "(0-4 vehicles each, repeated types) x min_soc x buffer x start dates on all weekdays and times of "
        "day incl. 00:00/23:45/off-grid seconds x no-drive-day sets (none, single, weekend, all seven, the "
        "three days after the end) x holidays; recorded real draws (float, bit-exact) + scripted adversarial "
        "draws (exact); csv: random trip tables (1-5 vehicles, 1-12 trips each, soc/delta_soc/distance column, "
        "optional connect_cs with unconnected stops, shuffled rows, ties, overlapping trips); simbev: synthetic "
        "directories (1-2 regions, repeated file names, stations with changing power) in both SoC modes; "
        "malformed streams (unknown type, zero capacity, empty table, broken SimBEV rows) compare error kinds "
        "only; exploration: shipped golf/sprinter fleets simulated with greedy. non-trivial = at least one "
        "back-patched arrival; distinct = distinct case dicts")
ASSUMPTIONS = [
    "csv trip tables use the documented zero-padded format %Y-%m-%d %H:%M:%S (string order = time order)",
    "statistics: strict chronological order is claimed for positive trip durations; the consumption range "
    "is claimed for max_distance * mileage / 100 <= capacity",
    "csv: chronological order and the [0,1] consumption range are claimed for tables whose trips do not "
    "overlap per vehicle and whose consumption between two connections is at most 1",
    "csv: the announced arrival of a departure is the arrival of the departing trip; it is the start of the "
    "next arrival event whenever that trip ends at a charging station (connect_cs = 1)",
    "simbev: soc_delta range is claimed for SimBEV data whose SoC never rises while driving and whose "
    "consumption between two charging stops is at most the capacity; the desired-SoC sentence is not "
    "claimed for simbev (the property restricts it to statistics and csv)",
]
UNPROVED = [
    "statistics + shipped vehicle types + greedy + ample power => never negative SoC: exploration only "
    "(real generator -> real Scenario.run('greedy')), no theorem",
    "same seed => identical scenario rests on CPython's random (trusted); paired real runs only; the model "
    "side is C19_pure (the model is a function of parameters and consumed draws)",
    "no-exception-under-guard is proved for the statistics generator only (C19_statistics_ok); for csv and "
    "simbev the error kinds are compared on the malformed streams",
    "simbev model is coarser: Battery feasibility warnings, price signals and region directory walk are "
    "not modelled; file-name parsing is a harness adapter",
    "price signals (grid_operator_signals) of all three generators are not modelled (paired runs only)",
]
TRUSTED = ["adapters: ISO datetime -> local microseconds, file-name parsing of SimBEV vehicle files, "
           "float()/int() conversion of csv cells, resolution of the default buffer 0.1"]

engine.use_repo()

EPOCH = dt.datetime(1970, 1, 1)
US = dt.timedelta(microseconds=1)
DAY_US = 86400 * 10 ** 6


def us(x):
    """ISO string or datetime -> local microseconds since 1970-01-01T00:00 (tz dropped)"""
    if x is None:
        return None
    if isinstance(x, str):
        x = dt.datetime.fromisoformat(x)
    return (x.replace(tzinfo=None) - EPOCH) // US


# ------------------------------------------------------------------------------------------
# rendering of the implementation's scenario in the driver's format

def _num(x, exact):
    if exact:
        return canon(x if isinstance(x, Q) else Q(x))
    return encf(x)


def r_opt(x, f):
    return "N" if x is None else "S " + f(x)


def r_vehicles(vs, exact):
    out = [str(len(vs))]
    for vid, v in vs.items():
        out.append("%s %s %s %s %s %s" % (
            vid, r_opt(v.get("connected_charging_station"), str),
            r_opt(v.get("estimated_time_of_departure"), lambda s: str(us(s))),
            r_opt(v.get("desired_soc"), lambda x: _num(x, exact)),
            _num(v["soc"], exact), v["vehicle_type"]))
    return " ".join(out)


def r_events(evs, exact):
    out = [str(len(evs))]
    for e in evs:
        u = e["update"]
        if e["event_type"] == "departure":
            out.append("D %d %s %s" % (us(e["start_time"]), e["vehicle_id"],
                                       r_opt(u.get("estimated_time_of_arrival"), lambda s: str(us(s)))))
        else:
            out.append("A %d %s %s %s %s %s" % (
                us(e["start_time"]), e["vehicle_id"], r_opt(u.get("connected_charging_station"), str),
                r_opt(u.get("estimated_time_of_departure"), lambda s: str(us(s))),
                _num(u["desired_soc"], exact), _num(u["soc_delta"], exact)))
    return " ".join(out)


def r_stations(cs, exact):
    return " ".join([str(len(cs))] + ["%s %s" % (k, _num(v["max_power"], exact)) for k, v in cs.items()])


# ------------------------------------------------------------------------------------------
# oracle on a scenario dict (independent of the model)

def per_vehicle(sc):
    d = {}
    for e in sc["events"]["vehicle_events"]:
        d.setdefault(e["vehicle_id"], []).append(e)
    return d


def oracle_common(gen, sc, viol, strict=True, initially_connected=None):
    """alternation, chronological order, signal==start; returns per-vehicle event lists"""
    pv = per_vehicle(sc)
    for vid, evs in pv.items():
        if vid not in sc["components"]["vehicles"]:
            viol.append(("wellformed", "C19:%s_event_for_unknown_vehicle" % gen, vid))
        for e in evs:
            if e["signal_time"] != e["start_time"]:
                viol.append(("wellformed", "C19:%s_signal_time_differs" % gen, json.dumps(e, default=str)))
                break
        kinds = [e["event_type"] for e in evs]
        for a, b in zip(kinds, kinds[1:]):
            if a == b or a not in ("departure", "arrival"):
                viol.append(("alternate", "C19:%s_alternation" % gen, "%s: %s" % (vid, kinds)))
                break
        if initially_connected is not None and kinds:
            want = "departure" if initially_connected(vid) else "arrival"
            if kinds[0] != want:
                viol.append(("alternate", "C19:%s_first_event_kind" % gen, "%s starts with %s" % (vid, kinds[0])))
        ts = [us(e["start_time"]) for e in evs]
        for a, b in zip(ts, ts[1:]):
            if (a >= b) if strict else (a > b):
                viol.append(("alternate", "C19:%s_chronological" % gen, "%s: %s" % (vid, ts)))
                break
    return pv


def oracle_loads(gen, sc, viol, exact=False):
    if exact:
        return
    try:
        from spice_ev.scenario import Scenario
        with warnings.catch_warnings():
            warnings.simplefilter("ignore")
            Scenario(json.loads(json.dumps(sc)))
    except Exception as e:
        viol.append(("loads", "C19:%s_scenario_does_not_load" % gen, "%s: %s" % (type(e).__name__, e)))


# ------------------------------------------------------------------------------------------
# statistics

WEEK0 = dt.date(2023, 1, 2)   # a Monday

TODS = ["00:00:00", "00:15:00", "01:00:00", "06:30:00", "08:00:00", "12:30:30", "17:45:00", "23:45:00",
        "23:59:59"]


def _hm(minutes):
    return "%02d:%02d" % (minutes // 60, minutes % 60)


def gen_type(rnd, name, nd=None):
    cap = rnd.choice([50, 76, 30.5, 100, 18, 250.0])
    mil = rnd.choice([16, 40, 12.5, 22, 8, 0])
    # distance limits: mostly within capacity, sometimes beyond (range clause then not claimed)
    lim = (cap * 100 / mil) if mil else 500
    maxd = round(lim * rnd.choice([0.2, 0.5, 0.9, 1.0, 1.0, 1.4]), 2)
    mind = round(maxd * rnd.choice([0, 0.1, 0.4, 1.0]), 2)
    avgd = round((mind + maxd) / 2 * rnd.choice([0.5, 1, 1.3]), 2)
    smin = rnd.choice([0, 5 * 60, 7 * 60, 12 * 60, 21 * 60])
    smax = min(23 * 60 + 59, smin + rnd.choice([0, 30, 150, 600]))
    savg = min(23 * 60 + 59, max(0, rnd.choice([smin - 60, (smin + smax) // 2, smax + 60])))
    dmin = rnd.choice([0, 0.005, 0.25, 4.28, 4.28, 20.0])
    dmax = dmin + rnd.choice([0, 0.5, 8.1, 8.1, 30.0])
    davg = rnd.choice([dmin, (dmin + dmax) / 2, dmax + 1])
    if nd is None:
        nd = rnd.choice([None, [], [6], [5, 6], [2], [5, 6, 0], [0, 1, 2, 3, 4, 5, 6], [0, 2, 4], [1, 2, 3, 4],
                         sorted(rnd.sample(range(7), rnd.randint(1, 6)))])
    p = rnd.choice([11, 22, 3.7, 50, 150])
    t = {"name": name.upper(), "capacity": cap, "mileage": mil,
         "charging_curve": rnd.choice([[[0, p], [0.8, p], [1, p]], [[0, p], [0.8, p], [1, p / 4]], [[0, p], [1, p]]]),
         "min_charging_power": rnd.choice([0, 0.2]),
         "statistical_values": {
             "distance_in_km": {"avg_distance": avgd, "std_distance": rnd.choice([0, 5.0, 19.89, 80.0]),
                                "min_distance": mind, "max_distance": maxd},
             "departure": {"avg_start": _hm(savg), "std_start_in_hours": rnd.choice([0, 0.42, 2.0, 9]),
                           "min_start": _hm(smin), "max_start": _hm(smax)},
             "duration_in_hours": {"avg_driving": davg, "std_driving": rnd.choice([0, 1.35, 6.0]),
                                   "min_driving": dmin, "max_driving": dmax}}}
    if nd is not None:
        t["no_drive_days"] = nd
    return t


def gen_stat_case(rnd, k):
    n_types = rnd.choice([1, 1, 2, 2, 3])
    names = rnd.sample(["golf", "sprinter", "bus", "bus_long", "van", "e-up"], n_types)
    days = rnd.choice(list(range(1, 15)) + [1, 2, 3, 7])
    day0 = WEEK0 + dt.timedelta(days=rnd.randint(0, 27) + rnd.choice([0, 150, 330]))
    end_wd = (day0 + dt.timedelta(days=days)).weekday()
    types = {}
    for n in names:
        nd = None
        r = rnd.random()
        if r < 0.12:
            # the three days after the end are no-drive days
            nd = sorted({end_wd, (end_wd + 1) % 7, (end_wd + 2) % 7})
        elif r < 0.18:
            nd = sorted({day0.weekday(), end_wd})
        types[n] = gen_type(rnd, n, nd)
    fleet = []
    for n in names:
        fleet.append([rnd.choice([0, 1, 1, 1, 2, 3, 4, "2"]), n])
    if rnd.random() < 0.1:
        fleet.append([rnd.choice([1, 2]), rnd.choice(names)])      # repeated type: last count wins
    tz = rnd.choice(["+02:00", "+00:00", "", "-05:00"])
    start = "%sT%s%s" % (day0.isoformat(), rnd.choice(TODS), tz)
    if rnd.random() < 0.02:
        start = rnd.choice(["yesterday", "2023-13-01T00:00:00"])
    c = {"k": "stat", "id": k, "seed": rnd.choice([0] + [rnd.randint(0, 10 ** 6) for _ in range(7)]), "days": days,
         "interval": rnd.choice([1, 5, 15, 15, 30, 60]),
         "min_soc": rnd.choice([0, 0.2, 0.5, 0.8, 0.8, 1.0, 0.37]), "types": types, "fleet": fleet,
         "start": start, "cs_power_min": rnd.choice([None, None, 0, 1.5])}
    if rnd.random() < 0.7:
        c["buffer"] = rnd.choice([0, 0.1, 0.1, 0.25, 1.0])
    if rnd.random() < 0.25:
        c["holidays"] = [(day0 + dt.timedelta(days=rnd.randint(-1, days + 3))).isoformat()
                         for _ in range(rnd.randint(1, 4))]
    if rnd.random() < 0.03:
        c["fleet"].append([1, "unknown_type"])
        c["bad"] = 1
    return c


def stat_start(s):
    """the two statements that compute `start` (adapter; the scenario's start_time is checked against it)"""
    try:
        st = dt.datetime.fromisoformat(s)
    except ValueError:
        st = dt.datetime.fromisoformat("2023-01-01T01:00:00+02:00")
    return st.replace(tzinfo=None)


def stat_line(T, start_us, days, min_soc, buffer, holidays, types, fleet, draws, exact):
    n = (lambda x: _num(x, exact))
    toks = ["c19stat", T, str(start_us), str(days), n(min_soc), n(buffer), str(len(holidays))]
    toks += [str(h) for h in holidays]
    toks.append(str(len(types)))
    for name, t in types.items():
        nd = t.get("no_drive_days", [])
        pw = [p[1] for p in t["charging_curve"]]
        toks += [name, n(t["capacity"]), n(t["mileage"]), str(len(nd))] + [str(x) for x in nd]
        toks += [str(len(pw))] + [n(x) for x in pw]
    toks.append(str(len(fleet)))
    for cnt, ty in fleet:
        toks += [str(int(cnt)), ty]
    toks.append(str(len(draws)))
    for (tod, dur, dist) in draws:
        toks += [str(tod), str(dur), n(dist)]
    return " ".join(toks)


def tod_us(t):
    return ((t.hour * 60 + t.minute) * 60 + t.second) * 10 ** 6 + t.microsecond


class _RandomProxy:
    """stands in for the `random` module inside the generator module: same functions, gauss recorded"""

    def __init__(self, rec):
        self.rec = rec

    def seed(self, *a, **k):
        return random.seed(*a, **k)

    def gauss(self, mu, sigma):
        x = random.gauss(mu, sigma)
        self.rec.append(x)
        return x

    def __getattr__(self, n):
        return getattr(random, n)


def base_ns(**kw):
    d = dict(interval=15, min_soc=0.8, min_soc_threshold=0.05, battery=[], gc_power=100, cs_power_min=None,
             seed=None, verbose=0, grid_operator=None, voltage_level="MV", export_vehicle_id_csv=None,
             include_fixed_load_csv=None, include_local_generation_csv=None, include_price_csv=None)
    d.update(kw)
    return Namespace(**d)


def run_generate(ns):
    """generate.generate -> parsed JSON (stdout silenced, warnings recorded)"""
    import generate
    buf = io.StringIO()
    with contextlib.redirect_stdout(buf), warnings.catch_warnings(record=True) as w:
        warnings.simplefilter("always")
        generate.generate(ns)
    with open(ns.output) as f:
        return json.load(f), w


def stat_oracle(case, sc, viol, stats, exact=False, buffer=None, min_soc=None, types=None, start=None):
    buffer = case.get("buffer", 0.1) if buffer is None else buffer
    min_soc = case["min_soc"] if min_soc is None else min_soc
    types = case["types"] if types is None else types
    veh = sc["components"]["vehicles"]
    positive = all(t["statistical_values"]["duration_in_hours"]["min_driving"] * 60 >= 1 for t in types.values()) \
        if not exact else case.get("positive", False)
    pv = oracle_common("statistics", sc, viol, strict=positive,
                       initially_connected=lambda v: veh[v]["connected_charging_station"] is not None)
    if start is not None and us(sc["scenario"]["start_time"]) != us(start):
        viol.append(("wellformed", "C19:statistics_start_time", sc["scenario"]["start_time"]))
    one = Q(1) if exact else 1.0
    tol = 0 if exact else 1e-12
    for vid, evs in pv.items():
        vt = types[veh[vid]["vehicle_type"]]
        in_range = exact and case.get("in_range", False) or (not exact and vt["capacity"] > 0 and
                   vt["statistical_values"]["distance_in_km"]["max_distance"] * vt["mileage"] / 100 <= vt["capacity"]
                   and vt["statistical_values"]["distance_in_km"]["min_distance"] >= 0)
        # initial standing period
        if evs and evs[0]["event_type"] == "departure":
            if us(veh[vid]["estimated_time_of_departure"]) != us(evs[0]["start_time"]):
                viol.append(("times_consistent", "C19:statistics_initial_departure_time",
                             "%s: %s vs %s" % (vid, veh[vid]["estimated_time_of_departure"], evs[0]["start_time"])))
        arrivals = [e for e in evs if e["event_type"] == "arrival"]
        stands = [(None, veh[vid].get("desired_soc"))] + [(a, a["update"]["desired_soc"]) for a in arrivals]
        for i, e in enumerate(evs):
            nxt = evs[i + 1] if i + 1 < len(evs) else None
            u = e["update"]
            if e["event_type"] == "departure":
                if nxt is None or us(u["estimated_time_of_arrival"]) != us(nxt["start_time"]):
                    viol.append(("times_consistent", "C19:statistics_announced_arrival",
                                 "%s %s -> %s" % (vid, u, nxt and nxt["start_time"])))
            else:
                sd = u["soc_delta"]
                if in_range and not (-one <= sd <= 0):
                    viol.append(("consumption_range", "C19:statistics_soc_delta_range", "%s %s" % (vid, sd)))
                etd = u["estimated_time_of_departure"]
                if nxt is not None:
                    if us(etd) != us(nxt["start_time"]):
                        viol.append(("times_consistent", "C19:statistics_announced_departure",
                                     "%s %s -> %s" % (vid, u, nxt["start_time"])))
                else:
                    # last arrival: departure unknown (None) or later than the arrival
                    if etd is not None and us(etd) <= us(e["start_time"]):
                        viol.append(("times_consistent", "C19:statistics_last_departure_not_later",
                                     "%s %s" % (vid, u)))
                    if etd is None:
                        stats.append("stat_last_arrival_no_departure")
                    if u["desired_soc"] < min_soc:
                        viol.append(("desired_soc", "C19:statistics_last_arrival_unpatched",
                                     "%s last arrival %s desired_soc=%s < min_soc=%s, departure=%s"
                                     % (vid, e["start_time"], u["desired_soc"], min_soc, etd)))
        # desired SoC of every standing period that is followed by a trip in the scenario
        for (a, des), nxt_arr in zip(stands, arrivals):
            need = (-nxt_arr["update"]["soc_delta"]) * (one + buffer)
            if des is None or des < min_soc or des < need - tol:
                viol.append(("desired_soc", "C19:statistics_desired_soc_insufficient",
                             "%s standing before %s: desired=%s min_soc=%s need=%s"
                             % (vid, nxt_arr["start_time"], des, min_soc, need)))
            else:
                stats.append("stat_backpatched")
    return pv


def eval_stat(case):
    from spice_ev.generate import generate_from_statistics as gs
    tmp = Path(tempfile.mkdtemp(prefix="c19s"))
    viol, stats, lines, impl = [], [], [], []
    try:
        (tmp / "vt.json").write_text(json.dumps(case["types"]))
        kw = dict(mode="statistics", output=str(tmp / "out.json"), vehicles=copy.deepcopy(case["fleet"]),
                  days=case["days"], interval=case["interval"], min_soc=case["min_soc"],
                  start_time=case["start"], vehicle_types=str(tmp / "vt.json"), seed=case["seed"],
                  cs_power_min=case["cs_power_min"], gc_power=case.get("gc_power", 100))
        if "buffer" in case:
            kw["buffer"] = case["buffer"]
        if "holidays" in case:
            kw["holidays"] = case["holidays"]
        draws, gauss = [], []
        orig_trip, orig_random = gs.generate_trip, gs.random

        def trip(info):
            n0 = len(gauss)
            r = orig_trip(info)
            draws.append((r, gauss[n0:], info["statistical_values"]))
            return r
        gs.generate_trip, gs.random = trip, _RandomProxy(gauss)
        try:
            try:
                sc, _ = run_generate(base_ns(**kw))
                out = None
            except Exception as e:
                sc, out = None, err(e)
        finally:
            gs.generate_trip, gs.random = orig_trip, orig_random
        buffer = case.get("buffer", 0.1)
        start = stat_start(case["start"])
        hol = []
        for h in case.get("holidays", []):
            hol.append((dt.date.fromisoformat(h) - dt.date(1970, 1, 1)).days)
        dl = [(tod_us(r[0]), r[1] // US, r[2]) for (r, _, _) in draws]
        lines.append(stat_line("f", us(start), case["days"], case["min_soc"], buffer, hol, case["types"],
                               case["fleet"], dl, False))
        if sc is not None:
            out = "V %s E %s S %s U 0" % (r_vehicles(sc["components"]["vehicles"], False),
                                          r_events(sc["events"]["vehicle_events"], False),
                                          r_stations(sc["components"]["charging_stations"], False))
        impl.append(out)
        # clipping of the first few draws
        for (r, g, sv) in draws[:3]:
            if len(g) == 3:
                d = sv["distance_in_km"]
                lines.append("c19clamp f %s %s %s" % (encf(g[2]), encf(d["min_distance"]), encf(d["max_distance"])))
                impl.append(encf(r[2]))
                h = sv["duration_in_hours"]
                lines.append("c19clamp f %s %s %s" % (encf(g[1]), encf(h["min_driving"]), encf(h["max_driving"])))
                impl.append("dur:%d" % (r[1] // US))
                if not (d["min_distance"] <= r[2] <= d["max_distance"]) and d["min_distance"] <= d["max_distance"]:
                    viol.append(("consumption_range", "C19:generate_trip_distance_outside_limits", str(r[2])))
        nontrivial = False
        if sc is None:
            if not case.get("bad"):
                # inside the quantifier: every parameter set must produce a scenario
                if out == "!KeyError":
                    viol.append(("wellformed", "C19:statistics_vehicle_without_trip_keyerror",
                                 "generate_from_statistics raised KeyError (vehicle without any trip in the scenario)"))
                elif not any(t["capacity"] == 0 for t in case["types"].values()):
                    viol.append(("wellformed", "C19:statistics_generator_raises", out))
            stats.append("stat_error_" + out)
        else:
            stat_oracle(case, sc, viol, stats, start=start)
            oracle_loads("statistics", sc, viol)
            nontrivial = "stat_backpatched" in stats
            # same seed and inputs => identical scenario (second real run, fresh files)
            kw2 = dict(kw, output=str(tmp / "out2.json"), vehicles=copy.deepcopy(case["fleet"]))
            sc2, _ = run_generate(base_ns(**kw2))
            if sc2 != sc:
                viol.append(("pure", "C19:statistics_same_seed_differs", "second run with seed %s differs" % case["seed"]))
            if draws:
                stats.append("stat_draws")
            if len(sc["events"]["vehicle_events"]) < 2 * len(draws):
                stats.append("stat_discarded_or_past_end")
        return {"lines": lines, "impl": impl, "violations": viol, "nontrivial": nontrivial,
                "stats": sorted(set(stats))}
    finally:
        shutil.rmtree(tmp, ignore_errors=True)


# -- scripted, exact ---------------------------------------------------------------------------

def gen_script_case(rnd, k):
    n_types = rnd.choice([1, 2])
    types = {}
    for n in ["a", "b"][:n_types]:
        types[n] = {"capacity": str(rnd.choice([F(50), F(76), F(10), F(61, 2)])),
                    "mileage": str(rnd.choice([F(16), F(40), F(25, 2), F(0)])),
                    "no_drive_days": rnd.choice([[], [], [6], [5, 6], [0, 1, 2, 3, 4, 5, 6], [5, 6, 0],
                                                 sorted(rnd.sample(range(7), rnd.randint(1, 5)))]),
                    "curve": [[0, 11], [1, rnd.choice([11, 22])]]}
    if rnd.random() < 0.04:
        types["a"]["capacity"] = "0"
    day0 = WEEK0 + dt.timedelta(days=rnd.randint(0, 13))
    return {"k": "script", "id": k, "seed": rnd.randint(0, 10 ** 9), "days": rnd.choice([1, 1, 2, 3, 4, 5, 7, 14]),
            "types": types, "fleet": [[rnd.choice([0, 1, 1, 2, 3]), n] for n in types],
            "min_soc": str(rnd.choice([F(0), F(0), F(1, 2), F(4, 5), F(1)])),
            "buffer": str(rnd.choice([F(0), F(1, 10), F(1)])),
            "start": "%sT%s+02:00" % (day0.isoformat(), rnd.choice(["00:00:00", "06:00:00", "12:00:00", "23:59:00"])),
            "holidays": ([(day0 + dt.timedelta(days=rnd.randint(0, 6))).isoformat()] if rnd.random() < 0.2 else []),
            "profile": rnd.choice(["lattice", "lattice", "long", "short"])}


def eval_script(case):
    from spice_ev.generate import generate_from_statistics as gs
    rnd = random.Random(case["seed"])
    types = {}
    for n, t in case["types"].items():
        types[n] = {"name": n, "capacity": Q(t["capacity"]), "mileage": Q(t["mileage"]),
                    "no_drive_days": t["no_drive_days"], "charging_curve": t["curve"], "statistical_values": {}}
    min_soc, buffer = Q(case["min_soc"]), Q(case["buffer"])
    draws = []
    prof = case["profile"]

    def trip(info):
        if prof == "lattice":
            tod = rnd.choice([0, 6 * 60, 12 * 60, 23 * 60 + 59])
            dur = rnd.choice([0, 1, 6 * 60, 18 * 60, 24 * 60, 24 * 60 + 1, 30 * 60, 50 * 60])
        elif prof == "long":
            tod = rnd.choice([6 * 60, 7 * 60])
            dur = rnd.choice([23 * 60, 24 * 60, 25 * 60, 47 * 60, 48 * 60, 72 * 60])
        else:
            tod = rnd.randint(0, 1439)
            dur = rnd.choice([1, 5, 60, 600])
        dist = Q(rnd.choice([F(0), F(0), F(10), F(125, 2), F(100), F(1000)]))
        r = (dt.time(tod // 60, tod % 60), dt.timedelta(minutes=dur), dist)
        draws.append(r)
        return r
    ns = Namespace(seed=1, start_time=case["start"], days=case["days"], interval=15,
                   vehicles=copy.deepcopy(case["fleet"]), predefined_vehicle_types=types, cs_power_min=None,
                   min_soc=min_soc, buffer=buffer, holidays=case["holidays"], verbose=0, gc={}, battery={}, pv={},
                   include_fixed_load_csv=None, include_fixed_load_csv_option=None,
                   include_local_generation_csv=None, include_local_generation_csv_option=None,
                   include_price_csv=None, include_price_csv_option=None)
    orig = gs.generate_trip
    gs.generate_trip = trip
    viol, stats = [], []
    try:
        try:
            sc = gs.generate_from_statistics(ns)
            out = None
        except Exception as e:
            sc, out = None, err(e)
    finally:
        gs.generate_trip = orig
    start = stat_start(case["start"])
    hol = [(dt.date.fromisoformat(h) - dt.date(1970, 1, 1)).days for h in case["holidays"]]
    tw = {n: {"capacity": Q(t["capacity"]), "mileage": Q(t["mileage"]), "no_drive_days": t["no_drive_days"],
              "charging_curve": t["curve"]} for n, t in case["types"].items()}
    line = stat_line("q", us(start), case["days"], min_soc, buffer, hol, tw, case["fleet"],
                     [(tod_us(r[0]), r[1] // US, r[2]) for r in draws], True)
    zero_cap = any(Q(t["capacity"]) == 0 for t in case["types"].values())
    nontrivial = False
    if sc is None:
        if out == "!KeyError":
            viol.append(("wellformed", "C19:statistics_vehicle_without_trip_keyerror",
                         "generate_from_statistics raised KeyError (vehicle without any trip in the scenario)"))
        elif not zero_cap:
            viol.append(("wellformed", "C19:statistics_generator_raises", out))
        stats.append("script_error_" + out)
    else:
        out = "V %s E %s S %s U 0" % (r_vehicles(sc["components"]["vehicles"], True),
                                      r_events(sc["events"]["vehicle_events"], True),
                                      r_stations(sc["components"]["charging_stations"], True))
        oc = dict(case, positive=all(r[1] > dt.timedelta(0) for r in draws),
                  in_range=all(r[2] * types[n]["mileage"] / 100 <= types[n]["capacity"]
                               for r in draws for n in types))
        full_types = {n: dict(t, statistical_values=None) for n, t in types.items()}
        stat_oracle(oc, sc, viol, stats, exact=True, buffer=buffer, min_soc=min_soc, types=full_types, start=start)
        nontrivial = "stat_backpatched" in stats
        if len(sc["events"]["vehicle_events"]) < 2 * len(draws):
            stats.append("script_discarded_or_past_end")
    return {"lines": [line], "impl": [out], "violations": viol, "nontrivial": nontrivial,
            "stats": sorted(set(stats))}


# ------------------------------------------------------------------------------------------
# csv

FMT = "%Y-%m-%d %H:%M:%S"


def gen_csv_case(rnd, k):
    mode = rnd.choice(["soc", "delta_soc", "distance"])
    tnames = rnd.sample(["golf", "sprinter", "AB-OPP", "bus"], rnd.choice([1, 2, 2, 3]))
    types = {}
    for n in tnames:
        p = rnd.choice([11, 22, 150])
        types[n] = {"name": n, "capacity": rnd.choice([50, 76, 300, 30.5]), "mileage": rnd.choice([16, 40, 120.5]),
                    "charging_curve": [[0, p], [0.8, p], [1, rnd.choice([p, p / 2])]]}
    vids = rnd.sample(["v1", "v2", "b", "a", "a10", "a9", "golf_1", "golf_10", "golf_2", "Z", "AB-OPP_1", "x_1"],
                      rnd.randint(1, 5))
    has_connect = rnd.random() < 0.55
    messy = rnd.random() < 0.12          # overlapping trips / time travel
    heavy = rnd.random() < 0.1           # consumption sums above 1
    t0 = dt.datetime(2021, 9, 16) + dt.timedelta(days=rnd.randint(0, 40), minutes=rnd.choice([0, 262, 1439]))
    rows = []
    for vid in vids:
        vt = rnd.choice(tnames)
        t = t0 + dt.timedelta(minutes=rnd.randint(0, 600))
        for _ in range(rnd.randint(1, 12)):
            dur = rnd.choice([1, 30, 240, 600, 1500]) * 60 + rnd.choice([0, 0, 18, 41])
            dep = t
            arr = dep + dt.timedelta(seconds=dur)
            if messy and rnd.random() < 0.3:
                arr = dep - dt.timedelta(minutes=rnd.randint(0, 90))
            if mode == "distance":
                cap, mil = types[vt]["capacity"], types[vt]["mileage"]
                val = round(rnd.choice([0, 0.05, 0.2, 0.45, 0.9 if heavy else 0.3]) * cap * 100 / mil, 3)
            elif mode == "soc":
                val = rnd.choice([1.0, 0.95, 0.7, 0.5, 0.3, 0.05 if heavy else 0.6, round(rnd.random(), 3)])
            else:
                val = rnd.choice([0.0, 0.05, 0.3, 0.5, 0.2, 0.95 if heavy else 0.4, round(rnd.random() * 0.6, 3)])
            row = {"departure_time": dep.strftime(FMT), "arrival_time": arr.strftime(FMT), "vehicle_type": vt,
                   "vehicle_id": vid, "val": val}
            if has_connect:
                row["connect_cs"] = rnd.choice([1, 1, 1, 0])
            rows.append(row)
            gap = rnd.choice([0, 1, 45, 480, 900, 3000])
            t = arr + dt.timedelta(minutes=gap)
            if messy and rnd.random() < 0.3:
                t = dep + dt.timedelta(minutes=rnd.randint(-30, 30))
            if rnd.random() < 0.01:
                t = dep                       # tie in departure: stable sort keeps input order
    rnd.shuffle(rows)
    cols = ["departure_time", "arrival_time", "vehicle_type", mode, "vehicle_id"] + (["connect_cs"] if has_connect else [])
    if rnd.random() < 0.3:
        rnd.shuffle(cols)
    c = {"k": "csv", "id": k, "mode": mode, "types": types, "rows": rows, "cols": cols,
         "days": rnd.choice([1, 2, 3, 7, 14, 30]), "min_soc": rnd.choice([0, 0.2, 0.5, 0.8, 0.8, 1.0]),
         "interval": rnd.choice([1, 15, 60]), "seed": rnd.choice([0] + [rnd.randint(0, 999) for _ in range(7)]),
         "cs_power_min": rnd.choice([None, 0])}
    r = rnd.random()
    if r < 0.03:
        c["rows"][0]["vehicle_type"] = "nonexistent"
        c["bad"] = 1
    elif r < 0.04:
        c["rows"] = []
        c["bad"] = 1
    elif r < 0.06 and mode == "distance":
        types[tnames[0]]["capacity"] = 0
        c["bad"] = 1
    return c


def write_csv_case(case, tmp):
    (tmp / "vt.json").write_text(json.dumps(case["types"]))
    with open(tmp / "trips.csv", "w") as f:
        f.write(",".join(case["cols"]) + "\n")
        for r in case["rows"]:
            f.write(",".join(repr(r["val"]) if c == case["mode"] else str(r[c]) for c in case["cols"]) + "\n")
    return dict(mode="csv", input_file=str(tmp / "trips.csv"), output=str(tmp / "out.json"), days=case["days"],
                interval=case["interval"], min_soc=case["min_soc"], vehicle_types=str(tmp / "vt.json"),
                seed=case["seed"], cs_power_min=case["cs_power_min"])


def csv_line(case):
    toks = ["c19csv", "f", case["mode"], str(case["days"]), encf(case["min_soc"]), str(len(case["types"]))]
    for n, t in case["types"].items():
        pw = [p[1] for p in t["charging_curve"]]
        toks += [n, encf(t["capacity"]), encf(t["mileage"]), str(len(pw))] + [encf(x) for x in pw]
    toks.append(str(len(case["rows"])))
    for r in case["rows"]:
        toks += [str(us(dt.datetime.strptime(r["departure_time"], FMT))),
                 str(us(dt.datetime.strptime(r["arrival_time"], FMT))), r["vehicle_type"], r["vehicle_id"],
                 encf(float(repr(r["val"]))), str(r.get("connect_cs", 1))]
    return " ".join(toks)


def csv_expected(case):
    """independent reading of the trip table: per vehicle, trips by departure (stable), consumption until
    the next connection.  Returns vid -> list of stops {arr, sum, next_dep, next_arr, connect}"""
    by = {}
    for r in case["rows"]:
        by.setdefault(r["vehicle_id"], []).append(r)
    out = {}
    for vid, rs in by.items():
        rs = sorted(rs, key=lambda r: dt.datetime.strptime(r["departure_time"], FMT))
        stops, acc = [], 0
        for i, r in enumerate(rs):
            t = case["types"][rs_type(case, vid)]       # type of the vehicle's first row in file order
            v = float(repr(r["val"]))
            if case["mode"] == "delta_soc":
                d = v
            elif case["mode"] == "soc":
                d = 1 - v
            else:
                d = v * (t["mileage"] / 100) / t["capacity"]
            acc = acc + d
            if r.get("connect_cs", 1) == 1:
                nxt = rs[i + 1] if i + 1 < len(rs) else None
                stops.append({"arr": r["arrival_time"], "sum": acc, "next": nxt})
                acc = 0
        out[vid] = (rs, stops)
    return out


def rs_type(case, vid):
    for r in case["rows"]:
        if r["vehicle_id"] == vid:
            return r["vehicle_type"]


def eval_csv(case):
    tmp = Path(tempfile.mkdtemp(prefix="c19c"))
    viol, stats = [], []
    try:
        kw = write_csv_case(case, tmp)
        try:
            sc, w = run_generate(base_ns(**kw))
            out = None
        except Exception as e:
            sc, w, out = None, [], err(e)
        line = csv_line(case)
        nontrivial = False
        if sc is None:
            if not case.get("bad"):
                viol.append(("wellformed", "C19:csv_generator_raises", out))
            stats.append("csv_error_" + out)
        else:
            msgs = [str(x.message) for x in w]
            w1 = sum(1 for m in msgs if "travelling in time (departing" in m)
            w2 = sum(1 for m in msgs if "travelling in time (arriving" in m)
            w3 = sum(1 for m in msgs if "of its battery capacity" in m)
            out = "T %d %d V %s E %s S %s W %d %d %d" % (
                us(sc["scenario"]["start_time"]), us(sc["scenario"]["stop_time"]),
                r_vehicles(sc["components"]["vehicles"], False), r_events(sc["events"]["vehicle_events"], False),
                r_stations(sc["components"]["charging_stations"], False), w1, w2, w3)
            if not case.get("bad"):
                nontrivial = csv_oracle(case, sc, viol, stats, w1 + w2, w3)
                oracle_loads("csv", sc, viol)
                kw2 = dict(kw, output=str(tmp / "out2.json"))
                sc2, _ = run_generate(base_ns(**kw2))
                if json.dumps(sc2) != json.dumps(sc):
                    viol.append(("pure", "C19:csv_same_seed_differs", "second run differs"))
                ids = list(sc["components"]["vehicles"])
                if ids != sorted(ids):
                    stats.append("csv_vehicle_order_not_sorted")
        return {"lines": [line], "impl": [out], "violations": viol, "nontrivial": nontrivial,
                "stats": sorted(set(stats))}
    finally:
        shutil.rmtree(tmp, ignore_errors=True)


def csv_oracle(case, sc, viol, stats, n_time_warn, n_heavy_warn):
    exp = csv_expected(case)
    min_soc = case["min_soc"]
    veh = sc["components"]["vehicles"]
    # ordered table: per vehicle dep_i <= arr_i <= dep_{i+1}; strict: all of them different
    ordered, strict = True, True
    for vid, (rs, stops) in exp.items():
        ts = []
        for r in rs:
            ts += [r["departure_time"], r["arrival_time"]]
        if any(a > b for a, b in zip(ts, ts[1:])):
            ordered = False
        if any(a >= b for a, b in zip(ts, ts[1:])):
            strict = False
    if ordered and n_time_warn:
        viol.append(("alternate", "C19:csv_spurious_time_warning", "%d warnings on an ordered table" % n_time_warn))
    stats.append("csv_strictly_ordered" if strict else ("csv_ordered_with_ties" if ordered else "csv_unordered_table"))
    if set(veh) != set(exp):
        viol.append(("wellformed", "C19:csv_vehicle_set", "%s vs %s" % (sorted(veh), sorted(exp))))
    stop = us(sc["scenario"]["stop_time"])
    start = us(sc["scenario"]["start_time"])
    if case["rows"]:
        first = min(us(dt.datetime.strptime(r["departure_time"], FMT)) for r in case["rows"])
        if start != first or stop != first + case["days"] * DAY_US:
            viol.append(("wellformed", "C19:csv_start_stop", "%s %s" % (sc["scenario"]["start_time"], sc["scenario"]["stop_time"])))
    if ordered:
        pv = oracle_common("csv", sc, viol, strict=strict, initially_connected=lambda v: False)
    else:
        pv = per_vehicle(sc)
    back = False
    for vid, (rs, stops) in exp.items():
        evs = pv.get(vid, [])
        arrivals = [e for e in evs if e["event_type"] == "arrival"]
        if len(arrivals) != len(stops):
            viol.append(("wellformed", "C19:csv_arrival_count", "%s: %d events for %d connecting trips"
                         % (vid, len(arrivals), len(stops))))
            continue
        heavy = any(s["sum"] > 1 or s["sum"] < 0 for s in stops)
        for i, (a, s) in enumerate(zip(arrivals, stops)):
            u = a["update"]
            if us(a["start_time"]) != us(dt.datetime.strptime(s["arr"], FMT)):
                viol.append(("times_consistent", "C19:csv_arrival_time", "%s %s" % (vid, a["start_time"])))
            if abs(u["soc_delta"] + s["sum"]) > 1e-12:
                viol.append(("consumption_range", "C19:csv_soc_delta_not_accumulated",
                             "%s at %s: soc_delta=%s, trips since last connection sum to %s"
                             % (vid, s["arr"], u["soc_delta"], s["sum"])))
            if not heavy and not (-1 <= u["soc_delta"] <= 0):
                viol.append(("consumption_range", "C19:csv_soc_delta_range", "%s %s" % (vid, u["soc_delta"])))
            if u["connected_charging_station"] is None:
                viol.append(("wellformed", "C19:csv_arrival_without_station", vid))
            nxt_need = stops[i + 1]["sum"] if i + 1 < len(stops) else None
            if u["desired_soc"] < min_soc or (nxt_need is not None and u["desired_soc"] < nxt_need - 1e-12):
                viol.append(("desired_soc", "C19:csv_desired_soc_insufficient",
                             "%s at %s: desired=%s min_soc=%s next consumption=%s"
                             % (vid, s["arr"], u["desired_soc"], min_soc, nxt_need)))
            elif nxt_need is not None:
                back = True
                if nxt_need > min_soc:
                    stats.append("csv_desired_above_min")
            # announced departure
            if s["next"] is not None:
                want = us(dt.datetime.strptime(s["next"]["departure_time"], FMT))
            else:
                want = max(us(dt.datetime.strptime(s["arr"], FMT)) + 8 * 3600 * 10 ** 6, stop)
                stats.append("csv_last_trip_fallback")
            if us(u["estimated_time_of_departure"]) != want:
                viol.append(("times_consistent", "C19:csv_announced_departure",
                             "%s at %s: %s" % (vid, s["arr"], u["estimated_time_of_departure"])))
        # initial SoC covers the way to the first connection
        if stops and (veh[vid]["soc"] < min_soc or veh[vid]["soc"] < stops[0]["sum"] - 1e-12):
            viol.append(("desired_soc", "C19:csv_initial_soc_insufficient", "%s soc=%s need=%s"
                         % (vid, veh[vid]["soc"], stops[0]["sum"])))
        # departures: one after every connecting trip that has a successor; announces the arrival of the
        # departing trip (= the next arrival event iff that trip connects)
        deps = [e for e in evs if e["event_type"] == "departure"]
        want_deps = [s["next"] for s in stops if s["next"] is not None]
        if len(deps) != len(want_deps):
            viol.append(("alternate", "C19:csv_departure_count", "%s: %d vs %d" % (vid, len(deps), len(want_deps))))
        else:
            for d, r in zip(deps, want_deps):
                if (us(d["start_time"]) != us(dt.datetime.strptime(r["departure_time"], FMT)) or
                        us(d["update"]["estimated_time_of_arrival"]) != us(dt.datetime.strptime(r["arrival_time"], FMT))):
                    viol.append(("times_consistent", "C19:csv_announced_arrival", "%s %s" % (vid, d)))
                if r.get("connect_cs", 1) != 1:
                    stats.append("csv_unconnected_stop")
        if ordered:
            for i, e in enumerate(evs[:-1]):
                n = evs[i + 1]
                if e["event_type"] == "departure" and n["event_type"] == "arrival":
                    if us(e["update"]["estimated_time_of_arrival"]) > us(n["start_time"]):
                        viol.append(("times_consistent", "C19:csv_announced_arrival_after_next_arrival",
                                     "%s %s" % (vid, e)))
    return back


# ------------------------------------------------------------------------------------------
# simbev

LOCS = ["home", "work", "shopping", "leisure", "hub"]
HEAD = ",timestamp,event_start,event_time,location,use_case,soc_start,soc_end,energy," \
       "station_charging_capacity,average_charging_power"


def gen_simbev_case(rnd, k):
    tech = {"bev_mini": {"max_charging_capacity_slow": 11.0, "max_charging_capacity_fast": 50,
                         "battery_capacity": 60, "energy_consumption": 0.1397},
            "bev_medium": {"max_charging_capacity_slow": 22.0, "max_charging_capacity_fast": 50,
                           "battery_capacity": 90, "energy_consumption": 0.1746},
            "phev_mini": {"max_charging_capacity_slow": 3.7, "max_charging_capacity_fast": 0,
                          "battery_capacity": 14, "energy_consumption": 0.1425}}
    bad = None
    r = rnd.random()
    if r < 0.12:
        bad = rnd.choice(["neg_soc", "charge_no_station", "consume_charging", "order", "unknown_type", "empty"])
    regions = {}
    used = {}
    # up to four region directories; in a fifth of the cases one file name recurs in EVERY region (a name that is not unique
    # is renamed <name>_2, <name>_3, …: the third and fourth occurrence need the count of names already given away)
    n_reg = rnd.choice([1, 2, 2, 3, 4])
    recurring = None
    if n_reg >= 3 and rnd.random() < 0.6:
        ty0 = rnd.choice(list(tech))
        recurring = (ty0, "%s_%05d_%dkWh" % (ty0, 0, tech[ty0]["battery_capacity"]))
    for reg in ["region_1", "region_2", "region_3", "region_4"][:n_reg]:
        files = {}
        for fi in range(rnd.randint(0 if reg == "region_2" else 1, 3)):
            ty = rnd.choice(list(tech))
            cap = tech[ty]["battery_capacity"]
            fcap = cap if rnd.random() < 0.8 else cap + 10
            num = rnd.choice([0, 0, 1, 2])
            stem = "%s_%05d_%dkWh" % (ty, num, fcap)
            if recurring and fi == 0:
                ty, stem = recurring
                cap = tech[ty]["battery_capacity"]
            if stem in files:
                continue
            used[ty] = used.get(ty, 0) + 1
            soc = rnd.choice([0.449, 0.9, 1.0, 0.6])
            rows, ts = [], 0
            station_power = {}
            for _ in range(rnd.randint(1, 14)):
                # standing
                loc = rnd.choice(LOCS)
                n = rnd.choice([1, 2, 8, 30, 90])
                p = rnd.choice([0.0, 0.0, 3.7, 11.0, 22.0, 50.0])
                if loc in station_power and rnd.random() < 0.7:
                    p = station_power[loc]
                station_power[loc] = p
                s0 = soc
                if p > 0 and rnd.random() < 0.8:
                    s1 = round(min(1.0, soc + rnd.choice([0.05, 0.2, 0.5, 1.0]) * min(1.0, p * n * 0.25 / cap)), 4)
                else:
                    s1 = soc
                en = round((s1 - s0) * cap, 3)
                if en <= 0:
                    s1, en = s0, 0.0
                rows.append([ts, n, loc, s0, s1, en, p])
                soc = s1
                ts += n
                # driving
                n = rnd.choice([1, 2, 4])
                use = round(min(soc, rnd.choice([0.01, 0.05, 0.2, 0.4])), 4)
                s1 = round(soc - use, 4)
                rows.append([ts, n, "driving", soc, s1, -round((soc - s1) * cap, 3), 0.0])
                soc = s1
                ts += n
            files[stem] = rows
        regions[reg] = files
    c = {"k": "simbev", "id": k, "tech": tech, "regions": regions, "car_sum": {t: used.get(t, 0) for t in tech},
         "start_date": (dt.date(2021, 9, 17) + dt.timedelta(days=rnd.randint(0, 20))).isoformat(),
         "interval": rnd.choice([15, 15, 5, 60]), "ignore": rnd.random() < 0.5,
         "min_soc": rnd.choice([0, 0.2, 0.5, 0.8]), "verbose": rnd.choice([0, 0, 1]),
         "region": rnd.choice([None, None, "region_1"]), "seed": rnd.choice([None, 1, 7, -3, 0])}
    allrows = [(reg, st, i) for reg, fs in regions.items() for st, rs in fs.items() for i in range(len(rs))]
    if bad and allrows:
        reg, st, i = rnd.choice(allrows)
        row = regions[reg][st][i]
        if bad == "neg_soc":
            row[4] = -0.01
        elif bad == "charge_no_station":
            row[5], row[6] = 1.5, 0.0
        elif bad == "consume_charging":
            row[5], row[6] = -1.5, 11.0
        elif bad == "order":
            row[0] = max(0, row[0] - 40)
        elif bad == "unknown_type":
            c["car_sum"][st.split("_")[0] + "_" + st.split("_")[1]] = 0
        elif bad == "empty":
            c["regions"] = {"region_1": {}}
            c["car_sum"] = {t: 0 for t in tech}
        c["bad"] = bad
    return c


def write_simbev_case(case, tmp):
    d = tmp / "simbev"
    d.mkdir()
    meta = {"config": {"basic": {"start_date": case["start_date"], "stepsize": str(case["interval"])}},
            "tech_data": case["tech"], "car_sum": case["car_sum"]}
    (d / "metadata_simbev_run.json").write_text(json.dumps(meta))
    for reg, files in case["regions"].items():
        (d / reg).mkdir(exist_ok=True)
        for stem, rows in files.items():
            with open(d / reg / (stem + "_events.csv"), "w") as f:
                f.write(HEAD + "\n")
                for i, r in enumerate(rows):
                    f.write("%d,x,%d,%d,%s,%s,%r,%r,%r,%r,0.0\n" % (i, r[0], r[1], r[2], r[2], r[3], r[4], r[5], r[6]))
    return dict(mode="simbev", simbev=str(d), output=str(tmp / "out.json"), region=case["region"],
                vehicle_types=None, ignore_simbev_soc=case["ignore"], interval=case["interval"],
                min_soc=case["min_soc"], verbose=case["verbose"], seed=case["seed"])


def simbev_files(case):
    """files in the order of `sorted(simbev_path.rglob('*_events.csv'))` (adapter)"""
    out = []
    for reg in sorted(case["regions"]):
        if case["region"] and reg != case["region"]:
            continue
        for stem in sorted(case["regions"][reg]):
            out.append((reg, stem, case["regions"][reg][stem]))
    out.sort(key=lambda x: (x[0], x[1] + "_events.csv"))
    return out


def simbev_line(case):
    start = us(dt.datetime.strptime(case["start_date"], "%Y-%m-%d"))
    types = [(t, d["battery_capacity"]) for t, d in case["tech"].items() if case["car_sum"].get(t, 0) > 0]
    toks = ["c19simbev", "f", str(start), str(case["interval"] * 60 * 10 ** 6), "1" if case["ignore"] else "0",
            encf(case["min_soc"]), "1" if case["verbose"] > 0 else "0", encf(1e-5), str(len(types))]
    for t, c in types:
        toks += [t, encf(c)]
    files = simbev_files(case)
    toks.append(str(len(files)))
    for reg, stem, rows in files:
        parts = stem.split("_")
        toks += [stem, "_".join(parts[:2]), encf(int(parts[-1][:-3])), str(len(rows))]
        for r in rows:
            toks += [str(r[0]), str(r[1]), r[2], encf(r[3]), encf(r[4]), encf(r[5]), encf(r[6])]
    return " ".join(toks)


def eval_simbev(case):
    tmp = Path(tempfile.mkdtemp(prefix="c19b"))
    viol, stats = [], []
    try:
        kw = write_simbev_case(case, tmp)
        try:
            sc, w = run_generate(base_ns(**kw))
            out = None
        except Exception as e:
            sc, out = None, err(e)
        line = simbev_line(case)
        nontrivial = False
        if sc is None:
            if not case.get("bad") and not (case["ignore"] and out == "!AssertionError"):
                viol.append(("wellformed", "C19:simbev_generator_raises", out))
            stats.append("simbev_error_" + out)
        else:
            caps = " ".join([str(len(sc["components"]["vehicle_types"]))] +
                            ["%s %s" % (k, encf(v["capacity"])) for k, v in sc["components"]["vehicle_types"].items()])
            out = "N %d V %s E %s S %s C %s" % (
                sc["scenario"]["n_intervals"], r_vehicles(sc["components"]["vehicles"], False),
                r_events(sc["events"]["vehicle_events"], False),
                r_stations(sc["components"]["charging_stations"], False), caps)
            if not case.get("bad"):
                pv = oracle_common("simbev", sc, viol, strict=True, initially_connected=lambda v: False)
                for vid, evs in pv.items():
                    for i, e in enumerate(evs):
                        nxt = evs[i + 1] if i + 1 < len(evs) else None
                        u = e["update"]
                        if e["event_type"] == "arrival":
                            if nxt is None or us(u["estimated_time_of_departure"]) != us(nxt["start_time"]):
                                viol.append(("times_consistent", "C19:simbev_announced_departure", "%s %s" % (vid, u)))
                            if not (-1 - 1e-9 <= u["soc_delta"] <= 1e-9):
                                viol.append(("consumption_range", "C19:simbev_soc_delta_range", "%s %s" % (vid, u)))
                            if u["connected_charging_station"] not in sc["components"]["charging_stations"]:
                                viol.append(("wellformed", "C19:simbev_unknown_station", "%s %s" % (vid, u)))
                            nontrivial = nontrivial or nxt is not None
                        else:
                            eta = u["estimated_time_of_arrival"]
                            if nxt is None:
                                if eta is not None:
                                    viol.append(("times_consistent", "C19:simbev_last_departure_eta", "%s %s" % (vid, u)))
                            elif us(eta) != us(nxt["start_time"]):
                                viol.append(("times_consistent", "C19:simbev_announced_arrival", "%s %s" % (vid, u)))
                oracle_loads("simbev", sc, viol)
                if case["seed"] is not None:
                    kw2 = dict(kw, output=str(tmp / "out2.json"))
                    sc2, _ = run_generate(base_ns(**kw2))
                    if json.dumps(sc2) != json.dumps(sc):
                        viol.append(("pure", "C19:simbev_same_seed_differs", "second run differs"))
                # a vehicle's events depend on its own file only: generate again from the LAST file alone
                files = simbev_files(case)
                if len(files) >= 2 and len(set(f[1] for f in files)) == len(files):
                    reg, stem, rows = files[-1]
                    one = copy.deepcopy(case)
                    one["regions"] = {reg: {stem: rows}}
                    tmp1 = Path(tempfile.mkdtemp(prefix="c19c"))
                    try:
                        try:
                            sc1, _ = run_generate(base_ns(**write_simbev_case(one, tmp1)))
                        except Exception:
                            sc1 = None
                    finally:
                        shutil.rmtree(tmp1, ignore_errors=True)
                    if sc1 is not None:
                        for vid in sc1["components"]["vehicles"]:
                            mine = [e for e in sc1["events"]["vehicle_events"] if e["vehicle_id"] == vid]
                            full_ = [e for e in sc["events"]["vehicle_events"] if e["vehicle_id"] == vid]
                            if vid in sc["components"]["vehicles"] and json.dumps(mine, sort_keys=True) != json.dumps(
                                    full_, sort_keys=True):
                                viol.append(("pure", "C19:simbev_vehicle_depends_on_other_files",
                                             "%s: %d events from its own file alone, %d (different) in the whole directory"
                                             % (vid, len(mine), len(full_))))
                        stats.append("simbev_single_file_compared")
                if any("_" in k[len(v["vehicle_type"]):].replace("kWh", "")[7:] for k, v in
                       sc["components"]["vehicles"].items()):
                    stats.append("simbev_renamed_vehicle")
                stats.append("simbev_ignore_soc" if case["ignore"] else "simbev_use_soc")
        return {"lines": [line], "impl": [out], "violations": viol, "nontrivial": nontrivial,
                "stats": sorted(set(stats))}
    finally:
        shutil.rmtree(tmp, ignore_errors=True)


# ------------------------------------------------------------------------------------------
# reproducibility across interpreter runs (hash randomisation) and greedy exploration

def emit(case):
    """build the scenario of a case and return its JSON text (used by the subprocess pairs)"""
    tmp = Path(tempfile.mkdtemp(prefix="c19e"))
    try:
        k = case["k"]
        if k == "csv":
            kw = write_csv_case(case, tmp)
        elif k == "simbev":
            kw = write_simbev_case(case, tmp)
        else:
            (tmp / "vt.json").write_text(json.dumps(case["types"]))
            kw = dict(mode="statistics", output=str(tmp / "out.json"), vehicles=copy.deepcopy(case["fleet"]),
                      days=case["days"], interval=case["interval"], min_soc=case["min_soc"],
                      start_time=case["start"], vehicle_types=str(tmp / "vt.json"), seed=case["seed"],
                      cs_power_min=case["cs_power_min"])
        run_generate(base_ns(**kw))
        return Path(kw["output"]).read_text()
    finally:
        shutil.rmtree(tmp, ignore_errors=True)


def eval_hashpair(case):
    inner = case["case"]
    outs = []
    for hs in ("1", "2", "3"):
        env = dict(os.environ, PYTHONHASHSEED=hs, VERIF_REPO=str(engine.REPO))
        p = subprocess.run([sys.executable, os.path.abspath(__file__), "--emit"], input=json.dumps(inner),
                           capture_output=True, text=True, env=env, cwd=os.path.dirname(os.path.abspath(__file__)))
        if p.returncode != 0:
            raise RuntimeError("emit failed: " + p.stderr[-800:])
        outs.append(p.stdout)
    viol = []
    if len(set(outs)) != 1:
        a, b = outs[0], next(o for o in outs if o != outs[0])
        va, vb = list(json.loads(a)["components"]["vehicles"]), list(json.loads(b)["components"]["vehicles"])
        viol.append(("pure", "C19:%s_output_depends_on_hash_seed" % inner["k"],
                     "same inputs and seed, PYTHONHASHSEED 1/2/3: vehicle order %s vs %s" % (va, vb)))
    return {"lines": [], "impl": [], "violations": viol, "nontrivial": True, "stats": ["hashpair_" + inner["k"]]}


def eval_greedy(case):
    """exploration: real generator -> real Scenario.run('greedy'), ample connector power"""
    from spice_ev.scenario import Scenario
    tmp = Path(tempfile.mkdtemp(prefix="c19g"))
    viol, stats = [], []
    try:
        kw = dict(mode="statistics", output=str(tmp / "out.json"), vehicles=copy.deepcopy(case["fleet"]),
                  days=case["days"], interval=case["interval"], min_soc=case["min_soc"], start_time=case["start"],
                  vehicle_types=str(engine.REPO / "examples" / "data" / "vehicle_types.json"), seed=case["seed"],
                  gc_power=100000)
        if "buffer" in case:
            kw["buffer"] = case["buffer"]
        try:
            sc, _ = run_generate(base_ns(**kw))
        except KeyError:
            viol.append(("wellformed", "C19:statistics_vehicle_without_trip_keyerror",
                         "generate_from_statistics raised KeyError (vehicle without any trip in the scenario)"))
            return {"lines": [], "impl": [], "violations": viol, "nontrivial": False, "stats": ["greedy_generator_error"]}
        buf = io.StringIO()
        with contextlib.redirect_stdout(buf), contextlib.redirect_stderr(buf), warnings.catch_warnings():
            warnings.simplefilter("ignore")
            s = Scenario(sc)
            s.run("greedy", {"testing": True})
        neg = getattr(s, "negative_soc_tracker", None) or {}
        if s.step_i != s.n_intervals and not neg:
            viol.append(("greedy_drivable", "C19:statistics_greedy_aborted", "stopped at step %d of %d"
                         % (s.step_i, s.n_intervals)))
        pv = per_vehicle(sc)
        buffer = case.get("buffer", 0.1)
        for vid, times in sorted(neg.items()):
            # which trip was it?  (the tracker records the step in which the arrival was processed)
            t_neg = us(times[0])
            arrivals = [e for e in pv.get(vid, []) if e["event_type"] == "arrival"]
            done = [a for a in arrivals if us(a["start_time"]) <= t_neg]
            need = -done[-1]["update"]["soc_delta"] if done else None
            if need is not None and case["min_soc"] < need * (1 + buffer):
                # min_soc is below what this trip needs: the vehicle relies on reaching a desired SoC that
                # was computed from the trip itself (no reserve) / on charging up from min_soc in time
                key = "C19:statistics_greedy_negative_soc_low_min_soc"
                stats.append("greedy_low_min_soc_shortfall_%s" % ("first_trip" if len(done) == 1 else "later_trip"))
            else:
                key = "C19:statistics_greedy_negative_soc"
            viol.append(("greedy_drivable", key, "negative SoC: %s at %s (trip %d of the vehicle); min_soc=%s buffer=%s "
                         "start=%s, the trip consumes %s" % (vid, times[0], len(done), case["min_soc"], buffer,
                                                             case["start"], need)))
            break
        stats.append("greedy_run")
        return {"lines": [], "impl": [], "violations": viol, "nontrivial": True, "stats": stats}
    finally:
        shutil.rmtree(tmp, ignore_errors=True)


def gen_greedy_case(rnd, k, wide):
    day0 = WEEK0 + dt.timedelta(days=rnd.randint(0, 27))
    c = {"k": "greedy", "id": k, "seed": rnd.randint(0, 10 ** 6), "days": rnd.choice([1, 2, 3, 5, 7, 10, 14]),
         "interval": rnd.choice([15, 15, 30, 60, 5]),
         "fleet": rnd.choice([[[1, "golf"], [1, "sprinter"]], [[3, "golf"]], [[2, "sprinter"]],
                              [[5, "golf"], [5, "sprinter"]], [[1, "golf"]]]),
         "min_soc": rnd.choice([0.8, 0.8, 0.5, 1.0] + ([0.2, 0.05] if wide else [])),
         "start": "%sT%s+02:00" % (day0.isoformat(),
                                   rnd.choice(["00:00:00", "01:00:00", "00:15:00"] +
                                              (["06:30:00", "12:00:00", "23:45:00"] if wide else [])))}
    if rnd.random() < 0.5:
        c["buffer"] = rnd.choice([0, 0.1, 0.25])
    return c


# ------------------------------------------------------------------------------------------

SHIPPED_GOLF = {
    "name": "E-Golf", "capacity": 50, "mileage": 16, "charging_curve": [[0, 22], [0.8, 22], [1, 22]],
    "min_charging_power": 0.2,
    "statistical_values": {
        "distance_in_km": {"avg_distance": 47.13, "std_distance": 19.89, "min_distance": 27.23, "max_distance": 67.02},
        "departure": {"avg_start": "08:15", "std_start_in_hours": 0.42, "min_start": "07:00", "max_start": "09:30"},
        "duration_in_hours": {"avg_driving": 8.33, "std_driving": 1.35, "min_driving": 4.28, "max_driving": 12.38}}}


def gen_cases(tier, seed):
    rnd = random.Random(seed * 7919 + 19)
    quick = tier == "quick"
    # deterministic boundary cases first (small ones first: they become the replay)
    k = 0
    for nd, start, days in [([0, 1, 2, 3, 4, 5, 6], "2023-01-02T00:15:00+02:00", 2),      # F5: never drives
                            ([6], "2023-01-01T00:15:00+02:00", 1),                         # F5: only day is a no-drive day
                            ([5, 6, 0], "2023-01-04T00:15:00+02:00", 3),                   # F6: ends on a Saturday
                            ([5, 6], "2023-01-02T01:00:00+02:00", 7)]:
        t = dict(copy.deepcopy(SHIPPED_GOLF), no_drive_days=nd)
        yield {"k": "stat", "id": "b%d" % k, "seed": 1, "days": days, "interval": 15, "min_soc": 0.8,
               "types": {"golf": t}, "fleet": [[1, "golf"]], "start": start, "cs_power_min": None}
        k += 1
    # exploration boundary: min_soc below the first trip's consumption and a start too late to charge the
    # difference (known finding G2)
    yield {"k": "greedy", "id": "g0", "seed": 207874, "days": 2, "interval": 15,
           "fleet": [[1, "golf"], [1, "sprinter"]], "min_soc": 0.05, "start": "2023-01-05T06:30:00+02:00"}
    n_stat, n_script, n_csv, n_simbev, n_hash, n_greedy = \
        (2500, 1500, 2000, 1200, 8, 80) if quick else (30000, 20000, 25000, 15000, 60, 1500)
    streams = []
    streams.append((gen_stat_case(rnd, i) for i in range(n_stat)))
    streams.append((gen_script_case(rnd, i) for i in range(n_script)))
    streams.append((gen_csv_case(rnd, i) for i in range(n_csv)))
    streams.append((gen_simbev_case(rnd, i) for i in range(n_simbev)))
    rh = random.Random(seed * 31 + 5)

    def hashpairs():
        for i in range(n_hash):
            kind = ["csv", "csv", "stat", "simbev"][i % 4]
            while True:
                c = {"csv": gen_csv_case, "stat": gen_stat_case, "simbev": gen_simbev_case}[kind](rh, i)
                if not c.get("bad") and not (kind == "csv" and len({r["vehicle_id"] for r in c["rows"]}) < 4):
                    break
            c["seed"] = 1 + i
            if kind == "stat":
                for t in c["types"].values():
                    t["no_drive_days"] = [6]
                    t["capacity"] = t["capacity"] or 50
            yield {"k": "hashpair", "id": i, "case": c}
    rg = random.Random(seed * 131 + 7)
    streams.append(hashpairs())
    streams.append((gen_greedy_case(rg, i, wide=(i % 3 == 2)) for i in range(n_greedy)))
    # interleave so that every stream is reached early and the long greedy runs are spread out
    its = [iter(s) for s in streams]
    weights = [n_stat, n_script, n_csv, n_simbev, n_hash, n_greedy]
    total = sum(weights)
    acc = [0.0] * len(its)
    alive = [True] * len(its)
    while any(alive):
        for i, it in enumerate(its):
            if not alive[i]:
                continue
            acc[i] += weights[i] / total * len(its)
            while acc[i] >= 1 and alive[i]:
                acc[i] -= 1
                try:
                    yield next(it)
                except StopIteration:
                    alive[i] = False


def eval_case(case):
    k = case["k"]
    if k == "stat":
        return eval_stat(case)
    if k == "script":
        return eval_script(case)
    if k == "csv":
        return eval_csv(case)
    if k == "simbev":
        return eval_simbev(case)
    if k == "hashpair":
        return eval_hashpair(case)
    if k == "greedy":
        return eval_greedy(case)
    raise ValueError(k)


def compare(case, impl, model):
    if impl == model:
        return None
    if impl is not None and impl.startswith("dur:"):
        # the model clips the Gaussian draw (hours); the code then floors it to whole minutes
        h = dec(model)
        d = dt.timedelta(hours=h)
        d = dt.timedelta(minutes=d // dt.timedelta(minutes=1))
        return None if d // US == int(impl[4:]) else "duration after clipping differs"
    return "differs"


if __name__ == "__main__":
    if len(sys.argv) > 1 and sys.argv[1] == "--emit":
        sys.stdout.write(emit(json.loads(sys.stdin.read())))
