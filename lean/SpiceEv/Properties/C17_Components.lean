/-
C17 — fails loudly, constructor part: component construction (`components.py` constructors and
`util.set_attr_from_dict`, model: Model/ScenarioCtor.lean section (d), tied to the real
`components.Components` by the exact stream `components` of harness/s_ctor.py inside `./check C17`).
A malformed component description never yields a half-built object: required keys, the
constructors' assertions and the battery's non-zero capacity hold for every object that was built.
-/
import SpiceEv.Proofs.ScenarioCtor

namespace SpiceEv
open SpiceEv.ScenarioCtor

/-- **Required keys.** A component object is only constructed from a JSON object that carries the
class's required keys (otherwise `KeyError`; for a value that is not an object `TypeError`). -/
theorem C17_components_required_keys (obj : J) (o : Attrs) :
    (gridConnector obj = .ok o → ∃ kvs, obj = .obj kvs ∧ kvs.lookup "max_power" ≠ none) ∧
    (chargingStation obj = .ok o →
      ∃ kvs, obj = .obj kvs ∧ kvs.lookup "max_power" ≠ none ∧ kvs.lookup "parent" ≠ none) ∧
    (photovoltaics obj = .ok o →
      ∃ kvs, obj = .obj kvs ∧ kvs.lookup "nominal_power" ≠ none ∧ kvs.lookup "parent" ≠ none) ∧
    (vehicleType obj = .ok o →
      ∃ kvs, obj = .obj kvs ∧ kvs.lookup "name" ≠ none ∧ kvs.lookup "capacity" ≠ none ∧
        kvs.lookup "charging_curve" ≠ none) ∧
    (∀ types, vehicle types obj = .ok o → ∃ kvs, obj = .obj kvs ∧ kvs.lookup "vehicle_type" ≠ none) ∧
    (stationaryBattery obj = .ok o →
      ∃ kvs, obj = .obj kvs ∧ kvs.lookup "charging_curve" ≠ none ∧ kvs.lookup "parent" ≠ none) :=
  ⟨fun h => (gridConnector_ok obj o h).1, chargingStation_ok obj o, photovoltaics_ok obj o,
   fun h => (vehicleType_ok obj o h).1, fun types h => (vehicle_ok types obj o h).1,
   fun h => (stationaryBattery_ok obj o h).1⟩

/-- a grid connector starts with `cur_max_power = max_power` and without an average load table -/
theorem C17_components_grid_connector_derived (obj : J) (o : Attrs) (h : gridConnector obj = .ok o) :
    getAttr o "cur_max_power" = getAttr o "max_power" ∧ getAttr o "avg_fixed_load" = .none :=
  (gridConnector_ok obj o h).2

/-- a constructed vehicle type has a charging curve and `min_charging_power ≤` its maximum power
(the constructor's assertion) -/
theorem C17_components_vehicle_type_assert (obj : J) (o : Attrs) (h : vehicleType obj = .ok o) :
    ∃ cc, getAttr o "charging_curve" = .curve cc ∧
      valNum (getAttr o "min_charging_power") ≤ cc.maxPower :=
  (vehicleType_ok obj o h).2

/-- a constructed stationary battery has a non-zero capacity (`2**64` for a negative / missing one;
zero raises ZeroDivisionError in `Battery.__init__`) -/
theorem C17_components_battery_capacity (obj : J) (o : Attrs) (h : stationaryBattery obj = .ok o) :
    valNum (getAttr o "capacity") ≠ 0 :=
  (stationaryBattery_ok obj o h).2

/-- a constructed vehicle no longer has the attribute `soc` (`del self.soc`: the SoC lives in the battery) -/
theorem C17_components_vehicle_no_soc (types : List (String × Attrs)) (obj : J) (o : Attrs)
    (h : vehicle types obj = .ok o) : o.lookup "soc" = none :=
  (vehicle_ok types obj o h).2

/-! non-vacuity -/
example :
    (gridConnector (.obj [("max_power", .int 5)])).toOption.isSome = true ∧
    (match gridConnector (.obj []) with | .error .key => true | _ => false) = true ∧
    (match gridConnector (.arr []) with | .error .type => true | _ => false) = true := by
  decide +kernel

example :
    let vt : J := .obj [("name", .str "t"), ("capacity", .int 50),
      ("charging_curve", .arr [.arr [.int 0, .int 11], .arr [.int 1, .int 11]]),
      ("discharge_curve", .arr [.arr [.int 1, .int 5], .arr [.int 0, .int 5]])]
    (vehicleType vt).toOption.isSome = true ∧
    (match componentsInit (.obj [("vehicle_types", .obj [("t", vt)]),
        ("vehicles", .obj [("v", .obj [("vehicle_type", .str "t"), ("soc", .flt (1/2))])])]) with
      | .ok c => (c.vehicles.map (fun kv => kv.2.map (·.1))) == [["vehicle_type", "connected_charging_station",
          "estimated_time_of_arrival", "estimated_time_of_departure", "desired_soc", "schedule", "battery"]]
      | .error _ => false) = true ∧
    (match componentsInit (.obj [("vehicles", .obj [("v", .obj [("vehicle_type", .str "t")])])]) with
      | .error .attribute => true | _ => false) = true := by
  decide +kernel

example :
    let cv : J := .arr [.arr [.int 0, .int 11], .arr [.int 1, .int 11]]
    (stationaryBattery (.obj [("charging_curve", cv), ("parent", .str "g")])).toOption.isSome = true ∧
    (match stationaryBattery (.obj [("charging_curve", cv), ("parent", .str "g"), ("capacity", .int 0)]) with
      | .error .zeroDivision => true | _ => false) = true ∧
    (match stationaryBattery (.obj [("charging_curve", cv), ("parent", .str "g"),
        ("min_charging_power", .int 12)]) with | .error .assertion => true | _ => false) = true := by
  decide +kernel

end SpiceEv
