/-
Run-level (multi-step) model of the two rule-based strategies over a standing period:
the existing step model `ruleStep` (Model/Strategies.lean: `Greedy.step` / `Balanced.step`) iterated
over a list of per-step connector attributes.

Between two strategy steps of a standing period (no arrival / departure takes effect) the real
code does the following and nothing else to the state the strategies read
(`Scenario.run` → `Strategy.step(event_list)` → `Greedy.step()` → `apply_battery_losses()`):

* `self.current_time += self.interval`                                   → `tick`
* events (fixed load, generation, grid-operator signals) overwrite `cur_max_power`, `cost` and
  the non-station entries of `current_loads`; then every `current_loads` entry whose name is a
  charging station or a stationary battery is deleted.  The result — the connectors exactly as
  the concrete `step()` finds them — is DATA here (`StepGcs`: one `GcS` per connector, insertion
  order), i.e. events are already applied                                 → `enter`
* vehicles, stations (`current_power` is stale and reset by the step itself) and stationary
  batteries are carried over unchanged (loss-free batteries: `apply_battery_losses` skips a battery
  whose `loss_rate` is falsy)

No Mathlib import (the driver links this file).
-/
import SpiceEv.Model.Strategies
namespace SpiceEv.StratRun
open SpiceEv

/-- the connectors as the concrete step finds them in one step (events applied, station / battery
loads deleted): `id`, `cur_max_power`, `cost`, `current_loads` -/
abbrev StepGcs (α : Type) := List (GcS α)

section
variable {α B : Type}

/-- the world the concrete step sees: everything carried over, connectors of this step -/
def enter (w : SWorld α B) (gcs : StepGcs α) : SWorld α B := { w with gcs := gcs }

/-- `self.current_time += self.interval` -/
def tick (env : StratEnv α) : StratEnv α := { env with now := env.now + env.interval }

variable [Add α] [Sub α] [Mul α] [Div α] [Neg α] [LT α] [LE α]
  [DecidableLT α] [DecidableLE α] [OfNat α 0] [OfNat α 1] [NatCast α] [IntCast α]

/-- the iterated step: worlds after step 1, 2, … of the standing period (an exception of any step
is the exception of the run) -/
def runSteps (rule : Rule) (ops : BatOps α B) :
    StratEnv α → SWorld α B → List (StepGcs α) → Py (List (SWorld α B))
  | _, _, [] => .ok []
  | env, w, d :: ds => do
    let (w', _) ← ruleStep rule ops env (enter w d)
    let rest ← runSteps rule ops (tick env) w' ds
    .ok (w' :: rest)

/-- the world after the last step (the world itself for an empty period) -/
def runLast (rule : Rule) (ops : BatOps α B) :
    StratEnv α → SWorld α B → List (StepGcs α) → Py (SWorld α B)
  | _, w, [] => .ok w
  | env, w, d :: ds => do
    let (w', _) ← ruleStep rule ops env (enter w d)
    runLast rule ops (tick env) w' ds

/-- the driver's view: the worlds reached and the exception that ended the run, if any (Python
keeps the mutations of the completed steps) -/
def runTrace (rule : Rule) (ops : BatOps α B) :
    StratEnv α → SWorld α B → List (StepGcs α) → List (SWorld α B) × Option PyErr
  | _, _, [] => ([], none)
  | env, w, d :: ds =>
    match ruleStep rule ops env (enter w d) with
    | .error e => ([], some e)
    | .ok (w', _) =>
      let r := runTrace rule ops (tick env) w' ds
      (w' :: r.1, r.2)

end
end SpiceEv.StratRun
