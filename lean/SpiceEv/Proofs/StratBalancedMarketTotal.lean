/-
C17 (termination) for the WHOLE step of the `balanced_market` model (Model/StratBalancedMarket.lean):
`BalancedMarket.step` / `stepGc` never answer with the model's own `FUEL` marker.

Fuel-guarded loops of the model and the fuel they are given:
* `chargeLoop` (`while sorted_idx < len(sorted_ts)`): fuel `sorted.length + 1`, started at `sorted_idx = 0`;
* `bisect` (power bisection of the planning loop, no bound in Python): fuel `bisectFuel = 2200`, bracket
  `[0, cs.max_power]`, `safe = False` — ends only when the evaluation at the upper end is safe;
* `batBisect` (stationary battery, no bound in Python): fuel `bisectFuel = 2200`, bracket `[0, gc.cur_max_power]`.
Everything else (`v2gLoop`, folds, `buildTimesteps`, …) is structurally recursive.
-/
import SpiceEv.Proofs.StratBalancedMarketFuel
import SpiceEv.Proofs.StratBalancedMarketStation
import SpiceEv.Proofs.StratBalancedMarketToy
import Mathlib.Tactic.Linarith
import Mathlib.Tactic.Ring
set_option linter.unusedSectionVars false
set_option linter.unusedSimpArgs false
set_option linter.unusedVariables false
namespace SpiceEv.BalancedMarket.Total
open SpiceEv SpiceEv.BalancedMarket
variable {α B : Type} [Field α] [LinearOrder α] [IsStrictOrderedRing α]

/-! ### generic: `FUEL` does not come out of a bind / fold / map whose pieces do not produce it -/

theorem bind_ne_fuel {β γ : Type} (x : Py β) (f : β → Py γ) (hx : x ≠ .error .fuel)
    (hf : ∀ a, x = .ok a → f a ≠ .error .fuel) : (x >>= f) ≠ .error .fuel := by
  cases x with
  | error e =>
    simp only [bind, Except.bind]
    intro hc; cases hc; exact hx rfl
  | ok a => exact hf a rfl

theorem mapM_ne_fuel {β γ : Type} (f : β → Py γ) (hf : ∀ a, f a ≠ .error .fuel) (l : List β) :
    l.mapM f ≠ .error .fuel := by
  induction l with
  | nil => simp [List.mapM_nil, pure, Except.pure]
  | cons a rest ih =>
    rw [List.mapM_cons]
    refine bind_ne_fuel _ _ (hf a) (fun b _ => bind_ne_fuel _ _ ih (fun bs _ => ?_))
    simp [pure, Except.pure]

/-- `x` is not the model's `FUEL` marker, and an `.ok` result satisfies `P` -/
def NFI {σ : Type} (P : σ → Prop) (x : Py σ) : Prop := x ≠ .error .fuel ∧ ∀ r, x = .ok r → P r

theorem nfi_ok {σ : Type} {P : σ → Prop} {r : σ} (h : P r) : NFI P (.ok r) :=
  ⟨by simp, fun r' h' => by cases h'; exact h⟩

theorem nfi_error {σ : Type} {P : σ → Prop} {e : PyErr} (h : e ≠ .fuel) : NFI P (.error e : Py σ) :=
  ⟨fun hc => by cases hc; exact h rfl, fun r h' => by cases h'⟩

theorem nfi_err {σ β : Type} {P : σ → Prop} {x : Py β} {e : PyErr} (hx : x ≠ .error .fuel)
    (he : x = .error e) : NFI P (.error e : Py σ) :=
  nfi_error (fun h => hx (by rw [he, h]))

theorem NFI.bind {β γ : Type} {P : β → Prop} {Q : γ → Prop} {x : Py β} {f : β → Py γ} (hx : NFI P x)
    (hf : ∀ a, P a → NFI Q (f a)) : NFI Q (x >>= f) := by
  cases x with
  | error e => exact nfi_error (fun h => hx.1 (by rw [h]))
  | ok a => exact hf a (hx.2 a rfl)

theorem nfi_of_ne {σ : Type} {x : Py σ} (h : x ≠ .error .fuel) : NFI (fun _ => True) x := ⟨h, fun _ _ => trivial⟩

/-- never `FUEL` + what an `.ok` result is known to satisfy -/
theorem nfi_mk {σ : Type} {P : σ → Prop} {x : Py σ} (h : x ≠ .error .fuel) (hp : ∀ r, x = .ok r → P r) :
    NFI P x := ⟨h, hp⟩

theorem nfi_foldlM {β σ : Type} (P : σ → Prop) (f : σ → β → Py σ) (l : List β)
    (hf : ∀ s, ∀ a ∈ l, P s → NFI P (f s a)) (s : σ) (hs : P s) : NFI P (l.foldlM f s) := by
  induction l generalizing s with
  | nil => exact nfi_ok hs
  | cons a rest ih =>
    rw [List.foldlM_cons]
    exact NFI.bind (hf s a (List.mem_cons_self ..) hs)
      (fun s' hs' => ih (fun s b hb => hf s b (List.mem_cons_of_mem _ hb)) s' hs')

/-! ### the loop-free pieces never answer `FUEL` -/

theorem cost1_ne_fuel (c : Option (GcCost α)) : cost1 c ≠ .error .fuel := by
  unfold cost1; split <;> simp

theorem sortedTs_ne_fuel (vts : List (TS α)) : sortedTs vts ≠ .error .fuel := by
  unfold sortedTs
  exact bind_ne_fuel _ _ (mapM_ne_fuel _ (fun t => cost1_ne_fuel _) _) (fun _ _ => by simp)

theorem getAvgFixedLoad_ne_fuel (table : Option (List (List α))) (l i : Int) :
    getAvgFixedLoad table l i ≠ .error .fuel := by
  unfold getAvgFixedLoad
  split
  · simp
  · dsimp only
    split
    · simp
    · split <;> simp

theorem buildTimesteps_ne_fuel (ops : Ops α B) (env : Env α) (gc : GcS α) (table : Option (List (List α))) :
    ∀ (n idx : Nat) (cur : Int) (evs : List (FEvent α)) (f : Fore α) (acc : List (TS α)),
      buildTimesteps ops env gc table n idx cur evs f acc ≠ .error .fuel := by
  intro n
  induction n with
  | zero => intro idx cur evs f acc; simp [buildTimesteps]
  | succ n ih =>
    intro idx cur evs f acc
    unfold buildTimesteps
    dsimp only
    split
    · exact bind_ne_fuel _ _ (by simp) (fun _ _ => ih _ _ _ _ _)
    · refine bind_ne_fuel _ _ ?_ (fun _ _ => ih _ _ _ _ _)
      exact bind_ne_fuel _ _ (getAvgFixedLoad_ne_fuel _ _ _) (fun _ _ => by simp [pure, Except.pure])

theorem timestepsOf_ne_fuel (ops : Ops α B) (env : Env α) (gc : GcS α) :
    timestepsOf ops env gc ≠ .error .fuel := by
  unfold timestepsOf
  exact buildTimesteps_ne_fuel ops env gc _ _ _ _ _ _ _

theorem simulate_ne_fuel (ops : Ops α B) (hnf : NoFuel ops) (dl : α) :
    ∀ (l : List α) (sim : B), simulate ops dl l sim ≠ .error .fuel := by
  intro l
  induction l with
  | nil => intro sim; simp [simulate]
  | cons p rest ih =>
    intro sim
    unfold simulate
    split
    · exact bind_ne_fuel _ _ (hnf.1 _ _ _ _) (fun _ _ => ih _)
    · split
      · exact bind_ne_fuel _ _ (hnf.2 _ _ _ _) (fun _ _ => ih _)
      · exact ih _

theorem updateTimesteps_ne_fuel (ops : Ops α B) (hnf : NoFuel ops) (dl : α) :
    ∀ (l : List α) (ts : List (TS α)) (sim : B), updateTimesteps ops dl l ts sim ≠ .error .fuel := by
  intro l
  induction l with
  | nil => intro ts sim; simp [updateTimesteps]
  | cons p rest ih =>
    intro ts sim
    cases ts with
    | nil => simp [updateTimesteps]
    | cons t ts =>
      unfold updateTimesteps
      split
      · exact bind_ne_fuel _ _ (hnf.1 _ _ _ _) (fun _ _ => bind_ne_fuel _ _ (ih _ _) (fun _ _ => by simp))
      · split
        · exact bind_ne_fuel _ _ (hnf.2 _ _ _ _) (fun _ _ => bind_ne_fuel _ _ (ih _ _) (fun _ _ => by simp))
        · exact bind_ne_fuel _ _ (ih _ _) (fun _ _ => by simp)

theorem numCheapAux_ne_fuel (thr : α) : ∀ (l : List (TS α)) (i : Nat), numCheapAux thr l i ≠ .error .fuel := by
  intro l
  induction l with
  | nil => intro i; simp [numCheapAux]
  | cons t rest ih =>
    intro i
    unfold numCheapAux
    refine bind_ne_fuel _ _ (cost1_ne_fuel _) (fun c _ => ?_)
    split
    · simp
    · exact ih _

theorem numCheap_ne_fuel (thr : α) (ts : List (TS α)) : numCheap thr ts ≠ .error .fuel := by
  unfold numCheap
  split
  · simp
  · have := numCheapAux_ne_fuel thr ts 0
    cases h : numCheapAux thr ts 0 with
    | error e => rw [h] at this; simpa [Except.map] using this
    | ok r => simp [Except.map]

theorem batNaive_ne_fuel (ops : Ops α B) (hnf : NoFuel ops) (minCh : α) :
    ∀ (l : List (TS α)) (i : Nat) (bat : B) (bp : α), batNaive ops minCh l i bat bp ≠ .error .fuel := by
  intro l
  induction l with
  | nil => intro i bat bp; simp [batNaive]
  | cons t rest ih =>
    intro i bat bp
    unfold batNaive
    exact bind_ne_fuel _ _ (hnf.1 _ _ _ _) (fun _ _ => ih _ _ _)

theorem sortVehicles_ne_fuel (vs : List (VehicleS α B)) : sortVehicles vs ≠ .error .fuel := by
  unfold sortVehicles; split <;> simp

theorem vehiclesAt_ne_fuel (w : SWorld α B) (gcId : String) : vehiclesAt w gcId ≠ .error .fuel := by
  unfold vehiclesAt
  generalize w.vehicles = l
  induction l with
  | nil => simp [List.filterMapM_nil, pure, Except.pure]
  | cons v rest ih =>
    rw [List.filterMapM_cons]
    refine bind_ne_fuel _ _ ?_ (fun o _ => ?_)
    · split
      · simp
      · split <;> simp
    · cases o with
      | none => exact ih
      | some b => exact bind_ne_fuel _ _ ih (fun _ _ => by simp [pure, Except.pure])


/-! ### the upper end of the power bisection is safe -/

/-- Battery contract "a target-power charge dominates a capped charge": of two copies of one battery, the second at
least as full as the first and asked (`target_power = p2`) for at least the power the first is capped to
(`max_power = p1`), the second ends at least as full.  (spice_ev: `load(max_power=p)` follows the charging curve clamped
to `p` up to SoC 1; `load(target_power=p)` follows the unclamped curve up to `soc + p·eff·T/capacity`; the flow of the
charging ODE is monotone in the start SoC.) -/
structure DomLaw (ops : Ops α B) (R : B → B → Prop) : Prop where
  dom : ∀ b s1 s2 p1 p2 s1' a1 s2' a2, R b s1 → R b s2 → ops.soc s1 ≤ ops.soc s2 → p1 ≤ p2 →
    ops.load s1 (some p1) none none = .ok (s1', a1) → ops.load s2 none none (some p2) = .ok (s2', a2) →
    ops.soc s1' ≤ ops.soc s2'

/-- with a non-negative `cs.current_power`, capping the offer by `cs.max_power` first does not change
`clamp_power` -/
theorem clampV_min_max (cs : StationS α) (vmin p : α) (h : 0 ≤ cs.currentPower) :
    clampV cs vmin (pymin p cs.maxPower) = clampV cs vmin p := by
  unfold clampV clampPower
  simp only [pymin_eq, pymax_eq]
  have h1 : min (cs.currentPower + min p cs.maxPower) cs.maxPower = min (cs.currentPower + p) cs.maxPower := by
    rcases le_total p cs.maxPower with hp | hp
    · rw [min_eq_left hp]
    · rw [min_eq_right hp, min_eq_right (by linarith), min_eq_right (by linarith)]
  have h2 : min (min p cs.maxPower) (cs.maxPower - cs.currentPower) = min p (cs.maxPower - cs.currentPower) := by
    rw [min_assoc, min_eq_right (by linarith : cs.maxPower - cs.currentPower ≤ cs.maxPower)]
  rw [h1, h2]

/-- **The premise `hsafe` of the power bisection, derived**: when the naive pass (`max_power = clamp(ts.power)`)
reaches an SoC, the bisection pass at the upper end `cur_power = cs.max_power`
(`target_power = clamp(min(ts.power, cs.max_power))`) reaches at least the same — for a station whose
`current_power` is not negative. -/
theorem upper_safe (ops : Ops α B) (R : B → B → Prop) (sl : SimLaw ops R) (dl : DomLaw ops R)
    (cs : StationS α) (vmin : α) (ts : List (TS α)) (hcur : 0 ≤ cs.currentPower) (b0 : B) :
    ∀ (same : List Nat) (pwN pwN' : List α) (sN sN' : B) (pwB pwB' : List α) (sB sB' : B),
      R b0 sN → R b0 sB → ops.soc sN ≤ ops.soc sB →
      naivePass ops cs vmin ts same pwN sN = .ok (pwN', sN') →
      bisectPass ops cs vmin ts same cs.maxPower pwB sB = .ok (pwB', sB') →
      ops.soc sN' ≤ ops.soc sB' := by
  intro same
  induction same with
  | nil =>
    intro pwN pwN' sN sN' pwB pwB' sB sB' _ _ hle hn hb
    simp only [naivePass, bisectPass, List.foldlM_nil, pure, Except.pure, Except.ok.injEq, Prod.mk.injEq] at hn hb
    obtain ⟨_, rfl⟩ := hn
    obtain ⟨_, rfl⟩ := hb
    exact hle
  | cons i rest ih =>
    intro pwN pwN' sN sN' pwB pwB' sB sB' hRN hRB hle hn hb
    unfold naivePass at hn ih
    unfold bisectPass at hb ih
    simp only [List.foldlM_cons, bind, Except.bind] at hn hb
    cases hl : lget ts i with
    | error e => rw [hl] at hn; cases hn
    | ok t =>
      rw [hl] at hn hb
      simp only at hn hb
      cases hN : ops.load sN (some (clampV cs vmin t.power)) none none with
      | error e => rw [hN] at hn; cases hn
      | ok rN =>
        cases hB : ops.load sB none none (some (clampV cs vmin (pymin t.power cs.maxPower))) with
        | error e => rw [hB] at hb; cases hb
        | ok rB =>
          rw [hN] at hn
          rw [hB] at hb
          simp only [pure, Except.pure] at hn hb
          obtain ⟨sN1, aN⟩ := rN
          obtain ⟨sB1, aB⟩ := rB
          exact ih _ _ _ _ _ _ _ _ (sl.load _ _ _ _ _ _ _ hRN hN) (sl.load _ _ _ _ _ _ _ hRB hB)
            (dl.dom b0 sN sB _ _ _ _ _ _ hRN hRB hle (le_of_eq (clampV_min_max cs vmin t.power hcur).symm) hN hB)
            hn hb

/-- **The planning loop of one vehicle never reports `FUEL`** when, for its station, the bisection pass at the upper
end `cs.max_power` charges at least as much as the naive pass (`hup`, the premise `hsafe` of the power bisection) and
`cs.max_power ≤ EPS · 2^2198` (`bisectFuel = 2200 = 2198 + 2`). -/
theorem chargeLoop_total' (ops : Ops α B) (hnf : NoFuel ops) (R : B → B → Prop) (sl : SimLaw ops R)
    (env : Env α) (heps : 0 < env.eps) (v : VehicleS α B)
    (ts : List (TS α)) (sorted : List (α × Nat)) (cs0 : StationS α)
    (hup : ∀ (same : List Nat) (b0 : B) (pwN pwN' : List α) (sN' : B) (pwB pwB' : List α) (sB' : B),
      naivePass ops cs0 v.minChargingPower ts same pwN b0 = .ok (pwN', sN') →
      bisectPass ops cs0 v.minChargingPower ts same (cs0.maxPower - pymin cs0.currentPower 0) pwB b0 = .ok (pwB', sB') →
      ops.soc sN' ≤ ops.soc sB')
    (hmax : cs0.maxPower - pymin cs0.currentPower 0 ≤ env.eps * 2 ^ 2198) :
    ∀ (fuel : Nat) (st : VSt α B), st.cs = cs0 → st.sortedIdx ≤ sorted.length →
      sorted.length + 1 ≤ st.sortedIdx + fuel →
      chargeLoop ops env v ts sorted fuel st ≠ .error .fuel := by
  intro fuel
  induction fuel with
  | zero => intro st _ h1 h2; omega
  | succ n ih =>
    intro st hcs h1 h2
    subst hcs
    unfold chargeLoop
    split
    · simp
    · rename_i cost startIdx hsorted
      have hlt : st.sortedIdx < sorted.length := by
        by_contra hc
        rw [List.getElem?_eq_none (by omega)] at hsorted
        cases hsorted
      generalize ((if cost < env.priceThreshold then 1 else v.desiredSoc) - env.eps) = desired
      split
      rename_i same next hsp
      dsimp only
      split
      · simp
      · simp only [bind, Except.bind]
        split
        · rename_i e he
          intro hc
          simp only [Except.error.injEq] at hc
          subst hc
          exact naivePass_nofuel ops hnf _ _ _ _ _ _ he
        · rename_i r1 hr1
          obtain ⟨pw1, sm1⟩ := r1
          simp only
          split
          · rename_i e he
            intro hc
            simp only [Except.error.injEq] at hc
            subst hc
            split at he
            · rename_i hdes
              have hfuel : bisectFuel = 2198 + 2 := rfl
              rw [hfuel] at he
              refine bisect_fuel ops hnf R sl env.eps st.cs v.minChargingPower ts same st.sim desired heps 2198 0
                (st.cs.maxPower - pymin st.cs.currentPower 0) false pw1 sm1
                (naivePass_R ops R sl st.sim st.cs v.minChargingPower ts same st.power pw1 st.sim sm1 (sl.refl _) hr1)
                (fun pw pw' sm hbp => le_trans hdes (hup same st.sim st.power pw1 sm1 pw pw' sm hr1 hbp))
                (by simpa using hmax) he
            · simp [pure, Except.pure] at he
          · rename_i r2 hr2
            obtain ⟨pw2, sm2⟩ := r2
            simp only
            split
            · simp
            · split
              · split
                · rename_i e he
                  intro hc
                  simp only [Except.error.injEq] at hc
                  subst hc
                  exact hnf.1 _ _ _ _ he
                · simp
              · apply ih
                · rfl
                · have := samePrice_le env sorted st.sortedIdx cost startIdx hlt
                  rw [hsp] at this
                  exact this
                · have := samePrice_next env sorted st.sortedIdx cost startIdx
                  rw [hsp] at this
                  show sorted.length + 1 ≤ next + n
                  simp only at this
                  omega

/-! ### the stationary-battery block -/

theorem addLoad_curMax (g : GcS α) (k : String) (x : α) : (g.addLoad k x).1.curMax = g.curMax := by
  unfold GcS.addLoad; split <;> rfl

/-- the battery block never reports `FUEL` when `gc.cur_max_power ≤ EPS · 2^2199` (`bisectFuel = 2199 + 1`) -/
theorem batteryBody_ne_fuel (ops : Ops α B) (hnf : NoFuel ops) (env : Env α) (heps : 0 < env.eps)
    (nCheap : Option Nat) (g : GSt α B) (bid : String) (hmax : g.gc.curMax ≤ env.eps * 2 ^ 2199) :
    batteryBody ops env nCheap g bid ≠ .error .fuel := by
  unfold batteryBody
  split
  · simp
  · split
    · simp
    · split
      · simp
      · dsimp only
        refine bind_ne_fuel _ _ (batNaive_ne_fuel ops hnf _ _ _ _ _) (fun r1 _ => ?_)
        obtain ⟨bat1, bp1⟩ := r1
        refine bind_ne_fuel _ _ ?_ (fun r2 _ => ?_)
        · split
          · have hfuel : bisectFuel = 2199 + 1 := rfl
            rw [hfuel]
            exact batBisect_fuel ops hnf env.eps _ _ _ heps 2199 0 g.gc.curMax bat1 0 (by simpa using hmax)
          · simp [pure, Except.pure]
        · obtain ⟨bat2, bp2⟩ := r2
          refine bind_ne_fuel _ _ (hnf.1 _ _ _ _) (fun r3 _ => ?_)
          obtain ⟨bat3, avg⟩ := r3
          dsimp only
          split
          · exact bind_ne_fuel _ _ (hnf.2 _ _ _ _) (fun _ _ => by simp)
          · simp

theorem batteryBody_gc (ops : Ops α B) (env : Env α) (nCheap : Option Nat)
    (g g' : GSt α B) (bid : String)
    (h : batteryBody ops env nCheap g bid = .ok g') : g'.gc.curMax = g.gc.curMax ∧ g'.w.gcs = g.w.gcs := by
  unfold batteryBody at h
  split at h
  · cases h
  · rename_i b hb
    split at h
    · simp only [Except.ok.injEq] at h; subst h; exact ⟨rfl, rfl⟩
    · split at h
      · cases h
      · rename_i n
        simp only [bind, Except.bind] at h
        split at h
        · cases h
        · split at h
          · cases h
          · split at h
            · cases h
            · split at h
              · split at h
                · cases h
                · simp only [Except.ok.injEq] at h; subst h
                  exact ⟨by simp only [addLoad_curMax], rfl⟩
              · simp only [Except.ok.injEq] at h; subst h
                exact ⟨by simp only [addLoad_curMax], rfl⟩


/-! ### the V2G search (structurally recursive; only battery calls inside) -/

theorem compStep_ne_fuel (ops : Ops α B) (hnf : NoFuel ops) (v : VehicleS α B) (cs : StationS α)
    (ts : List (TS α)) (realSoc v2gCost : α) (c : CompSt α B) (e : α × Nat) :
    compStep ops v cs ts realSoc v2gCost c e ≠ .error .fuel := by
  unfold compStep
  split
  · simp
  · split
    · simp
    · split
      · simp
      · refine bind_ne_fuel _ _ (lget_nofuel _ _) (fun t _ => ?_)
        refine bind_ne_fuel _ _ (lget_nofuel _ _) (fun cur _ => ?_)
        dsimp only
        exact bind_ne_fuel _ _ (simulate_ne_fuel ops hnf _ _ _) (fun _ _ => by simp)

theorem applyV2g_ne_fuel (ops : Ops α B) (hnf : NoFuel ops) (v : VehicleS α B) (st : VSt α B) (sp : α) :
    applyV2g ops v st sp ≠ .error .fuel := by
  unfold applyV2g
  split
  · exact bind_ne_fuel _ _ (hnf.1 _ _ _ _) (fun _ _ => by simp)
  · split
    · exact bind_ne_fuel _ _ (hnf.2 _ _ _ _) (fun _ _ => by simp)
    · simp

theorem v2gLoop_ne_fuel (ops : Ops α B) (hnf : NoFuel ops) (env : Env α) (v : VehicleS α B) (ts : List (TS α))
    (sorted : List (α × Nat)) :
    ∀ (k : Nat) (st : VSt α B), v2gLoop ops env v ts sorted k st ≠ .error .fuel := by
  intro k
  induction k with
  | zero => intro st; simp [v2gLoop]
  | succ k ih =>
    intro st
    unfold v2gLoop
    split
    · simp
    · refine bind_ne_fuel _ _ (lget_nofuel _ _) (fun r _ => ?_)
      obtain ⟨v2gCost, v2gTs⟩ := r
      dsimp only
      split
      · simp
      · refine bind_ne_fuel _ _ (lget_nofuel _ _) (fun t _ => ?_)
        refine bind_ne_fuel _ _ (simulate_ne_fuel ops hnf _ _ _) (fun sim _ => ?_)
        refine bind_ne_fuel _ _ (foldlM_nofuel _ (fun c e => compStep_ne_fuel ops hnf v st.cs ts _ _ c e) _ _)
          (fun c _ => ?_)
        split
        · exact applyV2g_ne_fuel ops hnf v _ _
        · exact ih _

/-- "the upper end of the bracket is safe at station state `s`": started from the same battery, the bisection pass at
`cur_power = s.max_power` (`load(target_power = clamp(min(ts.power, s.max_power)))`) ends at least as full as the naive
pass (`load(max_power = clamp(ts.power))`).  This is the premise `hsafe` of the power bisection (it is entered only
after the naive pass reached the target); without it the Python loop evaluates `max_power` for ever. -/
def UpperSafeAt (ops : Ops α B) (s : StationS α) : Prop :=
  ∀ (vmin : α) (ts : List (TS α)) (same : List Nat) (b0 : B) (pwN pwN' : List α) (sN' : B)
    (pwB pwB' : List α) (sB' : B),
    naivePass ops s vmin ts same pwN b0 = .ok (pwN', sN') →
    bisectPass ops s vmin ts same (s.maxPower - pymin s.currentPower 0) pwB b0 = .ok (pwB', sB') →
      ops.soc sN' ≤ ops.soc sB'

/-- derived from the battery contract `DomLaw` when `current_power` is not negative -/
theorem upperSafeAt_of_dom (ops : Ops α B) (R : B → B → Prop) (sl : SimLaw ops R) (dl : DomLaw ops R)
    (s : StationS α) (h : 0 ≤ s.currentPower) : UpperSafeAt ops s := by
  intro vmin ts same b0 pwN pwN' sN' pwB pwB' sB' hn hb
  have hU : s.maxPower - pymin s.currentPower 0 = s.maxPower := by
    rw [pymin_eq, min_eq_right h, sub_zero]
  rw [hU] at hb
  exact upper_safe ops R sl dl s vmin ts h b0 same pwN pwN' b0 sN' pwB pwB' b0 sB' (sl.refl _) (sl.refl _)
    (le_refl _) hn hb

/-- a predicate on station states that the step keeps and that makes the power bisection end.
`allow = false`: worlds without V2G vehicles (only non-negative bookings); `allow = true`: any booking. -/
structure StInv (ops : Ops α B) (E : α) (allow : Bool) (Q : StationS α → Prop) : Prop where
  max : ∀ s, Q s → s.maxPower - pymin s.currentPower 0 ≤ E
  safe : ∀ s, Q s → UpperSafeAt ops s
  pos : ∀ s a, Q s → 0 ≤ a → Q { s with currentPower := s.currentPower + a }
  any : allow = true → ∀ s a, Q s → Q { s with currentPower := s.currentPower + a }

theorem applyV2g_book (ops : Ops α B) (v : VehicleS α B) (st st' : VSt α B) (sp : α)
    (h : applyV2g ops v st sp = .ok st') :
    ∃ a, st'.cs = { st.cs with currentPower := st.cs.currentPower + a } ∧
      st'.gc = (st.gc.addLoad st.cs.id a).1 := by
  unfold applyV2g at h
  split at h
  · simp only [bind, Except.bind] at h
    split at h
    · cases h
    · simp only [Except.ok.injEq] at h; subst h; exact ⟨_, rfl, rfl⟩
  · split at h
    · simp only [bind, Except.bind] at h
      split at h
      · cases h
      · simp only [Except.ok.injEq] at h; subst h; exact ⟨_, rfl, rfl⟩
    · simp only [Except.ok.injEq] at h; subst h; exact ⟨_, rfl, rfl⟩

/-- the V2G search books at most once on the vehicle's own station and connector -/
theorem v2gLoop_book (ops : Ops α B) (env : Env α) (v : VehicleS α B) (ts : List (TS α))
    (sorted : List (α × Nat)) :
    ∀ (k : Nat) (st st' : VSt α B), v2gLoop ops env v ts sorted k st = .ok st' →
      (st'.cs = st.cs ∧ st'.gc = st.gc) ∨
      ∃ a, st'.cs = { st.cs with currentPower := st.cs.currentPower + a } ∧
        st'.gc = (st.gc.addLoad st.cs.id a).1 := by
  intro k
  induction k with
  | zero => intro st st' h; simp only [v2gLoop, Except.ok.injEq] at h; subst h; exact Or.inl ⟨rfl, rfl⟩
  | succ k ih =>
    intro st st' h
    unfold v2gLoop at h
    split at h
    · simp only [Except.ok.injEq] at h; subst h; exact Or.inl ⟨rfl, rfl⟩
    · simp only [bind, Except.bind] at h
      split at h
      · cases h
      · rename_i r hr
        obtain ⟨v2gCost, v2gTs⟩ := r
        simp only at h
        split at h
        · simp only [Except.ok.injEq] at h; subst h; exact Or.inl ⟨rfl, rfl⟩
        · split at h
          · cases h
          · split at h
            · cases h
            · split at h
              · cases h
              · rename_i c hc
                split at h
                · obtain ⟨a, h1, h2⟩ := applyV2g_book ops v _ st' _ h
                  refine Or.inr ⟨a, ?_, ?_⟩
                  · rw [h1]; split <;> rfl
                  · rw [h2]; split <;> rfl
                · rcases ih _ st' h with ⟨h1, h2⟩ | ⟨a, h1, h2⟩
                  · refine Or.inl ⟨?_, ?_⟩
                    · rw [h1]; split <;> rfl
                    · rw [h2]; split <;> rfl
                  · refine Or.inr ⟨a, ?_, ?_⟩
                    · rw [h1]; split <;> rfl
                    · rw [h2]; split <;> rfl

/-! ### the invariant of the whole step -/

/-- what the step keeps of the world: without V2G permission no vehicle is V2G-capable; every station satisfies `Q`;
every connector's `cur_max_power` is within the battery bisection's reach -/
def WOk (allow : Bool) (Q : StationS α → Prop) (E2 : α) (w : SWorld α B) : Prop :=
  (allow = false → NoV2g w) ∧ (∀ s ∈ w.stations, Q s) ∧ (∀ g ∈ w.gcs, g.curMax ≤ E2)

def GOk (allow : Bool) (Q : StationS α → Prop) (E2 : α) (g : GSt α B) : Prop :=
  WOk allow Q E2 g.w ∧ g.gc.curMax ≤ E2

theorem wok_update (allow : Bool) (Q : StationS α → Prop) (E2 : α) (w : SWorld α B) (v : VehicleS α B)
    (hv : v ∈ w.vehicles) (bat : B) (cs' : StationS α) (hq : Q cs') (h : WOk allow Q E2 w) :
    WOk allow Q E2 ((w.setVehicle { v with bat := bat }).setStation cs') := by
  refine ⟨fun ha => nov2g_update w v (h.1 ha v hv) bat cs' (h.1 ha), fun s hs => ?_, h.2.2⟩
  rcases mem_setStation _ _ s hs with rfl | hs'
  · exact hq
  · exact h.2.1 s hs'

theorem vehicleBody_nfi (ops : Ops α B) (hnf : NoFuel ops) (law : BatLaw ops.toBatOps) (R : B → B → Prop)
    (sl : SimLaw ops R) (env : Env α) (heps : 0 < env.eps) (allow : Bool) (Q : StationS α → Prop) (E2 : α)
    (si : StInv ops (env.eps * 2 ^ 2198) allow Q) (g : GSt α B) (vid : String) (hg : GOk allow Q E2 g) :
    NFI (GOk allow Q E2) (vehicleBody ops env g vid) := by
  unfold vehicleBody
  split
  · exact nfi_error (by simp)
  · rename_i v hv
    have hvmem : v ∈ g.w.vehicles := by
      unfold SWorld.vehicle? at hv; exact List.mem_of_find?_eq_some hv
    split
    · exact nfi_error (by simp)
    · rename_i csId hcs
      split
      · exact nfi_error (by simp)
      · rename_i cs hst
        obtain ⟨hsm, hcsid⟩ := station?_some _ _ cs hst
        have hQcs : Q cs := hg.1.2.1 cs hsm
        split
        · exact nfi_error (by simp)
        · rename_i etd hetd
          refine NFI.bind (nfi_of_ne (sortedTs_ne_fuel _)) (fun sorted _ => ?_)
          refine NFI.bind (P := fun st1 : VSt α B => Q st1.cs ∧ st1.gc.curMax = g.gc.curMax)
            (nfi_mk ?_ (fun st1 hst1 => ?_)) (fun st1 h1 => ?_)
          · refine chargeLoop_total' ops hnf R sl env heps v g.ts sorted cs ?_ (si.max cs hQcs) (sorted.length + 1) _
              rfl (Nat.zero_le _) (by show sorted.length + 1 ≤ 0 + (sorted.length + 1); omega)
            intro same b0 pwN pwN' sN' pwB pwB' sB' hn hb
            exact si.safe cs hQcs _ _ _ _ _ _ _ _ _ _ hn hb
          · have hcsge := (chargeLoop_cs ops law env v g.ts sorted _ _ st1 hst1).2
            obtain ⟨_, _, hsp⟩ := chargeLoop_spec ops R sl env v g.ts sorted v.bat _ _ st1 (sl.refl _) hst1
            rcases hsp with ⟨_, hgc, hcs', _⟩ | ⟨p0, bat', avg, _, _, hld, _, hgc, hcs'⟩
            · exact ⟨by rw [hcs']; exact hQcs, by rw [hgc]⟩
            · refine ⟨?_, by rw [hgc, addLoad_curMax]⟩
              rw [hcs']
              exact si.pos cs avg hQcs (law.load_target _ _ _ _ hld).1
          · refine NFI.bind (P := fun st2 : VSt α B => Q st2.cs ∧ st2.gc.curMax = g.gc.curMax)
              (nfi_mk ?_ (fun st2 hst2 => ?_)) (fun st2 h2 => ?_)
            · split
              · exact v2gLoop_ne_fuel ops hnf env v g.ts sorted _ _
              · simp [pure, Except.pure]
            · split at hst2
              · rename_i hv2g
                have hallow : allow = true := by
                  cases hal : allow with
                  | true => rfl
                  | false =>
                    have := hg.1.1 hal v hvmem
                    rw [this] at hv2g
                    exact absurd hv2g (by simp)
                rcases v2gLoop_book ops env v g.ts sorted _ _ st2 hst2 with ⟨hc, hgc⟩ | ⟨a, hc, hgc⟩
                · exact ⟨by rw [hc]; exact h1.1, by rw [hgc]; exact h1.2⟩
                · exact ⟨by rw [hc]; exact si.any hallow _ a h1.1, by rw [hgc, addLoad_curMax]; exact h1.2⟩
              · simp only [pure, Except.pure, Except.ok.injEq] at hst2
                subst hst2
                exact h1
            · refine NFI.bind (nfi_of_ne (updateTimesteps_ne_fuel ops hnf _ _ _ _)) (fun ts' _ => ?_)
              refine nfi_ok ⟨wok_update allow Q E2 g.w v hvmem st2.bat st2.cs h2.1 hg.1, ?_⟩
              show st2.gc.curMax ≤ E2
              rw [h2.2]
              exact hg.2


theorem surplusBody_nfi (ops : Ops α B) (hnf : NoFuel ops) (law : BatLaw ops.toBatOps) (env : Env α) (E : α)
    (allow : Bool) (Q : StationS α → Prop) (E2 : α) (si : StInv ops E allow Q) (g : GSt α B) (vid : String)
    (hg : GOk allow Q E2 g) : NFI (GOk allow Q E2) (surplusBody ops env g vid) := by
  unfold surplusBody
  split
  · exact nfi_error (by simp)
  · rename_i v hv
    have hvmem : v ∈ g.w.vehicles := by
      unfold SWorld.vehicle? at hv; exact List.mem_of_find?_eq_some hv
    split
    · exact nfi_error (by simp)
    · rename_i csId hcs
      split
      · exact nfi_error (by simp)
      · rename_i cs hst
        obtain ⟨hsm, hcsid⟩ := station?_some _ _ cs hst
        dsimp only
        split
        · refine NFI.bind (P := fun r : B × α => 0 ≤ r.2) (nfi_mk (hnf.1 _ _ _ _) (fun r hr => ?_)) (fun r hr => ?_)
          · obtain ⟨b', a⟩ := r
            exact (law.load_max _ _ _ _ hr).1
          · obtain ⟨bat', avg⟩ := r
            have hcm := addLoad_curMax g.gc csId avg
            generalize g.gc.addLoad csId avg = r2 at hcm
            obtain ⟨gc', val⟩ := r2
            refine nfi_ok ⟨wok_update allow Q E2 g.w v hvmem bat' _ (si.pos cs avg (hg.1.2.1 cs hsm) hr) hg.1, ?_⟩
            show gc'.curMax ≤ E2
            rw [show gc'.curMax = g.gc.curMax from hcm]
            exact hg.2
        · exact nfi_ok hg

theorem batteryBody_nfi (ops : Ops α B) (hnf : NoFuel ops) (env : Env α) (heps : 0 < env.eps)
    (allow : Bool) (Q : StationS α → Prop) (nCheap : Option Nat) (g : GSt α B) (bid : String)
    (hg : GOk allow Q (env.eps * 2 ^ 2199) g) :
    NFI (GOk allow Q (env.eps * 2 ^ 2199)) (batteryBody ops env nCheap g bid) := by
  refine nfi_mk (batteryBody_ne_fuel ops hnf env heps nCheap g bid hg.2) (fun g' h => ?_)
  have hs := batteryBody_stations ops env nCheap g g' bid h
  have hv := batteryBody_vehicles ops env nCheap g g' bid h
  obtain ⟨hc, hgcs⟩ := batteryBody_gc ops env nCheap g g' bid h
  refine ⟨⟨fun ha => ?_, fun s hs' => ?_, fun x hx => ?_⟩, ?_⟩
  · have := hg.1.1 ha
    unfold NoV2g at *
    rw [hv]; exact this
  · rw [hs] at hs'; exact hg.1.2.1 s hs'
  · rw [hgcs] at hx; exact hg.1.2.2 x hx
  · rw [hc]; exact hg.2

theorem stepGc_nfi (ops : Ops α B) (hnf : NoFuel ops) (law : BatLaw ops.toBatOps) (R : B → B → Prop)
    (sl : SimLaw ops R) (env : Env α) (heps : 0 < env.eps) (allow : Bool) (Q : StationS α → Prop)
    (si : StInv ops (env.eps * 2 ^ 2198) allow Q) (w : SWorld α B) (gcId : String)
    (hw : WOk allow Q (env.eps * 2 ^ 2199) w) :
    NFI (fun r : SWorld α B × List (String × α) => WOk allow Q (env.eps * 2 ^ 2199) r.1)
      (stepGc ops env w gcId) := by
  unfold stepGc
  split
  · exact nfi_error (by simp)
  · rename_i gc hgc
    have hgm : gc ∈ w.gcs := by
      unfold SWorld.gc? at hgc; exact List.mem_of_find?_eq_some hgc
    refine NFI.bind (nfi_of_ne (vehiclesAt_ne_fuel _ _)) (fun vs _ => ?_)
    refine NFI.bind (nfi_of_ne (sortVehicles_ne_fuel _)) (fun vids _ => ?_)
    refine NFI.bind (nfi_of_ne (timestepsOf_ne_fuel _ _ _)) (fun ts _ => ?_)
    refine NFI.bind (nfi_foldlM (GOk allow Q (env.eps * 2 ^ 2199)) _ vids
      (fun s a _ hs => vehicleBody_nfi ops hnf law R sl env heps allow Q _ si s a hs) _
      ⟨hw, hw.2.2 gc hgm⟩) (fun g1 hg1 => ?_)
    refine NFI.bind (nfi_foldlM (GOk allow Q (env.eps * 2 ^ 2199)) _ vids
      (fun s a _ hs => surplusBody_nfi ops hnf law env _ allow Q _ si s a hs) _ hg1) (fun g2 hg2 => ?_)
    refine NFI.bind (nfi_of_ne (numCheap_ne_fuel _ _)) (fun n _ => ?_)
    refine NFI.bind (nfi_foldlM (GOk allow Q (env.eps * 2 ^ 2199)) _ _
      (fun s a _ hs => batteryBody_nfi ops hnf env heps allow Q n s a hs) _ hg2) (fun g3 hg3 => ?_)
    refine nfi_ok ⟨hg3.1.1, hg3.1.2.1, fun x hx => ?_⟩
    have hx' : x ∈ (g3.w.setGc g3.gc).gcs := hx
    unfold SWorld.setGc at hx'
    simp only [List.mem_map] at hx'
    obtain ⟨y, hy, rfl⟩ := hx'
    split
    · exact hg3.2
    · exact hg3.1.2.2 y hy

/-- **The whole step never reports `FUEL`** (generic in the station invariant `Q`). -/
theorem step_ne_fuel (ops : Ops α B) (hnf : NoFuel ops) (law : BatLaw ops.toBatOps) (R : B → B → Prop)
    (sl : SimLaw ops R) (env : Env α) (heps : 0 < env.eps) (allow : Bool) (Q : StationS α → Prop)
    (si : StInv ops (env.eps * 2 ^ 2198) allow Q) (w : SWorld α B)
    (hw : WOk allow Q (env.eps * 2 ^ 2199) (resetStations w)) :
    step ops env w ≠ .error .fuel := by
  unfold step
  refine (nfi_foldlM (fun st : SWorld α B × List (String × α) => WOk allow Q (env.eps * 2 ^ 2199) st.1) _ _
    (fun st gid _ hst => ?_) _ hw).1
  refine NFI.bind (stepGc_nfi ops hnf law R sl env heps allow Q si st.1 gid hst) (fun r hr => ?_)
  obtain ⟨w', c⟩ := r
  exact nfi_ok hr

/-- station invariant of worlds without V2G vehicles: `max_power` within reach, `current_power ≥ 0` -/
theorem stInv_nonneg (ops : Ops α B) (R : B → B → Prop) (sl : SimLaw ops R) (dl : DomLaw ops R) (E : α) :
    StInv ops E false (fun s => s.maxPower ≤ E ∧ 0 ≤ s.currentPower) where
  max := fun s h => by rw [pymin_eq, min_eq_right h.2, sub_zero]; exact h.1
  safe := fun s h => upperSafeAt_of_dom ops R sl dl s h.2
  pos := fun s a h ha => ⟨h.1, by show 0 ≤ s.currentPower + a; linarith [h.2]⟩
  any := fun h => by cases h

/-- station invariant of arbitrary worlds, given `UpperSafeAt` for the station states with negative `current_power` -/
theorem stInv_any (ops : Ops α B) (R : B → B → Prop) (sl : SimLaw ops R) (dl : DomLaw ops R) (E : α)
    (hneg : ∀ s : StationS α, s.maxPower ≤ E → s.currentPower < 0 →
      UpperSafeAt ops s ∧ s.maxPower - s.currentPower ≤ E) :
    StInv ops E true (fun s => s.maxPower ≤ E) where
  max := fun s h => by
    rcases le_or_gt 0 s.currentPower with h0 | h0
    · rw [pymin_eq, min_eq_right h0, sub_zero]; exact h
    · rw [pymin_eq, min_eq_left h0.le]; exact (hneg s h h0).2
  safe := fun s h => by
    rcases le_or_gt 0 s.currentPower with h0 | h0
    · exact upperSafeAt_of_dom ops R sl dl s h0
    · exact (hneg s h h0).1
  pos := fun s a h _ => h
  any := fun _ s a h => h

theorem wok_reset_nonneg (E E2 : α) (w : SWorld α B) (hnv : NoV2g w) (hs : ∀ s ∈ w.stations, s.maxPower ≤ E)
    (hg : ∀ g ∈ w.gcs, g.curMax ≤ E2) :
    WOk false (fun s : StationS α => s.maxPower ≤ E ∧ 0 ≤ s.currentPower) E2 (resetStations w) := by
  refine ⟨fun _ => hnv, fun s hs' => ?_, hg⟩
  unfold resetStations at hs'
  simp only [List.mem_map] at hs'
  obtain ⟨x, hx, rfl⟩ := hs'
  exact ⟨hs x hx, le_refl _⟩

theorem wok_reset_any (E E2 : α) (w : SWorld α B) (hs : ∀ s ∈ w.stations, s.maxPower ≤ E)
    (hg : ∀ g ∈ w.gcs, g.curMax ≤ E2) :
    WOk true (fun s : StationS α => s.maxPower ≤ E) E2 (resetStations w) := by
  refine ⟨(fun h => by cases h), fun s hs' => ?_, hg⟩
  unfold resetStations at hs'
  simp only [List.mem_map] at hs'
  obtain ⟨x, hx, rfl⟩ := hs'
  exact hs x hx


/-- `step_gc` for one connector, from a world that satisfies the invariant -/
theorem stepGc_ne_fuel (ops : Ops α B) (hnf : NoFuel ops) (law : BatLaw ops.toBatOps) (R : B → B → Prop)
    (sl : SimLaw ops R) (env : Env α) (heps : 0 < env.eps) (allow : Bool) (Q : StationS α → Prop)
    (si : StInv ops (env.eps * 2 ^ 2198) allow Q) (w : SWorld α B) (gcId : String)
    (hw : WOk allow Q (env.eps * 2 ^ 2199) w) : stepGc ops env w gcId ≠ .error .fuel :=
  (stepGc_nfi ops hnf law R sl env heps allow Q si w gcId hw).1

/-! ### the toy battery (Proofs/StratBalancedMarketToy.lean) satisfies the contracts -/

theorem toyNoFuel : NoFuel toyOps :=
  ⟨fun _ _ _ _ => by simp [toyOps, toyLoad], fun _ _ _ _ => by simp [toyOps, toyUnload]⟩

theorem toyDom : DomLaw toyOps (fun _ _ => True) where
  dom := by
    intro b s1 s2 p1 p2 s1' a1 s2' a2 _ _ hle hp h1 h2
    simp only [toyOps, toyLoad, Option.getD_some, Option.getD_none, Except.ok.injEq, Prod.mk.injEq, pymin_eq,
      pymax_eq] at h1 h2 hle ⊢
    obtain ⟨rfl, _⟩ := h1
    obtain ⟨rfl, _⟩ := h2
    simp only [min_def, max_def]
    split_ifs <;> linarith

/-- is the result the model's own `FUEL` marker? -/
def isFuel {σ : Type} : Py σ → Bool
  | .error .fuel => true
  | _ => false

theorem isFuel_iff {σ : Type} (x : Py σ) : isFuel x = true ↔ x = .error .fuel := by
  unfold isFuel
  split
  · simp
  · rename_i h
    constructor
    · intro hc; cases hc
    · intro hc; exact absurd hc (h)

/-! ### a station with negative `current_power`: the Python power bisection does not end -/

/-- station with `max_power = 3` on which a V2G discharge of 3 kW has been booked (`current_power = −3`) -/
def negCs : StationS ℚ := ⟨"CS1", "GC", 3, 0, -3⟩
/-- forecast: 16 kW free now, 20 kW in the next step -/
def negTs : List (TS ℚ) := [⟨16, 20, some (.fixed (1/2))⟩, ⟨20, 20, some (.fixed (3/10))⟩]

/-- the naive pass offers `clamp(20) = min(20, 3 − (−3)) = 6` kW (the toy battery takes 5): SoC 0.2 → 0.7 ≥ 0.6 -/
theorem neg_naive :
    naivePass toyOps negCs 0 negTs [1] [0, 0] (1/5) = .ok ([0, 6], 7/10) := by decide +kernel

/-- whatever `cur_power ≤ 3` the bisection tries, the pass ends below the target 0.6 (at most 0.2 + 0.3) -/
theorem neg_pass_short (cur : ℚ) (hcur : cur ≤ 3) (pw : List ℚ) :
    ∃ pw' sm, bisectPass toyOps negCs 0 negTs [1] cur pw (1/5) = .ok (pw', sm) ∧ sm ≤ 1/2 := by
  have hp : clampV negCs 0 (pymin 20 cur) ≤ 3 := by
    have := clampV_le negCs 0 (pymin 20 cur)
    rw [pymin_eq] at this ⊢
    have h2 : max 0 (min 20 cur) ≤ 3 := max_le (by norm_num) (le_trans (min_le_right _ _) hcur)
    exact le_trans this h2
  have heq : bisectPass toyOps negCs 0 negTs [1] cur pw (1/5) =
      .ok (pw.set 1 (clampV negCs 0 (pymin 20 cur)),
        1/5 + (pymax 0 (pymin (pymin (pymin 5 5) (clampV negCs 0 (pymin 20 cur))) (((1 : ℚ) - 1/5) * 10))) / 10) := rfl
  refine ⟨_, _, heq, ?_⟩
  simp only [pymin_eq, pymax_eq] at hp ⊢
  have h1 : min (min (min 5 5) (clampV negCs 0 (min 20 cur))) (((1 : ℚ) - 1 / 5) * 10) ≤ 3 :=
    le_trans (min_le_left _ _) (le_trans (min_le_right _ _) hp)
  have h2 : max (0 : ℚ) (min (min (min 5 5) (clampV negCs 0 (min 20 cur))) (((1 : ℚ) - 1 / 5) * 10)) ≤ 3 :=
    max_le (by norm_num) h1
  linarith

/-- **The power bisection at this station never ends**: for every amount of fuel the model answers `FUEL`, i.e. the
Python loop `while not safe or max_power - min_power > self.EPS` runs for ever (`safe` stays `False`; once the
bracket is at most `EPS` wide it evaluates `cur_power = max_power = 3` again and again). -/
theorem neg_bisect_diverges (eps : ℚ) :
    ∀ (fuel : Nat) (minP : ℚ) (pw : List ℚ) (sim : ℚ), minP ≤ 3 →
      bisect toyOps eps negCs 0 negTs [1] (1/5) (3/5) fuel minP 3 false pw sim = .error .fuel := by
  intro fuel
  induction fuel with
  | zero => intro minP pw sim _; rfl
  | succ n ih =>
    intro minP pw sim hmin
    unfold bisect
    rw [if_pos (by simp)]
    have hset : toyOps.setSoc sim (1/5) = (1/5 : ℚ) := rfl
    simp only [hset]
    have hcur : (if 3 - minP ≤ eps then (3 : ℚ) else (3 + minP) / ((2 : Nat) : ℚ)) ≤ 3 := by
      split
      · exact le_refl _
      · have : ((2 : Nat) : ℚ) = 2 := by norm_num
        rw [this]; linarith
    obtain ⟨pw', sm, hpass, hsm⟩ := neg_pass_short _ hcur pw
    simp only [bind, Except.bind, hpass]
    have hsoc : toyOps.soc sm = sm := rfl
    have hshort : decide ((3 / 5 : ℚ) ≤ toyOps.soc sm) = false := by
      rw [hsoc]; simp only [decide_eq_false_iff_not, not_le]; linarith
    simp only [hshort, Bool.not_false, if_true]
    exact ih _ pw' sm hcur


/-! ### the same inside a whole step: two vehicles at one station -/

/-- one 3 kW station shared by a V2G vehicle "a" (full, discharges 3 kW now, at the highest price) and a vehicle "b"
(SoC 0.2, wants 0.6) planned after it -/
def shareCs : StationS ℚ := ⟨"CS1", "GC", 3, 0, 0⟩
def shareGc : GcS ℚ := ⟨"GC", 20, some (.fixed (1/2)), [("load", 4)]⟩
def shareVehA : VehicleS ℚ ℚ := ⟨"a", some "CS1", 1/2, some (2 * hourUs), 0, true, 1/2, 1⟩
def shareVehB : VehicleS ℚ ℚ := ⟨"b", some "CS1", 3/5, some (2 * hourUs), 0, false, 1/2, 1/5⟩
def shareWorld : SWorld ℚ ℚ := ⟨[shareGc], [shareCs], [shareVehA, shareVehB], []⟩

/-! ### an inert battery (never takes or gives energy): satisfies every contract, for non-vacuity of the assumption
`UpperSafeAt` at stations with negative `current_power` -/

def inertOps : Ops ℚ ℚ where
  soc b := b
  capacity _ := 10
  efficiency _ := 1
  unloadMaxPower _ := 5
  load b _ _ _ := .ok (b, 0)
  unload b _ _ _ := .ok (b, 0)
  available _ := .ok 0
  setSoc _ s := s
  sum l := l.foldl (· + ·) 0

theorem inertNoFuel : NoFuel inertOps := ⟨fun _ _ _ _ => by simp [inertOps], fun _ _ _ _ => by simp [inertOps]⟩

theorem inertLaw : BatLaw inertOps.toBatOps where
  load_max := by
    intro b p b' avg h
    simp only [inertOps, Except.ok.injEq, Prod.mk.injEq] at h
    obtain ⟨_, rfl⟩ := h
    exact ⟨le_refl _, le_max_right _ _⟩
  load_target := by
    intro b p b' avg h
    simp only [inertOps, Except.ok.injEq, Prod.mk.injEq] at h
    obtain ⟨_, rfl⟩ := h
    exact ⟨le_refl _, le_max_right _ _⟩
  unload_max := by
    intro b p ts b' avg h
    simp only [inertOps, Except.ok.injEq, Prod.mk.injEq] at h
    obtain ⟨_, rfl⟩ := h
    exact ⟨le_refl _, le_max_right _ _⟩
  unload_target := by
    intro b x b' avg h
    simp only [inertOps, Except.ok.injEq, Prod.mk.injEq] at h
    obtain ⟨_, rfl⟩ := h
    exact ⟨le_refl _, le_max_right _ _⟩
  available_nonneg := by
    intro b a h
    simp only [inertOps, Except.ok.injEq] at h
    subst h
    exact le_refl _

theorem inertSim : SimLaw inertOps (fun _ _ => True) where
  refl := fun _ => trivial
  load := fun _ _ _ _ _ _ _ _ _ => trivial
  unload := fun _ _ _ _ _ _ _ _ _ => trivial
  setSoc := fun _ _ _ _ => trivial
  restore := fun _ _ _ => rfl

theorem inertDom : DomLaw inertOps (fun _ _ => True) where
  dom := by
    intro b s1 s2 p1 p2 s1' a1 s2' a2 _ _ hle _ h1 h2
    simp only [inertOps, Except.ok.injEq, Prod.mk.injEq] at h1 h2 hle ⊢
    obtain ⟨rfl, _⟩ := h1
    obtain ⟨rfl, _⟩ := h2
    exact hle

theorem inert_upperSafe (s : StationS ℚ) : UpperSafeAt inertOps s := by
  intro vmin ts same b0 pwN pwN' sN' pwB pwB' sB' hn hb
  have h1 : sN' = b0 := by
    unfold naivePass at hn
    refine foldlM_inv _ (fun st : List ℚ × ℚ => st.2 = b0) ?_ same (pwN, b0) (pwN', sN') rfl hn
    intro st i st' hs hstep
    simp only [bind, Except.bind] at hstep
    split at hstep
    · cases hstep
    · simp only [inertOps, pure, Except.pure, Except.ok.injEq] at hstep
      subst hstep
      exact hs
  have h2 : sB' = b0 := by
    unfold bisectPass at hb
    refine foldlM_inv _ (fun st : List ℚ × ℚ => st.2 = b0) ?_ same (pwB, b0) (pwB', sB') rfl hb
    intro st i st' hs hstep
    simp only [bind, Except.bind] at hstep
    split at hstep
    · cases hstep
    · simp only [inertOps, pure, Except.pure, Except.ok.injEq] at hstep
      subst hstep
      exact hs
  rw [h1, h2]

end SpiceEv.BalancedMarket.Total
