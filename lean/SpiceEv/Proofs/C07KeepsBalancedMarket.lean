/-
C07 — frame of the `balanced_market` strategy's own step (`BalancedMarket.step`, `BalancedMarket.stepGc`,
Model/StratBalancedMarket.lean) with respect to the state that events set on a grid connector: the invariant
`Keeps.Inv S gcs0` (Proofs/C07Keeps.lean) is threaded through every function of the model that returns / updates a
world or a connector record.  Purely structural, instance-free (the typeclass context is the one of the model's
section: plain operations, no algebraic / order axioms), no extra hypotheses.

The per-connector accumulator `GSt` carries the connector record `gc` next to the world `w` (written back with
`g.w.setGc g.gc` at the end of `stepGc`): its invariant is `GInv` = `Inv S gcs0 g.w ∧ gcKey S g.gc ∈ gcs0.map (gcKey S)`.
The per-vehicle planning state `VSt` carries the connector record and the vehicle's station record; every booking is
`VSt.book` = `gc.addLoad st.cs.id avg`, the key is the id of the carried station record, which is the record found by
`g.w.station? csId` (a member of `w.stations`, so its id is in `S`) and is only ever updated in `currentPower`.  Its
invariant is `VInv` = `S st.cs.id = true ∧ gcKey S st.gc ∈ gcs0.map (gcKey S)`.

Covered (one lemma each): `VSt.book`, `chargeLoop`, `applyV2g`, `v2gLoop` (for `VInv`); `vehicleBody`, `surplusBody`,
`batteryBody` (for `GInv`); `stepGc`, `step` (for `Inv`).
(`timestepsOf`, `buildTimesteps`, `peekEvents`, `sortedTs`, `simulate`, `naivePass`, `bisectPass`, `bisect`, `samePrice`,
`compStep`, `updateTimesteps`, `numCheap`, `batNaive`, `batPass`, `batBisect`, `capTs`, `vehiclesAt`, `sortVehicles`
return numbers / plans / battery values / names only.  The future events are read from `env`, never returned.)
-/
import SpiceEv.Proofs.C07Keeps
import SpiceEv.Model.StratBalancedMarket
set_option linter.unusedSectionVars false
set_option linter.unusedSimpArgs false
set_option linter.unusedVariables false
namespace SpiceEv
namespace Keeps
namespace BalancedMarket
open SpiceEv.BalancedMarket

variable {α B : Type} [Add α] [Sub α] [Mul α] [Div α] [Neg α] [LT α] [LE α]
  [DecidableLT α] [DecidableLE α] [OfNat α 0] [OfNat α 1] [NatCast α] [IntCast α]
variable {S : String → Bool} {gcs0 : List (GcS α)}

/-! ### the per-vehicle planning state -/

/-- the station record carried by the planning state has a name in `S`; the connector record carries the key of a
connector before the step -/
def VInv (S : String → Bool) (gcs0 : List (GcS α)) (st : VSt α B) : Prop :=
  S st.cs.id = true ∧ gcKey S st.gc ∈ gcs0.map (gcKey S)

theorem VInv.book {st : VSt α B} (h : VInv S gcs0 st) (a : α) : VInv S gcs0 (st.book a) := by
  refine ⟨h.1, ?_⟩
  show gcKey S (st.gc.addLoad st.cs.id a).1 ∈ _
  rw [gcKey_addLoad S st.gc st.cs.id a h.1]; exact h.2

theorem chargeLoop_inv (ops : Ops α B) (env : Env α) (v : VehicleS α B) (ts : List (TS α))
    (sorted : List (α × Nat)) :
    ∀ (fuel : Nat) (st st' : VSt α B), VInv S gcs0 st → chargeLoop ops env v ts sorted fuel st = .ok st' →
      VInv S gcs0 st' := by
  intro fuel
  induction fuel with
  | zero => intro st st' _ h; simp [chargeLoop] at h
  | succ n ih =>
    intro st st' hi h
    unfold chargeLoop at h
    split at h
    · simp only [Except.ok.injEq] at h; subst h; exact hi
    · rename_i cost startIdx hsorted
      simp only at h
      generalize ((if cost < env.priceThreshold then 1 else v.desiredSoc) - env.eps) = desired at h
      split at h
      · simp only [Except.ok.injEq] at h; subst h; exact ⟨hi.1, hi.2⟩
      · simp only [bind, Except.bind] at h
        split at h
        · cases h
        · rename_i r1 hr1
          obtain ⟨pw1, sm1⟩ := r1
          simp only at h
          split at h
          · cases h
          · rename_i r2 hr2
            obtain ⟨pw2, sm2⟩ := r2
            simp only at h
            split at h
            · cases h
            · rename_i p0 hp0
              split at h
              · split at h
                · cases h
                · rename_i r3 hr3
                  obtain ⟨bat', avg⟩ := r3
                  simp only [Except.ok.injEq] at h
                  subst h
                  refine VInv.book ?_ avg
                  exact ⟨hi.1, hi.2⟩
              · refine ih _ st' ?_ h
                exact ⟨hi.1, hi.2⟩

theorem applyV2g_inv (ops : Ops α B) (v : VehicleS α B) (st st' : VSt α B) (sp : α)
    (hi : VInv S gcs0 st) (h : applyV2g ops v st sp = .ok st') : VInv S gcs0 st' := by
  unfold applyV2g at h
  split at h
  · simp only [bind, Except.bind] at h
    split at h
    · cases h
    · rename_i r hr
      obtain ⟨bat', avg⟩ := r
      simp only [Except.ok.injEq] at h; subst h
      refine VInv.book ?_ avg
      exact ⟨hi.1, hi.2⟩
  · split at h
    · simp only [bind, Except.bind] at h
      split at h
      · cases h
      · rename_i r hr
        obtain ⟨bat', out⟩ := r
        simp only [Except.ok.injEq] at h; subst h
        refine VInv.book ?_ (-out)
        exact ⟨hi.1, hi.2⟩
    · simp only [Except.ok.injEq] at h; subst h
      exact hi.book 0

theorem v2gLoop_inv (ops : Ops α B) (env : Env α) (v : VehicleS α B) (ts : List (TS α))
    (sorted : List (α × Nat)) :
    ∀ (k : Nat) (st st' : VSt α B), VInv S gcs0 st → v2gLoop ops env v ts sorted k st = .ok st' →
      VInv S gcs0 st' := by
  intro k
  induction k with
  | zero =>
    intro st st' hi h; simp only [v2gLoop, Except.ok.injEq] at h; subst h; exact hi
  | succ k ih =>
    intro st st' hi h
    unfold v2gLoop at h
    split at h
    · simp only [Except.ok.injEq] at h; subst h; exact hi
    · simp only [bind, Except.bind] at h
      split at h
      · cases h
      · rename_i r hr
        obtain ⟨v2gCost, v2gTs⟩ := r
        simp only at h
        split at h
        · simp only [Except.ok.injEq] at h; subst h; exact hi
        · split at h
          · cases h
          · split at h
            · cases h
            · split at h
              · cases h
              · rename_i c hc
                split at h
                · refine applyV2g_inv ops v _ st' _ ?_ h
                  split <;> exact ⟨hi.1, hi.2⟩
                · refine ih _ st' ?_ h
                  split <;> exact ⟨hi.1, hi.2⟩

/-! ### the accumulator of `step_gc` -/

/-- the invariant of the accumulator: the world satisfies `Inv`, the carried connector record carries the key of a
connector before the step -/
def GInv (S : String → Bool) (gcs0 : List (GcS α)) (g : GSt α B) : Prop :=
  Inv S gcs0 g.w ∧ gcKey S g.gc ∈ gcs0.map (gcKey S)

theorem vehicleBody_inv (ops : Ops α B) (env : Env α) (g g' : GSt α B) (vid : String)
    (hi : GInv S gcs0 g) (h : vehicleBody ops env g vid = .ok g') : GInv S gcs0 g' := by
  unfold vehicleBody at h
  split at h
  · cases h
  · rename_i v hv
    split at h
    · cases h
    · rename_i csId hcs
      split at h
      · cases h
      · rename_i cs hst
        have hSid : S cs.id = true := hi.1.st cs (mem_of_find? hst)
        split at h
        · cases h
        · simp only [bind, Except.bind] at h
          split at h
          · cases h
          · rename_i sorted hsorted
            split at h
            · cases h
            · rename_i st1 hch
              have i1 : VInv S gcs0 st1 := chargeLoop_inv ops env v g.ts sorted _ _ st1 ⟨hSid, hi.2⟩ hch
              split at h
              · cases h
              · rename_i st2 hv2g
                have i2 : VInv S gcs0 st2 := by
                  split at hv2g
                  · exact v2gLoop_inv ops env v g.ts sorted _ st1 st2 i1 hv2g
                  · simp only [pure, Except.pure, Except.ok.injEq] at hv2g
                    subst hv2g
                    exact i1
                split at h
                · cases h
                · simp only [Except.ok.injEq] at h
                  subst h
                  exact ⟨(hi.1.setVehicle _).setStation _ i2.1, i2.2⟩

theorem surplusBody_inv (ops : Ops α B) (env : Env α) (g g' : GSt α B) (vid : String)
    (hi : GInv S gcs0 g) (h : surplusBody ops env g vid = .ok g') : GInv S gcs0 g' := by
  unfold surplusBody at h
  split at h
  · cases h
  · rename_i v hv
    split at h
    · cases h
    · rename_i csId hcs
      split at h
      · cases h
      · rename_i cs hst
        have hS : S csId = true := hi.1.S_of_station? hst
        have hSid : S cs.id = true := hi.1.st cs (mem_of_find? hst)
        simp only at h
        split at h
        · simp only [bind, Except.bind] at h
          split at h
          · cases h
          · rename_i r hr
            obtain ⟨bat', avg⟩ := r
            simp only [Except.ok.injEq] at h
            subst h
            refine ⟨(hi.1.setVehicle _).setStation _ hSid, ?_⟩
            show gcKey S (g.gc.addLoad csId avg).1 ∈ _
            rw [gcKey_addLoad S g.gc csId avg hS]; exact hi.2
        · simp only [Except.ok.injEq] at h
          subst h; exact hi

theorem batteryBody_inv (ops : Ops α B) (env : Env α) (nCheap : Option Nat) (g g' : GSt α B) (bid : String)
    (hi : GInv S gcs0 g) (h : batteryBody ops env nCheap g bid = .ok g') : GInv S gcs0 g' := by
  unfold batteryBody at h
  split at h
  · cases h
  · rename_i b hb
    have hbid : b.id = bid := id_of_find? (idf := fun (x : StatBatS α B) => x.id) hb
    have hSb : S b.id = true := hi.1.S_of_battery (mem_of_find? hb)
    have hS : S bid = true := by rw [← hbid]; exact hSb
    split at h
    · simp only [Except.ok.injEq] at h; subst h; exact hi
    · split at h
      · cases h
      · rename_i n
        simp only [bind, Except.bind] at h
        split at h
        · cases h
        · rename_i r1 hr1
          obtain ⟨bat1', bp1⟩ := r1
          simp only at h
          split at h
          · cases h
          · rename_i r2 hr2
            obtain ⟨bat2', bp2⟩ := r2
            simp only at h
            split at h
            · cases h
            · rename_i r3 hr3
              obtain ⟨bat3, avg⟩ := r3
              simp only at h
              have k1 : gcKey S (g.gc.addLoad bid avg).1 ∈ gcs0.map (gcKey S) := by
                rw [gcKey_addLoad S g.gc bid avg hS]; exact hi.2
              split at h
              · split at h
                · cases h
                · rename_i r4 hr4
                  obtain ⟨bat4, out⟩ := r4
                  simp only [Except.ok.injEq] at h
                  subst h
                  refine ⟨hi.1.setBattery _ hSb, ?_⟩
                  show gcKey S ((g.gc.addLoad bid avg).1.addLoad bid (-out)).1 ∈ _
                  rw [gcKey_addLoad S _ bid (-out) hS]; exact k1
              · simp only [Except.ok.injEq] at h
                subst h
                exact ⟨hi.1.setBattery _ hSb, k1⟩

/-! ### `step_gc`, `step` -/

/-- **balanced_market, one connector.**  `step_gc` keeps the invariant. -/
theorem stepGc_inv (ops : BalancedMarket.Ops α B) (env : BalancedMarket.Env α) (w w' : SWorld α B) (gcId : String)
    (cmds : List (String × α)) (hi : Inv S gcs0 w)
    (h : BalancedMarket.stepGc ops env w gcId = .ok (w', cmds)) : Inv S gcs0 w' := by
  unfold stepGc at h
  split at h
  · cases h
  · rename_i gc hgc
    simp only [bind, Except.bind] at h
    split at h
    · cases h
    · split at h
      · cases h
      · rename_i vids hvids
        split at h
        · cases h
        · rename_i ts hts
          split at h
          · cases h
          · rename_i g1 hg1
            split at h
            · cases h
            · rename_i g2 hg2
              split at h
              · cases h
              · rename_i nCheap hn
                split at h
                · cases h
                · rename_i g3 hg3
                  simp only [Except.ok.injEq, Prod.mk.injEq] at h
                  obtain ⟨rfl, -⟩ := h
                  have h0 : GInv S gcs0 (⟨w, gc, ts, [], []⟩ : GSt α B) := ⟨hi, hi.key_of_gc? hgc⟩
                  have h1 : GInv S gcs0 g1 := foldlM_inv _ (fun g => GInv S gcs0 g)
                    (fun g vid g' hg hstep => vehicleBody_inv ops env g g' vid hg hstep) vids _ g1 h0 hg1
                  have h2 : GInv S gcs0 g2 := foldlM_inv _ (fun g => GInv S gcs0 g)
                    (fun g vid g' hg hstep => surplusBody_inv ops env g g' vid hg hstep) vids _ g2 h1 hg2
                  have h3 : GInv S gcs0 g3 := foldlM_inv _ (fun g => GInv S gcs0 g)
                    (fun g bid g' hg hstep => batteryBody_inv ops env nCheap g g' bid hg hstep) _ _ g3 h2 hg3
                  exact h3.1.setGc _ h3.2

/-- **balanced_market.**  The step keeps the invariant: ids, limits, costs and non-station entries of the connectors. -/
theorem step_inv (ops : BalancedMarket.Ops α B) (env : BalancedMarket.Env α) (w w' : SWorld α B)
    (cmds : List (String × α)) (hi : Inv S gcs0 w)
    (h : BalancedMarket.step ops env w = .ok (w', cmds)) : Inv S gcs0 w' := by
  unfold BalancedMarket.step at h
  refine foldlM_inv _ (fun (st : SWorld α B × List (String × α)) => Inv S gcs0 st.1) ?_ _ _ (w', cmds)
    hi.resetStations h
  intro st gid st' hst hf
  simp only [bind, Except.bind] at hf
  split at hf
  · cases hf
  · rename_i r hr
    obtain ⟨w1, c1⟩ := r
    simp only [pure, Except.pure, Except.ok.injEq] at hf
    subst hf
    exact stepGc_inv ops env st.1 w1 gid c1 hst hr

theorem step_keeps (ops : BalancedMarket.Ops α B) (env : BalancedMarket.Env α) (w w' : SWorld α B)
    (cmds : List (String × α)) (h : BalancedMarket.step ops env w = .ok (w', cmds)) :
    GcKeeps (sbName w) w.gcs w'.gcs :=
  (step_inv ops env w w' cmds (Inv.init w) h).keeps

end BalancedMarket
end Keeps
end SpiceEv
