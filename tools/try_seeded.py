#!/usr/bin/env python3
"""tools/try_seeded.py <property id> <out dir of the seeding agent> [n ...]
Confirms a seeded change in a scratch worktree (demo exit 0 unchanged / exit 1 changed, full suite passes with it),
then applies it to /repo, runs the registered quick check(s), undoes it, and stores everything under
/verif/seeded/<pid>-<n>/ (patch.diff, demo.py, meta.json)."""
import json
import os
import shutil
import subprocess
import sys
import time

VERIF = os.path.dirname(os.path.dirname(os.path.abspath(__file__)))
PY = "/venv/bin/python"


def sh(cmd, cwd=None, timeout=3600, env=None):
    p = subprocess.run(cmd, shell=True, cwd=cwd, capture_output=True, text=True, timeout=timeout, env=env)
    return p.returncode, p.stdout + p.stderr


def main():
    pid, out = sys.argv[1], sys.argv[2]
    ns = sys.argv[3:] or sorted(d for d in os.listdir(out) if os.path.isdir(os.path.join(out, d)))
    checks = os.environ.get("CHECKS", pid).split(",")
    skip_suite = os.environ.get("SKIP_SUITE") == "1"
    wt = "/tmp/seedwt_%s" % pid
    sh("git -C /repo worktree remove --force %s" % wt)
    rc, o = sh("git -C /repo worktree add --detach %s HEAD" % wt)
    assert rc == 0, o
    try:
        for n in ns:
            d = os.path.join(out, n)
            patch, demo = os.path.join(d, "patch.diff"), os.path.join(d, "demo.py")
            meta = json.load(open(os.path.join(d, "meta.json")))
            res = {"property": pid, "agent_meta": meta, "ran": []}
            rc0, o0 = sh("%s %s %s" % (PY, demo, wt), cwd=wt, timeout=600)
            res["demo_unchanged_exit"] = rc0
            rca, oa = sh("git apply %s" % patch, cwd=wt)
            if rca != 0:
                res["apply_failed"] = oa[-500:]
                print(pid, n, "PATCH DOES NOT APPLY", oa[-300:])
                continue
            rc1, o1 = sh("%s %s %s" % (PY, demo, wt), cwd=wt, timeout=600)
            res["demo_changed_exit"] = rc1
            res["demo_changed_output"] = o1[-600:]
            if not skip_suite:
                rcs, os_ = sh("%s -m pytest -q -p no:cacheprovider --timeout=900 -x" % PY, cwd=wt, timeout=1800)
                res["suite_exit_with_change"] = rcs
                res["suite_tail"] = os_.strip().split("\n")[-1]
            sh("git checkout -- .", cwd=wt)
            confirmed = rc0 == 0 and rc1 != 0 and (skip_suite or res["suite_exit_with_change"] == 0)
            res["confirmed"] = confirmed
            # run the checks against /repo with the change applied
            st, _ = sh("git -C /repo status --porcelain --untracked-files=no")
            assert _.strip() == "", "/repo is not clean: " + _
            rca, oa = sh("git -C /repo apply %s" % patch)
            assert rca == 0, oa
            try:
                for c in checks:
                    t0 = time.time()
                    rcc, oc = sh("./check %s --tier quick" % c, cwd=VERIF, timeout=3600,
                                 env=dict(os.environ, VERIF_SEED=os.environ.get("VERIF_SEED", "0")))
                    lines = [l for l in oc.split("\n") if l.startswith("VIOLATION") or l.startswith("HARNESS")]
                    res["ran"].append({"check": c, "exit": rcc, "violation_lines": lines[:6],
                                       "wall_s": round(time.time() - t0, 1), "tail": oc.strip().split("\n")[-1][:300]})
                    # keep the replay files of this run
                    for l in lines:
                        if "replay=" in l:
                            rp = l.split("replay=")[1].split()[0]
                            if os.path.exists(rp):
                                dst = os.path.join(VERIF, "seeded", "%s-%s%s" % (pid, os.environ.get("SUFFIX", ""), n))
                                os.makedirs(dst, exist_ok=True)
                                shutil.copy(rp, os.path.join(dst, "replay-" + os.path.basename(rp)))
            finally:
                sh("git -C /repo checkout -- .")
            detected = [r["check"] for r in res["ran"] if r["exit"] == 1 and r["violation_lines"]]
            res["detected_by"] = detected
            dst = os.path.join(VERIF, "seeded", "%s-%s%s" % (pid, os.environ.get("SUFFIX", ""), n))
            os.makedirs(dst, exist_ok=True)
            shutil.copy(patch, os.path.join(dst, "patch.diff"))
            shutil.copy(demo, os.path.join(dst, "demo.py"))
            json.dump({"breaks_property": pid, "summary": meta.get("summary"), "needs": meta.get("needs"),
                       "confirmed_by_integrator": confirmed, "what_was_run": res}, open(os.path.join(dst, "meta.json"), "w"),
                      indent=1)
            print(pid, n, "confirmed=%s" % confirmed, "detected_by=%s" % detected,
                  [(r["check"], r["exit"], r["wall_s"]) for r in res["ran"]])
            for r in res["ran"]:
                for l in r["violation_lines"][:3]:
                    print("    ", l[:200])
    finally:
        sh("git -C /repo worktree remove --force %s" % wt)


if __name__ == "__main__":
    main()
