/-
C04 (grid-connector power limit) for the charging strategy `schedule`
(spice_ev/strategies/schedule.py, model: Model/StratSchedule.lean).
-/
import SpiceEv.Proofs.StratSchedule
set_option linter.unusedSectionVars false
namespace SpiceEv
open SpiceEv.Sched
variable {α B : Type} [Field α] [LinearOrder α] [IsStrictOrderedRing α]

/-- **schedule (individual) never breaks the connector limit, in either direction.**
For any battery obeying `Sched.Law` (0 ≤ average power ≤ requested power — C01/C02), any number of
connectors, stations, vehicles and stationary batteries, any future events, schedules and targets:
if before the strategy step every connector's load (fixed load − generation) is within
`± cur_max_power`, then after the whole `Schedule.step` in the `individual` sub-strategy
(`charge_individually` with its look-ahead and additional power, then
`utilize_stationary_batteries`) it still is.  No well-formedness hypothesis is needed. -/
theorem C04_schedule_individual_limit (ops : Ops α B) (law : Law ops) (env : Env α)
    (heps : 0 ≤ env.eps) (hc : env.collective = false) (w w' : SWorld α B) (st st' : CState α)
    (cmds : List (String × α))
    (h0 : ∀ g ∈ w.gcs, -g.curMax ≤ g.currentLoad ∧ g.currentLoad ≤ g.curMax)
    (h : step ops env w st = .ok (w', st', cmds)) :
    ∀ g ∈ w'.gcs, -g.curMax ≤ g.currentLoad ∧ g.currentLoad ≤ g.curMax := by
  obtain ⟨w1, h1, h2, _⟩ := step_individual_ok ops env hc w w' st st' cmds h
  have hw0 : Within (resetStations w) := by intro g hg; exact h0 g (by simpa using hg)
  have hw1 := chargeIndividually_within ops law env _ w1 cmds hw0 h1
  exact utilizeBatteries_within ops law env heps w1 w' hw1 h2

/-- Non-vacuity: the example world satisfies the hypothesis, the step succeeds, the vehicle gets
3 kW schedule + 3 kW additional power found by the bisection (the connector is driven to its limit
of 10 kW up to the bisection's tolerance) and the stationary battery then brings the connector back to its 6 kW target. -/
example :
    (∀ g ∈ exWorld.gcs, -g.curMax ≤ g.currentLoad ∧ g.currentLoad ≤ g.curMax) ∧
    (match step toyOps exEnv exWorld exState with
     | .ok r => r.2.2.map (·.1) == ["CS1"] && r.2.2.all (fun kv => decide (kv.2 ≤ 6 ∧ 6 - 1/1000 ≤ kv.2)) &&
         r.1.gcs.all (fun g => decide (g.currentLoad ≤ 6 + 1/1000 ∧ 6 - 1/1000 ≤ g.currentLoad))
     | .error _ => false) = true := by
  refine ⟨?_, by decide +kernel⟩
  intro g hg
  simp only [exWorld, List.mem_singleton] at hg
  subst hg
  simp only [GcS.currentLoad, List.foldl]
  norm_num

/-- **schedule (collective) never breaks the connector limit outside the core standing time.**
For any battery obeying `Sched.Law`, any world: when the current time is outside the core standing
time, `Schedule.step` in the `collective` sub-strategy — `charge_vehicles` (surplus from local
generation only), `charge_vehicles_after_core_standing_time` if `overcharge_necessary` is set
(balanced charging off schedule; every vehicle is offered at most `cur_max_power − current load`),
then `utilize_stationary_batteries` — keeps every connector within `± cur_max_power`. -/
theorem C04_schedule_collective_outside_core (ops : Ops α B) (law : Law ops) (env : Env α)
    (heps : 0 ≤ env.eps) (hc : env.collective = true)
    (hout : dtWithinCoreStandingTime env.now env.cst = .ok false)
    (w w' : SWorld α B) (st st' : CState α) (cmds : List (String × α))
    (h0 : ∀ g ∈ w.gcs, -g.curMax ≤ g.currentLoad ∧ g.currentLoad ≤ g.curMax)
    (h : step ops env w st = .ok (w', st', cmds)) :
    ∀ g ∈ w'.gcs, -g.curMax ≤ g.currentLoad ∧ g.currentLoad ≤ g.curMax :=
  step_collective_outside_within ops law env heps hc hout w w' st st' cmds h0 h

/-- **schedule (collective) inside the core standing time — partial.**
The limit holds for the step inside the core standing time PROVIDED that
(1) the on-schedule branch is taken: the power the evaluation allotted to this timestep
    (`power_for_vehicles_per_TS[0]`, after `evaluate_core_standing_time_ahead` if this is the first
    step of the standing time) is at least `EPS`;
(2) the scheduled target plus the battery power reserved for vehicles fits under the limit:
    `gc.target + max(bat_power_for_vehicles, 0) ≤ cur_max_power`;
(3) no vehicle is V2G-capable (the V2G pass is skipped);
and the world has exactly one connector (asserted by the class for this sub-strategy).
What is excluded is exactly where the unchanged code does exceed the limit (known finding
`C04:strategy_breaks_limit:schedule:draw:vehicles`, see the witnesses below and notes/S_SCHEDULE.md):
the excess branch charges the vehicles that are expected to fall short with a power that is never
compared with the connector headroom; with a target above the currently valid limit the vehicles
are given the target; the V2G pass bounds its power by `|target − load|`, not by the limit. -/
theorem C04_schedule_collective_core_partial (ops : Ops α B) (law : Law ops) (env : Env α)
    (heps : 0 ≤ env.eps) (hc : env.collective = true)
    (hin : dtWithinCoreStandingTime env.now env.cst = .ok true)
    (w w' : SWorld α B) (st st1 st' : CState α) (cmds : List (String × α)) (g0 : GcS α)
    (p : α) (rest : List α)
    (hst1 : (st.inCst = true ∧ st1 = st) ∨
      (st.inCst = false ∧ evaluate ops env (resetStations w) st = .ok st1))
    (hp : st1.powerPerTS = p :: rest) (hpe : ¬ p < env.eps)
    (hg : w.gcs = [g0]) (hn : ∀ v ∈ w.vehicles, v.v2g = false)
    (hT : ∀ x target, getGx env g0.id = .ok x → x.target = some target →
      target + max st1.batPower 0 ≤ g0.curMax)
    (h0 : ∀ g ∈ w.gcs, -g.curMax ≤ g.currentLoad ∧ g.currentLoad ≤ g.curMax)
    (h : step ops env w st = .ok (w', st', cmds)) :
    ∀ g ∈ w'.gcs, -g.curMax ≤ g.currentLoad ∧ g.currentLoad ≤ g.curMax :=
  step_collective_core_within ops law env heps hc hin w w' st st1 st' cmds g0 p rest hst1 hp hpe hg hn
    hT h0 h

/-- **schedule (collective) inside the core standing time, draw direction, V2G allowed — partial.**
Same as `C04_schedule_collective_core_partial` without hypothesis (3): with V2G-capable vehicles (the
V2G pass runs after the scheduled charging: charge windows bounded by `max(0, target − load)`,
discharge windows only lower the load) the connector's load still does not exceed `cur_max_power`
PROVIDED (1) the on-schedule branch is taken and (2) `target + max(bat_power_for_vehicles, 0) ≤
cur_max_power`.  So in the draw direction the unchanged code exceeds the limit inside the core
standing time only through the excess branch or a target above the limit (mechanisms A and B of
notes/S_SCHEDULE.md).  Not claimed: the feed-in bound `−cur_max_power ≤ load` with V2G vehicles — in a
discharge window the pass lets a vehicle feed in `|target − load|`. -/
theorem C04_schedule_collective_core_draw_partial (ops : Ops α B) (law : Law ops) (env : Env α)
    (heps : 0 ≤ env.eps) (hc : env.collective = true)
    (hin : dtWithinCoreStandingTime env.now env.cst = .ok true)
    (w w' : SWorld α B) (st st1 st' : CState α) (cmds : List (String × α)) (g0 : GcS α)
    (p : α) (rest : List α)
    (hst1 : (st.inCst = true ∧ st1 = st) ∨
      (st.inCst = false ∧ evaluate ops env (resetStations w) st = .ok st1))
    (hp : st1.powerPerTS = p :: rest) (hpe : ¬ p < env.eps)
    (hg : w.gcs = [g0])
    (hT : ∀ x target, getGx env g0.id = .ok x → x.target = some target →
      target + max st1.batPower 0 ≤ g0.curMax)
    (h0 : ∀ g ∈ w.gcs, -g.curMax ≤ g.currentLoad ∧ g.currentLoad ≤ g.curMax)
    (h : step ops env w st = .ok (w', st', cmds)) :
    ∀ g ∈ w'.gcs, g.currentLoad ≤ g.curMax :=
  step_collective_core_upper ops law env heps hc hin w w' st st1 st' cmds g0 p rest hst1 hp hpe hg hT h0 h

/-- Non-vacuity with a V2G vehicle: target 6 kW, a V2G-capable vehicle above its desired SoC in a
charge window; the V2G pass runs (the vehicle is charged towards the target) and the connector ends
at most at its 10 kW limit, above its 4 kW fixed load. -/
example :
    (match step toyOps (exEnvC 6) exWorldV2G ⟨true, false, [2, 2], [true, true], 4, [("v1", 0)], [("v1", 0)], 0⟩ with
     | .ok r => r.1.gcs.all (fun g => decide (g.currentLoad ≤ g.curMax ∧ 4 < g.currentLoad)) &&
                r.1.vehicles.any (·.v2g)
     | .error _ => false) = true := by decide +kernel

/-- Non-vacuity of the partial theorem: target 6 kW ≤ limit 10 kW, 8 kW … here 2 kW allotted
(6 − 4 kW fixed load); the step succeeds and the connector ends at its 6 kW target. -/
example :
    (match step toyOps (exEnvC 6) exWorldC ⟨true, false, [2, 2], [true, true], 4, [("v1", 12)], [("v1", 0)], 0⟩ with
     | .ok r => r.1.gcs.all (fun g => decide (g.currentLoad ≤ 6 ∧ 6 - 1/1000 ≤ g.currentLoad))
     | .error _ => false) = true := by decide +kernel

/-- **Witness (excess branch): hypothesis (1) cannot be dropped.**  Fixed load 4 kW on a 10 kW
connector, target 4 kW, nothing allotted to the first hour of the standing time, the vehicle is
expected to fall short by 0.3 SoC: `charge_vehicles_during_core_standing_time` charges it with the
balanced power for the time outside the schedule (≈ 11 kW, its station maximum) and the connector
ends at about 15 kW > 10 kW although the load before the step (4 kW) respected the limit. -/
example :
    (∀ g ∈ exWorldC.gcs, -g.curMax ≤ g.currentLoad ∧ g.currentLoad ≤ g.curMax) ∧
    (match step toyOps (exEnvC 4) exWorldC exStateExcess with
     | .ok r => r.1.gcs.all (fun g => decide (g.curMax + 4 < g.currentLoad))
     | .error _ => false) = true := by
  refine ⟨?_, by decide +kernel⟩
  intro g hg
  simp only [exWorldC, exWorld, List.mem_singleton] at hg
  subst hg
  simp only [GcS.currentLoad, List.foldl]
  norm_num

/-- **Witness (target above the limit): hypothesis (2) cannot be dropped.**  Same world with a
scheduled target of 12 kW on the 10 kW connector: the vehicle is given the 8 kW up to the target
and the connector ends at 12 kW > 10 kW. -/
example :
    (match step toyOps (exEnvC 12) exWorldC exStateTarget with
     | .ok r => r.1.gcs.all (fun g => decide (g.curMax + 1 < g.currentLoad))
     | .error _ => false) = true := by decide +kernel

end SpiceEv
