/-
C07 (vehicle frame) — the `flex_window` strategy's own step (`FlexWindow.step`, Model/StratFlexWindow.lean; Python:
`spice_ev/strategies/flex_window.py`) changes a vehicle only through its battery: id, `connected_charging_station`,
`desired_soc`, `estimated_time_of_departure`, the vehicle-type data and the order of the vehicle ids are kept.
The invariant `KeepsVeh.VInv K ids0` (Proofs/C07KeepsVeh.lean) is threaded through every function of the model that
returns / updates a world; same control flow as Proofs/C07KeepsFlexWindow.lean.  Purely structural, instance-free (the
typeclass context is the one of the model's section), ALL inputs, no extra hypotheses, every `K`, every `ids0`, every
`LOAD_STRAT`.

Where vehicle records are written:
* `balVehicle`, `surplusToVehicles`, `balV2gVehicle`, `psV2gVehicle`: `w.setVehicle { v with bat := _ }` with
  `v = (w.vehicle? v0.id).getD v0` — the current record with the id of `v0`, or `v0` itself; `v0` is a member of the
  list the loop runs over, which is `w.vehicles` or `sortedVehicles (w.vehicles.filter _)` of the world at loop entry
  (`key_curVehicle`, `sortedVehicles_keys`, `foldlM_inv_mem`).
* `distributePeakShavingVehicles`: `{ st.w with vehicles := mergeById st.w.vehicles vs' }`, where `vs'` is the result of
  the FINAL `distributePower` on `vehicles = sortedVehicles (st.w.vehicles.filter _)` (or `vehicles` itself) — the REAL
  vehicles, as in Python (flex_window.py 549-553 on `vehicles`, not on `sim_vehicles = deepcopy(vehicles)`, line 477).
  The look-ahead copies (`psWindowPass`, `psSim`, their `mergeById sim _`) only produce `ciw` and the bisection's
  test and never reach the world.  `distributePower` returns `{ v with bat := _ }` for its input vehicles
  (`distributePower_keys`), `mergeById` keeps the ids of its first argument and takes every record from one of its
  two arguments (`mergeById_ids`, `mergeById_keys`).  The command loop after it only uses `setGc` / `setStation`.
* `distributeSurplus` (Model/Strategies.lean, through `liftPy`): `setVehicle { v with bat := _ }` with `v` found by
  `vehicle?` (`surplusVehicle_vkeeps`, `distributeSurplus_vkeeps`, proved locally here).
* the battery passes (`surplusToBatteries`, `distributeBalancedBatteries`, `distributePeakShavingBatteries`) use
  `setBattery` / `setGc` only.

Lemmas (`…_vkeeps`, all for `VInv K ids0 ·.w`): `balVehicle`, `distributeBalancedVehicles`, `surplusToVehicles`,
`surplusToBatteries`, `balV2gVehicle`, `distributeBalancedV2g`, `distributeBalancedBatteries`, `step_vinv_balanced`;
`distributePower_keys`, `mergeById_ids`, `mergeById_keys`, `distributePeakShavingVehicles`, `psV2gVehicle`,
`distributePeakShavingV2g`, `distributePeakShavingBatteries`, `surplusVehicle`, `distributeSurplus`, `step_vinv_ps`.
Final: `step_vinv`, `step_vkeeps`.  Nothing is missing; no finding (no planning copy with a changed `desired_soc` /
`etd` / `cs` is written to the world; the model changes those attributes nowhere).
-/
import SpiceEv.Proofs.C07KeepsVeh
import SpiceEv.Model.StratFlexWindow
set_option linter.unusedSectionVars false
set_option linter.unusedSimpArgs false
set_option linter.unusedVariables false
namespace SpiceEv
namespace KeepsVeh
namespace FlexWindow
open SpiceEv.FlexWindow

variable {α B : Type} [Add α] [Sub α] [Mul α] [Div α] [Neg α] [LT α] [LE α]
  [DecidableLT α] [DecidableLE α] [OfNat α 0] [OfNat α 1] [NatCast α] [IntCast α]
variable {K : List (String × Option String × α × Option Int × α × Bool × α)} {ids0 : List String}

/-! ### helpers -/

/-- `foldlM` preserves an invariant of the accumulator; the step may use that the item is a member of the list -/
theorem foldlM_inv_mem {σ ι ε : Type} (f : σ → ι → Except ε σ) (P : σ → Prop) :
    ∀ (l : List ι), (∀ s i s', i ∈ l → P s → f s i = .ok s' → P s') →
      ∀ (s s' : σ), P s → l.foldlM f s = .ok s' → P s' := by
  intro l
  induction l with
  | nil => intro _ s s' hs h; simp only [List.foldlM, pure, Except.pure] at h; cases h; exact hs
  | cons x xs ih =>
    intro hf s s' hs h
    simp only [List.foldlM, bind, Except.bind] at h
    split at h
    · cases h
    · rename_i s1 h1
      exact ih (fun s i s' hi => hf s i s' (List.mem_cons_of_mem _ hi)) s1 s' (hf s x s1 (by simp) hs h1) h

/-- the vehicle the loops work on: the current record with the id of `v0`, or `v0` itself -/
theorem key_curVehicle {w : SWorld α B} (hi : VInv K ids0 w) (v0 : VehicleS α B) (h0 : vehKey v0 ∈ K) :
    vehKey ((w.vehicle? v0.id).getD v0) ∈ K := by
  cases hf : w.vehicle? v0.id with
  | none => exact h0
  | some v => exact hi.key_of_vehicle? hf

/-- `vehicle.battery.load; gc.add_load(cs_id, avg); cs.current_power += avg` -/
theorem vinv_vehicleUpdate {w : SWorld α B} (hi : VInv K ids0 w) {v : VehicleS α B} (hv : vehKey v ∈ K) (b : B)
    (g : GcS α) (s : StationS α) :
    VInv K ids0 (((w.setVehicle { v with bat := b }).setGc g).setStation s) :=
  ((hi.setBat hv b).setGc g).setStation s

/-- `sorted([...])` returns members of its argument -/
theorem sortedVehicles_mem {ops : BatOps α B} {strat : LoadStrat} {l vs : List (VehicleS α B)}
    (h : sortedVehicles ops strat l = .ok vs) : ∀ v ∈ vs, v ∈ l := by
  unfold sortedVehicles at h
  dsimp only at h
  repeat' split at h
  all_goals first
    | (simp only [Except.ok.injEq] at h; subst h; intro v hv; exact List.mem_mergeSort.mp hv)
    | cases h

/-- the vehicles a `distribute_*` function iterates over are (copies of) vehicles of the world -/
theorem sortedVehicles_keys {ops : BatOps α B} {strat : LoadStrat} {w : SWorld α B} (hi : VInv K ids0 w)
    {p : VehicleS α B → Bool} {vs : List (VehicleS α B)}
    (h : sortedVehicles ops strat (w.vehicles.filter p) = .ok vs) : ∀ v ∈ vs, vehKey v ∈ K := by
  intro v hv
  exact hi.key_of_mem (List.mem_of_mem_filter (sortedVehicles_mem h v hv))

/-! ### LOAD_STRAT balanced -/

theorem balVehicle_vkeeps (ops : BatOps α B) (env : FEnv α)
    (acc acc' : FState α B × List (String × α) × Option α) (v0 : VehicleS α B) (hv0 : vehKey v0 ∈ K)
    (hi : VInv K ids0 acc.1.w) (h : balVehicle ops env acc v0 = .ok acc') : VInv K ids0 acc'.1.w := by
  have hv := key_curVehicle hi v0 hv0
  unfold balVehicle at h
  simp only [bind, Except.bind] at h
  split at h
  · simp only [Except.ok.injEq] at h; subst h; exact hi
  · split at h
    · cases h
    · rename_i cs hst
      split at h
      · cases h
      · split at h
        · cases h
        · split at h
          · cases h
          · rename_i gc hgc
            split at h
            · cases h
            · split at h
              · cases h
              · simp only [Except.ok.injEq] at h
                subst h
                exact vinv_vehicleUpdate hi hv _ _ _

theorem distributeBalancedVehicles_vkeeps (ops : BatOps α B) (env : FEnv α)
    (st st' : FState α B) (cmds : List (String × α)) (hi : VInv K ids0 st.w)
    (h : distributeBalancedVehicles ops env st = .ok (st', cmds)) : VInv K ids0 st'.w := by
  unfold distributeBalancedVehicles at h
  simp only [bind, Except.bind] at h
  split at h
  · cases h
  · rename_i vs hvs
    have hk := sortedVehicles_keys hi hvs
    split at h
    · cases h
    · rename_i r hr
      simp only [Except.ok.injEq, Prod.mk.injEq] at h
      obtain ⟨rfl, _⟩ := h
      exact foldlM_inv_mem (balVehicle ops env) (fun a => VInv K ids0 a.1.w) vs
        (fun s x s' hx hp hs => balVehicle_vkeeps ops env s s' x (hk x hx) hp hs) _ r hi hr

theorem surplusToVehicles_vkeeps (ops : BatOps α B) (env : FEnv α) (w w' : SWorld α B)
    (cmds : List (String × α)) (hi : VInv K ids0 w) (h : surplusToVehicles ops env w = .ok (w', cmds)) :
    VInv K ids0 w' := by
  unfold surplusToVehicles at h
  refine foldlM_inv_mem _ (fun (a : SWorld α B × List (String × α)) => VInv K ids0 a.1) w.vehicles ?_ (w, [])
    (w', cmds) hi h
  intro s x s' hx hp hs
  have hv := key_curVehicle hp x (hi.key_of_mem hx)
  simp only [bind, Except.bind] at hs
  split at hs
  · simp only [Except.ok.injEq] at hs; subst hs; exact hp
  · split at hs
    · cases hs
    · rename_i cs hst
      split at hs
      · cases hs
      · rename_i gc hgc
        split at hs
        · cases hs
        · simp only [Except.ok.injEq] at hs
          subst hs
          exact vinv_vehicleUpdate hp hv _ _ _

theorem surplusToBatteries_vkeeps (ops : BatOps α B) (env : FEnv α) (w w' : SWorld α B)
    (hi : VInv K ids0 w) (h : surplusToBatteries ops env w = .ok w') : VInv K ids0 w' := by
  unfold surplusToBatteries at h
  refine foldlM_inv _ (fun (a : SWorld α B) => VInv K ids0 a) ?_ w.batteries w w' hi h
  intro s x s' hp hs
  simp only [bind, Except.bind] at hs
  split at hs
  · cases hs
  · split at hs
    · cases hs
    · simp only [Except.ok.injEq] at hs
      subst hs
      exact (hp.setBattery _).setGc _

theorem balV2gVehicle_vkeeps (ops : BatOps α B) (env : FEnv α) (curWindow : Option Bool)
    (acc acc' : V2gAcc α B) (v0 : VehicleS α B) (hv0 : vehKey v0 ∈ K)
    (hi : VInv K ids0 acc.st.w) (h : balV2gVehicle ops env curWindow acc v0 = .ok acc') :
    VInv K ids0 acc'.st.w := by
  have hv := key_curVehicle hi v0 hv0
  unfold balV2gVehicle at h
  simp only [bind, Except.bind, pure, Except.pure] at h
  split at h
  · simp only [Except.ok.injEq] at h; subst h; exact hi
  · split at h
    · simp only [Except.ok.injEq] at h; subst h; exact hi
    · split at h
      · cases h
      · rename_i cs hst
        split at h
        · cases h
        · split at h
          · cases h
          · split at h
            · simp only [Except.ok.injEq] at h; subst h; exact hi
            · split at h
              · cases h
              · rename_i gc hgc
                split at h
                · cases h
                · split at h
                  · split at h
                    · cases h
                    · simp only [Except.ok.injEq] at h
                      subst h
                      exact vinv_vehicleUpdate hi hv _ _ _
                  · split at h
                    · cases h
                    · split at h
                      · cases h
                      · simp only [Except.ok.injEq] at h
                        subst h
                        exact vinv_vehicleUpdate hi hv _ _ _

theorem distributeBalancedV2g_vkeeps (ops : BatOps α B) (env : FEnv α)
    (st st' : FState α B) (cmds : List (String × α)) (hi : VInv K ids0 st.w)
    (h : distributeBalancedV2g ops env st = .ok (st', cmds)) : VInv K ids0 st'.w := by
  unfold distributeBalancedV2g at h
  simp only [bind, Except.bind] at h
  split at h
  · cases h
  · rename_i vs hvs
    have hk := sortedVehicles_keys hi hvs
    split at h
    · cases h
    · split at h
      · cases h
      · rename_i rr hr
        simp only [Except.ok.injEq, Prod.mk.injEq] at h
        obtain ⟨rfl, _⟩ := h
        exact foldlM_inv_mem (balV2gVehicle ops env _) (fun a => VInv K ids0 a.st.w) vs
          (fun s x s' hx hp hsx => balV2gVehicle_vkeeps ops env _ s s' x (hk x hx) hp hsx) _ rr hi hr

theorem distributeBalancedBatteries_vkeeps (ops : BatOps α B) (env : FEnv α)
    (st st' : FState α B) (hi : VInv K ids0 st.w)
    (h : distributeBalancedBatteries ops env st = .ok st') : VInv K ids0 st'.w := by
  unfold distributeBalancedBatteries at h
  simp only [bind, Except.bind] at h
  split at h
  · cases h
  · split at h
    · cases h
    · refine foldlM_inv _ (fun (a : FState α B) => VInv K ids0 a.w) ?_ st.w.batteries st st' hi h
      intro s x s' hp hs
      split at hs
      · cases hs
      · repeat' split at hs
        all_goals first
          -- `setBattery` / `setGc` leave `vehicles` untouched (`VInv.setBattery`, `VInv.setGc` are the identity)
          | (simp only [Except.ok.injEq] at hs; subst hs; exact hp)
          | cases hs

/-- **whole step, LOAD_STRAT balanced** -/
theorem step_vinv_balanced (ops : BatOps α B) (env : FEnv α) (hstrat : env.strat = .balanced)
    (w w' : SWorld α B) (window win' : Option Bool) (events : List (FEvent α)) (cmds : List (String × α))
    (hi : VInv K ids0 w) (h : FlexWindow.step ops env w window events = .ok (w', win', cmds)) :
    VInv K ids0 w' := by
  unfold FlexWindow.step at h
  simp only [bind, Except.bind, hstrat] at h
  split at h
  · cases h
  · rename_i gc hgc
    split at h
    · cases h
    · rename_i ts hts
      split at h
      · cases h
      · rename_i t0 rest
        simp only [beq_self_eq_true, if_true] at h
        have hinv0 : VInv K ids0 (⟨resetStations w, t0.window, t0 :: rest⟩ : FState α B).w := hi.resetStations
        split at h
        · cases h
        · rename_i r1 h1
          obtain ⟨st1, c1⟩ := r1
          have hinv1 := distributeBalancedVehicles_vkeeps ops env _ st1 c1 hinv0 h1
          simp only at h
          split at h
          · cases h
          · split at h
            · cases h
            · rename_i r2 h2
              obtain ⟨st2, c2, lv⟩ := r2
              have hinv2 : VInv K ids0 st2.w := by
                split at h2
                · split at h2
                  · cases h2
                  · rename_i r hs
                    simp only [pure, Except.pure, Except.ok.injEq, Prod.mk.injEq] at h2
                    obtain ⟨rfl, _, _⟩ := h2
                    exact surplusToVehicles_vkeeps ops env st1.w r.1 r.2 hinv1 hs
                · split at h2
                  · cases h2
                  · rename_i r hs
                    simp only [pure, Except.pure, Except.ok.injEq, Prod.mk.injEq] at h2
                    obtain ⟨rfl, _, _⟩ := h2
                    exact distributeBalancedV2g_vkeeps ops env st1 r.1 r.2 hinv1 hs
              simp only at h
              split at h
              · cases h
              · split at h
                · cases h
                · rename_i st3 h3
                  simp only [Except.ok.injEq, Prod.mk.injEq] at h
                  obtain ⟨rfl, rfl, _⟩ := h
                  split at h3
                  · split at h3
                    · cases h3
                    · rename_i w3 hs
                      simp only [pure, Except.pure, Except.ok.injEq] at h3
                      subst h3
                      exact surplusToBatteries_vkeeps ops env _ _ hinv2 hs
                  · exact distributeBalancedBatteries_vkeeps ops env _ _ hinv2 h3

/-! ### LOAD_STRAT greedy / needy -/

/-- `distribute_power` returns the vehicles it was given with new batteries -/
theorem distributePower_keys (ops : BatOps α B) (env : FEnv α) (w : SWorld α B)
    (vs vs' : List (VehicleS α B)) (tp tn : α) (cmds : List (String × α))
    (hk : ∀ v ∈ vs, vehKey v ∈ K)
    (h : distributePower ops env w vs tp tn = .ok (vs', cmds)) : ∀ v ∈ vs', vehKey v ∈ K := by
  unfold distributePower at h
  split at h
  · simp only [Except.ok.injEq, Prod.mk.injEq] at h
    obtain ⟨rfl, _⟩ := h
    exact hk
  · simp only [bind, Except.bind] at h
    split at h
    · cases h
    · rename_i r hr
      simp only [Except.ok.injEq, Prod.mk.injEq] at h
      obtain ⟨rfl, _⟩ := h
      refine foldlM_inv_mem _ (fun (a : List (VehicleS α B) × List (String × α) × α) => ∀ v ∈ a.1, vehKey v ∈ K)
        vs ?_ _ r (fun v hv => by cases hv) hr
      intro s x s' hx hp hs
      repeat' split at hs
      all_goals first
        | (simp only [Except.ok.injEq] at hs; subst hs
           intro v hv
           rcases List.mem_append.mp hv with h1 | h1
           · exact hp v h1
           · rw [List.mem_singleton] at h1; subst h1; exact hk x hx)
        | cases hs

theorem mergeById_ids (sim upd : List (VehicleS α B)) : (mergeById sim upd).map (·.id) = sim.map (·.id) := by
  unfold mergeById
  rw [List.map_map]
  apply List.map_congr_left
  intro v _
  simp only [Function.comp]
  cases hf : upd.find? (·.id == v.id) with
  | none => rfl
  | some u =>
    have hu : (u.id == v.id) = true :=
      List.find?_some (p := fun x : VehicleS α B => x.id == v.id) hf
    exact beq_iff_eq.mp hu

theorem mergeById_keys (sim upd : List (VehicleS α B)) (hs : ∀ v ∈ sim, vehKey v ∈ K)
    (hu : ∀ v ∈ upd, vehKey v ∈ K) : ∀ v ∈ mergeById sim upd, vehKey v ∈ K := by
  intro v hv
  unfold mergeById at hv
  obtain ⟨x, hx, rfl⟩ := List.mem_map.mp hv
  cases hf : upd.find? (·.id == x.id) with
  | none => exact hs x hx
  | some u => exact hu u (mem_of_find? hf)

/-- the REAL vehicles are loaded: `vs'` is the result of `distribute_power` on the (sorted) vehicles of the world —
the look-ahead copies (`psWindowPass`, `psSim`) only decide `ciw` and the power -/
theorem distributePeakShavingVehicles_vkeeps (ops : BatOps α B) (env : FEnv α)
    (st st' : FState α B) (cmds : List (String × α)) (hi : VInv K ids0 st.w)
    (h : distributePeakShavingVehicles ops env st = .ok (st', cmds)) : VInv K ids0 st'.w := by
  unfold distributePeakShavingVehicles at h
  simp only [bind, Except.bind] at h
  split at h
  · cases h
  · split at h
    · cases h
    · rename_i vehicles hvs
      have hk := sortedVehicles_keys hi hvs
      split at h
      · cases h
      · split at h
        · cases h
        · split at h
          · cases h
          · rename_i r hr
            have hr' : ∀ v ∈ r.1, vehKey v ∈ K := by
              repeat' split at hr
              all_goals first
                | exact distributePower_keys ops env _ _ _ _ _ _ hk hr
                | (simp only [Except.ok.injEq] at hr; subst hr; exact hk)
                | cases hr
            have hinv0 : VInv K ids0 ({ st.w with vehicles := mergeById st.w.vehicles r.1 } : SWorld α B) :=
              ⟨by rw [mergeById_ids]; exact hi.ids, mergeById_keys _ _ hi.attrs hr'⟩
            refine foldlM_inv _ (fun (a : FState α B × List (String × α)) => VInv K ids0 a.1.w) ?_ _ _ (st', cmds)
              hinv0 h
            intro a kv a' hp ha
            repeat' split at ha
            all_goals first
              | (simp only [Except.ok.injEq] at ha; subst ha; exact hp)
              | cases ha

theorem psV2gVehicle_vkeeps (ops : BatOps α B) (env : FEnv α) (curWindow : Option Bool)
    (acc acc' : V2gAcc α B) (v0 : VehicleS α B) (hv0 : vehKey v0 ∈ K)
    (hi : VInv K ids0 acc.st.w) (h : psV2gVehicle ops env curWindow acc v0 = .ok acc') :
    VInv K ids0 acc'.st.w := by
  have hv := key_curVehicle hi v0 hv0
  unfold psV2gVehicle at h
  simp only [bind, Except.bind, pure, Except.pure] at h
  split at h
  · simp only [Except.ok.injEq] at h; subst h; exact hi
  · split at h
    · cases h
    · split at h
      · cases h
      · rename_i cs hst
        split at h
        · cases h
        · split at h
          · cases h
          · split at h
            · simp only [Except.ok.injEq] at h; subst h; exact hi
            · split at h
              · cases h
              · rename_i gc hgc
                repeat' split at h
                all_goals first
                  | (simp only [Except.ok.injEq] at h; subst h
                     exact vinv_vehicleUpdate hi hv _ _ _)
                  | cases h

theorem distributePeakShavingV2g_vkeeps (ops : BatOps α B) (env : FEnv α)
    (st st' : FState α B) (cmds : List (String × α)) (hi : VInv K ids0 st.w)
    (h : distributePeakShavingV2g ops env st = .ok (st', cmds)) : VInv K ids0 st'.w := by
  unfold distributePeakShavingV2g at h
  simp only [bind, Except.bind] at h
  split at h
  · cases h
  · rename_i vs hvs
    have hk := sortedVehicles_keys hi hvs
    split at h
    · cases h
    · split at h
      · cases h
      · rename_i r hr
        simp only [Except.ok.injEq, Prod.mk.injEq] at h
        obtain ⟨rfl, _⟩ := h
        exact foldlM_inv_mem (psV2gVehicle ops env _) (fun a => VInv K ids0 a.st.w) vs
          (fun s x s' hx hp hs => psV2gVehicle_vkeeps ops env _ s s' x (hk x hx) hp hs) _ r hi hr

theorem distributePeakShavingBatteries_vkeeps (ops : BatOps α B) (env : FEnv α)
    (st st' : FState α B) (hi : VInv K ids0 st.w)
    (h : distributePeakShavingBatteries ops env st = .ok st') : VInv K ids0 st'.w := by
  unfold distributePeakShavingBatteries at h
  simp only [bind, Except.bind] at h
  split at h
  · cases h
  · split at h
    · split at h
      · cases h
      · split at h
        · cases h
        · cases h
        · split at h
          · cases h
          · rename_i r hr
            simp only [Except.ok.injEq] at h
            subst h
            refine foldlM_inv _ (fun (a : FState α B × α) => VInv K ids0 a.1.w) ?_ st.w.batteries _ r hi hr
            intro s x s' hp hs
            repeat' split at hs
            all_goals first
              | (simp only [Except.ok.injEq] at hs; subst hs; exact hp)
              | cases hs
    · split at h
      · cases h
      · split at h
        · cases h
        · cases h
        · refine foldlM_inv _ (fun (a : FState α B) => VInv K ids0 a.w) ?_ st.w.batteries st st' hi h
          intro s x s' hp hs
          repeat' split at hs
          all_goals first
            | (simp only [Except.ok.injEq] at hs; subst hs; exact hp)
            | cases hs

/-! ### `Strategy.distribute_surplus_power` (shared, Model/Strategies.lean) -/

theorem surplusVehicle_vkeeps (ops : BatOps α B) (env : StratEnv α) (cheap : List (String × Bool))
    (w w' : SWorld α B) (cmds cmds' : List (String × α)) (v : VehicleS α B) (hv : vehKey v ∈ K)
    (hi : VInv K ids0 w) (h : surplusVehicle ops env cheap w cmds v = .ok (w', cmds')) : VInv K ids0 w' := by
  unfold surplusVehicle at h
  split at h
  · cases h; exact hi
  · split at h
    · cases h
    · split at h
      · cases h
      · dsimp only at h
        split at h
        · simp only [bind, Except.bind] at h
          split at h
          · cases h
          · simp only [Except.ok.injEq, Prod.mk.injEq] at h
            obtain ⟨rfl, -⟩ := h
            exact vinv_vehicleUpdate hi hv _ _ _
        · split at h
          · simp only [bind, Except.bind] at h
            split at h
            · cases h
            · simp only [Except.ok.injEq, Prod.mk.injEq] at h
              obtain ⟨rfl, -⟩ := h
              exact vinv_vehicleUpdate hi hv _ _ _
          · cases h; exact hi

theorem distributeSurplus_vkeeps (ops : BatOps α B) (env : StratEnv α) (w w' : SWorld α B)
    (cmds' : List (String × α)) (hi : VInv K ids0 w) (h : distributeSurplus ops env w = .ok (w', cmds')) :
    VInv K ids0 w' := by
  unfold distributeSurplus at h
  simp only [bind, Except.bind] at h
  split at h
  · cases h
  · rename_i cheap _
    refine foldlM_inv _ (fun (st : SWorld α B × List (String × α)) => VInv K ids0 st.1) ?_ w.vehicles (w, [])
      (w', cmds') hi h
    intro st v0 st' hst hf
    split at hf
    · cases hf; exact hst
    · rename_i v hv
      exact surplusVehicle_vkeeps ops env cheap st.1 st'.1 st.2 st'.2 v (hst.key_of_vehicle? hv) hst hf

theorem liftPy_ok {β : Type} (x : Py β) (v : β) : liftPy x = (.ok v : FPy β) ↔ x = .ok v := by
  cases x <;> simp [liftPy]

/-- **whole step, LOAD_STRAT greedy / needy / other** -/
theorem step_vinv_ps (ops : BatOps α B) (env : FEnv α) (hstrat : env.strat ≠ .balanced)
    (w w' : SWorld α B) (window win' : Option Bool) (events : List (FEvent α)) (cmds : List (String × α))
    (hi : VInv K ids0 w) (h : FlexWindow.step ops env w window events = .ok (w', win', cmds)) :
    VInv K ids0 w' := by
  unfold FlexWindow.step at h
  simp only [bind, Except.bind] at h
  split at h
  · cases h
  · rename_i gc hgc
    split at h
    · cases h
    · rename_i ts hts
      split at h
      · cases h
      · rename_i t0 rest
        have hne : (env.strat == LoadStrat.balanced) = false := by simpa using hstrat
        simp only [hne, Bool.false_eq_true, if_false] at h
        have hinv0 : VInv K ids0 (⟨resetStations w, t0.window, t0 :: rest⟩ : FState α B).w := hi.resetStations
        split at h
        · cases h
        · rename_i r1 h1
          obtain ⟨st1, c1⟩ := r1
          have hinv1 := distributePeakShavingVehicles_vkeeps ops env _ st1 c1 hinv0 h1
          simp only at h
          split at h
          · cases h
          · split at h
            · cases h
            · rename_i r2 h2
              obtain ⟨st2, c2, lv⟩ := r2
              have hinv2 : VInv K ids0 st2.w := by
                split at h2
                · split at h2
                  · cases h2
                  · rename_i r hs
                    rw [liftPy_ok] at hs
                    simp only [pure, Except.pure, Except.ok.injEq, Prod.mk.injEq] at h2
                    obtain ⟨rfl, _, _⟩ := h2
                    exact distributeSurplus_vkeeps ops env.base st1.w r.1 r.2 hinv1 hs
                · split at h2
                  · cases h2
                  · rename_i r hs
                    simp only [pure, Except.pure, Except.ok.injEq, Prod.mk.injEq] at h2
                    obtain ⟨rfl, _, _⟩ := h2
                    exact distributePeakShavingV2g_vkeeps ops env st1 r.1 r.2 hinv1 hs
              simp only at h
              split at h
              · cases h
              · split at h
                · cases h
                · rename_i st3 h3
                  simp only [Except.ok.injEq, Prod.mk.injEq] at h
                  obtain ⟨rfl, rfl, _⟩ := h
                  split at h3
                  · split at h3
                    · cases h3
                    · rename_i w3 hs
                      simp only [pure, Except.pure, Except.ok.injEq] at h3
                      subst h3
                      exact surplusToBatteries_vkeeps ops env _ _ hinv2 hs
                  · exact distributePeakShavingBatteries_vkeeps ops env _ _ hinv2 h3

/-- **flex_window.**  The step keeps the vehicle invariant, every LOAD_STRAT. -/
theorem step_vinv (ops : BatOps α B) (env : FEnv α) (w w' : SWorld α B) (window win' : Option Bool)
    (events : List (FEvent α)) (cmds : List (String × α)) (hi : VInv K ids0 w)
    (h : FlexWindow.step ops env w window events = .ok (w', win', cmds)) : VInv K ids0 w' := by
  by_cases hstrat : env.strat = .balanced
  · exact step_vinv_balanced ops env hstrat w w' window win' events cmds hi h
  · exact step_vinv_ps ops env hstrat w w' window win' events cmds hi h

/-- the vehicle ids (in order) are those before the step, and every vehicle after the step carries id, `cs`,
`desired_soc`, `etd` and the vehicle-type data of a vehicle before the step -/
theorem step_vkeeps (ops : BatOps α B) (env : FEnv α) (w w' : SWorld α B) (window win' : Option Bool)
    (events : List (FEvent α)) (cmds : List (String × α))
    (h : FlexWindow.step ops env w window events = .ok (w', win', cmds)) :
    VehKeeps (w.vehicles.map vehKey) (w.vehicles.map (·.id)) w'.vehicles :=
  step_vinv ops env w w' window win' events cmds (VInv.init w) h

end FlexWindow
end KeepsVeh
end SpiceEv
