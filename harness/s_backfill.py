"""`disconnect` back-fill of Scenario.run (the block between event processing and the strategy step): bit-level
correspondence of the model `backfill` (lean/SpiceEv/Model/ScenarioCtor.lean, section b) with the real run loop.

`Recorder` wraps `strategy.Strategy.step` (the base class's event processing, which `Scenario.run` calls through
`super(type(strat), strat).step(...)`) for the duration of a real run and records, for every strategy object and
every step, what the block reads afterwards: per vehicle (sorted ids) the connected station, whether the departure
estimate is None or not after the current time, and the SoC.  `lines_for(s, rec)` renders the observations of the
run's own strategy object as one model line (Float, bit patterns) and the three tables `socs`, `disconnect`,
`connected` that the real loop stored on the Scenario object as the expected output.  `oracle(s, obs)` states the
property's sentences on the real tables independently of the model.

Hooked into `c08.py` (real Scenario.run stream), `c18.py` (run stream: the SoC CSV is written from these tables) and
`c17.py` (every recorded run).  Stand-alone: `./check S_BACKFILL`.
"""
import random

import engine
from wire import enc

engine.use_repo()

PID = "S_BACKFILL"
THEOREM_MODULES = ["C18_Disconnect"]
RULE = ("real Scenario.run on scenarios of harness/scen.py (all strategies; trips, infeasible trips, standing "
        "disconnected vehicles); the per-step observations are replayed through the model; non-trivial = a trip was "
        "back-filled")
CHUNK = 4
TAG = "@s_backfill "


class Recorder:
    def __init__(self):
        self.by_obj = {}
        self._orig = None

    def start(self):
        from spice_ev import strategy as st_mod
        self._orig = st_mod.Strategy.step
        orig = self._orig
        by_obj = self.by_obj

        def step(self_, event_list=[]):
            try:
                return orig(self_, event_list)
            finally:
                try:
                    row = []
                    for vid in sorted(self_.world_state.vehicles.keys()):
                        v = self_.world_state.vehicles[vid]
                        etd = v.estimated_time_of_departure
                        row.append((vid, v.connected_charging_station,
                                    etd is None or etd <= self_.current_time, v.battery.soc))
                    by_obj.setdefault(id(self_), []).append(row)
                except Exception as e:           # never disturb the run; the tie reports it
                    by_obj.setdefault(id(self_), []).append(("error", repr(e)))
        st_mod.Strategy.step = step
        return self

    def stop(self):
        if self._orig is not None:
            from spice_ev import strategy as st_mod
            st_mod.Strategy.step = self._orig
            self._orig = None

    def __enter__(self):
        return self.start()

    def __exit__(self, *a):
        self.stop()
        return False


def tok(x):
    return enc(float(x))


def optnum(x):
    return "N" if x is None else "S " + tok(x)


def lst(items, f):
    items = list(items)
    return " ".join(["%d" % len(items)] + [f(x) for x in items])


def sid(s):
    return "N" if s is None else "S " + str(s).replace(" ", "_")


def observations(s, rec):
    """rows of the run's own strategy object, one per executed step; None if the recording is unusable"""
    strat = getattr(s, "strat", None)
    if strat is None or not hasattr(s, "disconnect"):
        return None
    rows = rec.by_obj.get(id(strat), [])
    if any(isinstance(r, tuple) and r and r[0] == "error" for r in rows):
        return None
    if len(rows) != len(s.disconnect):
        return None
    return rows


def lines_for(s, rec):
    rows = observations(s, rec)
    if rows is None:
        if getattr(s, "strat", None) is not None and hasattr(s, "disconnect") and len(s.disconnect) > 0:
            return ["backfill_recording_failed"], [TAG + "the recorder saw %d base steps for %d rows"
                                                   % (len(rec.by_obj.get(id(s.strat), [])), len(s.disconnect))]
        return [], []
    if not rows or not rows[0]:
        return [], []
    nveh = len(rows[0])
    cols = []
    for vi in range(nveh):
        cols.append(lst(rows, lambda r: "%s %d %s" % (sid(r[vi][1]), 1 if r[vi][2] else 0, tok(r[vi][3]))))
    line = "backfill f %d %s" % (nveh, " ".join(cols))
    vids = [x[0] for x in rows[0]]
    out = []
    for vi, vid in enumerate(vids):
        out.append("%s ; %s ; %s" % (lst([row[vi] for row in s.socs], optnum),
                                     lst([row[vi] for row in s.disconnect], optnum),
                                     lst([c.get(vid) for c in s.connected], sid)))
    return [line], [TAG + " | ".join(out)]


def oracle(s, rec):
    """the property's sentences about the tables, judged on the real run independently of the model:
    * a connected vehicle's row carries its SoC in `socs`, and its `disconnect` entry is empty or that same SoC;
    * a vehicle standing disconnected (not departed) is reported with its unchanged SoC;
    * over a trip (first away step d .. arrival step a) the reported series is the straight line from the SoC at
      departure to the SoC at arrival: it stays between the two, starts with the departure SoC, and its increments
      are equal; rows outside trips are not interpolated."""
    rows = observations(s, rec)
    viol = []
    if not rows or not rows[0]:
        return viol, []
    stats = []
    n = len(rows)
    for vi, (vid, _, _, _) in enumerate(rows[0]):
        away = [r[vi][1] is None and r[vi][2] for r in rows]
        t = 0
        while t < n:
            cs, dep, soc = rows[t][vi][1:]
            dis = s.disconnect[t][vi]
            if not away[t]:
                if cs is not None:
                    if s.socs[t][vi] != soc:
                        viol.append(("connected_soc", "C18:backfill_connected_soc",
                                     "step %d %s: socs %r, vehicle has %r" % (t, vid, s.socs[t][vi], soc)))
                    if s.connected[t].get(vid) != cs:
                        viol.append(("connected_station", "C18:backfill_connected_station", "step %d %s" % (t, vid)))
                    if dis is not None and not (t > 0 and away[t - 1] and dis == soc):
                        viol.append(("connected_untouched", "C18:backfill_connected_row_rewritten",
                                     "step %d %s: disconnect entry %r of a connected step (soc %r)" % (t, vid, dis, soc)))
                else:
                    if dis != soc:
                        viol.append(("standing", "C08:backfill_standing_soc_changed",
                                     "step %d %s: standing disconnected with SoC %r, reported %r" % (t, vid, soc, dis)))
                t += 1
                continue
            d = t
            while t < n and away[t]:
                t += 1
            a = t                                        # arrival step (or n: still away at the end)
            s0 = rows[d][vi][3]
            if a == n:
                if s.disconnect[d][vi] != s0 or any(s.disconnect[k][vi] is not None for k in range(d + 1, n)):
                    viol.append(("open_trip", "C18:backfill_open_trip", "%s away from step %d to the end" % (vid, d)))
                stats.append("open_trip")
                continue
            s1 = rows[a][vi][3]
            seg = [s.disconnect[k][vi] for k in range(d, a)]
            stats.append("trip_backfilled")
            if any(x is None for x in seg):
                viol.append(("interpolated", "C18:backfill_missing", "%s steps %d..%d: %r" % (vid, d, a, seg)))
                continue
            lo, hi = min(s0, s1), max(s0, s1)
            tol = 1e-12 * max(1.0, abs(lo), abs(hi))
            if seg[0] != s0 or any(not (lo - tol <= x <= hi + tol) for x in seg):
                viol.append(("between", "C08:backfill_outside_endpoints",
                             "%s steps %d..%d: %r not between departure SoC %r and arrival SoC %r" % (vid, d, a, seg, s0, s1)))
            step = (s1 - s0) / (a - d)
            if any(abs(seg[k] - (s0 + step * k)) > 1e-9 * max(1.0, abs(s0), abs(s1)) for k in range(len(seg))):
                viol.append(("linear", "C08:backfill_not_linear",
                             "%s steps %d..%d: %r is not the line from %r to %r" % (vid, d, a, seg, s0, s1)))
    return viol, stats


def compare(case, impl, model):
    if impl.startswith(TAG):
        impl = impl[len(TAG):]
    from runoracle import runloop_compare
    return runloop_compare(impl, _strip_departed(model))


def _strip_departed(model):
    """the model also prints the vehicle's pending `departed_vehicles` entry (last segment); the Scenario object does
    not keep it"""
    if model.startswith("!"):
        return model
    out = []
    for col in model.split(" | "):
        out.append(" ; ".join(col.split(" ; ")[:3]))
    return " | ".join(out)


# ------------------------------------------------------------------------------------------ directed family

def directed_cases(tier, seed, k="bf"):
    """small hand-shaped scenarios that reach every branch of the block: vehicles that stand disconnected (arrival
    without a station) until their departure estimate passes - exactly on a step or between steps -, vehicles absent or
    standing from the first step, trips of one step, arrivals that are never followed by a departure, trips still open
    at the end"""
    n = 250 if tier == "quick" else 2500
    for i in range(n):
        yield {"k": k, "seed": seed, "i": i}


def _iso(minutes):
    import datetime
    return (datetime.datetime(2020, 1, 1) + datetime.timedelta(minutes=minutes)).isoformat()


def directed_scenario(case):
    rnd = random.Random("S_BACKFILL:directed:%s:%s" % (case["seed"], case["i"]))
    iv = rnd.choice([15, 15, 10, 60])
    n = rnd.randint(4, 14)
    vehicles, events = {}, []
    for vi in range(rnd.randint(1, 3)):
        vid = "v%d" % vi
        v = {"vehicle_type": "t", "soc": rnd.choice([0.5, 0.25, 0.8, 1.0]), "desired_soc": rnd.choice([0.0, 0.5, 1.0])}
        init = rnd.choice(["connected", "connected", "away", "standing", "standing_on_grid"])
        if init == "connected":
            v["connected_charging_station"] = "cs%d" % vi
            v["estimated_time_of_departure"] = _iso(iv * rnd.randint(1, n))
        elif init == "standing":
            v["estimated_time_of_departure"] = _iso(iv * rnd.randint(0, n) + rnd.choice([0, 1, iv // 2]))
        elif init == "standing_on_grid":
            v["estimated_time_of_departure"] = _iso(iv * rnd.randint(0, n))
        vehicles[vid] = v
        t = rnd.randint(0, 3)
        present = init != "away"
        while t < n + 1:
            off = rnd.choice([0, 0, 0, 1, iv // 2, iv - 1])
            if present:
                events.append({"signal_time": _iso(iv * t + off - 2 * iv), "start_time": _iso(iv * t + off), "vehicle_id": vid,
                               "event_type": "departure",
                               "update": {"estimated_time_of_arrival": _iso(iv * (t + 2))}})
                present = False
                t += rnd.choice([1, 1, 2, 3, 5])
            else:
                upd = {"soc_delta": -rnd.choice([0.0, 0.1, 0.25, 0.3]), "desired_soc": rnd.choice([0.5, 1.0]),
                       "connected_charging_station": rnd.choice(["cs%d" % vi, "cs%d" % vi, None]),
                       "estimated_time_of_departure": _iso(iv * (t + rnd.randint(0, 4)) + rnd.choice([0, 0, 1, iv // 2]))}
                events.append({"signal_time": _iso(iv * t + off - 2 * iv), "start_time": _iso(iv * t + off), "vehicle_id": vid,
                               "event_type": "arrival", "update": upd})
                present = True
                if rnd.random() < 0.25:
                    break                      # never departs again: the estimate passes while it stands there
                t += rnd.choice([1, 2, 3, 4])
    return {"scenario": {"start_time": _iso(0), "interval": iv, "n_intervals": n},
            "components": {"vehicle_types": {"t": {"name": "t", "capacity": 40, "charging_curve": [[0, 11], [1, 11]]}},
                           "vehicles": vehicles,
                           "grid_connectors": {"g": {"max_power": 100, "cost": {"type": "fixed", "value": 0.1}}},
                           "charging_stations": {"cs%d" % i: {"max_power": 11, "parent": "g"} for i in range(3)}},
            "events": {"vehicle_events": events}}


def eval_directed(case):
    import contextlib
    import io
    import warnings
    from spice_ev import scenario
    j = directed_scenario(case)
    with Recorder() as rec:
        with warnings.catch_warnings():
            warnings.simplefilter("ignore")
            s = scenario.Scenario(j, "")
            with contextlib.redirect_stdout(io.StringIO()):
                s.run("greedy", {"testing": True, "ALLOW_NEGATIVE_SOC": True, "margin": 1})
    lines, impl = lines_for(s, rec)
    viol, stats = oracle(s, rec)
    rows = observations(s, rec) or []
    if any(o[1] is None and not o[2] for r in rows for o in r):
        stats.append("standing_disconnected")
    return {"lines": lines, "impl": impl, "violations": viol, "nontrivial": "trip_backfilled" in stats,
            "stats": sorted(set(stats)) + ["directed"], "replay_case": dict(case, scenario_json=j)}


# ------------------------------------------------------------------------------------------ stand-alone check

def gen_cases(tier, seed):
    import scen
    yield from directed_cases(tier, seed)
    n = 15 if tier == "quick" else 400
    for i in range(n):
        for st in scen.STRATEGIES:
            yield {"seed": seed, "i": i, "strategy": st, "pid": PID}


def eval_case(case):
    import scen
    if case.get("k") == "bf":
        return eval_directed(case)
    rng = random.Random("%s:%s:%s:%s" % (case["pid"], case["seed"], case["i"], case["strategy"]))
    full = scen.gen_scenario(rng, strategy=case["strategy"], feasible=rng.random() < 0.85)
    with Recorder() as rec:
        r = scen.run_real(full, timeout_s=90, collect_ops=False)
    s = r.get("scenario_obj")
    if s is None or r.get("step_i") is None or r.get("timeout") or r.get("escaped"):
        return {"lines": [], "impl": [], "violations": [], "nontrivial": False, "stats": ["no_run"]}
    lines, impl = lines_for(s, rec)
    viol, stats = oracle(s, rec)
    return {"lines": lines, "impl": impl, "violations": viol, "nontrivial": "trip_backfilled" in stats,
            "stats": sorted(set(stats)) + [case["strategy"]], "replay_case": full}
