/-
The iterated greedy / balanced step does not raise on a well-formed standing period: every connected
vehicle's station exists, every station's connector is among the step's connectors and has a cost,
balanced's vehicles have an announced departure, the battery operations are total, no stationary
batteries.  Helper lemmas for `C09_run_no_exception` (Properties/C09_Run.lean).
-/
import SpiceEv.Proofs.StratRun
import SpiceEv.Proofs.StratRunAmple
set_option linter.unusedSectionVars false
set_option linter.unusedSimpArgs false
set_option linter.unusedVariables false
namespace SpiceEv.StratRun
open SpiceEv SpiceEv.Frame
variable {α B : Type} [Field α] [LinearOrder α] [IsStrictOrderedRing α]

/-- the battery operations never raise -/
structure OpsTotal (ops : BatOps α B) : Prop where
  load : ∀ b mp ts tp, ∃ r, ops.load b mp ts tp = .ok r
  unload : ∀ b mp ts tp, ∃ r, ops.unload b mp ts tp = .ok r

/-- every lookup of a step succeeds in `w` -/
structure Ready (rule : Rule) (w : SWorld α B) : Prop where
  veh : ∀ u ∈ w.vehicles, ∀ c, u.cs = some c → ∃ s ∈ w.stations, s.id = c
  gc : ∀ s ∈ w.stations, ∃ g ∈ w.gcs, g.id = s.parent
  cost : ∀ g ∈ w.gcs, g.cost ≠ none
  etd : rule = .balanced → ∀ u ∈ w.vehicles, u.cs ≠ none → u.etd ≠ none

theorem find?_some_of_mem {β : Type} (l : List β) (p : β → Bool) (x : β) (hx : x ∈ l) (hp : p x = true) :
    ∃ y, l.find? p = some y := by
  cases h : l.find? p with
  | some y => exact ⟨y, rfl⟩
  | none =>
    rw [List.find?_eq_none] at h
    exact absurd hp (by simpa using h x hx)

theorem vehicle?_of_mem (w : SWorld α B) (v : VehicleS α B) (hv : v ∈ w.vehicles) :
    ∃ y, w.vehicle? v.id = some y := find?_some_of_mem _ _ v hv (by simp)

theorem station?_of_mem (w : SWorld α B) (s : StationS α) (hs : s ∈ w.stations) :
    ∃ y, w.station? s.id = some y := find?_some_of_mem _ _ s hs (by simp)

theorem gc?_of_mem (w : SWorld α B) (g : GcS α) (hg : g ∈ w.gcs) :
    ∃ y, w.gc? g.id = some y := find?_some_of_mem _ _ g hg (by simp)

theorem exists_setStation (w : SWorld α B) (s' : StationS α) (c : String)
    (h : ∃ s ∈ w.stations, s.id = c) : ∃ s ∈ (w.setStation s').stations, s.id = c := by
  obtain ⟨s, hs, hid⟩ := h
  unfold SWorld.setStation
  simp only [List.mem_map]
  by_cases hx : (s.id == s'.id) = true
  · exact ⟨s', ⟨s, hs, by simp [hx]⟩, by rw [← hid]; exact (by simpa using hx : s.id = s'.id).symm⟩
  · exact ⟨s, ⟨s, hs, by simp [hx]⟩, hid⟩

theorem exists_setGc (w : SWorld α B) (g' : GcS α) (c : String)
    (h : ∃ g ∈ w.gcs, g.id = c) : ∃ g ∈ (w.setGc g').gcs, g.id = c := by
  obtain ⟨g, hg, hid⟩ := h
  unfold SWorld.setGc
  simp only [List.mem_map]
  by_cases hx : (g.id == g'.id) = true
  · exact ⟨g', ⟨g, hg, by simp [hx]⟩, by rw [← hid]; exact (by simpa using hx : g.id = g'.id).symm⟩
  · exact ⟨g, ⟨g, hg, by simp [hx]⟩, hid⟩

/-- the common write of the two vehicle passes keeps `Ready` -/
theorem ready_write (rule : Rule) (w : SWorld α B) (v : VehicleS α B) (b' : B) (gc : GcS α)
    (k : String) (x : α) (cs : StationS α) (cur' : α) (hv : v ∈ w.vehicles) (hcs : cs ∈ w.stations)
    (hgc : gc ∈ w.gcs) (h : Ready rule w) :
    Ready rule (((w.setVehicle { v with bat := b' }).setGc (gc.addLoad k x).1).setStation
      { cs with currentPower := cur' }) := by
  obtain ⟨_, _, hI, hC⟩ := addLoad_currentLoad gc k x
  refine ⟨?_, ?_, ?_, ?_⟩
  · intro u hu c hc
    have hu' : u ∈ (w.setVehicle { v with bat := b' }).vehicles := hu
    apply exists_setStation
    rcases mem_setVehicle _ _ u hu' with rfl | hm
    · exact h.veh v hv c hc
    · exact h.veh u hm c hc
  · intro s hs
    have : ∃ g ∈ w.gcs, g.id = s.parent := by
      rcases mem_setStation _ _ s hs with rfl | hm
      · exact h.gc cs hcs
      · exact h.gc s hm
    exact exists_setGc _ _ _ this
  · intro g hg
    have hg' : g ∈ (w.setGc (gc.addLoad k x).1).gcs := hg
    rcases mem_setGc _ _ g hg' with rfl | ⟨hm, _⟩
    · rw [hC]; exact h.cost gc hgc
    · exact h.cost g hm
  · intro hr u hu hc
    have hu' : u ∈ (w.setVehicle { v with bat := b' }).vehicles := hu
    rcases mem_setVehicle _ _ u hu' with rfl | hm
    · exact h.etd hr v hv hc
    · exact h.etd hr u hm hc

theorem gcCheap_ok (env : StratEnv α) (g : GcS α) (h : g.cost ≠ none) : ∃ c, gcCheap env g = .ok c := by
  unfold gcCheap
  cases hc : g.cost with
  | none => exact absurd hc h
  | some c => exact ⟨_, rfl⟩

/-- one vehicle of the allocation pass does not raise -/
theorem allocVehicle_total (rule : Rule) (ops : BatOps α B) (tot : OpsTotal ops) (env : StratEnv α)
    (st : SWorld α B × List (String × α) × List (String × α)) (vid : String)
    (hr : Ready rule st.1) (hv : ∃ v ∈ st.1.vehicles, v.id = vid) :
    ∃ st', allocVehicle rule ops env st vid = .ok st' := by
  obtain ⟨v0, hv0, rfl⟩ := hv
  obtain ⟨v, hvv⟩ := vehicle?_of_mem st.1 v0 hv0
  obtain ⟨hvm, hvid⟩ := vehicle?_some _ _ _ hvv
  unfold allocVehicle
  simp only [hvv]
  cases hcs : v.cs with
  | none => exact ⟨st, rfl⟩
  | some csId =>
    obtain ⟨s0, hs0, hsid⟩ := hr.veh v hvm csId hcs
    obtain ⟨cs, hst⟩ := station?_of_mem st.1 s0 hs0
    rw [hsid] at hst
    obtain ⟨hcsm, _⟩ := station?_some' _ _ _ hst
    obtain ⟨g0, hg0, hgid⟩ := hr.gc cs hcsm
    obtain ⟨gc, hgc⟩ := gc?_of_mem st.1 g0 hg0
    rw [hgid] at hgc
    obtain ⟨hgm, _⟩ := gc?_some' _ _ _ hgc
    obtain ⟨cheap, hch⟩ := gcCheap_ok env gc (hr.cost gc hgm)
    simp only [hst, hgc, hch, bind, Except.bind]
    have hplan : ∃ pu, planPower rule ops env cheap (gc.curMax - gc.currentLoad)
        ((sdGet st.2.2 cs.parent).getD 0) cs v = .ok pu := by
      unfold planPower
      simp only
      split
      · exact ⟨_, rfl⟩
      · split
        · cases rule with
          | greedy => exact ⟨_, rfl⟩
          | balanced =>
            simp only
            cases he : v.etd with
            | none => exact absurd he (hr.etd rfl v hvm (by rw [hcs]; simp))
            | some etd =>
              simp only
              split <;> exact ⟨_, rfl⟩
        · exact ⟨_, rfl⟩
    obtain ⟨⟨power, used⟩, hpl⟩ := hplan
    simp only [hpl]
    have hcall : ∃ r, chargeCall rule ops env cheap v power = .ok r := by
      unfold chargeCall
      cases rule with
      | greedy =>
        simp only
        split
        · exact tot.load _ _ _ _
        · split
          · exact tot.load _ _ _ _
          · exact ⟨_, rfl⟩
      | balanced => exact tot.load _ _ _ _
    obtain ⟨⟨bat', avg⟩, hcc⟩ := hcall
    simp only [hcc]
    exact ⟨_, rfl⟩

/-- invariant of the passes: lookups succeed, vehicle ids unchanged -/
def ReadyIds (rule : Rule) (ids : List String) (w : SWorld α B) : Prop :=
  Ready rule w ∧ w.vehicles.map (·.id) = ids

theorem readyIds_alloc (rule : Rule) (ops : BatOps α B) (env : StratEnv α) (ids : List String)
    (st st' : SWorld α B × List (String × α) × List (String × α)) (vid : String)
    (hk : ReadyIds rule ids st.1) (h : allocVehicle rule ops env st vid = .ok st') :
    ReadyIds rule ids st'.1 := by
  obtain ⟨v, hv, hc⟩ := allocVehicle_cases rule ops env st st' vid h
  rcases hc with ⟨_, rfl⟩ | ⟨csId, cs, gc, cheap, power, used, bat', avg, hcs, hst, hgc, hch, hpl, hcc, rfl⟩
  · exact hk
  · refine ⟨ready_write rule st.1 v bat' gc csId avg cs _ (vehicle?_some _ _ _ hv).1
      (station?_some' _ _ _ hst).1 (gc?_some' _ _ _ hgc).1 hk.1, ?_⟩
    show (st.1.setVehicle { v with bat := bat' }).vehicles.map (·.id) = ids
    rw [setVehicle_ids]; exact hk.2

theorem allocFold_total (rule : Rule) (ops : BatOps α B) (tot : OpsTotal ops) (env : StratEnv α)
    (ids : List String) (l : List String) :
    ∀ (st : SWorld α B × List (String × α) × List (String × α)), (∀ x ∈ l, x ∈ ids) →
      ReadyIds rule ids st.1 →
      ∃ st', l.foldlM (allocVehicle rule ops env) st = .ok st' ∧ ReadyIds rule ids st'.1 := by
  induction l with
  | nil => intro st _ hk; exact ⟨st, rfl, hk⟩
  | cons x xs ih =>
    intro st hl hk
    have hx : x ∈ st.1.vehicles.map (·.id) := by rw [hk.2]; exact hl x List.mem_cons_self
    obtain ⟨v, hv, hid⟩ := List.mem_map.mp hx
    obtain ⟨s1, hs1⟩ := allocVehicle_total rule ops tot env st x hk.1 ⟨v, hv, hid⟩
    obtain ⟨st', hf, hk'⟩ := ih s1 (fun y hy => hl y (List.mem_cons_of_mem _ hy))
      (readyIds_alloc rule ops env ids st s1 x hk hs1)
    refine ⟨st', ?_, hk'⟩
    simp only [List.foldlM_cons, bind, Except.bind, hs1]
    exact hf

theorem readyIds_surplus (rule : Rule) (ops : BatOps α B) (env : StratEnv α) (ids : List String)
    (cheap : List (String × Bool)) (st st' : SWorld α B × List (String × α)) (u : VehicleS α B)
    (hk : ReadyIds rule ids st.1) (h : surplusBody ops env cheap st u = .ok st') :
    ReadyIds rule ids st'.1 := by
  rcases surplusBody_cases ops env cheap st st' u h with ⟨_, rfl⟩ | ⟨v, hv, hc⟩
  · exact hk
  · rcases hc with ⟨_, rfl⟩ | ⟨csId, cs, gc, r, hcs, hst, hgc, hloc, rfl⟩
    · exact hk
    · cases r with
      | none => exact hk
      | some t =>
        obtain ⟨bat', d, cur'⟩ := t
        refine ⟨ready_write rule st.1 v bat' gc csId d cs cur' (vehicle?_some _ _ _ hv).1
          (station?_some' _ _ _ hst).1 (gc?_some' _ _ _ hgc).1 hk.1, ?_⟩
        show (st.1.setVehicle { v with bat := bat' }).vehicles.map (·.id) = ids
        rw [setVehicle_ids]; exact hk.2

theorem surplusBody_total (rule : Rule) (ops : BatOps α B) (tot : OpsTotal ops) (env : StratEnv α)
    (cheap : List (String × Bool)) (st : SWorld α B × List (String × α)) (u : VehicleS α B)
    (hr : Ready rule st.1) : ∃ st', surplusBody ops env cheap st u = .ok st' := by
  unfold surplusBody
  cases hv : st.1.vehicle? u.id with
  | none => exact ⟨st, rfl⟩
  | some v =>
    obtain ⟨hvm, _⟩ := vehicle?_some _ _ _ hv
    simp only [surplusVehicle_eq]
    cases hcs : v.cs with
    | none => exact ⟨_, rfl⟩
    | some csId =>
      obtain ⟨s0, hs0, hsid⟩ := hr.veh v hvm csId hcs
      obtain ⟨cs, hst⟩ := station?_of_mem st.1 s0 hs0
      rw [hsid] at hst
      obtain ⟨hcsm, _⟩ := station?_some' _ _ _ hst
      obtain ⟨g0, hg0, hgid⟩ := hr.gc cs hcsm
      obtain ⟨gc, hgc⟩ := gc?_of_mem st.1 g0 hg0
      rw [hgid] at hgc
      simp only [hst, hgc]
      have : ∃ r, surplusLocal ops env ((sdGet cheap cs.parent).getD false) v csId cs gc = .ok r := by
        unfold surplusLocal
        simp only
        split
        · obtain ⟨⟨b1, a1⟩, hl⟩ := tot.load v.bat
            (some (clampPower (-gc.currentLoad) cs.currentPower cs.maxPower cs.minPower v.minChargingPower))
            none none
          simp only [hl]; exact ⟨_, rfl⟩
        · split
          · obtain ⟨⟨b1, a1⟩, hl⟩ := tot.unload v.bat
              (some (pymin (pymin (- -gc.currentLoad) (ops.unloadMaxPower v.bat)) cs.maxPower))
              (some (pymax v.desiredSoc v.dischargeLimit)) none
            simp only [hl]; exact ⟨_, rfl⟩
          · exact ⟨_, rfl⟩
      obtain ⟨r, hloc⟩ := this
      simp only [hloc]
      exact ⟨_, rfl⟩

theorem surplusFold_total (rule : Rule) (ops : BatOps α B) (tot : OpsTotal ops) (env : StratEnv α)
    (ids : List String) (cheap : List (String × Bool)) (l : List (VehicleS α B)) :
    ∀ (st : SWorld α B × List (String × α)), ReadyIds rule ids st.1 →
      ∃ st', l.foldlM (surplusBody ops env cheap) st = .ok st' ∧ ReadyIds rule ids st'.1 := by
  induction l with
  | nil => intro st hk; exact ⟨st, rfl, hk⟩
  | cons x xs ih =>
    intro st hk
    obtain ⟨s1, hs1⟩ := surplusBody_total rule ops tot env cheap st x hk.1
    obtain ⟨st', hf, hk'⟩ := ih s1 (readyIds_surplus rule ops env ids cheap st s1 x hk hs1)
    refine ⟨st', ?_, hk'⟩
    simp only [List.foldlM_cons, bind, Except.bind, hs1]
    exact hf

theorem cheapList_total (env : StratEnv α) (gs : List (GcS α)) (h : ∀ g ∈ gs, g.cost ≠ none) :
    ∃ c, gs.mapM (cheapEntry env) = .ok c := by
  induction gs with
  | nil => exact ⟨[], rfl⟩
  | cons g gs ih =>
    obtain ⟨c, hc⟩ := gcCheap_ok env g (h g List.mem_cons_self)
    obtain ⟨cs, hcs⟩ := ih (fun g' hg' => h g' (List.mem_cons_of_mem _ hg'))
    refine ⟨(g.id, c) :: cs, ?_⟩
    simp only [List.mapM_cons, bind, Except.bind, cheapEntry, hc, pure, Except.pure] at hcs ⊢
    rw [hcs]

/-- **a step on a ready world without stationary batteries does not raise**, and the result is ready
for the same vehicle ids -/
theorem ruleStep_total (rule : Rule) (ops : BatOps α B) (tot : OpsTotal ops) (env : StratEnv α)
    (w : SWorld α B) (hr : Ready rule w) (hb : w.batteries = []) :
    ∃ w' cmds, ruleStep rule ops env w = .ok (w', cmds) ∧ Ready rule w' ∧ w'.batteries = [] ∧
      w'.gcs.map (·.id) = w.gcs.map (·.id) := by
  unfold ruleStep
  rw [availBatPower_nobat ops w hb]
  simp only [bind, Except.bind]
  have hk0 : ReadyIds rule (w.vehicles.map (·.id)) (resetStations w) := by
    refine ⟨⟨?_, ?_, hr.cost, hr.etd⟩, rfl⟩
    · intro u hu c hc
      obtain ⟨s, hs, hid⟩ := hr.veh u hu c hc
      exact ⟨{ s with currentPower := 0 }, by
        unfold resetStations; simp only [List.mem_map]; exact ⟨s, hs, rfl⟩, hid⟩
    · intro s hs
      unfold resetStations at hs
      simp only [List.mem_map] at hs
      obtain ⟨s0, hs0, rfl⟩ := hs
      exact hr.gc s0 hs0
  obtain ⟨st1, hf, hk1⟩ := allocFold_total rule ops tot env (w.vehicles.map (·.id))
    (sortedVehicleIds (resetStations w)) (resetStations w, [], w.gcs.map (fun g => (g.id, (0 : α))))
    (by intro x hx; unfold sortedVehicleIds at hx; rw [List.mem_mergeSort] at hx; exact hx) hk0
  simp only [hf]
  obtain ⟨w1, c1, a1⟩ := st1
  obtain ⟨cheap, hcheap⟩ := cheapList_total env w1.gcs hk1.1.cost
  obtain ⟨st2, hf2, hk2⟩ := surplusFold_total rule ops tot env (w.vehicles.map (·.id)) cheap w1.vehicles
    (w1, []) hk1
  have hd : distributeSurplus ops env w1 = .ok st2 := by
    rw [distributeSurplus_unfold, hcheap]
    exact hf2
  simp only [hd]
  obtain ⟨w2, c2⟩ := st2
  obtain ⟨cheap2, hcheap2⟩ := cheapList_total env w2.gcs hk2.1.cost
  have hb2 : w2.batteries = [] := by
    have h1 : w1.batteries = [] := by
      have := allocFold_batteries rule ops env _ _ _ hf
      simpa [hb] using this
    have := distributeSurplus_batteries ops env w1 w2 c2 hd
    rw [this]; exact h1
  have hu : updateBatteries ops env w2 = .ok w2 := by
    rw [updateBatteries_unfold, hcheap2, hb2]
    rfl
  simp only [hu]
  refine ⟨_, _, rfl, hk2.1, hb2, ?_⟩
  rw [distributeSurplus_gcIds ops env w1 w2 c2 hd]
  exact allocFold_gcIds rule ops env _ _ _ hf

/-- **the iterated step does not raise** on a standing period whose steps all list the same connectors
(ids `gids`), each with a cost, when every connected vehicle's station exists, every station hangs on
one of these connectors, balanced's connected vehicles have an announced departure, the battery
operations are total and there is no stationary battery -/
theorem runSteps_total (rule : Rule) (ops : BatOps α B) (tot : OpsTotal ops) (gids : List String)
    (ds : List (StepGcs α)) :
    ∀ (env : StratEnv α) (w : SWorld α B),
      (∀ d ∈ ds, d.map (·.id) = gids ∧ ∀ g ∈ d, g.cost ≠ none) →
      (∀ u ∈ w.vehicles, ∀ c, u.cs = some c → ∃ s ∈ w.stations, s.id = c) →
      (rule = .balanced → ∀ u ∈ w.vehicles, u.cs ≠ none → u.etd ≠ none) →
      (∀ s ∈ w.stations, s.parent ∈ gids) → w.batteries = [] →
      ∃ ws, runSteps rule ops env w ds = .ok ws := by
  induction ds with
  | nil => intro env w _ _ _ _ _; exact ⟨[], rfl⟩
  | cons d ds ih =>
    intro env w hd hveh hetd hpar hb
    obtain ⟨hdid, hdcost⟩ := hd d List.mem_cons_self
    have hready : Ready rule (enter w d) := by
      refine ⟨hveh, ?_, hdcost, hetd⟩
      intro s hs
      have := hpar s hs
      rw [← hdid] at this
      obtain ⟨g, hg, hid⟩ := List.mem_map.mp this
      exact ⟨g, hg, hid⟩
    obtain ⟨w', cmds, hs, hr', hb', hids⟩ := ruleStep_total rule ops tot env (enter w d) hready hb
    have hpar' : ∀ s ∈ w'.stations, s.parent ∈ gids := by
      intro s hs'
      obtain ⟨g, hg, hid⟩ := hr'.gc s hs'
      have : g.id ∈ w'.gcs.map (·.id) := List.mem_map.mpr ⟨g, hg, rfl⟩
      rw [hids] at this
      have e : (enter w d).gcs.map (·.id) = gids := hdid
      rw [e, hid] at this
      exact this
    obtain ⟨rest, hrest⟩ := ih (tick env) w' (fun d' hd' => hd d' (List.mem_cons_of_mem _ hd'))
      hr'.veh hr'.etd hpar' hb'
    refine ⟨w' :: rest, ?_⟩
    unfold runSteps
    simp only [hs, hrest, bind, Except.bind]

end SpiceEv.StratRun
