"""S_FLEXBAND — correspondence of the Lean model of `generate_flex_band` / `generate_individual_flex_band`
(spice_ev/generate/generate_schedule.py; lean/SpiceEv/Model/FlexBand.lean) with the real functions.

Every case is a one-connector scenario of the C13 generator (harness/c13_scen.py: 1-3 vehicles with / without
V2G, optional stationary battery, fixed load, local generation, operator limit events, seven core standing
times), optionally perturbed (`perturb`: second battery, discharge curve, 0 kW station, station of a foreign
connector, signals without limit, initial connector loads, `stop_time` instead of `n_intervals`, events for
unknown vehicles / without keys, stale departure estimates).  The real `Scenario` is built exactly as
`generate_schedule` builds it, BOTH real functions are called on it, and every field of the two returned flex
dicts is compared with the model's line (`flexband`, `flexband_individual`): floats by value at the bit level
(+0.0 == -0.0, because Python keeps the int `0` where the model has a float), ints, ids and times exactly,
exceptions by kind.

The request line is rendered from the `Scenario` object handed to the functions (their input): connector,
stations, vehicles incl. the `Battery` objects field by field, stationary batteries, the four event lists of
`scenario.events` (the model assembles and buckets them itself), start / stop / interval / n, core standing time.

`flex_lines(scenario_json, cst)` returns `(lines, impl, info)` for other checks (C13 can add the two lines of a
case to its own stream).

Oracle (independent of the model, on the real functions' results): band within the rating, min <= base <= max,
band not wider than the vehicles PRESENT at the step and the batteries allow (presence from the scenario
definition, `c13.present_at`), `needed` of every standing interval >= 0, individual band = -/+ the operator
limit in force (replayed from the limit events alone).
"""
import copy
import datetime as dt
import math
import random
import warnings

import engine
import c13_scen
from wire import enc, dec, err

engine.use_repo()

PID = "S_FLEXBAND"
THEOREM_MODULES = ["C13_FlexBand"]
CHUNK = 8
RULE = ("one-connector scenarios of harness/c13_scen.py (1-3 vehicles with/without V2G, stationary battery, fixed load, "
        "local generation, operator limit events, 4-110 steps of 10-60 min, tz-aware and naive start times, seven core "
        "standing times as argument), one third of them perturbed (second battery, discharge curve, 0 kW station, "
        "station of a foreign connector, limit-less signals, initial connector loads, stop_time instead of n_intervals, "
        "vehicle events for unknown ids / without keys / with stale departure estimates); both real functions run on "
        "every case; non-trivial = a vehicle stands at the connector in at least one step")
ASSUMPTIONS = ["floats compared by value (+0.0 == -0.0: Python keeps the int 0 in places where the model has a float), "
               "no tolerance",
               "all datetimes of one scenario are either all aware or all naive (mixed arithmetic raises TypeError in "
               "Python and is outside the model)",
               "update keys of vehicle events other than the six modelled ones are not generated"]
UNPROVED = ["IEEE rounding: theorems are over ordered fields; the Float stream is compared bit for bit",
            "the battery behind get_available_power is the abstract `Ops.available` in the theorems (non-negative "
            "result assumed); the driver runs Model/Battery.lean"]

US_DAY = 86400 * 1000000
EPS = 1e-5


def f(x):
    return enc(float(x))


def td_us(td):
    return (td.days * 86400 + td.seconds) * 1000000 + td.microseconds


def inst(d):
    """microseconds on the axis of `DateTime.instant`: UTC instant for aware, wall clock for naive datetimes"""
    loc = d.toordinal() * US_DAY + ((d.hour * 60 + d.minute) * 60 + d.second) * 1000000 + d.microsecond
    off = d.utcoffset()
    return loc if off is None else loc - td_us(off)


def w_dt(d):
    off = d.utcoffset()
    o = "N" if off is None else "S %d" % td_us(off)
    return "%d %d %s" % (d.toordinal(), ((d.hour * 60 + d.minute) * 60 + d.second) * 1000000 + d.microsecond, o)


def lst(xs, fn=str):
    xs = list(xs)
    return " ".join([str(len(xs))] + [fn(x) for x in xs])


def opt(x, fn):
    return "N" if x is None else "S " + fn(x)


def hol_ord(s):
    try:
        d = dt.date.fromisoformat(s)
    except Exception:
        return 0
    return d.toordinal() if d.isoformat() == s else 0


def w_core(c):
    if c is None:
        return "N"

    def win(w):
        return "%s %s" % (opt(w.get("start"), lst), opt(w.get("end"), lst))
    return "S %s %s %s" % (opt(c.get("no_drive_days"), lst),
                           opt(c.get("holidays"), lambda hs: lst(hs, lambda h: str(hol_ord(h)))),
                           opt(c.get("times"), lambda ts: lst(ts, win)))


def r_battery(b):
    lp, up = b.loading_curve.points, b.unloading_curve.points
    return " ".join([f(b.capacity), f(b.efficiency), f(b.soc), f(b.EPS), str(len(lp))]
                    + ["%s %s" % (f(p[0]), f(p[1])) for p in lp] + [f(b.loading_curve.max_power), str(len(up))]
                    + ["%s %s" % (f(p[0]), f(p[1])) for p in up] + [f(b.unloading_curve.max_power)])


def r_cost(d):
    if not d:
        return "E"
    if d.get("type") == "fixed":
        return "F " + f(d["value"])
    if d.get("type") == "polynomial":
        return "P " + lst(d["value"], f)
    raise ValueError("cost shape not modelled: %r" % (d,))


def boolean(b):
    return "1" if b else "0"


_MISSING = object()
KIND = {"arrival": "a", "departure": "d"}


def r_update(u):
    def o(key, fn):
        v = u.get(key, _MISSING)
        return "N" if v is _MISSING else "S " + fn(v)
    return " ".join([
        o("estimated_time_of_arrival", lambda v: opt(v, lambda t: str(inst(t)))),
        o("estimated_time_of_departure", lambda v: opt(v, lambda t: str(inst(t)))),
        o("desired_soc", f), o("soc_delta", f),
        o("connected_charging_station", lambda v: opt(v, str)),
        o("schedule", f)])


def r_vehicle_event(e):
    extra = set(e.update) - {"estimated_time_of_arrival", "estimated_time_of_departure", "desired_soc", "soc_delta",
                             "connected_charging_station", "schedule"}
    if extra:
        raise ValueError("update keys outside the model: %s" % sorted(extra))
    return "V %d %d %s %s %s" % (inst(e.signal_time), inst(e.start_time), e.vehicle_id,
                                 KIND.get(e.event_type, "o"), r_update(e.update))


def r_signal(e):
    return "G %d %d %s %s %s %s %s" % (inst(e.signal_time), inst(e.start_time), e.grid_connector_id,
                                       opt(e.max_power, f), opt(e.cost, r_cost), opt(e.target, f),
                                       opt(e.window, boolean))


def r_values_list(item):
    nm, l = item
    step = dt.timedelta(seconds=l.step_duration_s)
    return "%s %d %d %s %s %s" % (nm, inst(l.start_time), td_us(step), l.grid_connector_id, f(l.factor),
                                  lst(l.values, f))


def r_connector(item):
    nm, c = item
    return "%s %s %s %s %s %s" % (nm, f(c.max_power), r_cost(c.cost), opt(c.target, f), opt(c.window, boolean),
                                  lst(c.current_loads.items(), lambda kv: "%s %s" % (kv[0], f(kv[1]))))


def r_vehicle(item):
    nm, v = item
    return "%s %s %s %s %s %s %s" % (
        nm, opt(v.connected_charging_station, str), opt(v.estimated_time_of_arrival, lambda t: str(inst(t))),
        opt(v.estimated_time_of_departure, lambda t: str(inst(t))), f(v.desired_soc), f(v.battery.soc),
        opt(v.schedule, f))


def r_vtype(item):
    nm, v = item
    t = v.vehicle_type
    # last token: Python type of loading_curve.max_power (builtin sum() treats ints and floats differently)
    return "%s %s %s %s %s %s" % (nm, boolean(t.v2g), f(t.v2g_power_factor), f(t.min_charging_power),
                                  r_battery(v.battery), boolean(isinstance(v.battery.loading_curve.max_power, int)))


def scenario_tokens(s, gc_id, cst, eps):
    c = s.components
    return " ".join([
        f(eps), str(td_us(s.interval)), str(s.n_intervals), w_dt(s.start_time), str(inst(s.stop_time)), gc_id,
        w_core(cst),
        lst(c.grid_connectors.items(), r_connector),
        lst(c.charging_stations.items(), lambda kv: "%s %s %s %s" % (kv[0], f(kv[1].max_power), kv[1].parent,
                                                                      f(kv[1].min_power))),
        lst(c.vehicles.items(), r_vehicle),
        lst(c.vehicles.items(), r_vtype),
        lst(c.batteries.items(), lambda kv: "%s %s %s" % (kv[0], kv[1].parent, r_battery(kv[1]))),
        lst(s.events.vehicle_events, r_vehicle_event),
        lst(s.events.grid_operator_signals, r_signal),
        lst(s.events.fixed_load_lists.items(), r_values_list),
        lst(s.events.local_generation_lists.items(), r_values_list)])


# ------------------------------------------------------------------------------------------
# rendering of the returned dicts in the driver's format

def r_collective(flex):
    v, b = flex["vehicles"], flex["batteries"]
    return " | ".join([
        lst(flex["min"], f), lst(flex["base"], f), lst(flex["max"], f),
        "F %s %s %s %s" % (f(v["capacity"]), f(v["desired_energy"]), boolean(v["v2g"]), f(v["efficiency"])),
        lst(v["min"], f), lst(v["max"], f),
        "B %s %s %s %s" % (f(b["stored"]), f(b["power"]), f(b["free"]), f(b["efficiency"])),
        "I " + lst(flex["intervals"], lambda iv: "%s %s %d" % (f(iv["needed"]), lst(iv["time"]),
                                                               iv["num_vehicles_present"]))])


def r_record(r):
    return "%s %s %d %d %d %d %s %s %s %s %s %s" % (
        r["vid"], f(r["v2g"]), inst(r["t_start"]), inst(r["t_end"]), r["idx_start"], r["idx_end"], f(r["init_soc"]),
        f(r["energy"]), f(r["desired_soc"]), f(r["efficiency"]), f(r["p_min"]), f(r["p_max"]))


def r_individual(flex):
    b = flex["batteries"]
    return " | ".join([
        "V " + lst(flex["vehicles"], lambda st: lst(st, r_record)),
        "B %s %s %s %s %s %s" % (f(b["stored"]), f(b["power"]), f(b["free"]), f(b["efficiency"]),
                                 f(b["init_discharge"]), f(b["full_discharge"])),
        lst(flex["base"], f), lst(flex["min"], f), lst(flex["max"], f)])


# ------------------------------------------------------------------------------------------

def build_scenario(sc_json):
    """as generate_schedule does: schedule_from_csv emptied, Scenario built from the JSON object"""
    from spice_ev import scenario
    j = copy.deepcopy(sc_json)
    j.setdefault("events", {})["schedule_from_csv"] = {}
    return scenario.Scenario(j, ".")


def flex_lines(sc_json, cst, which=("collective", "individual")):
    """(protocol lines, implementation renderings, info) for the two real functions on one scenario.
    `cst` is generate_schedule's `args.core_standing_time or s.core_standing_time`."""
    from spice_ev.generate import generate_schedule as gs
    lines, impl, info = [], [], {}
    with warnings.catch_warnings():
        warnings.simplefilter("ignore")
        for kind in which:
            try:
                s = build_scenario(sc_json)
            except Exception as e:      # the scenario itself is rejected: nothing to compare
                info["scenario_error"] = e
                return [], [], info
            gc_id = list(s.components.grid_connectors.keys())[0]
            toks = scenario_tokens(s, gc_id, cst if kind == "collective" else None, gs.EPS)
            try:
                if kind == "collective":
                    flex = gs.generate_flex_band(s, gcID=gc_id, core_standing_time=cst)
                    out = r_collective(flex)
                else:
                    flex = gs.generate_individual_flex_band(s, gc_id)
                    out = r_individual(flex)
                info[kind] = flex
            except Exception as e:  # the watchdog of a calling check is a BaseException and passes through
                out = err(e)
                info[kind] = e
            lines.append(("flexband " if kind == "collective" else "flexband_individual ") + toks)
            impl.append(out)
            info[kind + "_scenario"] = s
    return lines, impl, info


# ------------------------------------------------------------------------------------------
# case generation

def perturb(rnd, sc, tags):
    """realistic variations the C13 grammar does not produce"""
    comp, ev = sc["components"], sc["events"]
    start = dt.datetime.fromisoformat(sc["scenario"]["start_time"])
    interval = dt.timedelta(minutes=sc["scenario"]["interval"])
    n = sc["scenario"]["n_intervals"]
    how = rnd.choice(["bat2", "dcurve", "cs0", "foreign_cs", "sig_none", "init_loads", "stop_time", "unknown_vid",
                      "missing_key", "stale_etd", "bat_unlimited", "gc2_events", "double_arrival", "other_kind",
                      "etd_none", "eff0", "eps_generation", "eps_generation"])
    tags.append("perturb_" + how)
    vids = sorted(comp["vehicles"])
    if how == "bat2":
        bp = rnd.choice([10, 7.5])
        comp["batteries"]["BAT2"] = {"parent": rnd.choice(["GC1", "GC1", "GCX"]), "capacity": rnd.choice([40, 12.5]),
                                     "charging_curve": [[0, bp], [0.7, bp], [1, bp / 2]],
                                     "soc": rnd.choice([0.1, 0.6, 1.0]), "efficiency": rnd.choice([0.9, 0.97]),
                                     "discharge_curve": [[0, bp / 2], [1, bp]] if rnd.random() < 0.5 else None}
        if comp["batteries"]["BAT2"]["discharge_curve"] is None:
            del comp["batteries"]["BAT2"]["discharge_curve"]
    elif how == "dcurve":
        for vt in comp["vehicle_types"].values():
            vt["v2g"] = True
            p = max(q[1] for q in vt["charging_curve"])
            vt["discharge_curve"] = [[0, 0], [0.2, p / 2], [1, p]]
            vt["v2g_power_factor"] = rnd.choice([0.5, 1.0])
    elif how == "cs0":
        cs = rnd.choice(sorted(comp["charging_stations"]))
        comp["charging_stations"][cs]["max_power"] = 0
    elif how == "foreign_cs":
        cs = rnd.choice(sorted(comp["charging_stations"]))
        comp["charging_stations"][cs]["parent"] = "GCX"
    elif how == "sig_none":
        for k in range(rnd.randint(1, 3)):
            t = start + interval * rnd.randint(0, n)
            ev["grid_operator_signals"].append(
                {"signal_time": (t - interval * rnd.choice([0, 3])).isoformat(), "start_time": t.isoformat(),
                 "grid_connector_id": "GC1", "max_power": rnd.choice([None, 7.5, None, 1000]),
                 "cost": {"type": "fixed", "value": 0.1}})
    elif how == "init_loads":
        comp["grid_connectors"]["GC1"]["current_loads"] = {"X": rnd.choice([2.5, -4.0]), "L1": 1.25}
    elif how == "stop_time":
        del sc["scenario"]["n_intervals"]
        sc["scenario"]["stop_time"] = (start + interval * n + dt.timedelta(minutes=rnd.choice([0, 7]))).isoformat()
    elif how == "unknown_vid":
        t = start + interval * rnd.randint(0, n - 1)
        ev["vehicle_events"].append({"signal_time": t.isoformat(), "start_time": t.isoformat(), "vehicle_id": "ghost",
                                     "event_type": rnd.choice(["arrival", "departure"]),
                                     "update": {"connected_charging_station": None, "soc_delta": -0.1,
                                                "desired_soc": 1.0,
                                                "estimated_time_of_departure": (t + interval).isoformat()}})
    elif how == "missing_key":
        arr = [e for e in ev["vehicle_events"] if e["event_type"] == "arrival"]
        if arr:
            e = rnd.choice(arr)
            e["update"].pop(rnd.choice(["soc_delta", "desired_soc", "estimated_time_of_departure",
                                        "connected_charging_station"]))
    elif how == "stale_etd":
        # estimated departure at or before the step in which the vehicle is registered
        arr = [e for e in ev["vehicle_events"] if e["event_type"] == "arrival"]
        if arr and rnd.random() < 0.7:
            e = rnd.choice(arr)
            t = dt.datetime.fromisoformat(e["start_time"])
            e["update"]["estimated_time_of_departure"] = (t - interval * rnd.choice([0, 1, 3])).isoformat()
        else:
            v = comp["vehicles"][rnd.choice(vids)]
            v["connected_charging_station"] = "CS_" + [k for k in vids if comp["vehicles"][k] is v][0]
            v["estimated_time_of_departure"] = (start - interval * rnd.choice([0, 2])).isoformat()
    elif how == "bat_unlimited":
        comp["batteries"]["BATU"] = {"parent": "GC1", "charging_curve": [[0, 20], [1, 20]], "soc": rnd.choice([0, 0.5])}
    elif how == "gc2_events":
        t = start + interval * rnd.randint(0, n - 1)
        ev["grid_operator_signals"].append({"signal_time": t.isoformat(), "start_time": t.isoformat(),
                                            "grid_connector_id": "GCX", "max_power": 1.0})
        ev["local_generation"]["PVX"] = {"start_time": start.isoformat(), "step_duration_s": 3600,
                                         "grid_connector_id": "GCX", "values": [5, 6]}
    elif how == "double_arrival":
        arr = [e for e in ev["vehicle_events"] if e["event_type"] == "arrival"]
        if arr:
            e = copy.deepcopy(rnd.choice(arr))
            t = dt.datetime.fromisoformat(e["start_time"]) + interval * rnd.choice([1, 2])
            e["start_time"] = e["signal_time"] = t.isoformat()
            ev["vehicle_events"].append(e)
    elif how == "other_kind":
        t = start + interval * rnd.randint(0, n - 1)
        ev["vehicle_events"].append({"signal_time": t.isoformat(), "start_time": t.isoformat(),
                                     "vehicle_id": rnd.choice(vids), "event_type": "schedule",
                                     "update": {"schedule": 3.5}})
    elif how == "etd_none":
        arr = [e for e in ev["vehicle_events"] if e["event_type"] == "arrival"]
        if arr:
            rnd.choice(arr)["update"]["estimated_time_of_departure"] = None
    elif how == "eps_generation":
        # local generation surplus exactly at / next to EPS (boundary of the support loop's break test)
        ev["fixed_load"] = {}
        ev["local_generation"]["PV1"] = {"start_time": start.isoformat(), "step_duration_s": sc["scenario"]["interval"] * 60,
                                         "grid_connector_id": "GC1",
                                         "values": [rnd.choice([1e-5, 1e-5, 2e-5, 5e-6, 3.0, 1.00001e-5]) for _ in range(n)]}
        v = comp["vehicles"][vids[0]]
        v["connected_charging_station"] = "CS_" + vids[0]
        v["soc"], v["desired_soc"] = 0.2, 1.0
    elif how == "eff0":
        vt = comp["vehicle_types"][rnd.choice(sorted(comp["vehicle_types"]))]
        vt["battery_efficiency"] = 0.0


def gen_cases(tier, seed):
    rnd = random.Random(seed * 104729 + 31)
    n_gen = 3000 if tier == "quick" else 60000
    for i in range(n_gen):
        size = "small" if i % 3 else ("long" if i % 6 == 0 else "mid")
        sc, cst, tags = c13_scen.gen_scenario(rnd, size)
        if i % 3 == 1:
            perturb(rnd, sc, tags)
        yield {"scenario": sc, "cst": cst, "tags": tags}


# ------------------------------------------------------------------------------------------
# oracle

def limit_in_force(sc, n):
    """operator limit at every step, from the limit events alone (individual mode: an event takes effect at the
    first step at or after its start time; a signal without limit restores the rating); None if not decidable"""
    start = dt.datetime.fromisoformat(sc["scenario"]["start_time"])
    step = dt.timedelta(minutes=sc["scenario"]["interval"])
    rating = float(sc["components"]["grid_connectors"]["GC1"]["max_power"])
    if not rating:
        return None
    evs = []
    for k, e in enumerate(sc["events"].get("grid_operator_signals", [])):
        if e["grid_connector_id"] != "GC1":
            continue
        st, sg = dt.datetime.fromisoformat(e["start_time"]), dt.datetime.fromisoformat(e["signal_time"])
        if (st.tzinfo is None) != (start.tzinfo is None):
            return None
        if math.ceil((sg - start) / step) >= n:
            continue                                   # never handed over by get_event_steps
        evs.append((math.ceil((st - start) / step), max(0, math.ceil((sg - start) / step)), k, e.get("max_power")))
    out = []
    for t in range(n):
        cur = rating
        # order of application inside one step: by signal bucket, then list order
        for (i, sgi, k, mp) in sorted([x for x in evs if 0 <= x[0] <= t], key=lambda x: (x[0], x[1], x[2])):
            cur = rating if mp is None else min(rating, float(mp))
        out.append(cur)
    return out


def stale_estimates(sc):
    """vehicles that can be registered at the connector in a step AFTER the step of their estimated departure:
    connected in a step t with estimate index < t (first registration with a stale estimate, or standing beyond the
    estimate, where a reset of the fleet dict re-registers the vehicle) — from the scenario definition alone
    (events take effect at the first step at or after start and signal time).  Trigger predicate of finding FB1."""
    start = dt.datetime.fromisoformat(sc["scenario"]["start_time"])
    step = dt.timedelta(minutes=sc["scenario"]["interval"])
    if "n_intervals" in sc["scenario"]:
        n = sc["scenario"]["n_intervals"]
    else:
        n = (dt.datetime.fromisoformat(sc["scenario"]["stop_time"]) - start) // step

    def idx(t):
        return math.ceil((dt.datetime.fromisoformat(t) - start) / step)
    out = set()
    try:
        conn = {vid: v.get("connected_charging_station") for vid, v in sc["components"]["vehicles"].items()}
        etd = {vid: v.get("estimated_time_of_departure") for vid, v in sc["components"]["vehicles"].items()}
        evs = sorted([(max(0, idx(e["start_time"]), idx(e["signal_time"])), dt.datetime.fromisoformat(e["start_time"]), k, e)
                      for k, e in enumerate(sc["events"].get("vehicle_events", []))], key=lambda x: x[:3])
        k = 0
        for t in range(n):
            while k < len(evs) and evs[k][0] <= t:
                e = evs[k][3]
                vid = e["vehicle_id"]
                if vid in conn:
                    if e["event_type"] == "departure":
                        conn[vid], etd[vid] = None, None
                    elif e["event_type"] == "arrival":
                        conn[vid] = e["update"].get("connected_charging_station", conn[vid])
                        etd[vid] = e["update"].get("estimated_time_of_departure", etd[vid])
                k += 1
            for vid in conn:
                if conn[vid] and etd[vid] and idx(etd[vid]) < t:
                    out.add(vid)
    except TypeError:       # naive / aware mix
        pass
    return sorted(out)


def oracle(case, info, viol, stats):
    import c13
    sc = case["scenario"]
    comp = sc["components"]
    R = float(comp["grid_connectors"]["GC1"]["max_power"])
    flex = info.get("collective")
    if isinstance(flex, dict):
        n = len(flex["base"])
        lo, base, hi = flex["min"], flex["base"], flex["max"]
        for t in range(n):
            if not (-R <= lo[t] <= R and -R <= base[t] <= R and -R <= hi[t] <= R):
                viol.append(("band_in_gc", "S_FLEXBAND:band_outside_rating",
                             "step %d: [%r, %r, %r], rating %s" % (t, lo[t], base[t], hi[t], R)))
                break
            if not (lo[t] <= base[t] <= hi[t]):
                viol.append(("band_order", "S_FLEXBAND:min_base_max_order",
                             "step %d: min %r base %r max %r" % (t, lo[t], base[t], hi[t])))
                break
        for iv in flex["intervals"]:
            if iv["needed"] < -1e-9:
                stale = stale_estimates(sc)
                viol.append(("needed", "S_FLEXBAND:negative_energy_needed" +
                             (":departure_estimate_before_registration_step" if stale else ""),
                             "interval %r%s" % (iv, ("; estimated departure before the registration step: %s" % stale)
                                                if stale else "")))
                break
        plain = "n_intervals" in sc["scenario"] and all(cs["parent"] == "GC1" for cs in comp["charging_stations"].values())
        pres = c13.present_at(sc, n) if plain else None
        if pres is not None:
            bats = [b for b in comp.get("batteries", {}).values() if b["parent"] == "GC1"]
            bat_dis = sum(max(max(p[1] for p in b.get("discharge_curve") or b["charging_curve"]),
                              max(p[1] for p in b["charging_curve"])) for b in bats)
            bat_chg = sum(max(p[1] for p in b["charging_curve"]) for b in bats)
            for t in range(n):
                if not (-R + EPS < base[t] < R - EPS):
                    continue
                dis = chg = 0.0
                for vid, csid in pres[t].items():
                    vt = comp["vehicle_types"][comp["vehicles"][vid]["vehicle_type"]]
                    cmax = max(p[1] for p in vt["charging_curve"])
                    csmax = float(comp["charging_stations"][csid]["max_power"]) if csid in comp["charging_stations"] else 0.0
                    chg += min(cmax, csmax)
                    if vt.get("v2g"):
                        dcurve = vt.get("discharge_curve")
                        fac = float(vt.get("v2g_power_factor", 0.5))
                        dmax = max(p[1] for p in dcurve) if dcurve else cmax * fac
                        dis += dmax * max(1.0, fac)
                if flex["vehicles"]["max"][t] > chg + 1e-6 or -flex["vehicles"]["min"][t] > dis + 1e-6 or \
                        lo[t] < max(-R, base[t] - bat_dis - dis) - 1e-6 or hi[t] > min(R, base[t] + bat_chg + chg) + 1e-6:
                    viol.append(("in_band", "S_FLEXBAND:band_wider_than_present_vehicles_allow",
                                 "step %d: band [%r, %r] around %r, vehicle flex [%r, %r]; present %s can discharge "
                                 "%.3f / charge %.3f, batteries %.3f / %.3f"
                                 % (t, lo[t], hi[t], base[t], flex["vehicles"]["min"][t], flex["vehicles"]["max"][t],
                                    sorted(pres[t]), dis, chg, bat_dis, bat_chg)))
                    break
            stats.append("presence_checked")
        if flex["intervals"]:
            stats.append("intervals_%d" % min(3, len(flex["intervals"])))
        if any(x != 0 for x in flex["vehicles"]["min"]):
            stats.append("v2g_flex")
        if any(b != 0 and abs(b) < R for b in base):
            stats.append("base_load")
        if any(abs(b) == R for b in base):
            stats.append("base_clamped")
    elif flex is not None:
        stats.append("collective_raises_" + type(flex).__name__)
    ind = info.get("individual")
    if isinstance(ind, dict):
        n = len(ind["base"])
        want = limit_in_force(sc, n) if "n_intervals" in sc["scenario"] else None
        if want is not None:
            for t in range(n):
                if ind["max"][t] != want[t] or ind["min"][t] != -want[t]:
                    viol.append(("individual_limit", "S_FLEXBAND:individual_band_not_limit_in_force",
                                 "step %d: band [%r, %r], limit in force %r" % (t, ind["min"][t], ind["max"][t], want[t])))
                    break
            stats.append("limit_checked")
            if any(w < R for w in want):
                stats.append("limit_below_rating")
        if sum(len(x) for x in ind["vehicles"]):
            stats.append("arrival_records")
        if any(r["idx_end"] < len(ind["base"]) - 1 for st in ind["vehicles"] for r in st):
            stats.append("record_with_departure")
    elif ind is not None:
        stats.append("individual_raises_" + type(ind).__name__)


def eval_case(case):
    warnings.simplefilter("ignore")
    # generate_schedule: core_standing_time = args.core_standing_time or s.core_standing_time
    cst = case["cst"] or case["scenario"]["scenario"].get("core_standing_time")
    lines, impl, info = flex_lines(case["scenario"], cst)
    viol, stats = [], ["tag_" + t for t in set(case.get("tags", []))]
    oracle(case, info, viol, stats)
    flex = info.get("collective")
    nontrivial = isinstance(flex, dict) and any(x != 0 for x in flex["vehicles"]["max"])
    if case["cst"] is not None:
        stats.append("cst_argument")
    elif cst is not None:
        stats.append("cst_scenario")
    return {"lines": lines, "impl": impl, "violations": viol, "nontrivial": nontrivial, "stats": stats}


def compare(case, impl, model):
    if impl == model:
        return None
    a, b = impl.split(), model.split()
    if len(a) != len(b):
        return "different shape (%d vs %d tokens): %s  //  %s" % (len(a), len(b), impl[:300], model[:300])
    for i, (x, y) in enumerate(zip(a, b)):
        if x == y:
            continue
        if x.startswith("x") and y.startswith("x") and len(x) == 17 and len(y) == 17:
            fx, fy = dec(x), dec(y)
            if fx == fy:
                continue
            return "token %d: impl %r model %r" % (i, fx, fy)
        return "token %d: impl %s model %s" % (i, x, y)
    return None
