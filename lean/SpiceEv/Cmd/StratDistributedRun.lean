/- driver command for Model/StratDistributedRun.lean: `Distributed.step` iterated over a recorded period of a real run
(Float battery model).  The request is a sequence of `step_distributed` payloads (Cmd/StratDistributed.lean); the first
one gives the strategy object at the beginning of the period, of the others only what the simulation loop hands to the
step is read (options, clock, connectors, visible events) — the state is the model's own. -/
import SpiceEv.Wire
import SpiceEv.Model.StratDistributedRun
import SpiceEv.Cmd.StratDistributed
namespace SpiceEv.Cmd.StratDistributedRun
open SpiceEv SpiceEv.Distrib SpiceEv.Cmd.Strategies SpiceEv.Cmd.StratDistributed

/-- one `step_distributed` payload (same grammar as `cmdStep` of Cmd/StratDistributed.lean) ↦ interval length in
hours, options, strategy object -/
def pPayload : P (Float × DEnv Float × DState Float (Battery Float)) := do
  let eps ← P.num Float; let thr ← P.num Float; let tsph ← P.num Float
  let now ← P.int; let interval ← P.int
  let opps ← pSub; let deps ← pSub
  let gcs ← P.list pGc
  let ncs ← P.list (do let k ← P.tok; let v ← P.opt P.int; pure (k, v))
  let css ← P.list pCs; let vs ← P.list pVeh; let bs ← P.list pBat
  let conn ← P.list (do let k ← P.tok; let v ← pIds; pure (k, v))
  let ini ← pInit
  let oe ← P.list SpiceEv.PeakShaving.Cmd.pEv; let dEv ← P.list SpiceEv.PeakShaving.Cmd.pEv
  let ini := { ini with oppsEvents := oe, depsEvents := dEv }
  let evs ← P.list pEvent
  let fut ← P.list SpiceEv.PeakShaving.Cmd.pEv
  let nowDt ← Cmd.Util.pDateTime
  let plwGc ← P.list (do
    let k ← P.tok; let op ← P.tok; let lvl ← P.opt P.tok; let win ← P.opt P.bool; pure (k, op, lvl, win))
  let plwVeh ← P.list (do
    let k ← P.tok; let ps ← P.list (P.num Float); let sch ← P.opt (P.num Float); pure (k, ps, sch))
  let oPk ← P.list (do let k ← P.tok; let v ← P.num Float; pure (k, v))
  let dPk ← P.list (do let k ← P.tok; let v ← P.num Float; pure (k, v))
  let ini := { ini with oppsPeaks := oPk, depsPeaks := dPk }
  let T := Cmd.Battery.hoursOfMicros interval
  let de : DEnv Float := ⟨⟨eps, thr, tsph, now, interval⟩, T, opps, deps, fut, nowDt, plwGc, plwVeh⟩
  pure (T, de, ⟨⟨gcs, css, vs, bs⟩, ncs, conn, ini, evs⟩)

/-- the result of one step in the format of `step_distributed` -/
def rStep (r : DState Float (Battery Float) × List (String × Float)) : String :=
  let s := r.1
  let w := s.world
  renderList rKV r.2 ++ " | " ++
    " ; ".intercalate (w.gcs.map (fun g => g.id ++ " " ++ rNum g.curMax ++ " " ++ renderList rKV g.loads)) ++ " | " ++
    " ".intercalate (w.stations.map (fun s => rNum s.currentPower)) ++ " | " ++
    " ".intercalate (w.vehicles.map (fun v => rNum v.bat.soc)) ++ " | " ++
    " ".intercalate (w.batteries.map (fun b => rNum b.bat.soc)) ++ " | " ++
    renderList rIdsKV s.connected ++ " | " ++
    " ".intercalate (s.init.virtualCs.map (fun c => rNum c.currentPower)) ++ " | " ++
    toString s.init.oppsEvents.length ++ " " ++ toString s.init.depsEvents.length ++ " | " ++
    renderList rKV s.init.oppsPeaks ++ " | " ++ renderList rKV s.init.depsPeaks

/-- `run_distributed <n> (<step_distributed payload>)…` (a standing period: no vehicle event, no battery loss between
the steps) → the `step_distributed` results of the n steps joined by ` || `, or the exception -/
def cmdRun : P String := do
  let ps ← P.list pPayload
  match ps with
  | [] => pure ""
  | (T, _, s0) :: _ =>
    let ins : List (StepIn Float (Battery Float)) := ps.map (fun p => ⟨p.2.1, p.2.2.world.gcs, id, p.2.2.future⟩)
    match runD (floatDOps T) s0 ins with
    | .error e => pure (renderErr e)
    | .ok rs => pure (" || ".intercalate (rs.map rStep))

def handlers : List (String × Handler) := [("run_distributed", runP cmdRun)]

end SpiceEv.Cmd.StratDistributedRun
