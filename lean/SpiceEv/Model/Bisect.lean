/-
The bisection pattern used by the look-ahead strategies
(`while max_power - min_power > EPS: mid = (max+min)/2; if ok(mid): max = mid else: min = mid`),
e.g. spice_ev/strategies/schedule.py: charge_individually (add_power), sim_balanced_charging;
balanced_market.py; flex_window.py; peak_load_window.py.  `ok` is the strategy's test (a battery
simulation) and is a parameter.  The value the Python code keeps is the LAST midpoint evaluated.
-/
import SpiceEv.Py
import SpiceEv.Model.StrategyUtil
namespace SpiceEv

section
variable {α : Type} [Add α] [Sub α] [Mul α] [Div α] [LT α] [LE α]
  [DecidableLT α] [DecidableLE α] [OfNat α 0] [OfNat α 1] [NatCast α]

/-- result: `none` = fuel exhausted; `some last` = loop ended, `last` = last midpoint (if any) -/
def bisect (ok : α → Bool) (eps : α) : Nat → α → α → Option α → Option (Option α)
  | 0, lo, hi, last => if eps < hi - lo then none else some last
  | f + 1, lo, hi, last =>
    if eps < hi - lo then
      let mid := (hi + lo) / ((2 : Nat) : α)
      if ok mid then bisect ok eps f lo mid (some mid) else bisect ok eps f mid hi (some mid)
    else some last

/-- final allocation of `Schedule.charge_individually` for one vehicle:
`power = clamp_power(vehicle.schedule + add_power, vehicle, cs); power = min(power, gc_power_left)` -/
def individualPower (schedule addPower left csCur csMax csMin vMin : α) : α :=
  pymin (clampPower (schedule + addPower) csCur csMax csMin vMin) left

end
end SpiceEv
