/-
C13 — Generated grid schedules respect flexibility, connector limits and signals.

Property theorems only (helper lemmas: SpiceEv/Proofs/ScheduleGen.lean, SpiceEv/Proofs/ScheduleRead.lean).
All statements are about the executable model `SpiceEv.ScheduleGen` (SpiceEv/Model/ScheduleGen.lean)
instantiated at an arbitrary linearly ordered field; the driver runs the same definitions on `Float`
against the real `generate_schedule`, `get_schedule_from_csv` and `Strategy.step`.

The model takes the flex band (result of generate_flex_band / generate_individual_flex_band) as an
input; nothing is proved about how the real functions compute it (only `clamp_to_gc`, C13_band_in_gc).
The model contains the repaired behaviour of D7 (flag index), D8 (row time for every row) and D13
(no negative greedy power in the curtailment-first pass); on the pinned code the theorems
C13_flag, C13_roundtrip and the non-negativity part of C13_distribute_bounds /
C13_individual_within_limit are false, which is how those defects were found.
-/
import SpiceEv.Proofs.ScheduleGen
import SpiceEv.Proofs.ScheduleRead
import Mathlib.Tactic.NormNum
import Mathlib.Algebra.Order.Archimedean.Basic
set_option linter.unusedSectionVars false
set_option linter.unusedVariables false
namespace SpiceEv
open SpiceEv.ScheduleGen

section generator
variable {α : Type} [Field α] [LinearOrder α] [IsStrictOrderedRing α]

/-- **Distribution invariant (unconditional).**  For every successful call of
`distribute_energy_balanced` — any period, request, flags, fuel — the state keeps its length, and for
every timestep `schedule[i] + avail.max[i]` and `schedule[i] − avail.min[i]` are unchanged, the band
`flex.min[i]`, `flex.max[i]` is not written, and timesteps outside the period are not touched at all. -/
theorem C13_distribute_inv (eps tsph : α) (fuel : Nat) (cells : Array (Cell α)) (es : List (Entry α))
    (E : α) (v2g : Bool) (vid : Option Nat) (cells' : Array (Cell α)) (ed : α)
    (h : distribute eps tsph fuel cells es E v2g vid = .ok (cells', ed)) :
    cells'.size = cells.size ∧
    (∀ i, (cells'.getD i Cell.zero).sched + (cells'.getD i Cell.zero).availMax
            = (cells.getD i Cell.zero).sched + (cells.getD i Cell.zero).availMax ∧
          (cells'.getD i Cell.zero).sched - (cells'.getD i Cell.zero).availMin
            = (cells.getD i Cell.zero).sched - (cells.getD i Cell.zero).availMin ∧
          (cells'.getD i Cell.zero).flexMin = (cells.getD i Cell.zero).flexMin ∧
          (cells'.getD i Cell.zero).flexMax = (cells.getD i Cell.zero).flexMax) ∧
    (∀ i, i ∉ es.map (·.1) → cells'.getD i Cell.zero = cells.getD i Cell.zero) := by
  have hr := distribute_rel eps tsph fuel cells es E v2g vid (cells', ed) h
  refine ⟨hr.1, fun i => ?_, fun i hi => distribute_frame eps tsph fuel cells es E v2g vid (cells', ed) h i hi⟩
  obtain ⟨h1, h2, h3, h4, _, _⟩ := hr.2 i
  exact ⟨h1, h2, h3, h4⟩

/-- **Distribution bounds (the "hence").**  If the period has no duplicate timestep and for every
entry `(i, lo, hi)`: `lo ≤ 0 ≤ hi`, `avail.min[i], avail.max[i] ≥ 0`, `flex.min[i] ≤ schedule[i]` and
the request fits the band (`schedule[i] + hi ≤ flex.max[i]` for a charging request `E > 0`,
`schedule[i] ≤ flex.max[i]` otherwise), then after the call, for every timestep of the period:
avail is still non-negative, the schedule is inside the band, and the total power applied to the
timestep lies in the individual flex bounds `[lo, hi]` that were passed in. -/
theorem C13_distribute_bounds (eps tsph : α) (fuel : Nat) (cells : Array (Cell α)) (es : List (Entry α))
    (E : α) (v2g : Bool) (vid : Option Nat) (cells' : Array (Cell α)) (ed : α)
    (htsph : 0 < tsph) (hnd : (es.map (·.1)).Nodup)
    (hfit : ∀ e ∈ es, Fits E (cells.getD e.1 Cell.zero) e)
    (h : distribute eps tsph fuel cells es E v2g vid = .ok (cells', ed)) :
    ∀ e ∈ es,
      0 ≤ (cells'.getD e.1 Cell.zero).availMin ∧ 0 ≤ (cells'.getD e.1 Cell.zero).availMax ∧
      (cells'.getD e.1 Cell.zero).flexMin ≤ (cells'.getD e.1 Cell.zero).sched ∧
      (cells'.getD e.1 Cell.zero).sched ≤ (cells'.getD e.1 Cell.zero).flexMax ∧
      e.2.1 ≤ (cells'.getD e.1 Cell.zero).sched - (cells.getD e.1 Cell.zero).sched ∧
      (cells'.getD e.1 Cell.zero).sched - (cells.getD e.1 Cell.zero).sched ≤ e.2.2 := by
  intro e he
  have := distribute_post eps tsph fuel cells es E v2g vid (cells', ed) htsph hnd hfit h e he
  exact ⟨this.amin, this.amax, this.fmin, this.fmax, this.lo, this.hi⟩

/-- **The bisection on the cutoff terminates** (fuel suffices): if the first cutoff `p` is within
`eps · 2^n` of both ends, `n + 1` iterations are enough, for every state and request.  (Over the reals
such an `n` always exists; the driver supplies fuel 4000.)  The returned powers are, entry by entry,
either 0 or the sweep power for some cutoff (`PowerOK`), which is what C13_distribute_bounds uses. -/
theorem C13_bisect_fuel (eps : α) (v2g : Bool) (cells : Array (Cell α)) (es : List (Entry α)) (pAvg pn0 : α)
    (n fuel : Nat) (pLow pHigh p : α) (power : List α) (hf : n + 1 ≤ fuel)
    (h1 : pHigh - p ≤ eps * 2 ^ n) (h2 : p - pLow ≤ eps * 2 ^ n) :
    ∃ r, bisect eps v2g cells es pAvg pn0 fuel pLow pHigh p power = .ok r ∧
      (List.Forall₂ (PowerOK eps v2g cells) es power → List.Forall₂ (PowerOK eps v2g cells) es r) := by
  obtain ⟨r, hr⟩ := bisect_fuel eps v2g cells es pAvg pn0 n fuel pLow pHigh p power hf h1 h2
  exact ⟨r, hr, fun hp => bisect_ok eps v2g cells es pAvg pn0 fuel pLow pHigh p power r hp hr⟩

/-- **A distribution returns** (no exception, bisection terminates) for every non-empty period whose
timesteps exist, for all sufficiently large fuel — over an Archimedean field (ℚ, ℝ) with `ε > 0`. -/
theorem C13_distribute_returns [Archimedean α] (eps tsph : α) (heps : 0 < eps) (cells : Array (Cell α))
    (es : List (Entry α)) (E : α) (v2g : Bool) (vid : Option Nat)
    (hne : es ≠ []) (hin : ∀ e ∈ es, e.1 < cells.size) :
    ∃ fuel0, ∀ fuel, fuel0 ≤ fuel → ∃ r, distribute eps tsph fuel cells es E v2g vid = .ok r := by
  have h1 : es.isEmpty = false := by cases es with | nil => exact absurd rfl hne | cons _ _ => rfl
  have h2 : (!(es.all (fun e => decide (e.1 < cells.size)))) = false := by
    simp only [Bool.not_eq_false', List.all_eq_true, decide_eq_true_eq]
    exact hin
  unfold distribute
  simp only [h1, h2, Bool.false_eq_true, if_false]
  set a := es.foldl (curtStep eps tsph vid) ⟨cells, E * tsph, 0, 0, []⟩ with ha
  set pLow := listMin 0 (es.map (fun e => pymax e.2.1 (-(cells.getD e.1 Cell.zero).availMin))) with hpl
  set pHigh := listMax 0 (es.map (fun e => pymin e.2.2 ((cells.getD e.1 Cell.zero).availMax))) with hph
  set p := a.pAvg / (es.length : α) + a.pn / (es.length : α) with hp
  obtain ⟨n, hn⟩ := pow_unbounded_of_one_lt (max (pHigh - p) (p - pLow) / eps) (one_lt_two)
  have hW : max (pHigh - p) (p - pLow) ≤ eps * 2 ^ n := by
    have := (div_lt_iff₀ heps).mp hn
    linarith
  refine ⟨n + 1, fun fuel hf => ?_⟩
  by_cases hearly : (decide (a.pn < eps) && !v2g) = true
  · simp only [hearly, if_true]; exact ⟨_, rfl⟩
  · simp only [hearly, if_false, Bool.false_eq_true]
    obtain ⟨r, hr⟩ := bisect_fuel eps v2g a.cells a.out (a.pAvg / (es.length : α)) a.pn n fuel pLow pHigh p
      (es.map (fun _ => 0)) hf (le_trans (le_max_left _ _) hW) (le_trans (le_max_right _ _) hW)
    simp only [bind, Except.bind, hr]
    exact ⟨_, rfl⟩

/-- The error branches are Python's: an empty period raises `ValueError` (`min([])`), a timestep
outside the arrays raises `IndexError` — before anything is written. -/
theorem C13_distribute_errors (eps tsph : α) (fuel : Nat) (cells : Array (Cell α)) (es : List (Entry α))
    (E : α) (v2g : Bool) (vid : Option Nat) :
    (es = [] → distribute eps tsph fuel cells es E v2g vid = .error .valueError) ∧
    (es ≠ [] → (∃ e ∈ es, ¬ e.1 < cells.size) →
      distribute eps tsph fuel cells es E v2g vid = .error .indexError) := by
  constructor
  · rintro rfl; unfold distribute; simp
  · intro hne ⟨e, he, hlt⟩
    have h1 : es.isEmpty = false := by cases es with | nil => exact absurd rfl hne | cons _ _ => rfl
    have h2 : (!(es.all (fun e => decide (e.1 < cells.size)))) = true := by
      simp only [Bool.not_eq_true', List.all_eq_false, decide_eq_true_eq]
      exact ⟨e, he, hlt⟩
    unfold distribute
    simp only [h1, h2, Bool.false_eq_true, if_false, if_true]

/-- **Individual mode, all inputs, any sequence of distributions.**  If generation returns (no
exception), then for every timestep avail is non-negative and the schedule lies inside the connector
band `[flex.min[i], flex.max[i]] = [−cur_max_i, cur_max_i]` delivered by
generate_individual_flex_band — for every number and order of vehicles, every energy request, every
grid series and with or without batteries.  Hypotheses: the delivered quantities are non-negative
(`v2g`, `p_max`, battery figures), `flex.min ≤ flex.max`, `ts_per_hour > 0`. -/
theorem C13_individual_within_limit (eps tsph : α) (fuel : Nat) (inp : GenInput α)
    (vehicles : List (List (VInfo α))) (hmode : inp.mode = .individual vehicles)
    (htsph : 0 < tsph) (hbat : BatOK inp.bat)
    (hv : ∀ step ∈ vehicles, ∀ v ∈ step, 0 ≤ v.v2g ∧ 0 ≤ v.pMax)
    (hband : ∀ i, inp.fmin.getD i 0 ≤ inp.fmax.getD i 0)
    (cells : Array (Cell α)) (h : generateCells eps tsph fuel inp = .ok cells) :
    cells.size = inp.base.length ∧ ∀ i, i < inp.base.length →
      0 ≤ (cells.getD i Cell.zero).availMin ∧ 0 ≤ (cells.getD i Cell.zero).availMax ∧
      inp.fmin.getD i 0 ≤ (cells.getD i Cell.zero).sched ∧
      (cells.getD i Cell.zero).sched ≤ inp.fmax.getD i 0 := by
  obtain ⟨hc, _⟩ := generateCells_ok eps tsph fuel inp cells h
  obtain ⟨h1, h2⟩ := generateCore_individual eps tsph fuel inp vehicles hmode htsph hbat hv hband cells hc
  exact ⟨h1, fun i hi => ⟨(h2 i hi).1, (h2 i hi).2.1, (h2 i hi).2.2.1, (h2 i hi).2.2.2.1⟩⟩

/-- **In band.**  If generation returns (the final assertion did not fire), every schedule value lies
within `(flex.min[i] − ε, flex.max[i] + ε)` of the final band — in either mode. -/
theorem C13_in_band (eps tsph : α) (fuel : Nat) (inp : GenInput α) (cells : Array (Cell α))
    (h : generateCells eps tsph fuel inp = .ok cells) :
    ∀ c ∈ cells.toList, c.flexMin - eps < c.sched ∧ c.sched < c.flexMax + eps :=
  checkBand_ok eps cells (generateCells_ok eps tsph fuel inp cells h).2

/-- The generator raises `AssertionError` exactly when some value is outside the band (the error
branch is not totalised away). -/
theorem C13_in_band_error (eps tsph : α) (fuel : Nat) (inp : GenInput α) (cells : Array (Cell α))
    (hc : generateCore eps tsph fuel inp = .ok cells)
    (hout : ∃ c ∈ cells.toList, ¬ (c.flexMin - eps < c.sched ∧ c.sched < c.flexMax + eps)) :
    generateCells eps tsph fuel inp = .error .assertion := by
  unfold generateCells
  simp only [bind, Except.bind, hc]
  have : checkBand eps cells = .error .assertion := by
    unfold checkBand pyassert
    split
    · rename_i hall
      obtain ⟨c, hcm, hn⟩ := hout
      have := List.all_eq_true.mp hall c hcm
      exact absurd (by simpa using this) hn
    · rfl
  rw [this]

/-- **Collective mode: the band is the captured band** and the value is within it; the sum
invariants relative to the default schedule hold. -/
theorem C13_in_band_collective (eps tsph : α) (fuel : Nat) (inp : GenInput α)
    (gcMax : α) (v2g : Bool) (vmin vmax : Array α) (ivs : List (α × List Nat))
    (hmode : inp.mode = .collective gcMax v2g vmin vmax ivs)
    (cells : Array (Cell α)) (h : generateCells eps tsph fuel inp = .ok cells) :
    cells.size = inp.base.length ∧ ∀ i, i < inp.base.length →
      inp.fmin.getD i 0 - eps < (cells.getD i Cell.zero).sched ∧
      (cells.getD i Cell.zero).sched < inp.fmax.getD i 0 + eps := by
  obtain ⟨hc, hb⟩ := generateCells_ok eps tsph fuel inp cells h
  obtain ⟨h1, h2⟩ := generateCore_collective eps tsph fuel inp gcMax v2g vmin vmax ivs hmode cells hc
  refine ⟨h1, fun i hi => ?_⟩
  obtain ⟨_, _, r3, r4, _, _⟩ := h2 i hi
  have hi' : i < cells.size := by rw [h1]; exact hi
  have hmem : cells.getD i Cell.zero ∈ cells.toList := by
    rw [Array.getD_eq_getD_getElem?, Array.getElem?_eq_getElem hi']
    simp
  have := checkBand_ok eps cells hb _ hmem
  rw [r3, r4] at this
  simpa [Cell.availCollective, initCellAt, initCell] using this

/-- **Collective band ⊆ ± rating.**  `clamp_to_gc` maps every power into `[−rating, rating]`, so the
three values generate_flex_band appends per step (base, min, max) lie within the rating. -/
theorem C13_band_in_gc (R baseFlex batDis v2gFlex vehFlex batCharge : α) (hR : 0 ≤ R) :
    let r := flexRow R baseFlex batDis v2gFlex vehFlex batCharge
    (-R ≤ r.1 ∧ r.1 ≤ R) ∧ (-R ≤ r.2.1 ∧ r.2.1 ≤ R) ∧ (-R ≤ r.2.2 ∧ r.2.2 ≤ R) := by
  simp only [flexRow]
  exact ⟨clampToGc_bounds R _ hR, clampToGc_bounds R _ hR, clampToGc_bounds R _ hR⟩

/-- Hence, in collective mode, a returned schedule is within the rating (± ε) at every timestep. -/
theorem C13_collective_within_rating (eps tsph : α) (fuel : Nat) (inp : GenInput α)
    (gcMax : α) (v2g : Bool) (vmin vmax : Array α) (ivs : List (α × List Nat))
    (hmode : inp.mode = .collective gcMax v2g vmin vmax ivs)
    (hband : ∀ i, -gcMax ≤ inp.fmin.getD i 0 ∧ inp.fmax.getD i 0 ≤ gcMax)
    (cells : Array (Cell α)) (h : generateCells eps tsph fuel inp = .ok cells) :
    ∀ i, i < inp.base.length →
      -gcMax - eps < (cells.getD i Cell.zero).sched ∧ (cells.getD i Cell.zero).sched < gcMax + eps := by
  intro i hi
  obtain ⟨_, h2⟩ := C13_in_band_collective eps tsph fuel inp gcMax v2g vmin vmax ivs hmode cells h
  obtain ⟨a, b⟩ := h2 i hi
  obtain ⟨c, d⟩ := hband i
  exact ⟨by linarith, by linarith⟩

/-- **Charge flag.**  The flag written in row `t` is set exactly when curtailment or negative residual
load remains at timestep `t` (final arrays): `curtailment[t] > ε ∨ residual_load[t] < −ε`. -/
theorem C13_flag (eps : α) (rnd : α → α) (individual : Bool) (cells : Array (Cell α)) (t : Nat)
    (ht : t < cells.size) :
    ∃ hr : t < (writeRows eps rnd individual cells).length,
      ((writeRows eps rnd individual cells)[t].flag = true ↔
        (eps < cells[t].curt ∨ cells[t].resid < -eps)) := by
  refine ⟨by simp [writeRows, ht], ?_⟩
  simp [writeRows, writeRow]

/-- the written schedule value of row `t` is `aggressive_round` of the bounded value, and the row
count is the number of timesteps -/
theorem C13_written_value (eps : α) (rnd : α → α) (individual : Bool) (cells : Array (Cell α)) :
    (writeRows eps rnd individual cells).length = cells.size ∧
    ∀ t (ht : t < cells.size) (hr : t < (writeRows eps rnd individual cells).length),
      (writeRows eps rnd individual cells)[t].sched = aggressiveRound eps rnd cells[t].sched := by
  refine ⟨by simp [writeRows], fun t ht hr => ?_⟩
  simp [writeRows, writeRow]

end generator

section reader
variable {α : Type} [LinearOrder α]

/-- **Round trip.**  Let `rows` be a schedule file in the layout generate_schedule writes: row `k`
carries the timestamp `S + k·Δ` (or an unparsable one — then the reader falls back to exactly that
time), a charge flag, and `nVeh` vehicle columns; the JSON entry carries `start_time = S`, and the
scenario starts at `S` with `n = len(rows)` steps of `Δ > 0`.  Then the reader returns (no exception)
an event list such that
* every event satisfies `S ≤ signal_time ≤ start_time` (nothing takes effect before it is sent, and
  nothing is sent before the simulation starts), and
* running the event queue of `Strategy.step` over the buckets of `Events.get_event_steps`
  (`runQueue`: append the step's events, stable sort by start time, pop while `start_time ≤ now`)
  yields after EVERY step `t` exactly row `t`: connector target, window flag, and every vehicle's
  schedule (individual mode) — the list of per-step states IS the list of rows;
* the same holds for the declarative reading `inForce` (all signalled events whose start time has been
  reached, applied in order of start time). -/
theorem C13_roundtrip (interval S : Int) (hΔ : 0 < interval) (nVeh : Nat) (rows : List (FileRow α))
    (hrows : ∀ k (hk : k < rows.length),
      (rows[k].time = none ∨ rows[k].time = some (S + (k : Int) * interval)) ∧
      rows[k].vs.length = nVeh ∧ rows[k].window ≠ none) :
    ∃ evs, getScheduleFromCsv interval (some S) nVeh rows = .ok evs ∧
      (∀ e ∈ evs, S ≤ e.signal ∧ e.signal ≤ e.start) ∧
      runQueue S interval rows.length evs ⟨none, none, List.replicate nVeh none⟩ =
        rows.map (fun r => ⟨some r.target, r.window, r.vs.map some⟩) ∧
      ∀ t (ht : t < rows.length),
        inForce S interval rows.length evs ⟨none, none, List.replicate nVeh none⟩ t =
          ⟨some rows[t].target, rows[t].window, rows[t].vs.map some⟩ := by
  have hrows' : ∀ k (hk : k < rows.length),
      (rows[k].time = none ∨ rows[k].time = some (S + ((0 + k : Nat) : Int) * interval)) ∧
      rows[k].vs.length = nVeh ∧ rows[k].window ≠ none := fun k hk => by simpa using hrows k hk
  obtain ⟨evs, hev, hb, hp, hf⟩ := readRows_spec interval S hΔ nVeh rows
    ⟨some S, none, none, List.replicate nVeh none⟩ ⟨none, none, List.replicate nVeh none⟩ 0 rfl
    ⟨rfl, rfl, rfl⟩ (by simp) hrows'
  obtain ⟨hg, hd⟩ := readRows_grid interval S hΔ nVeh rows
    ⟨some S, none, none, List.replicate nVeh none⟩ ⟨none, none, List.replicate nVeh none⟩ 0 rfl
    ⟨rfl, rfl, rfl⟩ (by simp) hrows' evs hev
  have hok : EvOK S interval rows.length evs :=
    ⟨fun e he => (hb e he).2, hp, fun e he => by
      obtain ⟨r, _, h2, h3⟩ := hg e he; exact ⟨r, by omega, h3⟩, hd⟩
  have hstate : ∀ t (ht : t < rows.length),
      (evs.filter (fun e => decide (e.start ≤ S + (t : Int) * interval))).foldl applyEv
        ⟨none, none, List.replicate nVeh none⟩ = ⟨some rows[t].target, rows[t].window, rows[t].vs.map some⟩ := by
    intro t ht
    have := hf t ht
    simp only [Nat.zero_add] at this
    rw [this]; rfl
  refine ⟨evs, hev, fun e he => (hb e he).2, ?_, fun t ht => ?_⟩
  · rw [runQueue_eq S interval hΔ rows.length evs hok]
    apply List.ext_getElem
    · simp
    · intro t h1 h2
      simp only [List.getElem_map, List.getElem_range]
      exact hstate t (by simpa using h2)
  · rw [inForce_eq_filter S interval hΔ rows.length evs _ t ht (fun e he => (hb e he).2) hp]
    exact hstate t ht

/-- The round trip for the rows the generator writes: file row `t` = (timestamp `S + t·Δ`, written
schedule value, written flag, written vehicle values); the per-step states of the strategy's event
queue are exactly the written rows. -/
theorem C13_roundtrip_written (interval S : Int) (hΔ : 0 < interval) (nVeh : Nat) (written : List (Row α))
    (hv : ∀ r ∈ written, r.vs.length = nVeh) :
    let rows : List (FileRow α) := written.zipIdx.map
      (fun p => ⟨some (S + (p.2 : Int) * interval), p.1.sched, some p.1.flag, p.1.vs⟩)
    ∃ evs, getScheduleFromCsv interval (some S) nVeh rows = .ok evs ∧
      (∀ e ∈ evs, S ≤ e.signal ∧ e.signal ≤ e.start) ∧
      runQueue S interval written.length evs ⟨none, none, List.replicate nVeh none⟩ =
        written.map (fun r => ⟨some r.sched, some r.flag, r.vs.map some⟩) := by
  intro rows
  have hlen : rows.length = written.length := by simp [rows]
  obtain ⟨evs, h1, h2, h3, _⟩ := C13_roundtrip interval S hΔ nVeh rows (fun k hk => by
    have hk' : k < written.length := hlen ▸ hk
    refine ⟨Or.inr ?_, ?_, ?_⟩
    · simp [rows]
    · simp only [rows, List.getElem_map, List.getElem_zipIdx]
      exact hv _ (List.getElem_mem hk')
    · simp [rows])
  refine ⟨evs, h1, h2, ?_⟩
  rw [hlen] at h3
  rw [h3]
  apply List.ext_getElem
  · simp [rows]
  · intro t ht1 ht2
    simp [rows]

end reader

/-! ### Non-vacuity -/

/-- the entry hypotheses of C13_distribute_bounds are satisfiable: a timestep with 5 kW head-room
either way inside a band of ±11 kW, individual flex `[−2, 3]`, charging request -/
example : Fits (1 : ℚ) ⟨0, 5, 5, 0, 0, -11, 11, 0, 0, []⟩ (0, -2, 3) := by
  constructor <;> norm_num

/-- … and for a pure discharge request (battery pass) with a schedule at the upper band edge -/
example : Fits (-1 : ℚ) ⟨11, 16, 0, 0, 0, -11, 11, 0, 0, []⟩ (0, -25, 25) := by
  constructor <;> norm_num

/-- the battery-parameter hypothesis of C13_individual_within_limit -/
example : BatOK (⟨50, 25, 19/20, 25, 25⟩ : Batteries ℚ) := by
  constructor <;> norm_num

/-- C13_roundtrip: a three-row file in the writer's layout (hourly rows from 11:00, the third row
changes only the split between the two vehicles) satisfies the hypotheses -/
example : ∀ k (hk : k < ([⟨some 39600000000, 11, some false, [11, 0]⟩,
      ⟨none, 11, some false, [11, 0]⟩,
      ⟨some (39600000000 + 2 * 3600000000), 11, some false, [0, 11]⟩] : List (FileRow ℚ)).length),
    (([⟨some 39600000000, 11, some false, [11, 0]⟩, ⟨none, 11, some false, [11, 0]⟩,
      ⟨some (39600000000 + 2 * 3600000000), 11, some false, [0, 11]⟩] : List (FileRow ℚ))[k].time = none ∨
     ([⟨some 39600000000, 11, some false, [11, 0]⟩, ⟨none, 11, some false, [11, 0]⟩,
      ⟨some (39600000000 + 2 * 3600000000), 11, some false, [0, 11]⟩] : List (FileRow ℚ))[k].time
        = some (39600000000 + (k : Int) * 3600000000)) := by
  intro k hk
  simp only [List.length_cons, List.length_nil] at hk
  rcases k with _ | _ | _ | k
  · right; rfl
  · left; rfl
  · right; rfl
  · omega

/-- C13_distribute_returns on ℚ: two timesteps, one with curtailment, charging request of 1 kWh -/
example : ∃ fuel0, ∀ fuel, fuel0 ≤ fuel → ∃ r,
    distribute (1 / 100000 : ℚ) 4 fuel
      #[⟨0, 5, 5, 0, 0, -11, 11, 0, 0, []⟩, ⟨0, 5, 5, 2, -1, -11, 11, 2, 1, []⟩]
      [(0, -2, 3), (1, -2, 3)] 1 false none = .ok r :=
  C13_distribute_returns _ _ (by norm_num) _ _ _ _ _ (by simp) (by
    intro e he
    simp only [List.mem_cons, List.not_mem_nil, or_false] at he
    rcases he with rfl | rfl <;> simp)

/-- C13_bisect_fuel: width 40 kW, ε = 1e-5: `40 ≤ 1e-5 · 2^22`, i.e. 23 iterations suffice -/
example : (40 : ℚ) ≤ (1 / 100000) * 2 ^ 22 := by norm_num

end SpiceEv
