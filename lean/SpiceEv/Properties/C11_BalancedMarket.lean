/-
C11 — signal-driven strategies follow their signal, for the price signal of `balanced_market`
(model: Model/StratBalancedMarket.lean, tied to the real code by harness/s_balanced_market.py).
What is proved is the step-level content of "the cheapest price level is used first and a vehicle
whose demand is covered by cheaper timesteps is not charged from the grid now"; the run-level
sentence (desired SoC reached; never dearer than greedy) stays with the run oracle of C11.
-/
import SpiceEv.Proofs.StratBalancedMarket
import SpiceEv.Proofs.StratBalancedMarketToy
set_option linter.unusedSectionVars false
namespace SpiceEv
open SpiceEv.BalancedMarket
variable {α B : Type} [Field α] [LinearOrder α] [IsStrictOrderedRing α]

/-- **Cheapest first.** The order in which `balanced_market` plans a vehicle's timesteps
(`sorted_ts`) is a rearrangement of the (price of 1 kWh, timestep index) pairs of the timesteps in
which the vehicle is present, sorted by price — cheapest first, equal prices by time. -/
theorem C11_balanced_market_cheapest_first (vts : List (TS α)) (sorted : List (α × Nat))
    (h : sortedTs vts = .ok sorted) :
    ∃ costs : List α, vts.mapM (fun t => cost1 t.cost) = .ok costs ∧
      sorted.Perm costs.zipIdx ∧
      sorted.Pairwise (fun a b => a.1 < b.1 ∨ (a.1 = b.1 ∧ a.2 ≤ b.2)) :=
  sortedTs_spec vts sorted h

/-- **A covered vehicle is not charged.** If the (simulated) SoC already meets the target of the
cheapest remaining price level — the desired SoC, or a full battery when that price is below
`PRICE_THRESHOLD`, each minus `EPS` — the planning loop stops at once: connector loads, station
power, the real battery and the commands are exactly as before. -/
theorem C11_balanced_market_covered_not_charged (ops : Ops α B) (env : Env α) (v : VehicleS α B)
    (ts : List (TS α)) (sorted : List (α × Nat)) (fuel : Nat) (st : VSt α B) (cost : α) (i : Nat)
    (hs : sorted[st.sortedIdx]? = some (cost, i))
    (hd : (if cost < env.priceThreshold then 1 else v.desiredSoc) - env.eps ≤ ops.soc st.sim) :
    chargeLoop ops env v ts sorted (fuel + 1) st = .ok { st with sortedIdx := 0 } :=
  chargeLoop_satisfied ops env v ts sorted fuel st cost i hs hd

/-- **If the cheapest price level suffices, nothing is charged at a dearer present.**
Let the order be headed by a price group that does not contain the current timestep (every member is
strictly cheaper than the present by at least `EPS`, and the present is above `PRICE_THRESHOLD`), let `pw2`,
`sm2` be the plan and the simulated battery after that group has been planned (naive pass, then the
power bisection if the naive pass overshoots), and suppose the simulated SoC `sm2` meets the target of the
next price level (or there is no further level).  Then the planning loop ends without booking anything:
connector loads, station power, real battery, commands are those of `st`; only the plan, the simulated
battery and the loop index differ. -/
theorem C11_balanced_market_cheapest_level_suffices_no_charge (ops : Ops α B) (env : Env α)
    (v : VehicleS α B) (ts : List (TS α)) (sorted : List (α × Nat)) (fuel : Nat) (st : VSt α B)
    (c0 : α) (s0 : Nat) (hs : sorted[st.sortedIdx]? = some (c0, s0))
    (hne : (samePrice env sorted st.sortedIdx c0 s0).1.contains 0 = false)
    (hnot : ¬ desiredAt env v c0 ≤ ops.soc st.sim)
    (pw1 : List α) (sm1 : B)
    (h1 : naivePass ops st.cs v.minChargingPower ts (samePrice env sorted st.sortedIdx c0 s0).1
      st.power st.sim = .ok (pw1, sm1))
    (pw2 : List α) (sm2 : B)
    (h2 : (if desiredAt env v c0 ≤ ops.soc sm1 then
        bisect ops env.eps st.cs v.minChargingPower ts (samePrice env sorted st.sortedIdx c0 s0).1
          (ops.soc st.sim) (desiredAt env v c0) bisectFuel 0 (st.cs.maxPower - pymin st.cs.currentPower 0) false pw1 sm1
      else pure (pw1, sm1)) = .ok (pw2, sm2))
    (hp : pw2 ≠ [])
    (hnext : ∀ c1 s1, sorted[(samePrice env sorted st.sortedIdx c0 s0).2]? = some (c1, s1) →
      desiredAt env v c1 ≤ ops.soc sm2) :
    ∃ idx, chargeLoop ops env v ts sorted (fuel + 2) st =
      .ok { st with sortedIdx := idx, power := pw2, sim := sm2 } :=
  chargeLoop_cheapest_suffices ops env v ts sorted fuel st c0 s0 hs hne hnot pw1 sm1 h1 pw2 sm2 h2 hp hnext

/-- Non-vacuity: the world of the first example below (0.30 now, 0.10 next): the order is headed by the
later step (`s0 = 1`), the present SoC 0.5 is below the target, planning the cheap step alone reaches it
(`sm2 = 838861/1048576 ≈ 0.8`), which meets the target of the 0.30 level. -/
example :
    let ts : List (TS ℚ) := [⟨16, 20, some (.fixed (3/10))⟩, ⟨20, 20, some (.fixed (1/10))⟩]
    let st : VSt ℚ ℚ := ⟨toyGc, toyCs, 1/2, 1/2, [0, 0], 0, [], []⟩
    let sorted : List (ℚ × Nat) := [(1/10, 1), (3/10, 0)]
    (chargeLoop toyOps (toyEnv (some (1/10))) (toyVeh false (1/2)) ts sorted 3 st).toOption.map
      (fun s => (s.cmds, s.gc.loads, s.sortedIdx, decide (desiredAt (toyEnv (some (1/10))) (toyVeh false (1/2)) (3/10) ≤ s.sim))) =
      some ([], [("load", 4)], 0, true) := by decide +kernel

/-- **Grid energy only when the present belongs to a price level that is still needed (partial).**
Whatever the planning loop of one vehicle does, either it leaves connector, station, real battery,
commands and the list of discharging stations untouched, or the current timestep (index 0) is a member
of a price group the loop reached: the group opened at `sorted[j]` (`j` at or after the start position,
before the position at which the loop stopped), i.e. every entry planned before that group is at most
as dear (`C11_balanced_market_cheapest_first`) and the simulated SoC was still below that level's
target when the group was opened.  (Pinned code: only when the present *headed* the group — defect BM1,
repaired; the converse is `C09_balanced_market_planned_present_is_charged`.)  Not proved (hence
`_partial`): that the desired SoC is reached by departure, and the cost comparison with greedy. -/
theorem C11_balanced_market_charges_only_in_needed_group_partial (ops : Ops α B) (env : Env α)
    (v : VehicleS α B) (ts : List (TS α)) (sorted : List (α × Nat)) (fuel : Nat) (st st' : VSt α B)
    (h : chargeLoop ops env v ts sorted fuel st = .ok st') :
    (st'.bat = st.bat ∧ st'.gc = st.gc ∧ st'.cs = st.cs ∧ st'.cmds = st.cmds ∧ st'.dis = st.dis) ∨
    (∃ j cost s, st.sortedIdx ≤ j ∧ sorted[j]? = some (cost, s) ∧
      (samePrice env sorted j cost s).1.contains 0 = true ∧ j < st'.sortedIdx ∧ st'.dis = st.dis) :=
  chargeLoop_frame ops env v ts sorted fuel st st' h

/-- Non-vacuity: price 0.30 now, 0.10 announced from the next step on, the vehicle (0.5 → 0.8, two
steps left, 5 kW battery) can be served by the cheaper step alone: the whole step issues no command,
the station carries no power, the SoC is unchanged. -/
example :
    (BalancedMarket.step toyOps (toyEnv (some (1/10))) (toyWorld false (1/2))).toOption.map
      (fun r => (r.2, r.1.stations.map (·.currentPower), r.1.vehicles.map (·.bat))) =
      some ([], [0], [1/2]) := by decide +kernel

/-- … and with 0.50 announced for the next step the present is the cheaper level: everything is
charged now (`1572813/524288 ≈ 3` kW). -/
example :
    (BalancedMarket.step toyOps (toyEnv (some (1/2))) (toyWorld false (1/2))).toOption.map (·.2) =
      some [("CS1", 1572813/524288)] := by decide +kernel

/-- the order of the two timesteps in the first example: the later, cheaper one is planned first -/
example : sortedTs [(⟨16, 20, some (.fixed (3/10))⟩ : TS ℚ), ⟨20, 20, some (.fixed (1/10))⟩] =
    .ok [(1/10, 1), (3/10, 0)] := by decide +kernel

end SpiceEv
