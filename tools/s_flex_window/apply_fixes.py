"""apply the repairs FW1..FW5 (any subset) to the flex_window.py of a repo working tree (textual replacements that
correspond exactly to fixes/FW<n>.diff): python apply_fixes.py <repo> FW1 FW3 ...   (`git checkout -- .` first)"""
import sys, subprocess
FIX = {
 "FW1": [("""                avail_power = (0 if avail_power < vehicle.vehicle_type.min_charging_power
                               else avail_power)
                charge = vehicle.battery.load(self.interval, max_power=avail_power)["avg_power"]
""", """                avail_power = (0 if avail_power < vehicle.vehicle_type.min_charging_power
                               else avail_power)
                # respect charging station limits (already charged in this timestep)
                avail_power = util.clamp_power(avail_power, vehicle, cs)
                charge = vehicle.battery.load(self.interval, max_power=avail_power)["avg_power"]
""")],
 "FW2": [("""                        if cur_needed_power > 0:
                            power = min(cur_needed_power, max_discharge_power)
""", """                        if cur_needed_power > 0:
                            power = min(cur_needed_power, max_discharge_power, cs.max_power)
"""), ("""                    power = min(needed_power, max_discharge_power)
                    discharge = vehicle.battery.unload(
                        self.interval, max_power=power, target_soc=discharge_limit)["avg_power"]
""", """                    # discharge power is limited by charging station as well
                    power = min(needed_power, max_discharge_power, cs.max_power)
                    discharge = vehicle.battery.unload(
                        self.interval, max_power=power, target_soc=discharge_limit)["avg_power"]
""")],
 "FW3": [("""        max_power = gc.cur_max_power - gc.get_current_load()

        window_timesteps = [item for item in timesteps if item["window"] is cur_window]
""", """        max_power = gc.cur_max_power - gc.get_current_load()
        if not cur_window:
            # discharging: do not feed in more than the GC allows
            max_power = min(max_power, gc.cur_max_power + gc.get_current_load())

        window_timesteps = [item for item in timesteps if item["window"] is cur_window]
""")],
 "FW4": [("""            avg_power = v.battery.load(self.interval, max_power=power)["avg_power"]
            commands[cs_id] = avg_power
        return commands
""", """            avg_power = v.battery.load(self.interval, max_power=power)["avg_power"]
            commands[cs_id] = avg_power
            if self.LOAD_STRAT == "greedy":
                # one after the other: next vehicle gets what is left
                total_power -= avg_power
        return commands
""")],
 "FW5": [("""                avail_power = total_power - window_timesteps[0]["total_load"]
                avail_power = (0 if avail_power < vehicle.vehicle_type.min_charging_power
""", """                avail_power = total_power - window_timesteps[0]["total_load"]
                # current timestep: actual load may differ from prediction
                avail_power = min(avail_power, gc.cur_max_power - gc.get_current_load())
                avail_power = (0 if avail_power < vehicle.vehicle_type.min_charging_power
"""), ("""                needed_power = no_window_timesteps[0]["total_load"] - total_power
                if needed_power < 0:
""", """                needed_power = no_window_timesteps[0]["total_load"] - total_power
                # current timestep: actual load may differ from prediction
                needed_power = min(needed_power, gc.cur_max_power + gc.get_current_load())
                if needed_power < 0:
"""), ("""            avail_power = total_power - timesteps[0]["total_load"]
            for b_id, battery in self.world_state.batteries.items():
""", """            avail_power = total_power - timesteps[0]["total_load"]
            # current timestep: actual load may differ from prediction
            avail_power = min(avail_power, gc.cur_max_power - gc.get_current_load())
            for b_id, battery in self.world_state.batteries.items():
"""), ("""            needed_power = timesteps[0]["total_load"] - total_power

            for b_id, battery in self.world_state.batteries.items():
""", """            needed_power = timesteps[0]["total_load"] - total_power
            # current timestep: actual load may differ from prediction
            needed_power = min(needed_power, gc.cur_max_power + gc.get_current_load())

            for b_id, battery in self.world_state.batteries.items():
""")],
}
if __name__ == "__main__":
    repo = sys.argv[1]
    f = repo + "/spice_ev/strategies/flex_window.py"
    s = open(f).read()
    for name in sys.argv[2:]:
        for old, new in FIX[name]:
            assert s.count(old) == 1, (name, s.count(old), old[:70])
            s = s.replace(old, new)
    open(f, "w").write(s)
