/-
C09 on the GENERATED definitions of `Vehicle.get_energy_needed` and `Vehicle.get_delta_soc` (SpiceEvGen/Src.lean,
re-translated from the Python source on every run by harness/py2lean.py): the demand every planning strategy starts from.
Only `theorem C09_gen_…` + a non-vacuity example.
-/
import SpiceEvGen.Src
import SpiceEv.Model.StratPeakLoadWindow
import SpiceEv.Model.StratFlexWindow
import SpiceEv.Proofs.Basic
set_option linter.unusedSectionVars false
namespace SpiceEv
variable {α : Type} [Field α] [LinearOrder α] [IsStrictOrderedRing α] {B : Type}

/-- **The translated source is the hand model**: `get_energy_needed()` is what the peak_load_window model plans with,
`get_energy_needed(full=True)` what the flex_window model distributes by. -/
theorem C09_gen_energy_needed_is_model (ops : BatOps α B) (desired : α) (b : B) :
    Gen.get_energy_needed false desired (ops.soc b) (ops.capacity b) = PeakLoadWindow.energyNeeded ops desired b ∧
    Gen.get_energy_needed true desired (ops.soc b) (ops.capacity b) = FlexWindow.energyNeededFull ops b := by
  constructor
  · first
      | rfl
      | (simp only [Gen.get_energy_needed, PeakLoadWindow.energyNeeded, pymax]; grind)
  · first
      | rfl
      | (simp only [Gen.get_energy_needed, FlexWindow.energyNeededFull, pymax]; grind)

/-- **Demand, stated about the translated source**: the energy still needed is non-negative, is zero exactly when the
SoC has reached the target (desired SoC, or 1 for `full`), and otherwise equals (target − SoC)·capacity; the SoC gap
`get_delta_soc` is desired − SoC. -/
theorem C09_gen_energy_needed (full : Bool) (desired soc cap : α) (hcap : 0 < cap) :
    0 ≤ Gen.get_energy_needed full desired soc cap ∧
    (Gen.get_energy_needed full desired soc cap = 0 ↔ (if full then 1 else desired) ≤ soc) ∧
    (soc ≤ (if full then 1 else desired) →
      Gen.get_energy_needed full desired soc cap = ((if full then 1 else desired) - soc) * cap) ∧
    Gen.get_delta_soc desired soc = desired - soc := by
  have key : ∀ t : α, 0 ≤ max (t - soc) 0 * cap ∧ (max (t - soc) 0 * cap = 0 ↔ t ≤ soc) ∧
      (soc ≤ t → max (t - soc) 0 * cap = (t - soc) * cap) := by
    intro t
    refine ⟨mul_nonneg (le_max_right _ _) hcap.le, ?_, ?_⟩
    · rw [mul_eq_zero]
      constructor
      · rintro (h | h)
        · have := le_max_left (t - soc) 0; linarith
        · exact absurd h hcap.ne'
      · intro h; left; exact max_eq_right (by linarith)
    · intro h; rw [max_eq_left (by linarith)]
  have e : Gen.get_energy_needed full desired soc cap = max ((if full then 1 else desired) - soc) 0 * cap := by
    unfold Gen.get_energy_needed
    cases full <;> simp [pymax_eq]
  rw [e]
  exact ⟨(key _).1, (key _).2.1, (key _).2.2, rfl⟩

/-- Non-vacuity: 40 kWh battery at 0.5, desired 0.8: 12 kWh (20 kWh to full). -/
example : Gen.get_energy_needed false (4/5 : ℚ) (1/2) 40 = 12 ∧ Gen.get_energy_needed true (4/5 : ℚ) (1/2) 40 = 20 := by
  decide +kernel

end SpiceEv
