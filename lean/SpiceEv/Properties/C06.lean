/-
C06 — Reported powers and SoCs balance.
Loop-level part for every strategy (reported connector power = curtailed sum of its loads) and the
self-discharge step.  The per-(dis)charge energy identity is C01 (battery).
-/
import SpiceEv.Proofs.ScenarioRun
import SpiceEv.Model.StrategyUtil
set_option linter.unusedSectionVars false
namespace SpiceEv
variable {α : Type} [Field α] [LinearOrder α] [IsStrictOrderedRing α]

theorem currentLoad_foldl (exclude : List String) (loads : List (String × Option α)) (acc : Option α) :
    optVal (loads.foldl (fun acc kv =>
      if exclude.contains kv.1 then acc else addOpt acc kv.2) acc)
    = optVal acc + ((loads.filter (fun kv => !exclude.contains kv.1)).map (fun kv => optVal kv.2)).sum := by
  induction loads generalizing acc with
  | nil => simp
  | cons kv rest ih =>
    simp only [List.foldl_cons]
    by_cases hx : exclude.contains kv.1 = true
    · have hx' : kv.1 ∈ exclude := by simpa using hx
      simp only [hx, if_true, ih]
      simp [List.filter_cons, hx']
    · simp only [hx, Bool.false_eq_true, if_false, ih]
      have : (!exclude.contains kv.1) = true := by simpa using hx
      simp only [List.filter_cons, this, if_true, List.map_cons, List.sum_cons]
      rcases acc with _ | a <;> rcases h2 : kv.2 with _ | v <;> simp [optVal, addOpt, add_assoc]

theorem currentLoad_eq (exclude : List String) (loads : List (String × Option α)) :
    optVal (currentLoad exclude loads)
      = ((loads.filter (fun kv => !exclude.contains kv.1)).map (fun kv => optVal kv.2)).sum := by
  unfold currentLoad
  rw [currentLoad_foldl]
  simp [optVal]

/-- **Connector power = sum of its components.** For every connector and every step of every run
the reported power is `max (−rating) (Σ loads not in generation − Σ generation)`, i.e. the sum of
the reported component powers whenever that sum is ≥ −rating (feed-in is curtailed at the rating). -/
theorem C06_gc_sum (genKeys : List String) (g : GcObs α) :
    (gcReport genKeys g).1 =
      max (-g.rating)
        (((g.loads.filter (fun kv => !genKeys.contains kv.1)).map (fun kv => optVal kv.2)).sum
          + optVal (pysum (genKeys.map (loadOf g.loads)))) := by
  unfold gcReport
  simp only [pymax_eq, currentLoad_eq]
  congr 1
  ring

/-- **Self-discharge only lowers the SoC and never below zero** (and is the stated formula). -/
theorem C06_losses (soc capacity : α) (l : LossRate α) (hc : 0 < capacity)
    (hr0 : 0 ≤ l.relative) (hr1 : l.relative ≤ 100) (hf : 0 ≤ l.fixedRelative)
    (ha : 0 ≤ l.fixedAbsolute) (hs : 0 ≤ soc) :
    applyLosses soc capacity l
      = max (soc * (1 - l.relative / 100) - l.fixedRelative / 100 - l.fixedAbsolute / capacity) 0 ∧
    0 ≤ applyLosses soc capacity l ∧ applyLosses soc capacity l ≤ soc := by
  have e : applyLosses soc capacity l
      = max (soc * (1 - l.relative / 100) - l.fixedRelative / 100 - l.fixedAbsolute / capacity) 0 := by
    unfold applyLosses
    simp only [pymax_eq, Nat.cast_ofNat]
  rw [e]
  refine ⟨rfl, le_max_right _ _, ?_⟩
  apply max_le _ hs
  have h1 : soc * (1 - l.relative / 100) ≤ soc := by
    have : 0 ≤ l.relative / 100 := div_nonneg hr0 (by norm_num)
    nlinarith
  have h2 : 0 ≤ l.fixedRelative / 100 := div_nonneg hf (by norm_num)
  have h3 : 0 ≤ l.fixedAbsolute / capacity := div_nonneg ha hc.le
  linarith

example : applyLosses (1/2 : ℚ) 100 ⟨10, 1, 5⟩ = 39/100 := by decide +kernel

end SpiceEv
