/-
C07 (vehicle frame) — `peak_load_window`'s own step (model: Model/StratPeakLoadWindow.lean, namespace
`SpiceEv.PeakLoadWindow`) with respect to the vehicle attributes that vehicle events set.

(a) kept (`PVInv`): the vehicle ids in order, and for every record `⟨v, chargePowers, schedule⟩` of the world after the
    step: the non-battery data of the wrapped `VehicleS` (`KeepsVeh.vehKey`: id, `connected_charging_station`,
    `desired_soc`, `estimated_time_of_departure`, vehicle-type data) is that of a vehicle before the step, and the curve
    data `(id, chargePowers)` is that of a vehicle before the step — for `step_gc` (`stepGc_vinv`) and the whole `step`
    (`step_vinv`, `step_vkeeps`), for ALL inputs, no extra hypotheses.
(b) written BY DESIGN: the battery of the wrapped vehicle, and `vehicle.schedule` — the strategy's scratch attribute,
    which `VehicleEvent`s of type `schedule` also set.  `chargeVehicles` writes
    `w.setVehicle { pv with schedule := some sched }` (resp. with a new battery as well) for every vehicle connected
    at the connector: an event-set `schedule` of such a vehicle does not survive the step.  `schedule` is therefore NOT
    part of the invariant.

Typeclass context: the plain operations of the model's own section, NO algebraic / order axioms.
`Proofs/C07KeepsPeakLoadWindow.lean` (first round) is imported for `bindOk`, `stepBody`, `step_eq`, `stepBody_ok`.

Data flow covered: `gatherVehicles` (the gathered records are members of `w.vehicles`), `sortByKey` (a permutation:
members stay members), `planVehicles` (hands the `PVeh` records through the plans unchanged), `chargeVehicles`
(`setVehicle` of the planned record with a new battery / schedule), `done.foldl setBattery`, the final `setGc`,
`step`'s fold.  `planVehicle` and its passes simulate on battery values only and return numbers; no lemma needed.
-/
import SpiceEv.Proofs.C07KeepsVeh
import SpiceEv.Proofs.C07KeepsPeakLoadWindow
set_option linter.unusedSectionVars false
set_option linter.unusedSimpArgs false
set_option linter.unusedVariables false
namespace SpiceEv.KeepsVeh.PeakLoadWindow
open SpiceEv SpiceEv.PeakLoadWindow SpiceEv.KeepsVeh
open SpiceEv.Keeps.PeakLoadWindow (bindOk stepBody step_eq stepBody_ok)

variable {α B : Type}

/-- ids in order; every record's wrapped vehicle carries non-battery data of a vehicle before the step, and its curve data -/
structure PVInv (K : List (String × Option String × α × Option Int × α × Bool × α)) (ids0 : List String)
    (C : List (String × List α)) (w : PWorld α B) : Prop where
  ids : w.vehicles.map (·.v.id) = ids0
  attrs : ∀ x ∈ w.vehicles, vehKey x.v ∈ K
  curve : ∀ x ∈ w.vehicles, (x.v.id, x.chargePowers) ∈ C

theorem PVInv.init (w : PWorld α B) :
    PVInv (w.vehicles.map (fun y => vehKey y.v)) (w.vehicles.map (·.v.id))
      (w.vehicles.map (fun y => (y.v.id, y.chargePowers))) w :=
  ⟨rfl, fun x hx => List.mem_map.mpr ⟨x, hx, rfl⟩, fun x hx => List.mem_map.mpr ⟨x, hx, rfl⟩⟩

variable {K : List (String × Option String × α × Option Int × α × Bool × α)} {ids0 : List String}
  {C : List (String × List α)}

/-- a record that may be written into the world: key of a vehicle before the step, curve data of a vehicle before the step -/
def Good (K : List (String × Option String × α × Option Int × α × Bool × α)) (C : List (String × List α))
    (x : PVeh α B) : Prop := vehKey x.v ∈ K ∧ (x.v.id, x.chargePowers) ∈ C

theorem PVInv.good_of_mem {w : PWorld α B} (h : PVInv K ids0 C w) {x : PVeh α B} (hx : x ∈ w.vehicles) :
    Good K C x := ⟨h.attrs x hx, h.curve x hx⟩

/-- battery and schedule are not part of `Good` -/
theorem Good.bat_sched {x : PVeh α B} (h : Good K C x) (b : B) (s : Option α) :
    Good K C { x with v := { x.v with bat := b }, schedule := s } := h

theorem Good.sched {x : PVeh α B} (h : Good K C x) (s : Option α) :
    Good K C { x with schedule := s } := h

theorem PVInv.setVehicle {w : PWorld α B} (h : PVInv K ids0 C w) (v' : PVeh α B) (hg : Good K C v') :
    PVInv K ids0 C (w.setVehicle v') := by
  refine ⟨?_, ?_, ?_⟩
  · rw [← h.ids]
    show (w.vehicles.map (fun x => if x.v.id == v'.v.id then v' else x)).map (·.v.id) = w.vehicles.map (·.v.id)
    rw [List.map_map]
    apply List.map_congr_left
    intro x _
    simp only [Function.comp]
    split
    · rename_i hx; exact (beq_iff_eq.mp hx).symm
    · rfl
  · intro v hv
    change v ∈ w.vehicles.map (fun x => if x.v.id == v'.v.id then v' else x) at hv
    obtain ⟨x, hx, rfl⟩ := List.mem_map.mp hv
    split
    · exact hg.1
    · exact h.attrs x hx
  · intro v hv
    change v ∈ w.vehicles.map (fun x => if x.v.id == v'.v.id then v' else x) at hv
    obtain ⟨x, hx, rfl⟩ := List.mem_map.mp hv
    split
    · exact hg.2
    · exact h.curve x hx

theorem PVInv.of_vehicles_eq {w w' : PWorld α B} (h : PVInv K ids0 C w) (he : w'.vehicles = w.vehicles) :
    PVInv K ids0 C w' := ⟨by rw [he]; exact h.ids, by rw [he]; exact h.attrs, by rw [he]; exact h.curve⟩

theorem PVInv.setGc {w : PWorld α B} (h : PVInv K ids0 C w) (g : PGc α) : PVInv K ids0 C (w.setGc g) :=
  h.of_vehicles_eq rfl

theorem PVInv.setBattery {w : PWorld α B} (h : PVInv K ids0 C w) (b : StatBatS α B) :
    PVInv K ids0 C (w.setBattery b) := h.of_vehicles_eq rfl

theorem foldl_setBattery_vehicles (done : List (StatBatS α B)) :
    ∀ w : PWorld α B, (done.foldl (fun w b => w.setBattery b) w).vehicles = w.vehicles := by
  induction done with
  | nil => intro w; rfl
  | cons b rest ih => intro w; simp only [List.foldl_cons]; rw [ih]; rfl

/-! ### sorting keeps the members -/

theorem mem_insertByKey {β : Type} (key : β → Int) (x : β) :
    ∀ (l : List β) (y : β), y ∈ insertByKey key x l → y = x ∨ y ∈ l := by
  intro l
  induction l with
  | nil => intro y hy; simp only [insertByKey, List.mem_singleton] at hy; exact Or.inl hy
  | cons a rest ih =>
    intro y hy
    unfold insertByKey at hy
    split at hy
    · rcases List.mem_cons.mp hy with h | h
      · exact Or.inl h
      · exact Or.inr h
    · rcases List.mem_cons.mp hy with h | h
      · exact Or.inr (by rw [h]; exact List.mem_cons_self)
      · rcases ih y h with h | h
        · exact Or.inl h
        · exact Or.inr (List.mem_cons_of_mem _ h)

theorem mem_sortByKey {β : Type} (key : β → Int) (l : List β) (y : β) (hy : y ∈ sortByKey key l) : y ∈ l := by
  have gen : ∀ (l acc : List β), y ∈ l.foldl (fun acc x => insertByKey key x acc) acc → y ∈ acc ∨ y ∈ l := by
    intro l
    induction l with
    | nil => intro acc h; exact Or.inl h
    | cons a rest ih =>
      intro acc h
      simp only [List.foldl_cons] at h
      rcases ih _ h with h | h
      · rcases mem_insertByKey key a acc y h with h | h
        · exact Or.inr (by rw [h]; exact List.mem_cons_self)
        · exact Or.inl h
      · exact Or.inr (List.mem_cons_of_mem _ h)
  rcases gen l [] hy with h | h
  · cases h
  · exact h

section
variable [Add α] [Sub α] [Mul α] [Div α] [Neg α] [LT α] [LE α]
  [DecidableLT α] [DecidableLE α] [OfNat α 0] [OfNat α 1] [NatCast α] [IntCast α]

/-! ### the model functions -/

/-- the gathered vehicles are records of the world -/
theorem gatherVehicles_mem (ops : BatOps α B) (env : PEnv α) (w : PWorld α B) (gcId : String)
    (r : List (PVeh α B) × Int) (h : gatherVehicles ops env w gcId = .ok r) :
    ∀ x ∈ r.1, x ∈ w.vehicles := by
  unfold gatherVehicles at h
  refine Keeps.foldlM_inv_mem _ (fun (acc : List (PVeh α B) × Int) => ∀ x ∈ acc.1, x ∈ w.vehicles)
    w.vehicles ?_ _ r (fun x hx => by cases hx) h
  intro acc pv acc' hpv hacc hf
  have hvs : ∀ (c : Bool), ∀ x ∈ (if c then acc.1 ++ [pv] else acc.1), x ∈ w.vehicles := by
    intro c x hx
    split at hx
    · rcases List.mem_append.mp hx with hx | hx
      · exact hacc x hx
      · simp only [List.mem_singleton] at hx; rw [hx]; exact hpv
    · exact hacc x hx
  split at hf
  · simp only [Except.ok.injEq] at hf; subst hf; exact hacc
  · split at hf
    · cases hf
    · rename_i cs _
      have hvs' := hvs (cs.parent == gcId)
      dsimp only at hf
      generalize (if (cs.parent == gcId) = true then acc.1 ++ [pv] else acc.1) = vs at hf hvs'
      split at hf
      · simp only [Except.ok.injEq] at hf; subst hf; exact hvs'
      · split at hf
        · simp only [Except.ok.injEq] at hf; subst hf; exact hvs'
        · split at hf
          · simp only [Except.ok.injEq] at hf; subst hf; exact hvs'
          · simp only [Except.ok.injEq] at hf; subst hf; exact hvs'

/-- the plans carry the planned records unchanged -/
theorem planVehicles_good (ops : BatOps α B) (env : PEnv α) (w : PWorld α B) :
    ∀ (l : List (PVeh α B)) (ts : List (Ts α)) (peak : α) (r : List (PVeh α B × α) × List (Ts α) × α),
      (∀ x ∈ l, Good K C x) →
      planVehicles ops env w l ts peak = .ok r →
      ∀ q ∈ r.1, Good K C q.1 := by
  intro l
  induction l with
  | nil =>
    intro ts peak r _ h
    simp only [planVehicles, Except.ok.injEq] at h
    subst h
    intro q hq
    cases hq
  | cons pv rest ih =>
    intro ts peak r hl h
    unfold planVehicles at h
    split at h
    · cases h
    · rename_i csId hcs
      split at h
      · cases h
      · rename_i cs hst
        obtain ⟨x, hx, h⟩ := bindOk h
        obtain ⟨sched, ts', peak'⟩ := x
        dsimp only at h
        obtain ⟨y, hy, h⟩ := bindOk h
        obtain ⟨more, ts'', peak''⟩ := y
        simp only [Except.ok.injEq] at h
        subst h
        intro q hq
        rcases List.mem_cons.mp hq with rfl | hq
        · exact hl pv (by simp)
        · exact ih _ _ _ (fun x hx => hl x (List.mem_cons_of_mem _ hx)) hy q hq

/-- the final vehicle loop: `setVehicle` of the planned record with a new battery and / or `schedule` -/
theorem chargeVehicles_vinv (ops : BatOps α B) :
    ∀ (plans : List (PVeh α B × α)) (surplus : α) (st st' : PWorld α B × GcS α × List (String × α)),
      PVInv K ids0 C st.1 →
      (∀ q ∈ plans, Good K C q.1) →
      chargeVehicles ops plans surplus st = .ok st' →
      PVInv K ids0 C st'.1 := by
  intro plans
  induction plans with
  | nil =>
    intro surplus st st' hi _ h
    simp only [chargeVehicles, Except.ok.injEq] at h
    subst h
    exact hi
  | cons q rest ih =>
    intro surplus st st' hi hq h
    obtain ⟨pv, planned⟩ := q
    obtain ⟨w, gc, cmds⟩ := st
    have hg : Good K C pv := hq (pv, planned) (by simp)
    unfold chargeVehicles at h
    split at h
    · cases h
    · rename_i csId hcs
      obtain ⟨sched, _, h⟩ := bindOk h
      split at h
      · obtain ⟨x, hx, h⟩ := bindOk h
        obtain ⟨bat', p⟩ := x
        dsimp only at h
        exact ih _ _ _ (PVInv.setVehicle hi _ (hg.bat_sched bat' (some sched)))
          (fun q' hq' => hq q' (List.mem_cons_of_mem _ hq')) h
      · exact ih _ _ _ (PVInv.setVehicle hi _ (hg.sched (some sched)))
          (fun q' hq' => hq q' (List.mem_cons_of_mem _ hq')) h

/-- **`step_gc` keeps** the vehicle ids and every vehicle's non-battery attributes and curve data -/
theorem stepGc_vinv (ops : BatOps α B) (env : PEnv α) (w w' : PWorld α B) (g : PGc α) (level : String)
    (cmds : List (String × α)) (hi : PVInv K ids0 C w)
    (h : PeakLoadWindow.stepGc ops env w g level = .ok (w', cmds)) : PVInv K ids0 C w' := by
  unfold stepGc at h
  simp only at h
  obtain ⟨r1, hgath, h⟩ := bindOk h
  obtain ⟨vehicles, maxStanding⟩ := r1
  obtain ⟨seasons, hseas, h⟩ := bindOk h
  obtain ⟨r2, _, h⟩ := bindOk h
  obtain ⟨ahead, untilChange⟩ := r2
  obtain ⟨r3, hp, h⟩ := bindOk h
  obtain ⟨plans, timesteps, pk⟩ := r3
  obtain ⟨ts0, _, h⟩ := bindOk h
  obtain ⟨r4, hc, h⟩ := bindOk h
  obtain ⟨w1, gc1, cmds1⟩ := r4
  obtain ⟨r5, _, h⟩ := bindOk h
  obtain ⟨L1, info1⟩ := r5
  obtain ⟨r6, h6, h⟩ := bindOk h
  obtain ⟨gc2, gl2, done⟩ := r6
  simp only [Except.ok.injEq, Prod.mk.injEq] at h
  obtain ⟨rfl, rfl⟩ := h
  have hgood : ∀ x ∈ sortByKey (fun (pv : PVeh α B) => pv.v.etd.getD env.now.instant) vehicles, Good K C x :=
    fun x hx => hi.good_of_mem (gatherVehicles_mem ops env w g.gc.id _ hgath x (mem_sortByKey _ _ x hx))
  have hplans := planVehicles_good (K := K) (C := C) ops env w _ _ _ _ hgood hp
  have i1 : PVInv K ids0 C w1 := chargeVehicles_vinv ops plans _ (w, g.gc, []) (w1, gc1, cmds1) hi hplans hc
  exact (i1.of_vehicles_eq (foldl_setBattery_vehicles done w1)).setGc _

/-- **`step` keeps** the vehicle ids and every vehicle's non-battery attributes and curve data -/
theorem step_vinv (ops : BatOps α B) (env : PEnv α) (w w' : PWorld α B) (cmds : List (String × α))
    (hi : PVInv K ids0 C w) (h : PeakLoadWindow.step ops env w = .ok (w', cmds)) : PVInv K ids0 C w' := by
  rw [step_eq] at h
  refine foldlM_inv (stepBody ops env) (fun (st : PWorld α B × List (String × α)) => PVInv K ids0 C st.1) ?_
    w.gcs (w, []) (w', cmds) hi h
  intro st g0 st' hst hf
  obtain ⟨g, hg, _, level, _, c1, hr⟩ := stepBody_ok ops env st st' g0 hf
  exact stepGc_vinv ops env st.1 st'.1 g level c1 hst hr

/-- the frame of the whole step relative to the world's own vehicles -/
theorem step_vkeeps (ops : BatOps α B) (env : PEnv α) (w w' : PWorld α B) (cmds : List (String × α))
    (h : PeakLoadWindow.step ops env w = .ok (w', cmds)) :
    w'.vehicles.map (·.v.id) = w.vehicles.map (·.v.id) ∧
      ∀ x ∈ w'.vehicles, vehKey x.v ∈ w.vehicles.map (fun y => vehKey y.v) :=
  let i := step_vinv ops env w w' cmds (PVInv.init w) h
  ⟨i.ids, i.attrs⟩

/-- the curve data of every vehicle after the step is that of a vehicle before it -/
theorem step_vcurve (ops : BatOps α B) (env : PEnv α) (w w' : PWorld α B) (cmds : List (String × α))
    (h : PeakLoadWindow.step ops env w = .ok (w', cmds)) :
    ∀ x ∈ w'.vehicles, (x.v.id, x.chargePowers) ∈ w.vehicles.map (fun y => (y.v.id, y.chargePowers)) :=
  (step_vinv ops env w w' cmds (PVInv.init w) h).curve

end
end SpiceEv.KeepsVeh.PeakLoadWindow
