import subprocess, sys, os, re
import os
W=os.environ.get("PLW_W", "/tmp/w2/peak_load_window")
F=W+"/repo/spice_ev/strategies/peak_load_window.py"
MUTS = {
 "M1_ceil_to_floor": ("timesteps_ahead = -((max_standing - self.current_time) // -self.interval)",
                      "timesteps_ahead = (max_standing - self.current_time) // self.interval"),
 "M2_drop_headroom_clamp": ("                p = min(p, ts_info[\"max_power\"] - ts_info[\"power\"])\n", ""),
 "M3_peak_prognosis_outside_window": ("if ts_info[\"window\"] and ts_info[\"power\"] - peak_power > self.EPS:",
                                      "if ts_info[\"power\"] - peak_power > self.EPS:"),
 "M4_battery_min_power_strict": ("                if power >= battery.min_charging_power:\n                    # current load above",
                                 "                if power > battery.min_charging_power:\n                    # current load above"),
 "M5_surplus_from_last_ts": ("vehicle.schedule -= min(timesteps[0][\"power\"], 0)", "vehicle.schedule -= min(timesteps[-1][\"power\"], 0)"),
 "M6_no_sort": ("key=lambda t: t[1].estimated_time_of_departure or self.current_time)}",
                "key=lambda t: 0)}"),
 "M7_const_plan_not_recounted": ("                            num_outside_ts -= 1\n", ""),
 "M8_scan_stop_strict": ("and cur_time <= self.stop_time:", "and cur_time < self.stop_time:"),
 "M9_shave_uses_self_peak": ("                            peak_power - ts[\"power\"])", "                            self.peak_power[gc_id] - ts[\"power\"])"),
 "M10_bisect_midpoint_kept_on_success": ("                        max_power = target_power\n                    else:\n                        # not charged enough: increase power\n                        min_power = target_power",
                                         "                        max_power = target_power\n                    else:\n                        # not charged enough: increase power\n                        min_power = target_power + self.EPS / 2"),
 "M11_event_idx_off_by_one": ("event_idx = ((self.current_time - self.start_time) // self.interval) + 1",
                              "event_idx = ((self.current_time - self.start_time) // self.interval)"),
 "M12_peak_update_always": ("        if gc.window:\n            self.peak_power[gc_id] = max(", "        if True:\n            self.peak_power[gc_id] = max("),
 "M13_charged_enough_no_eps": ("            if vehicle.desired_soc - vehicle.battery.soc < self.EPS:\n                # charged enough",
                               "            if vehicle.desired_soc - vehicle.battery.soc <= 0:\n                # charged enough"),
 "M14_search_step_half": ("step = (max_charge_vehicle - balanced_power) / 3", "step = (max_charge_vehicle - balanced_power) / 2"),
 "M15_battery_charge_strict": ("elif power <= -battery.min_charging_power:", "elif power < -battery.min_charging_power:"),
 "M17_bisect_no_floor": ("power = max(target_power - ts[\"power\"], 0)", "power = target_power - ts[\"power\"]"),
 "M18_departure_now_strict": ("if departure is None or departure <= self.current_time:", "if departure is None or departure < self.current_time:"),
 "M19_potential_nonstrict": ("if min(max_charge_vehicle, delta_power) > balanced_power:", "if min(max_charge_vehicle, delta_power) >= balanced_power:"),
 "M20_const_no_efficiency": ("charge_vehicle(power/vehicle.battery.efficiency, ts)", "charge_vehicle(power, ts)"),
 "M21_charged_enough_nonstrict": ("            if vehicle.desired_soc - vehicle.battery.soc < self.EPS:\n                # charged enough",
                               "            if vehicle.desired_soc - vehicle.battery.soc <= self.EPS:\n                # charged enough"),
 "M22_needs_charging_nonstrict": ("            needs_charging = vehicle.desired_soc - vehicle.battery.soc > self.EPS\n\n            # not enough: peak shaving",
                                  "            needs_charging = vehicle.desired_soc - vehicle.battery.soc >= self.EPS\n\n            # not enough: peak shaving"),
 "R1_refactor": None,
}
REFACTOR = [
 ("timesteps_ahead = -((max_standing - self.current_time) // -self.interval)",
  "q_, r_ = divmod(max_standing - self.current_time, self.interval)\n        timesteps_ahead = q_ + (1 if r_ else 0)"),
 ("        vehicles = {k: v for k, v in sorted(vehicles.items(),\n                    key=lambda t: t[1].estimated_time_of_departure or self.current_time)}",
  "        def _dep(item):\n            etd = item[1].estimated_time_of_departure\n            return self.current_time if etd is None else etd\n        vehicles = dict(sorted(list(vehicles.items()), key=_dep))"),
 ("            num_outside_ts = sum([not ts[\"window\"] for ts in connected_ts])",
  "            num_outside_ts = len([ts for ts in connected_ts if not ts[\"window\"]])"),
 ("                power = bat_info[b_id][\"power\"]\n            if power >= 0:", "                power = bat_info[b_id][\"power\"]\n            if not power < 0:"),
 ("            power = bat_info[b_id][\"power\"]\n            if power >= 0:", "            planned = bat_info[b_id][\"power\"]\n            power = planned\n            if 0 <= planned:"),
]
orig=open(F).read()
def run(seed="0"):
    env=dict(os.environ, VERIF_REPO=W+"/repo", VERIF_NPROC="3", VERIF_SEARCH_S="1", VERIF_SEED=seed)
    p=subprocess.run([W+"/verif/check","S_PEAK_LOAD_WINDOW"],env=env,capture_output=True,text=True)
    return p.stdout.strip().split("\n")[-1]
names=sys.argv[1:] or list(MUTS)
try:
    for name in names:
        src=orig
        if name=="R1_refactor":
            n=0
            for a,b in REFACTOR:
                if a in src:
                    src=src.replace(a,b); n+=1
            print(name,"applied",n,"rewrites")
        else:
            a,b=MUTS[name]
            assert src.count(a)==1,(name,src.count(a))
            src=src.replace(a,b)
        open(F,"w").write(src)
        print(name, "=>", run(), flush=True)
finally:
    open(F,"w").write(orig)
    subprocess.run(["git","-C",W+"/repo","status","--short"])
