/- driver command for Model/ScenarioRun.lean -/
import SpiceEv.Wire
import SpiceEv.Model.ScenarioRun
namespace SpiceEv.Cmd.ScenarioRun
open SpiceEv

section
variable {α : Type} [Add α] [Sub α] [Neg α] [LT α] [LE α] [DecidableLT α] [DecidableLE α]
  [OfNat α 0] [Wire α] [PySum α]

def pGc : P (GcObs α) := do
  let id ← P.tok; let rating ← P.num α; let curMax ← P.num α
  let loads ← P.list (do let k ← P.tok; let v ← P.opt (P.num α); pure (k, v))
  pure ⟨id, rating, curMax, loads⟩

def pCs : P (CsObs α) := do
  let id ← P.tok; let parent ← P.tok; let mp ← P.num α
  pure ⟨id, parent, mp⟩

def pStep : P (StepObs α) := do
  let e ← P.bool; let s ← P.bool
  let gcs ← P.list (pGc (α := α))
  let cs ← P.list (pCs (α := α))
  pure ⟨e, s, gcs, cs⟩

/-- `runloop T eps <k> genKeys… n <m> steps…` →
    `stepI aborted | per step: ok loads… ; generation…` -/
def cmdRun : P String := do
  let eps ← P.num α
  let genKeys ← P.list P.tok
  let n ← P.nat
  let obs ← P.list (pStep (α := α))
  let out := run eps genKeys n obs
  let rs (s : StepOut α) : String :=
    renderBool s.ok ++ " " ++ " ".intercalate (s.loads.map Wire.render) ++ " ; " ++
      " ".intercalate (s.generation.map Wire.render)
  pure (s!"{out.stepI} {renderBool out.aborted} | " ++ " | ".intercalate (out.steps.map rs))
end

def handlers : List (String × Handler) :=
  [("runloop", byNumType (cmdRun (α := Rat)) (cmdRun (α := Float)))]

end SpiceEv.Cmd.ScenarioRun
