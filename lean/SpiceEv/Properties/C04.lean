/-
C04 — Grid-connector power limit is never exceeded.

Part (a) of the property ("a step that would break the limit is never reported as valid: the run
stops at that step and is flagged as aborted") for EVERY strategy: the strategy's effect is an
arbitrary input of the run-loop model (Model/ScenarioRun.lean).
-/
import SpiceEv.Proofs.ScenarioRun
set_option linter.unusedSectionVars false
namespace SpiceEv
variable {α : Type} [Field α] [LinearOrder α] [IsStrictOrderedRing α]

/-- **Monitor.** For any sequence of observed world states (= any strategy, any events): every
reported step — except the last one of a run flagged as aborted — has every connector's reported
power within `±(cur_max_power + ε)`; the reported steps are the observations in order. -/
theorem C04_monitor (eps : α) (genKeys : List String) (n : Nat) (obs : List (StepObs α))
    (i : Nat) (hi : i < (run eps genKeys n obs).stepI)
    (hvalid : i + 1 < (run eps genKeys n obs).stepI ∨ (run eps genKeys n obs).aborted = false) :
    ∃ h : i < obs.length,
      (run eps genKeys n obs).steps[i]'hi = stepReport eps genKeys obs[i] ∧
      ∀ g ∈ obs[i].gcs,
        -(g.curMax + eps) ≤ (gcReport genKeys g).1 ∧ (gcReport genKeys g).1 ≤ g.curMax + eps := by
  unfold run at hi hvalid ⊢
  simp only at hi hvalid ⊢
  obtain ⟨h, e⟩ := runLoop_getElem eps genKeys n obs i hi
  refine ⟨h, e, ?_⟩
  have hok : ((runLoop eps genKeys n obs)[i]'hi).ok = true := by
    rcases hvalid with hv | hv
    · exact runLoop_ok_before_last eps genKeys n obs i hv
    · rw [List.any_eq_false] at hv
      have := hv _ (List.getElem_mem hi)
      simpa using this
  rw [e] at hok
  intro g hg
  have := (stepReport_ok eps genKeys obs[i] hok).2.2 g hg
  exact ⟨this.1, this.2.1⟩

/-- **Stop and flag.** If some connector's reported power at a reported step is outside
`±(cur_max_power + ε)`, that step is the last reported one and the run is flagged as aborted. -/
theorem C04_violation_stops_and_flags (eps : α) (genKeys : List String) (n : Nat)
    (obs : List (StepObs α)) (i : Nat) (hi : i < (run eps genKeys n obs).stepI)
    (h : i < obs.length) (g : GcObs α) (hg : g ∈ obs[i].gcs)
    (hbad : (gcReport genKeys g).1 < -(g.curMax + eps) ∨ g.curMax + eps < (gcReport genKeys g).1) :
    i + 1 = (run eps genKeys n obs).stepI ∧ (run eps genKeys n obs).aborted = true := by
  by_contra hcon
  have hvalid : i + 1 < (run eps genKeys n obs).stepI ∨ (run eps genKeys n obs).aborted = false := by
    by_cases hl : i + 1 < (run eps genKeys n obs).stepI
    · exact Or.inl hl
    · right
      have : i + 1 = (run eps genKeys n obs).stepI := by omega
      cases hab : (run eps genKeys n obs).aborted
      · rfl
      · exact absurd ⟨this, hab⟩ hcon
  obtain ⟨_, _, hall⟩ := C04_monitor eps genKeys n obs i hi hvalid
  have := hall g hg
  rcases hbad with hb | hb
  · exact absurd this.1 (not_le.mpr hb)
  · exact absurd this.2 (not_le.mpr hb)

/-- The reported connector power is the sum of the non-generation loads minus the generation,
curtailed at the connector rating: `max (−rating) (Σ loads)` (also C06's first sentence). -/
theorem C04_reported_power (genKeys : List String) (g : GcObs α) :
    (gcReport genKeys g).1 =
      max (-g.rating)
        (optVal (currentLoad genKeys g.loads) + optVal (pysum (genKeys.map (loadOf g.loads)))) := by
  unfold gcReport
  simp only [pymax_eq]
  congr 1
  ring

/-- Non-vacuity: a two-step run whose second step exceeds the limit is reported with
`stepI = 2`, flagged as aborted. -/
example :
    let o1 : StepObs ℚ := ⟨false, false, [⟨"GC", 10, 10, [("load", some 4)]⟩], []⟩
    let o2 : StepObs ℚ := ⟨false, false, [⟨"GC", 10, 10, [("load", some 11)]⟩], []⟩
    (run (1/100000 : ℚ) [] 3 [o1, o2, o1]).stepI = 2 ∧
    (run (1/100000 : ℚ) [] 3 [o1, o2, o1]).aborted = true := by
  decide +kernel

end SpiceEv
