import importlib
import os
import sys

sys.path.insert(0, os.path.dirname(os.path.abspath(__file__)))
import engine  # noqa: E402


def main():
    if len(sys.argv) < 2:
        print("usage: ./check <Cxx> [--tier quick|thorough] [--replay file]")
        return 2
    pid = sys.argv[1].upper()
    try:
        mod = importlib.import_module(pid.lower())
    except ModuleNotFoundError:
        print("no check for", pid)
        return 2
    return engine.main_check(mod, sys.argv[2:])


if __name__ == "__main__":
    sys.exit(main())
