/-
C06 — energy bookkeeping, for the strategy `balanced_market` (model: Model/StratBalancedMarket.lean with
the repairs BM1, BM2; tied to the real code by harness/s_balanced_market.py).

The step changes the world only through *booked* real battery calls.  `VehCall ops dl b b' a` is one real
call on a vehicle's battery with its signed average power `a` (`load(target_power)`, `load(max_power)`,
`unload(max_power, target_soc = discharge_limit)` with `a = −avg`, or no call with `a = 0`);
`loadAt g k` is `gc.current_loads.get(k, 0)`.  All look-ahead simulations — the price-ordered planning
with its naive passes and power bisection on `deepcopy(vehicle)`, the V2G search with its back-tracking,
the battery block's passes and bisection on the battery object with the SoC set back — leave no trace.
-/
import SpiceEv.Proofs.StratBalancedMarketBook
import SpiceEv.Proofs.StratBalancedMarketBookStep
import SpiceEv.Proofs.StratBalancedMarketBookWhole
import SpiceEv.Proofs.StratBalancedMarketToy
set_option linter.unusedSectionVars false
namespace SpiceEv
open SpiceEv.BalancedMarket
variable {α B : Type} [Field α] [LinearOrder α] [IsStrictOrderedRing α]

/-- **The planning loop books at most one real call.** Whatever order, prices, groups, naive passes and
bisections: the result differs from the start in the real world (`gc`, `cs`, `bat`, `cmds`) by exactly one
booked `load(target_power = power[0])` on the real battery — or not at all. `Booked st st' a`: connector
load `+a`, the station's entry `+a`, every other entry, the limit, id and price untouched, station power
`+a`, command = the station's new entry (or commands untouched when nothing was booked). -/
theorem C06_balanced_market_plan_books_one_call (ops : Ops α B) (env : Env α) (v : VehicleS α B)
    (ts : List (TS α)) (sorted : List (α × Nat)) (fuel : Nat) (st st' : VSt α B)
    (h : chargeLoop ops env v ts sorted fuel st = .ok st') :
    ∃ a, VehCall ops v.dischargeLimit st.bat st'.bat a ∧ Booked st st' a ∧ st'.dis = st.dis :=
  chargeLoop_book ops env v ts sorted fuel st st' h

/-- **The V2G search books at most one real call** (a discharge or a compensating charge); a discharging
station is noted in `discharging_stations`; all simulated schedules and the back-tracking leave no trace. -/
theorem C06_balanced_market_v2g_books_one_call (ops : Ops α B) (env : Env α) (v : VehicleS α B)
    (ts : List (TS α)) (sorted : List (α × Nat)) (k : Nat) (st st' : VSt α B)
    (h : v2gLoop ops env v ts sorted k st = .ok st') :
    ∃ a, VehCall ops v.dischargeLimit st.bat st'.bat a ∧ Booked st st' a ∧
      (st'.dis = st.dis ∨ st'.dis = st.dis ++ [st.cs.id]) :=
  v2gLoop_book ops env v ts sorted k st st' h

/-- **One vehicle of the vehicle loop.** The new world is *exactly* the old one with the vehicle's battery
after at most two real calls (planning pass `a1`, V2G apply `a2`) and its station's power raised by
`a1 + a2`; the connector load and the station's entry in `current_loads` rise by exactly `a1 + a2`, every
other entry and the limit are untouched. -/
theorem C06_balanced_market_vehicle_bookkeeping (ops : Ops α B) (env : Env α) (g g' : GSt α B)
    (vid : String) (h : vehicleBody ops env g vid = .ok g') :
    ∃ v cs bat1 bat2 a1 a2, g.w.vehicle? vid = some v ∧ v.cs = some cs.id ∧
      g.w.station? cs.id = some cs ∧
      VehCall ops v.dischargeLimit v.bat bat1 a1 ∧ VehCall ops v.dischargeLimit bat1 bat2 a2 ∧
      g'.w = (g.w.setVehicle { v with bat := bat2 }).setStation
        { cs with currentPower := cs.currentPower + a1 + a2 } ∧
      g'.gc.currentLoad = g.gc.currentLoad + a1 + a2 ∧
      loadAt g'.gc cs.id = loadAt g.gc cs.id + a1 + a2 ∧
      (∀ k, k ≠ cs.id → loadAt g'.gc k = loadAt g.gc k) ∧
      g'.gc.curMax = g.gc.curMax ∧ g'.gc.id = g.gc.id :=
  vehicleBody_book ops env g g' vid h

/-- **The surplus pass for one vehicle**: nothing at all, or one real call `load(max_power = p)` whose
average power is booked on battery, station, connector entry and command alike. -/
theorem C06_balanced_market_surplus_bookkeeping (ops : Ops α B) (env : Env α) (g g' : GSt α B)
    (vid : String) (h : surplusBody ops env g vid = .ok g') :
    g' = g ∨ ∃ v cs bat' a, g.w.vehicle? vid = some v ∧ v.cs = some cs.id ∧
      g.w.station? cs.id = some cs ∧ VehCall ops v.dischargeLimit v.bat bat' a ∧
      g'.w = (g.w.setVehicle { v with bat := bat' }).setStation
        { cs with currentPower := cs.currentPower + a } ∧
      g'.gc.currentLoad = g.gc.currentLoad + a ∧ loadAt g'.gc cs.id = loadAt g.gc cs.id + a ∧
      (∀ k, k ≠ cs.id → loadAt g'.gc k = loadAt g.gc k) ∧ g'.gc.curMax = g.gc.curMax ∧
      g'.cmds = sdSet g.cmds cs.id (loadAt g'.gc cs.id) ∧ g'.ts = g.ts ∧ g'.dis = g.dis :=
  surplusBody_book ops env g g' vid h

/-- **One stationary battery books its signed average power.** Either the battery hangs on another
connector (nothing changes), or: one real `load(target_power = bp)` on the battery *as it was before the
step* (the naive passes and the bisection ran on the same object and are undone: `SimLaw`), optionally
followed by the support discharge `unload(target_power)`; the battery's entry and the connector load
change by exactly `avg − out`, every other entry, the limit and the commands are untouched, and the world
is the old one with that battery's state replaced. -/
theorem C06_balanced_market_battery_bookkeeping (ops : Ops α B) (R : B → B → Prop) (sl : SimLaw ops R)
    (env : Env α) (nCheap : Option Nat) (g g' : GSt α B) (bid : String)
    (h : batteryBody ops env nCheap g bid = .ok g') :
    g' = g ∨ ∃ b bp bat1 avg bat2 out, g.w.batteries.find? (·.id == bid) = some b ∧
      ops.load b.bat none none (some bp) = .ok (bat1, avg) ∧
      ((bat2 = bat1 ∧ out = 0) ∨ ∃ x, ops.unload bat1 none none (some x) = .ok (bat2, out)) ∧
      g'.w = g.w.setBattery { b with bat := bat2 } ∧
      g'.gc.currentLoad = g.gc.currentLoad + avg - out ∧
      loadAt g'.gc bid = loadAt g.gc bid + avg - out ∧
      (∀ k, k ≠ bid → loadAt g'.gc k = loadAt g.gc k) ∧ g'.gc.curMax = g.gc.curMax ∧
      g'.cmds = g.cmds :=
  batteryBody_book ops R sl env nCheap g g' bid h

/-- **Bookkeeping of one `step_gc`.** If no station shares its id with a stationary battery, the call leaves a
connector record `gc'` (the one with this id in the new world) such that: for every station the change of its
entry in `current_loads` equals the change of its `current_power` (planning pass, V2G apply and surplus pass
add the same signed average power to both; the battery block only touches battery keys); the stations are
the same; and every command is a station's command and equals that station's entry — the signed sum of the
average powers of the real battery calls booked for it in this call.  (`stPow w k` =
`charging_stations[k].current_power`, 0 for an unknown id.)  No assumption on the battery. -/
theorem C06_balanced_market_step_gc_bookkeeping (ops : Ops α B) (env : Env α) (w w' : SWorld α B)
    (gcId : String) (cmds : List (String × α)) (gc : GcS α) (hgc : w.gc? gcId = some gc)
    (hsb : ∀ b ∈ w.batteries, w.station? b.id = none)
    (h : stepGc ops env w gcId = .ok (w', cmds)) :
    ∃ gc', gc' ∈ w'.gcs ∧ gc'.id = gcId ∧
      (∀ k, (w.station? k).isSome = true → loadAt gc' k - loadAt gc k = stPow w' k - stPow w k) ∧
      (∀ k, (w'.station? k).isSome = (w.station? k).isSome) ∧
      (∀ k val, sdGet cmds k = some val → val = loadAt gc' k ∧ (w.station? k).isSome = true) ∧
      w'.gcs = w.gcs.map (fun x => if x.id == gcId then gc' else x) ∧
      w'.batteries.map (·.id) = w.batteries.map (·.id) :=
  stepGc_bookkeeping ops env w w' gcId cmds gc hgc hsb h

/-- corollary: when entry and power of every station agree before the call (after the base class has
deleted the station entries and `step` has reset the powers: both 0), they agree after it, and every command
is the `current_power` of its station -/
theorem C06_balanced_market_step_gc_commands_are_station_powers (ops : Ops α B) (env : Env α)
    (w w' : SWorld α B) (gcId : String) (cmds : List (String × α)) (gc : GcS α)
    (hgc : w.gc? gcId = some gc) (hsb : ∀ b ∈ w.batteries, w.station? b.id = none)
    (h0 : ∀ k, (w.station? k).isSome = true → loadAt gc k = stPow w k)
    (h : stepGc ops env w gcId = .ok (w', cmds)) :
    ∀ k val, sdGet cmds k = some val → val = stPow w' k := by
  obtain ⟨gc', _, _, hent, _, hcmd, _, _⟩ := stepGc_bookkeeping ops env w w' gcId cmds gc hgc hsb h
  intro k val hk
  obtain ⟨hv, hs⟩ := hcmd k val hk
  have := hent k hs
  rw [h0 k hs] at this
  rw [hv]; linarith

/-- **Bookkeeping of the whole step** (composition of the per-`step_gc` statements over all connectors).
With unique connector ids and no station sharing its id with a stationary battery: after
`BalancedMarket.step` the `current_power` of every station equals the total change of its entries in
`current_loads` over all connectors — `entryDelta w gcs' k = Σ_{g' ∈ gcs'} (g'.current_loads.get(k, 0) −
(entry of k in the connector of the same id before the step))` — i.e. the signed sum of the average powers
of all real battery calls booked for that station in this step (planning pass, V2G apply, surplus pass; the
battery block only touches battery keys, the simulations nothing).  The stations and the connector ids are
those of before.  No assumption on the battery. -/
theorem C06_balanced_market_step_bookkeeping (ops : Ops α B) (env : Env α) (w w' : SWorld α B)
    (cmds : List (String × α)) (hnd : (w.gcs.map (·.id)).Nodup)
    (hsb : ∀ b ∈ w.batteries, w.station? b.id = none)
    (h : BalancedMarket.step ops env w = .ok (w', cmds)) :
    (∀ k, (w.station? k).isSome = true → stPow w' k = entryDelta w w'.gcs k) ∧
    (∀ k, (w'.station? k).isSome = (w.station? k).isSome) ∧
    w'.gcs.map (·.id) = w.gcs.map (·.id) :=
  step_bookkeeping ops env w w' cmds hnd hsb h

/-- Non-vacuity: two connectors, one vehicle at each (stale station powers 7 and 9 before the step are
reset): afterwards station power = change of the entry, for both stations (`≈ 1.5` and `1`). -/
example :
    let w : SWorld ℚ ℚ := ⟨[toyGc, ⟨"GC2", 5, some (.fixed (3/10)), [("load", 4)]⟩],
      [⟨"CS1", "GC", 11, 0, 7⟩, ⟨"CS2", "GC2", 11, 0, 9⟩],
      [toyVeh false (1/2), ⟨"v2", some "CS2", 8/10, some (2 * hourUs), 0, false, 1/2, 1/2⟩], []⟩
    (BalancedMarket.step toyOps (toyEnv none) w).toOption.map
      (fun r => (stPow r.1 "CS1", entryDelta w r.1.gcs "CS1", stPow r.1 "CS2", entryDelta w r.1.gcs "CS2")) =
      some (1572813/1048576, 1572813/1048576, 1, 1) := by decide +kernel

/-- Non-vacuity of the two: the flat-price world has no battery, entry and power of "CS1" are both 0 before
the call. -/
example : (∀ b ∈ (toyWorld false (1/2)).batteries, (toyWorld false (1/2)).station? b.id = none) ∧
    loadAt toyGc "CS1" = stPow (toyWorld false (1/2)) "CS1" := ⟨by decide +kernel, by decide +kernel⟩

/-- Non-vacuity (vehicle): the flat-price world — one booked call of `≈ 1.5` kW: command, station power and
the station's entry in `current_loads` are the same number, the connector load is `4 + 1.5`, the battery
gained exactly `1.5 kW · 1 h / 10 kWh`. -/
example :
    (BalancedMarket.step toyOps (toyEnv none) (toyWorld false (1/2))).toOption.map
      (fun r => (r.2, r.1.stations.map (·.currentPower), r.1.gcs.map (fun g => (loadAt g "CS1", g.currentLoad)),
        r.1.vehicles.map (fun v => v.bat - 1/2))) =
      some ([("CS1", 1572813/1048576)], [1572813/1048576], [(1572813/1048576, 4 + 1572813/1048576)],
        [1572813/10485760]) := by decide +kernel

/-- Non-vacuity (nothing booked): with a cheaper step ahead the planning simulates (naive pass, bisection)
but the world is untouched: no command, no entry, SoC unchanged. -/
example :
    (BalancedMarket.step toyOps (toyEnv (some (1/10))) (toyWorld false (1/2))).toOption.map
      (fun r => (r.2, r.1.gcs.map (·.loads), r.1.vehicles.map (·.bat), r.1.stations.map (·.currentPower))) =
      some ([], [[("load", 4)]], [1/2], [0]) := by decide +kernel

/-- Non-vacuity (battery): two batteries, each books its own average power under its own key. -/
example :
    (BalancedMarket.step toyOps ⟨1/100000, 0, 0, hourUs, 4 * hourUs, 0, [], []⟩
      ⟨[⟨"GC", 8, some (.fixed 0), [("load", 4)]⟩], [], [],
       [⟨"B1", "GC", 0, 0⟩, ⟨"B2", "GC", 0, 0⟩]⟩).toOption.map
      (fun r => (r.1.gcs.map (fun g => (loadAt g "B1", loadAt g "B2", g.currentLoad)), r.1.batteries.map (·.bat))) =
      some ([(436903/131072, 87385/131072, 8)], [436903/1310720, 87385/1310720]) := by decide +kernel

end SpiceEv
