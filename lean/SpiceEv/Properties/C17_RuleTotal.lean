/-
C17 — "every strategy step finishes in bounded time", for the models of the charging strategies `greedy` and
`balanced` (Model/Strategies.lean, `ruleStep`).  The two classes have no `while` loop: every loop is a `for` over the
vehicles / connectors / stationary batteries, the model has no fuel-guarded loop, and the whole step is total as soon
as the battery's own loops terminate (`NoFuel ops`, C01).  Lemmas: Proofs/StrategiesTotal.lean.
The statements need no order or field laws of the number type: they hold for every instance of the executable model
(`Rat` and `Float`).
-/
import SpiceEv.Proofs.StrategiesTotal
set_option linter.unusedSectionVars false
set_option linter.unusedVariables false
namespace SpiceEv
open SpiceEv.RuleTotal
variable {α B : Type} [Add α] [Sub α] [Mul α] [Div α] [Neg α] [LT α] [LE α]
  [DecidableLT α] [DecidableLE α] [OfNat α 0] [OfNat α 1] [NatCast α] [IntCast α]

/-- **The whole step of `greedy` is total**: `Greedy.step` (with `distribute_surplus_power` and `update_batteries`)
returns a result or a Python exception value, never the model's `FUEL` marker, when the battery operations never
answer `FUEL` (`NoFuel`: the battery's own loops terminate, C01).  No further hypothesis: the step has no
data-dependent loop. -/
theorem C17_greedy_step_total (ops : BatOps α B) (hnf : NoFuel ops) (env : StratEnv α) (w : SWorld α B) :
    ruleStep .greedy ops env w ≠ .error .fuel :=
  ruleStep_ne_fuel .greedy ops hnf env w

/-- **The whole step of `balanced` is total**: `Balanced.step` returns a result or a Python exception value (e.g. the
`TypeError` of a vehicle without an estimated time of departure), never the model's `FUEL` marker, when the battery
operations never answer `FUEL`. -/
theorem C17_balanced_step_total (ops : BatOps α B) (hnf : NoFuel ops) (env : StratEnv α) (w : SWorld α B) :
    ruleStep .balanced ops env w ≠ .error .fuel :=
  ruleStep_ne_fuel .balanced ops hnf env w

/-! ### non-vacuity -/

/-- the toy battery never answers `FUEL` -/
example : NoFuel toyOps := toyNoFuel

/-- the greedy step of the toy depot (one vehicle, one stationary battery) returns a result -/
example : (ruleStep .greedy toyOps toyEnv toyW).isOk = true := by decide +kernel

/-- the balanced step of the toy depot returns a result -/
example : (ruleStep .balanced toyOps toyEnv toyW).isOk = true := by decide +kernel

/-- `NoFuel` is needed: with a battery whose `load` answers `FUEL` the step passes the marker on -/
example : (match ruleStep .greedy fuelOps toyEnv toyW with | .error .fuel => true | _ => false) = true ∧
    (match ruleStep .balanced fuelOps toyEnv toyW with | .error .fuel => true | _ => false) = true := by
  constructor <;> decide +kernel

end SpiceEv
