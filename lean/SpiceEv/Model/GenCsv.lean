/-
Model of `spice_ev/generate/generate_from_csv.py: assign_vehicle_id`, transliterated statement by
statement from the REPAIRED code (fixes/D10.diff: exact type comparison for idle vehicles, insert
index `len` after a loop without `break`).  Core Lean only.

Representation
* a row of the trip table is a `Trip`: the vehicle type name, the departure and arrival instants
  (`Int` microseconds, what `strptime` yields) and `depKey`, the rank of the departure *string* in
  Python's string order — `sorted(input, key=lambda d: d.get('departure_time'))` sorts by the
  string, every later comparison uses the parsed instant.  For strings in the documented format
  `YYYY-MM-DD HH:MM:SS` the two orders agree; the theorems state this as a hypothesis.
* a dict object of the table is identified by its row number (`idx`); the returned table is the
  list of rows in table order, each extended by `vehicle_id` and `min_departure_time` (`Rot`).
* a vehicle id `f"{v_type}_{count}"` is the pair `VId` (type, count); the driver renders it with
  `VId.render`.  The repaired idle test `v_id.rsplit("_", 1)[0] == v_type` is `v.vtype == v_type`
  on the pair (the count is a decimal numeral, it contains no `_`).
-/
import SpiceEv.Py
namespace SpiceEv.GenCsv

/-- one row of the trip table -/
structure Trip where
  vtype : String
  /-- rank of the departure string (sort key) -/
  depKey : Int
  /-- parsed departure time, µs -/
  dep : Int
  /-- parsed arrival time, µs -/
  arr : Int
  deriving Repr, DecidableEq

/-- `f"{v_type}_{n}"` -/
structure VId where
  vtype : String
  n : Nat
  deriving Repr, DecidableEq

def VId.render (v : VId) : String := v.vtype ++ "_" ++ toString v.n

/-- a row after assignment: `rot["vehicle_id"]`, `rot["min_departure_time"]` -/
structure Rot where
  idx : Nat
  trip : Trip
  vid : VId
  mdt : Int
  deriving Repr, DecidableEq

/-- an entry of `vehicle_types`: name ↦ {capacity, charging_curve (only the powers are used)} -/
structure TypeInfo where
  name : String
  capacity : Rat
  powers : List Rat

/-! ### `min_standing_times` -/

/-- Python `max(list)`: `ValueError` on an empty list, otherwise the first maximal element. -/
def pyMaxList : List Rat → Py Rat
  | [] => .error .valueError
  | x :: xs => .ok (xs.foldl (fun m y => pymax m y) x)

/-- round-half-even of a rational to an integer (what `timedelta` does with fractional µs) -/
def roundHalfEven (q : Rat) : Int :=
  let n := q.num
  let d : Int := q.den
  let fl := n / d
  let r := n % d
  if 2 * r < d then fl else if d < 2 * r then fl + 1 else if fl % 2 = 0 then fl else fl + 1

/-- `datetime.timedelta(hours=h)` in microseconds -/
def hoursToMicros (h : Rat) : Int := roundHalfEven (h * 3600000000)

/-- a dict/list comprehension whose body may raise: the first exception ends it -/
def mapPy {α β : Type} (f : α → Py β) : List α → Py (List β)
  | [] => .ok []
  | a :: l =>
    match f a with
    | .error e => .error e
    | .ok b =>
      match mapPy f l with
      | .error e => .error e
      | .ok bs => .ok (b :: bs)

/-- `v_type: max([v[1] for v in v_info["charging_curve"]])` -/
def csPowerOf (t : TypeInfo) : Py (TypeInfo × Rat) :=
  match pyMaxList t.powers with
  | .error e => .error e
  | .ok p => .ok (t, p)

/-- `v_type: datetime.timedelta(hours=v_info["capacity"] / cs_power[v_type])` -/
def standingOf (tp : TypeInfo × Rat) : Py (String × Int) :=
  match pydiv tp.1.capacity tp.2 with
  | .error e => .error e
  | .ok h => .ok (tp.1.name, hoursToMicros h)

/-- the two dict comprehensions `cs_power` and `min_standing_times` (in that order: an empty curve
raises before any division is attempted). -/
def minStandingTimes (types : List TypeInfo) : Py (List (String × Int)) :=
  match mapPy csPowerOf types with
  | .error e => .error e
  | .ok cs => mapPy standingOf cs

/-! ### the assignment loop -/

structure St where
  /-- `rotations_in_progress` -/
  queue : List Rot
  /-- `idle_vehicles` -/
  idle : List VId
  /-- `v_type_counts` -/
  counts : List (String × Nat)
  /-- rows that already carry a vehicle id, in processing order -/
  out : List Rot

/-- the `while rotations_in_progress:` loop: pop from the front while the departure is strictly
later than the front's `min_departure_time`; stop at the first rotation that is not finished. -/
def release (dep : Int) : List Rot → List VId → List Rot × List VId
  | [], idle => ([], idle)
  | r :: q, idle => if r.mdt < dep then release dep q (idle ++ [r.vid]) else (r :: q, idle)

/-- the `for i, r in enumerate(rotations_in_progress)` loop, repaired: index of the first rotation
with `min_departure_time >= m`, `len` if there is none. -/
def insertPos (m : Int) : List Rot → Nat
  | [] => 0
  | r :: q => if m ≤ r.mdt then 0 else insertPos m q + 1

/-- `list.insert(i, x)` for `i ≥ 0` (an index beyond the end appends) -/
def pyInsert {α : Type} (i : Nat) (x : α) : List α → List α
  | [] => [x]
  | y :: l => match i with
    | 0 => x :: y :: l
    | i + 1 => y :: pyInsert i x l

/-- `v_type_counts[v_type] += 1` and read the new value; `KeyError` for an unknown type -/
def incrCount (ty : String) : List (String × Nat) → Py (Nat × List (String × Nat))
  | [] => .error .keyError
  | kc :: rest =>
    if kc.1 == ty then .ok (kc.2 + 1, (kc.1, kc.2 + 1) :: rest)
    else match incrCount ty rest with
      | .ok (n, rest') => .ok (n, kc :: rest')
      | .error e => .error e

/-- `try: v_id = next(v for v in idle_vehicles if <type of v> == v_type); idle_vehicles.remove(v_id)`
`except StopIteration: v_type_counts[v_type] += 1; v_id = f"{v_type}_{count}"` -/
def pickVehicle (ty : String) (idle : List VId) (counts : List (String × Nat)) :
    Py (VId × List VId × List (String × Nat)) :=
  match idle.find? (fun v => v.vtype == ty) with
  | some v => .ok (v, idle.erase v, counts)
  | none =>
    match incrCount ty counts with
    | .ok (n, counts') => .ok (⟨ty, n⟩, idle, counts')
    | .error e => .error e

/-- body of `for rot in rotations:` -/
def step (ms : List (String × Int)) (s : St) (it : Trip × Nat) : Py St :=
  let t := it.1
  let qi := release t.dep s.queue s.idle
  match pickVehicle t.vtype qi.2 s.counts with
  | .error e => .error e
  | .ok (vid, idle, counts) =>
    match ms.lookup t.vtype with
    | none => .error .keyError          -- min_standing_times[v_type]
    | some m =>
      let mdt := t.arr + m
      let rot : Rot := ⟨it.2, t, vid, mdt⟩
      .ok { queue := pyInsert (insertPos mdt qi.1) rot qi.1, idle := idle, counts := counts,
            out := s.out ++ [rot] }

def run (ms : List (String × Int)) : St → List (Trip × Nat) → Py St
  | s, [] => .ok s
  | s, it :: rest =>
    match step ms s it with
    | .ok s' => run ms s' rest
    | .error e => .error e

/-- `sorted(input, key=lambda d: d.get('departure_time'))`: stable, by the departure string -/
def sortTrips (trips : List Trip) : List (Trip × Nat) :=
  trips.zipIdx.mergeSort (fun a b => decide (a.1.depKey ≤ b.1.depKey))

def initSt (types : List TypeInfo) : St :=
  ⟨[], [], types.map (fun t => (t.name, 0)), []⟩

/-- `return input`: the rows in table order; every row was mutated by the loop
(`.fuel` marks the impossible case that a row was not processed, see `C20_total`). -/
def collect (out : List Rot) : List Nat → Py (List Rot)
  | [] => .ok []
  | i :: is =>
    match out.find? (fun r => r.idx == i) with
    | none => .error .fuel
    | some r =>
      match collect out is with
      | .ok rest => .ok (r :: rest)
      | .error e => .error e

/-- state after the whole loop -/
def assignState (types : List TypeInfo) (trips : List Trip) : Py St :=
  match minStandingTimes types with
  | .error e => .error e
  | .ok ms => run ms (initSt types) (sortTrips trips)

/-- `assign_vehicle_id(input, vehicle_types)` -/
def assignVehicleId (types : List TypeInfo) (trips : List Trip) : Py (List Rot) :=
  match assignState types trips with
  | .error e => .error e
  | .ok s => collect s.out (List.range trips.length)

end SpiceEv.GenCsv
