/-
Model of the station-count logic of `Distributed.step` (spice_ev/strategies/distributed.py): for
a connector that declares `number_cs`, which vehicles hold a charging point in this step.
`conn` are the holders carried over from the previous step that are still connected (dict order),
`arriving` the candidates (vehicle id, SoC) in the order the code built them.
-/
import SpiceEv.Py
namespace SpiceEv

section
variable {α : Type} [LT α] [LE α] [DecidableLT α] [DecidableLE α]

/-- `while free_spots > 0 and arr_gc: v_id = arr_gc.pop(0)[...]; conn[v_id] = …; free_spots -= 1`
(assigning an id that is already a key does not grow the dict) -/
def fillSpots : Nat → List String → List (String × α) → List String
  | 0, conn, _ => conn
  | _ + 1, conn, [] => conn
  | free + 1, conn, a :: rest =>
    fillSpots free (if conn.contains a.1 then conn else conn ++ [a.1]) rest

/-- the ranking block of `Distributed.step` for one connector -/
def prioritise (numberCs : Nat) (conn : List String) (arriving : List (String × α)) : Py (List String) :=
  if numberCs < conn.length then .error .assertion          -- assert len(conn) <= gc.number_cs
  else if conn.length == numberCs then .ok conn              -- all charging points occupied
  else
    let arr := (arriving.filter (fun a => !conn.contains a.1)).mergeSort (fun a b => decide (a.2 ≤ b.2))
    let conn' := fillSpots (numberCs - conn.length) conn arr
    if numberCs < conn'.length then .error .assertion else .ok conn'

end
end SpiceEv
