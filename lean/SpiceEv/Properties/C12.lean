/-
C12 — Electricity costs follow the tariff rules of the price sheet.

Property theorems only (definitions and helper lemmas: SpiceEv/Proofs/Costs.lean — reference
specification `Spec`, well-formedness `WF`, loop lemmas, stage refinements — and
SpiceEv/Proofs/CostsInvariance.lean — halving and repetition).  All statements are about the
executable model `SpiceEv.Costs.calculateCostsRaw` / `calculateCosts` (SpiceEv/Model/Costs.lean)
instantiated at an arbitrary linearly ordered field; the driver runs the same definitions on `Rat`
against the real `spice_ev.costs.calculate_costs` on exact rationals.
-/
import SpiceEv.Proofs.CostsInvariance
import Mathlib.Data.Rat.Floor
set_option linter.unusedSectionVars false
set_option linter.unusedSimpArgs false
set_option linter.unusedVariables false
set_option linter.unnecessarySeqFocus false
namespace SpiceEv
open SpiceEv.Costs
variable {α : Type} [Field α] [LinearOrder α] [IsStrictOrderedRing α]

/-- **Refinement.** On every well-formed input (all seven schemes) whose PV size lies inside the
brackets of the price sheet, the model of `calculate_costs` returns — never raises — exactly the
documented composition `Spec.costs` (all quantities before rounding), and the returned dict is its
rounding. -/
theorem C12_refines (inp : Input α) (ps : PriceSheet α) (h : Costs.WF inp ps)
    (hpv1 : 3 ≤ ps.pvKwp.length) (hpv2 : 3 ≤ ps.pvRemuneration.length)
    (hpv : (Spec.pvCharge ps inp.pvNominal).isSome) (r : α → α) :
    calculateCostsRaw inp = .ok (Spec.costs inp ps) ∧
    calculateCosts r inp = .ok (roundResult r (Spec.costs inp ps)) := by
  have h1 := calculateCostsRaw_eq inp ps h hpv1 hpv2 hpv
  refine ⟨h1, ?_⟩
  unfold calculateCosts
  rw [h1]
  rfl

/-- **PV brackets.** The feed-in charge for PV is 0 without a PV plant, otherwise the remuneration of
the first bracket whose upper limit is not exceeded; above the last bracket the model raises
`ValueError` (and so does `calculate_costs` on every well-formed input). -/
theorem C12_pv_bracket (inp : Input α) (ps : PriceSheet α) (h : Costs.WF inp ps)
    (hpv1 : 3 ≤ ps.pvKwp.length) (hpv2 : 3 ≤ ps.pvRemuneration.length) :
    (inp.pvNominal = 0 → Spec.pvCharge ps inp.pvNominal = some 0) ∧
    (inp.pvNominal ≠ 0 → inp.pvNominal ≤ ps.pvKwp.getD 0 0 →
      Spec.pvCharge ps inp.pvNominal = some (ps.pvRemuneration.getD 0 0)) ∧
    (inp.pvNominal ≠ 0 → ¬ inp.pvNominal ≤ ps.pvKwp.getD 0 0 → inp.pvNominal ≤ ps.pvKwp.getD 1 0 →
      Spec.pvCharge ps inp.pvNominal = some (ps.pvRemuneration.getD 1 0)) ∧
    (inp.pvNominal ≠ 0 → ¬ inp.pvNominal ≤ ps.pvKwp.getD 0 0 → ¬ inp.pvNominal ≤ ps.pvKwp.getD 1 0 →
      inp.pvNominal ≤ ps.pvKwp.getD 2 0 →
      Spec.pvCharge ps inp.pvNominal = some (ps.pvRemuneration.getD 2 0)) ∧
    (inp.pvNominal ≠ 0 → ¬ inp.pvNominal ≤ ps.pvKwp.getD 0 0 → ¬ inp.pvNominal ≤ ps.pvKwp.getD 1 0 →
      ¬ inp.pvNominal ≤ ps.pvKwp.getD 2 0 → calculateCostsRaw inp = .error .valueError) := by
  refine ⟨?_, ?_, ?_, ?_, ?_⟩
  · intro h0; simp [Spec.pvCharge, h0]
  · intro h0 h1; simp only [Spec.pvCharge, h0, h1, ↓reduceIte]
  · intro h0 h1 h2; simp only [Spec.pvCharge, h0, h1, h2, ↓reduceIte]
  · intro h0 h1 h2 h3; simp only [Spec.pvCharge, h0, h1, h2, h3, ↓reduceIte]
  · intro h0 h1 h2 h3
    exact calculateCostsRaw_pv_error inp ps h hpv1 hpv2 (by simp only [Spec.pvCharge, h0, h1, h2, h3, ↓reduceIte])

/-- **Tariff class.** Whenever `find_prices` returns, the class it returns is: RLM if RLM was
requested; otherwise SLP iff the yearly energy is at most `MAX_ENERGY_SUPPLY_PER_YEAR_SLP`
(100 000 kWh/a), else RLM — in particular a requested SLP is overridden above the limit.  For SLP the
charges are the SLP commodity charge and the basic charge, whatever the utilisation time and the
voltage level. -/
theorem C12_tariff_class (ps : PriceSheet α) (fee : Option FeeType) (vl : Nat) (util e : α)
    (r : α × α × FeeType) (h : findPrices ps fee vl util e = .ok r) :
    (fee = some .rlm → r.2.2 = .rlm) ∧
    (fee ≠ some .rlm → |e| ≤ (maxEnergySupplyPerYearSLP : α) →
      r = (ps.slpCommodity, ps.slpBasic, .slp)) ∧
    (fee ≠ some .rlm → ¬ |e| ≤ (maxEnergySupplyPerYearSLP : α) → r.2.2 = .rlm) := by
  unfold findPrices at h
  simp only [pyabs_eq, lit_eq] at h
  refine ⟨?_, ?_, ?_⟩
  · intro hf
    subst hf
    by_cases hb : |e| ≤ (maxEnergySupplyPerYearSLP : α) <;>
      by_cases hu : util < (utilizationTimePerYearEC : α) <;>
      simp only [hb, hu, decide_true, decide_false, if_true, if_false, bind, Except.bind] at h <;>
      (revert h; simp only [reduceCtorEq, false_and, and_false, if_false]
       cases lookupLevel ps.rlmLowCommodity vl <;> cases lookupLevel ps.rlmLowCapacity vl <;>
       cases lookupLevel ps.rlmHighCommodity vl <;> cases lookupLevel ps.rlmHighCapacity vl <;>
       simp <;> intro h <;> rw [← h])
  · intro hf hb
    rcases fee with _ | (_ | _ | _)
    · simp [hb] at h; rw [← h]
    · simp [hb] at h; rw [← h]
    · exact absurd rfl hf
    · simp [hb] at h
  · intro hf hb
    rcases fee with _ | (_ | _ | _)
    · by_cases hu : util < (utilizationTimePerYearEC : α) <;>
        simp only [hb, hu, decide_false, if_true, if_false, bind, Except.bind] at h <;>
        (revert h; simp
         cases lookupLevel ps.rlmLowCommodity vl <;> cases lookupLevel ps.rlmLowCapacity vl <;>
         cases lookupLevel ps.rlmHighCommodity vl <;> cases lookupLevel ps.rlmHighCapacity vl <;>
         simp <;> intro h <;> rw [← h])
    · by_cases hu : util < (utilizationTimePerYearEC : α) <;>
        simp only [hb, hu, decide_false, if_true, if_false, bind, Except.bind] at h <;>
        (revert h; simp
         cases lookupLevel ps.rlmLowCommodity vl <;> cases lookupLevel ps.rlmLowCapacity vl <;>
         cases lookupLevel ps.rlmHighCommodity vl <;> cases lookupLevel ps.rlmHighCapacity vl <;>
         simp <;> intro h <;> rw [← h])
    · exact absurd rfl hf
    · simp [hb] at h

/-- **Utilisation-time bracket.** For RLM, whenever `find_prices` returns, commodity and capacity
charge are read at the voltage level from the `<2500_h/a` column iff the utilisation time is below
`UTILIZATION_TIME_PER_YEAR_EC` (2500 h/a), otherwise from the `>=2500_h/a` column (2500 itself is in
the upper bracket).  The `…_w_plw` schemes use the upper bracket whenever power is drawn at all, and
the reference composition reads the charges of the flexible load at exactly 2500 h/a (`Spec.core`),
i.e. from the upper column. -/
theorem C12_bracket (ps : PriceSheet α) (fee : Option FeeType) (vl : Nat) (util e : α)
    (r : α × α × FeeType) (h : findPrices ps fee vl util e = .ok r) (hr : r.2.2 = .rlm) :
    (util < (utilizationTimePerYearEC : α) →
      ps.rlmLowCommodity[vl]? = some r.1 ∧ ps.rlmLowCapacity[vl]? = some r.2.1) ∧
    (¬ util < (utilizationTimePerYearEC : α) →
      ps.rlmHighCommodity[vl]? = some r.1 ∧ ps.rlmHighCapacity[vl]? = some r.2.1) ∧
    (∀ inp : Input α, inp.scheme.isWPlw = true → Spec.P inp ≠ 0 →
      Spec.util inp = (utilizationTimePerYearEC : α)) ∧
    Spec.rates ps .rlm vl (utilizationTimePerYearEC : α)
      = (ps.rlmHighCommodity.getD vl 0, ps.rlmHighCapacity.getD vl 0) := by
  have key : ∀ (c k : List α) (x : α × α × FeeType),
      (do let a ← lookupLevel c vl; let b ← lookupLevel k vl; Except.ok (a, b, FeeType.rlm)) = .ok x →
      c[vl]? = some x.1 ∧ k[vl]? = some x.2.1 := by
    intro c k x hx
    unfold lookupLevel at hx
    cases hc : c[vl]? with
    | none => rw [hc] at hx; simp [bind, Except.bind] at hx
    | some a =>
      cases hk : k[vl]? with
      | none => rw [hc, hk] at hx; simp [bind, Except.bind] at hx
      | some b =>
        rw [hc, hk] at hx
        simp only [bind, Except.bind] at hx
        injection hx with hx
        rw [← hx]
        exact ⟨rfl, rfl⟩
  unfold findPrices at h
  simp only [lit_eq] at h
  refine ⟨?_, ?_, ?_, ?_⟩
  · intro hu
    split at h
    · injection h with h; rw [← h] at hr; cases hr
    · simp only [hu, if_true] at h; exact key _ _ _ h
    · cases h
  · intro hu
    split at h
    · injection h with h; rw [← h] at hr; cases hr
    · simp only [hu, if_false] at h; exact key _ _ _ h
    · cases h
  · intro inp hw hP
    simp [Spec.util, hw, hP, utilizationTimePerYearEC]
  · simp [Spec.rates, utilizationTimePerYearEC]

/-- **Energy-proportional components.** In every result the model returns (any input, any scheme):
the energy of the period is `Σ max(-supply, 0) · Δ/3600`; each levy, the concession fee and the
electricity tax are `rate · energy / 100`.  On a well-formed input: power procurement is
`charge · energy / 100` unless the scheme is a variable one (which prices the energy of each step
with its own series), and for the fixed schemes the commodity costs are
`commodity charge · energy / 100`, the charge being the one selected by tariff class and bracket. -/
theorem C12_energy_linear (inp : Input α) (d : Detail α) (h : calculateCostsRaw inp = .ok d) :
    ∃ ps, inp.sheet = some ps ∧
      d.energySim = Spec.energy (inp.supply.map (fun v => max (-v) 0)) inp.sec ∧
      d.eegSim = ps.eeg * d.energySim / 100 ∧ d.chpSim = ps.chp * d.energySim / 100 ∧
      d.indSim = ps.individual * d.energySim / 100 ∧ d.offSim = ps.offshore * d.energySim / 100 ∧
      d.intSim = ps.interruptible * d.energySim / 100 ∧
      d.leviesTotalSim = d.eegSim + d.chpSim + d.indSim + d.offSim + d.intSim ∧
      d.concessionSim = ps.concession * d.energySim / 100 ∧
      d.taxSim = ps.electricityTax * d.energySim / 100 ∧
      (Costs.WF inp ps → inp.scheme.isVariable = false →
        d.procurementSim = ps.procurement * d.energySim / 100) ∧
      (Costs.WF inp ps → inp.scheme.isFixed = true →
        d.commoditySim = (Spec.r inp ps).1 * d.energySim / 100) := by
  obtain ⟨pre, core, pv, v2g, bat, h1, h2, rfl⟩ := calculateCostsRaw_ok_form inp d h
  obtain ⟨hs, hfy, hfyeq, he, hepa⟩ := prelude_ok inp pre h1
  have hcore : Costs.WF inp pre.ps → core = Spec.core inp pre.ps ∧ pre.energySim = Spec.e inp := by
    intro hwf
    have hpre := prelude_eq inp pre.ps hwf
    rw [hpre] at h1
    injection h1 with h1
    have hsc := schemeCosts_eq inp pre.ps hwf
    rw [← h1] at h2
    rw [show (⟨pre.ps, Spec.fy inp, Spec.g inp, Spec.f inp, Spec.peakWin inp, Spec.e inp,
      Spec.epa inp, Spec.P inp, Spec.util inp, (Spec.r inp pre.ps).1, (Spec.r inp pre.ps).2,
      Spec.cls inp⟩ : Prelude α) = specPrelude inp pre.ps from rfl] at h2
    rw [hsc] at h2
    injection h2 with h2
    exact ⟨h2.symm, by rw [← h1]⟩
  refine ⟨pre.ps, hs, he, ?_, ?_, ?_, ?_, ?_, ?_, ?_, ?_, ?_, ?_⟩
  any_goals (simp only [assemble, lit_eq, Nat.cast_ofNat])
  · intro hwf hv
    obtain ⟨hc, _⟩ := hcore hwf
    have : core.procurementSimVar = none := by
      rw [hc]
      cases hsch : inp.scheme <;> simp [hsch, Scheme.isVariable] at hv <;>
        simp [Spec.core, hsch, Spec.special]
    simp only [this]
  · intro hwf hfix
    obtain ⟨hc, hE⟩ := hcore hwf
    rw [hc, hE]
    cases hsch : inp.scheme <;> simp [hsch, Scheme.isFixed] at hfix <;>
      simp [Spec.core, hsch]

/-- **Which peak each scheme charges** (documented composition, which the model equals by
`C12_refines`).  Capacity costs are the flat basic charge for SLP and `charge × peak` for RLM, where
the peak is: the overall peak for `…_wo_plw`; for `…_w_plw` the peak inside the windows if the
reduction is significant — relatively above the price-sheet threshold AND by more than 100 kW —
otherwise the overall peak.  The three schemes that split fixed and flexible load charge the fixed
load on its own peak and the flexible load with the upper-bracket charge on: the flexible peak at the
times of the highest price (`balanced_market`), the flexible peak outside the windows
(`flex_window`, nothing if there is no such step), and — with the deviation charge instead — the
largest positive deviation from the schedule above the tolerated share of the schedule's peak
(`schedule`). -/
theorem C12_peak (inp : Input α) (ps : PriceSheet α) :
    (inp.scheme = .fixedWoPlw ∨ inp.scheme = .variableWoPlw →
      (Spec.costs inp ps).capacity
        = Spec.capacityCosts (Spec.cls inp) (Spec.r inp ps).2 (Spec.P inp)) ∧
    (inp.scheme = .fixedWPlw ∨ inp.scheme = .variableWPlw →
      (Spec.costs inp ps).capacity
        = Spec.capacityCosts (Spec.cls inp) (Spec.r inp ps).2
            (Spec.plwPeak (ps.significance.getD inp.voltageLevel 0) (Spec.P inp)
              ((Spec.peakWin inp).getD 0))) ∧
    (∀ thr P pw : α, Spec.plwPeak thr P pw
        = if 0 < P ∧ thr < (P - pw) / P * 100 ∧ (plwPeakDiffKW : α) < P - pw then pw else P) ∧
    (∀ c p : α, Spec.capacityCosts .slp c p = c ∧ Spec.capacityCosts .rlm c p = c * p) ∧
    (inp.scheme = .balancedMarket ∨ inp.scheme = .flexWindow ∨ inp.scheme = .schedule →
      ∃ ff, (Spec.costs inp ps).fixFlex = some ff ∧
        (Spec.costs inp ps).capacity = ff.capacityFix + ff.capacityFlex ∧
        ff.capacityFix = (Spec.fixPart ps (Spec.cls inp) inp.voltageLevel (Spec.f inp) inp.sec
          (Spec.fy inp) (if inp.scheme = .schedule then ps.schedReduction else 0)).2.2.1 ∧
        (inp.scheme = .balancedMarket → ff.capacityFlex
          = (Spec.rates ps (Spec.costs inp ps).feeType inp.voltageLevel 2500).2
            * Spec.peak (Spec.selectEq (Spec.listMax (Spec.marketPrices inp (Spec.r inp ps).1))
                (Spec.flex inp) (Spec.marketPrices inp (Spec.r inp ps).1))) ∧
        (inp.scheme = .flexWindow → ff.capacityFlex
          = (Spec.rates ps (Spec.costs inp ps).feeType inp.voltageLevel 2500).2
            * Spec.peak (Spec.selectNot (Spec.flex inp) (inp.window.getD []))) ∧
        (inp.scheme = .schedule → ff.capacityFlex = Spec.deviationCosts inp ps)) ∧
    (∀ (c : FeeType) (f : List α) (sec fy red : α),
      (Spec.fixPart ps c inp.voltageLevel f sec fy red).2.2.1
        = if Spec.peak f = 0 then 0
          else (Spec.rates ps (Spec.tariffClass (some c) (Spec.energy f sec / fy)) inp.voltageLevel
                 |Spec.energy f sec / fy / Spec.peak f|).2 * Spec.peak f) ∧
    (∀ l : List α, 0 ≤ Spec.peak l ∧ (∀ x ∈ l, x ≤ Spec.peak l) ∧ (Spec.peak l = 0 ∨ Spec.peak l ∈ l)) := by
  refine ⟨?_, ?_, ?_, ?_, ?_, ?_, ?_⟩
  · rintro (hs | hs) <;> simp [Spec.costs, assemble, Spec.core, hs]
  · rintro (hs | hs) <;> simp [Spec.costs, assemble, Spec.core, hs]
  · intro thr P pw
    by_cases hc : (0 < P ∧ thr < (P - pw) / P * 100 ∧ (100 : α) < P - pw) <;>
      simp [Spec.plwPeak, plwPeakDiffKW, hc]
  · intro c p; simp [Spec.capacityCosts]
  · rintro (hs | hs | hs) <;>
      simp [Spec.costs, assemble, Spec.core, hs, Spec.special]
  · intro c f sec fy red
    unfold Spec.fixPart
    split_ifs <;> rfl
  · intro l
    exact ⟨peak_nonneg l, le_peak l, peak_mem l⟩

/-- **VAT and feed-in.** In every result the model returns: the net sum is commodity + capacity (or
basic) + procurement + additional + levies + concession + electricity tax; VAT is `vat % / 100` of
the net sum (period and year); gross = net + VAT; the total is gross minus the three feed-in
remunerations (PV, V2G, battery). -/
theorem C12_vat_feedin (inp : Input α) (d : Detail α) (h : calculateCostsRaw inp = .ok d) :
    ∃ ps, inp.sheet = some ps ∧
      d.netSim = d.commoditySim + d.capacity + d.procurementSim + d.additionalSim
        + d.leviesTotalSim + d.concessionSim + d.taxSim ∧
      d.vatSim = ps.vat / 100 * d.netSim ∧ d.vatYear = ps.vat / 100 * d.netYear ∧
      d.grossSim = d.netSim + d.vatSim ∧ d.grossYear = d.netYear + d.vatYear ∧
      d.totalSim = d.grossSim - d.pvSim - d.v2gSim - d.batSim ∧
      d.totalYear = d.grossYear - d.pvYear - d.v2gYear - d.batYear := by
  obtain ⟨pre, core, pv, v2g, bat, h1, h2, rfl⟩ := calculateCostsRaw_ok_form inp d h
  obtain ⟨hs, _⟩ := prelude_ok inp pre h1
  refine ⟨pre.ps, hs, ?_, ?_, ?_, ?_, ?_, ?_, ?_⟩ <;> simp only [assemble, lit_eq, Nat.cast_ofNat]

/-- **Per-year values.** In every result the model returns the simulated fraction of a year `f` is
non-zero and equals `steps · Δ / 365 d`; procurement, every levy, concession fee and electricity tax
per year are the period values divided by `f`; additional costs of the period are the yearly ones
times `f`; capacity (or basic) costs are NOT scaled: `net/a = (net_period − capacity) / f + capacity`.
On well-formed input the same holds for commodity costs and the feed-in remunerations. -/
theorem C12_annual (inp : Input α) (d : Detail α) (h : calculateCostsRaw inp = .ok d) :
    d.fractionYear ≠ 0 ∧ d.fractionYear = inp.nTimestamps * inp.sec / (secondsPerYear : α) ∧
    d.energyPa = d.energySim / d.fractionYear ∧
    d.procurementYear = d.procurementSim / d.fractionYear ∧
    d.eegYear = d.eegSim / d.fractionYear ∧ d.chpYear = d.chpSim / d.fractionYear ∧
    d.indYear = d.indSim / d.fractionYear ∧ d.offYear = d.offSim / d.fractionYear ∧
    d.intYear = d.intSim / d.fractionYear ∧
    d.concessionYear = d.concessionSim / d.fractionYear ∧
    d.taxYear = d.taxSim / d.fractionYear ∧
    d.additionalSim = d.additionalYear * d.fractionYear ∧
    d.netYear = (d.netSim - d.capacity) / d.fractionYear + d.capacity ∧
    (∀ ps, Costs.WF inp ps → 3 ≤ ps.pvKwp.length → 3 ≤ ps.pvRemuneration.length →
      d.commodityYear = d.commoditySim / d.fractionYear ∧ d.pvYear = d.pvSim / d.fractionYear ∧
      d.v2gYear = d.v2gSim / d.fractionYear ∧ d.batYear = d.batSim / d.fractionYear) := by
  obtain ⟨pre, core, pv, v2g, bat, h1, h2, rfl⟩ := calculateCostsRaw_ok_form inp d h
  obtain ⟨hs, hfy, hfyeq, he, hepa⟩ := prelude_ok inp pre h1
  refine ⟨hfy, ?_, hepa, ?_, ?_, ?_, ?_, ?_, ?_, ?_, ?_, ?_, ?_, ?_⟩
  any_goals (simp only [assemble, lit_eq, Nat.cast_ofNat])
  · rw [hfyeq]; simp [secondsPerYear]
  · split_ifs <;> simp
  · intro ps hwf hpv1 hpv2
    have hd : assemble pre.ps pre.fy pre.energySim pre.energyPa pre.util core pv v2g bat
        = Spec.costs inp ps := by
      cases hpv : Spec.pvCharge ps inp.pvNominal with
      | none =>
        rw [calculateCostsRaw_pv_error inp ps hwf hpv1 hpv2 hpv] at h
        cases h
      | some c =>
        rw [calculateCostsRaw_eq inp ps hwf hpv1 hpv2 (by rw [hpv]; rfl)] at h
        injection h with h
        exact h.symm
    have hfy' := hwf.fy_ne
    have hform : (Spec.costs inp ps).commodityYear
        = (Spec.costs inp ps).commoditySim / (Spec.costs inp ps).fractionYear ∧
        (Spec.costs inp ps).pvYear = (Spec.costs inp ps).pvSim / (Spec.costs inp ps).fractionYear ∧
        (Spec.costs inp ps).v2gYear = (Spec.costs inp ps).v2gSim / (Spec.costs inp ps).fractionYear ∧
        (Spec.costs inp ps).batYear
          = (Spec.costs inp ps).batSim / (Spec.costs inp ps).fractionYear := by
      refine ⟨?_, ?_, ?_, ?_⟩
      · cases hs : inp.scheme <;>
          simp only [Spec.costs, assemble, Spec.core, hs, Spec.special, Spec.fixPart] <;>
          first
            | rfl
            | exact absurd hs hwf.scheme
            | (split_ifs <;> field_simp <;> ring)
      · simp only [Spec.costs, assemble, Spec.feedIn]; field_simp
      · simp only [Spec.costs, assemble, Spec.feedIn]; field_simp
      · simp only [Spec.costs, assemble, Spec.feedIn]; field_simp
    have e1 : core.commodityYear = (Spec.costs inp ps).commodityYear :=
      congrArg Detail.commodityYear hd
    have e2 : core.commoditySim = (Spec.costs inp ps).commoditySim :=
      congrArg Detail.commoditySim hd
    have e3 : pre.fy = (Spec.costs inp ps).fractionYear := congrArg Detail.fractionYear hd
    have e4 : pv.1 = (Spec.costs inp ps).pvYear := congrArg Detail.pvYear hd
    have e5 : pv.2 = (Spec.costs inp ps).pvSim := congrArg Detail.pvSim hd
    have e6 : v2g.1 = (Spec.costs inp ps).v2gYear := congrArg Detail.v2gYear hd
    have e7 : v2g.2 = (Spec.costs inp ps).v2gSim := congrArg Detail.v2gSim hd
    have e8 : bat.1 = (Spec.costs inp ps).batYear := congrArg Detail.batYear hd
    have e9 : bat.2 = (Spec.costs inp ps).batSim := congrArg Detail.batSim hd
    rw [e1, e2, e3, e4, e5, e6, e7, e8, e9]
    exact hform

/-- **Repetition.** Repeating a well-formed profile `k ≥ 1` times (every series repeated, `k` times
as many timestamps, same interval) leaves every per-year quantity of the result unchanged BEFORE
rounding (`Detail.annual`: tariff class, yearly energy, utilisation time, peaks, commodity, capacity,
procurement, each levy, concession, tax, VAT, net, gross, total and the feed-in remunerations per
year) — and therefore the returned dict for ANY rounding function; a PV size outside the brackets
raises `ValueError` in both runs. -/
theorem C12_repeat_invariant (inp : Input α) (ps : PriceSheet α) (h : Costs.WF inp ps)
    (hpv1 : 3 ≤ ps.pvKwp.length) (hpv2 : 3 ≤ ps.pvRemuneration.length) (k : Nat) (hk : 0 < k)
    (r : α → α) :
    (calculateCostsRaw (inp.repeat k)).map Detail.annual
      = (calculateCostsRaw inp).map Detail.annual ∧
    calculateCosts r (inp.repeat k) = calculateCosts r inp := by
  have hk' := h.repeat k hk
  have hpvn : (inp.repeat k).pvNominal = inp.pvNominal := rfl
  cases hpv : Spec.pvCharge ps inp.pvNominal with
  | none =>
    have e1 := calculateCostsRaw_pv_error inp ps h hpv1 hpv2 hpv
    have e2 := calculateCostsRaw_pv_error (inp.repeat k) ps hk' hpv1 hpv2 (by rw [hpvn]; exact hpv)
    refine ⟨by rw [e1, e2], ?_⟩
    unfold calculateCosts
    rw [e1, e2]
  | some c =>
    have e1 := calculateCostsRaw_eq inp ps h hpv1 hpv2 (by rw [hpv]; rfl)
    have e2 := calculateCostsRaw_eq (inp.repeat k) ps hk' hpv1 hpv2 (by rw [hpvn, hpv]; rfl)
    have e3 := repeat_costs_annual inp ps k hk h
    refine ⟨?_, ?_⟩
    · rw [e1, e2]
      show Except.ok _ = Except.ok _
      rw [e3]
    · unfold calculateCosts
      rw [e1, e2]
      show Except.ok _ = Except.ok _
      rw [roundResult_annual, roundResult_annual, e3]

/-- **Halving.** Splitting every step of a well-formed profile into two equal halves (every value
twice, twice as many timestamps, half the interval) leaves the complete result unchanged before
rounding — every per-period and per-year quantity — hence also the returned dict. -/
theorem C12_halving_invariant (inp : Input α) (ps : PriceSheet α) (h : Costs.WF inp ps)
    (hpv1 : 3 ≤ ps.pvKwp.length) (hpv2 : 3 ≤ ps.pvRemuneration.length) (r : α → α) :
    calculateCostsRaw inp.halve = calculateCostsRaw inp ∧
    calculateCosts r inp.halve = calculateCosts r inp := by
  have hh := h.halve
  have hpvn : inp.halve.pvNominal = inp.pvNominal := rfl
  have key : calculateCostsRaw inp.halve = calculateCostsRaw inp := by
    cases hpv : Spec.pvCharge ps inp.pvNominal with
    | none =>
      rw [calculateCostsRaw_pv_error inp ps h hpv1 hpv2 hpv,
        calculateCostsRaw_pv_error inp.halve ps hh hpv1 hpv2 (by rw [hpvn]; exact hpv)]
    | some c =>
      rw [calculateCostsRaw_eq inp ps h hpv1 hpv2 (by rw [hpv]; rfl),
        calculateCostsRaw_eq inp.halve ps hh hpv1 hpv2 (by rw [hpvn, hpv]; rfl), halve_costs]
  refine ⟨key, ?_⟩
  unfold calculateCosts
  rw [key]

/-- **Dates do not matter.** True by construction: the model of `calculate_costs` has no date input
at all — `timestamps_list` enters the code only through `len(timestamps_list)`, which is the field
`nTimestamps` — so any two timestamp lists of the same length give the same result, whatever their
contents (`τ` is an arbitrary type of timestamps).  The correspondence run checks that the code indeed
uses nothing but the length (it is run with `None`, with real and with shifted/constant datetimes). -/
theorem C12_date_free {τ : Type} (inp : Input α) (ts1 ts2 : List τ)
    (h : ts1.length = ts2.length) :
    calculateCostsRaw { inp with nTimestamps := ts1.length }
      = calculateCostsRaw { inp with nTimestamps := ts2.length } := by
  rw [h]

/-- **Rounding of the result dict.** The executable `round(x, 2)` of the exact stream
(`Fraction.__round__`, round half to even) returns a whole number of cents at most half a cent away
from `x`, and leaves whole cents unchanged.  (`C12_refines`, `C12_repeat_invariant` and
`C12_halving_invariant` hold for every rounding function, in particular for this one.) -/
theorem C12_round_cents (x : ℚ) :
    |pyRound2 x - x| ≤ 1 / 200 ∧ (∃ n : ℤ, pyRound2 x = n / 100) ∧
    (∀ n : ℤ, x = n / 100 → pyRound2 x = x) := by
  have h1 := Rat.floor_le (x * 100)
  have h2 := Rat.lt_floor_add_one (x * 100)
  push_cast at h2
  refine ⟨?_, ?_, ?_⟩
  · unfold pyRound2 roundHalfEven
    simp only []
    rw [abs_le]
    split_ifs with ha hb hc <;> push_cast <;> constructor <;> linarith
  · unfold pyRound2
    exact ⟨_, rfl⟩
  · intro n hn
    have hy : x * 100 = (n : ℚ) := by rw [hn]; ring
    have hf : (x * 100).floor = n := by
      rw [hy]; exact Rat.floor_intCast n
    unfold pyRound2 roundHalfEven
    simp only [hf, hy, sub_self]
    norm_num
    rw [hn]

/-! ### Non-vacuity: the hypotheses are satisfiable by a concrete non-trivial input -/

example : Costs.WF exInput exSheet ∧ 3 ≤ exSheet.pvKwp.length ∧ 3 ≤ exSheet.pvRemuneration.length ∧
    (Spec.pvCharge exSheet exInput.pvNominal).isSome :=
  ⟨exInput_wf, by decide, by decide, by
    simp only [Spec.pvCharge, exInput, exSheet]
    norm_num⟩

/-- `C12_refines`, `C12_repeat_invariant`, `C12_halving_invariant` apply to the example -/
example (r : ℚ → ℚ) :
    calculateCosts r (exInput.repeat 3) = calculateCosts r exInput ∧
    calculateCosts r exInput.halve = calculateCosts r exInput ∧
    calculateCostsRaw exInput = .ok (Spec.costs exInput exSheet) :=
  ⟨(C12_repeat_invariant exInput exSheet exInput_wf (by decide) (by decide) 3 (by decide) r).2,
   (C12_halving_invariant exInput exSheet exInput_wf (by decide) (by decide) r).2,
   (C12_refines exInput exSheet exInput_wf (by decide) (by decide) (by
      simp only [Spec.pvCharge, exInput, exSheet]
      norm_num) r).1⟩

/-- the hypothesis of `C12_tariff_class`/`C12_bracket` (a successful `find_prices`) is satisfiable,
on both sides of both boundaries -/
example : findPrices exSheet none 2 (2500 : ℚ) 100000 = .ok (748/100, 657/10, .slp) ∧
    findPrices exSheet (some .slp) 2 (2499 : ℚ) 100001 = .ok (349/100, 4106/100, .rlm) ∧
    findPrices exSheet none 2 (2500 : ℚ) 100001 = .ok (232/100, 7014/100, .rlm) := by
  refine ⟨?_, ?_, ?_⟩ <;>
    simp [findPrices, exSheet, pyabs, lit, maxEnergySupplyPerYearSLP, utilizationTimePerYearEC,
      lookupLevel, bind, Except.bind] <;> norm_num

end SpiceEv
