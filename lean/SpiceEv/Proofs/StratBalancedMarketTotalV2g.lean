/-
C17 for the whole `balanced_market` step, worlds WITH V2G-capable vehicles that are well-formed (unique vehicle and
connector ids, one vehicle per charging station): every vehicle is planned once, and the station it is planned at has
not been discharged before, so its `current_power` is still non-negative and the upper end of the power bisection is
safe (Proofs/StratBalancedMarketTotal.lean: `upperSafeAt_of_dom`).
-/
import SpiceEv.Proofs.StratBalancedMarketTotal
import SpiceEv.Proofs.StratBalancedMarketDraw
set_option linter.unusedSectionVars false
set_option linter.unusedSimpArgs false
set_option linter.unusedVariables false
namespace SpiceEv.BalancedMarket.Total
open SpiceEv SpiceEv.BalancedMarket
variable {α B : Type} [Field α] [LinearOrder α] [IsStrictOrderedRing α]

/-- a fold over a duplicate-free list whose invariant knows the elements already processed -/
theorem nfi_foldlM_pos {β σ : Type} (P : List β → σ → Prop) (f : σ → β → Py σ)
    (hf : ∀ d s a, a ∉ d → P d s → NFI (P (d ++ [a])) (f s a)) :
    ∀ (l : List β) (done : List β) (s : σ), l.Nodup → (∀ a ∈ l, a ∉ done) → P done s →
      NFI (P (done ++ l)) (l.foldlM f s) := by
  intro l
  induction l with
  | nil => intro done s _ _ hs; rw [List.append_nil]; exact nfi_ok hs
  | cons a rest ih =>
    intro done s hnd hdis hs
    rw [List.foldlM_cons]
    refine NFI.bind (hf done s a (hdis a (List.mem_cons_self ..)) hs) (fun s' hs' => ?_)
    have hnd' := List.nodup_cons.mp hnd
    have := ih (done ++ [a]) s' hnd'.2 (fun b hb hbd => by
      rcases List.mem_append.mp hbd with h | h
      · exact hdis b (List.mem_cons_of_mem _ hb) h
      · simp only [List.mem_singleton] at h
        subst h
        exact hnd'.1 hb) hs'
    rw [List.append_assoc] at this
    exact this

/-- the (id, station) data of the vehicles never change (membership level) -/
def MMeta (wv : List (VehicleS α B)) (w : SWorld α B) : Prop :=
  ∀ v ∈ w.vehicles, ∃ u ∈ wv, u.id = v.id ∧ u.cs = v.cs

/-- the parent connector found under a station id never changes -/
def SMeta (w0 w : SWorld α B) : Prop :=
  ∀ c, (w.station? c).map (·.parent) = (w0.station? c).map (·.parent)

/-- world invariant: `done` = ids of the vehicles planned so far in this step; a station with negative
`current_power` is the station of a planned vehicle -/
structure WInv (E E2 : α) (w0 : SWorld α B) (done : List String) (w : SWorld α B) : Prop where
  mmeta : MMeta w0.vehicles w
  smeta : SMeta w0 w
  vnd : VNodup w
  dirty : ∀ s ∈ w.stations, s.currentPower < 0 → ∃ u ∈ w0.vehicles, u.id ∈ done ∧ u.cs = some s.id
  max : ∀ s ∈ w.stations, s.maxPower ≤ E
  gcs : ∀ x ∈ w.gcs, x.curMax ≤ E2

theorem vehicle?_mem (w : SWorld α B) (vid : String) (v : VehicleS α B) (h : w.vehicle? vid = some v) :
    v ∈ w.vehicles := by
  unfold SWorld.vehicle? at h; exact List.mem_of_find?_eq_some h

theorem winv_update (E E2 : α) (w0 : SWorld α B) (done done' : List String) (w : SWorld α B) (vid : String)
    (v : VehicleS α B) (cs : StationS α) (bat : B) (c' : α)
    (hv : w.vehicle? vid = some v) (hcs : v.cs = some cs.id) (hst : w.station? cs.id = some cs)
    (hsub : ∀ x ∈ done, x ∈ done') (hd : c' < 0 → vid ∈ done' ∨ cs.currentPower < 0)
    (h : WInv E E2 w0 done w) :
    WInv E E2 w0 done' ((w.setVehicle { v with bat := bat }).setStation { cs with currentPower := c' }) := by
  have hvm := vehicle?_mem w vid v hv
  have hvid := vehicle?_id w vid v hv
  obtain ⟨hsm, _⟩ := station?_some _ _ cs hst
  refine ⟨?_, ?_, vnodup_update w _ _ h.vnd, ?_, ?_, h.gcs⟩
  · intro x hx
    have hx' : x ∈ (w.setVehicle { v with bat := bat }).vehicles := hx
    unfold SWorld.setVehicle at hx'
    simp only [List.mem_map] at hx'
    obtain ⟨y, hy, rfl⟩ := hx'
    split
    · exact h.mmeta v hvm
    · exact h.mmeta y hy
  · intro c
    rw [station?_setStation]
    have : (w.setVehicle { v with bat := bat }).station? c = w.station? c := rfl
    rw [this, ← h.smeta c]
    cases hk : w.station? c with
    | none => rfl
    | some x =>
      simp only [Option.map_some, Option.some.injEq]
      split
      · rename_i hid
        have hxid := (station?_some _ _ x hk).2
        have hc : c = cs.id := by rw [← hxid]; simpa using hid
        rw [hc, hst] at hk
        simp only [Option.some.injEq] at hk
        rw [← hk]
      · rfl
  · intro s hs hneg
    rcases mem_setStation _ _ s hs with rfl | hs'
    · rcases hd hneg with hin | hold
      · obtain ⟨u, hu, huid, hucs⟩ := h.mmeta v hvm
        exact ⟨u, hu, by rw [huid, hvid]; exact hin, by rw [hucs, hcs]⟩
      · obtain ⟨u, hu, hud, hucs⟩ := h.dirty cs hsm hold
        exact ⟨u, hu, hsub _ hud, hucs⟩
    · obtain ⟨u, hu, hud, hucs⟩ := h.dirty s hs' hneg
      exact ⟨u, hu, hsub _ hud, hucs⟩
  · intro s hs
    rcases mem_setStation _ _ s hs with rfl | hs'
    · exact h.max cs hsm
    · exact h.max s hs'

theorem winv_congr (E E2 : α) (w0 : SWorld α B) (done : List String) (w w' : SWorld α B)
    (hs : w'.stations = w.stations) (hv : w'.vehicles = w.vehicles)
    (hg : ∀ x ∈ w'.gcs, x.curMax ≤ E2) (h : WInv E E2 w0 done w) : WInv E E2 w0 done w' := by
  refine ⟨?_, ?_, ?_, ?_, ?_, hg⟩
  · intro v hvm; rw [hv] at hvm; exact h.mmeta v hvm
  · intro c
    have : w'.station? c = w.station? c := by unfold SWorld.station?; rw [hs]
    rw [this]; exact h.smeta c
  · unfold VNodup; rw [hv]; exact h.vnd
  · intro s hsm; rw [hs] at hsm; exact h.dirty s hsm
  · intro s hsm; rw [hs] at hsm; exact h.max s hsm

/-! ### the bodies -/

theorem vehicleBody_ne_fuel (ops : Ops α B) (hnf : NoFuel ops) (R : B → B → Prop) (sl : SimLaw ops R)
    (env : Env α) (heps : 0 < env.eps) (g : GSt α B) (vid : String)
    (hsafe : ∀ v cs, g.w.vehicle? vid = some v → v.cs = some cs.id → g.w.station? cs.id = some cs →
      UpperSafeAt ops cs ∧ cs.maxPower - pymin cs.currentPower 0 ≤ env.eps * 2 ^ 2198) :
    vehicleBody ops env g vid ≠ .error .fuel := by
  unfold vehicleBody
  split
  · simp
  · rename_i v hv
    split
    · simp
    · rename_i csId hcs
      split
      · simp
      · rename_i cs hst
        obtain ⟨hsm, hcsid⟩ := station?_some _ _ cs hst
        subst hcsid
        obtain ⟨hup, hmax⟩ := hsafe v cs hv hcs hst
        split
        · simp
        · refine bind_ne_fuel _ _ (sortedTs_ne_fuel _) (fun sorted _ => ?_)
          refine bind_ne_fuel _ _ ?_ (fun st1 _ => ?_)
          · exact chargeLoop_total' ops hnf R sl env heps v g.ts sorted cs
              (fun same b0 pwN pwN' sN' pwB pwB' sB' hn hb => hup _ _ _ _ _ _ _ _ _ _ hn hb) hmax
              (sorted.length + 1) _ rfl (Nat.zero_le _)
              (by show sorted.length + 1 ≤ 0 + (sorted.length + 1); omega)
          · refine bind_ne_fuel _ _ ?_ (fun st2 _ => ?_)
            · split
              · exact v2gLoop_ne_fuel ops hnf env v g.ts sorted _ _
              · simp [pure, Except.pure]
            · exact bind_ne_fuel _ _ (updateTimesteps_ne_fuel ops hnf _ _ _ _) (fun _ _ => by simp)

/-- `GSt` invariant of the vehicle loops -/
def VInv (E E2 : α) (w0 : SWorld α B) (done : List String) (g : GSt α B) : Prop :=
  WInv E E2 w0 done g.w ∧ g.gc.curMax ≤ E2

theorem vehicleBody_v (ops : Ops α B) (hnf : NoFuel ops) (R : B → B → Prop) (sl : SimLaw ops R)
    (dl : DomLaw ops R) (env : Env α) (heps : 0 < env.eps) (E2 : α) (w0 : SWorld α B)
    (H2 : ∀ u1 ∈ w0.vehicles, ∀ u2 ∈ w0.vehicles, ∀ c, u1.cs = some c → u2.cs = some c → u1.id = u2.id)
    (done : List String) (g : GSt α B) (vid : String) (hvid : vid ∉ done)
    (hg : VInv (env.eps * 2 ^ 2198) E2 w0 done g) :
    NFI (VInv (env.eps * 2 ^ 2198) E2 w0 (done ++ [vid])) (vehicleBody ops env g vid) := by
  refine nfi_mk (vehicleBody_ne_fuel ops hnf R sl env heps g vid ?_) (fun g' h => ?_)
  · intro v cs hv hcs hst
    obtain ⟨hsm, _⟩ := station?_some _ _ cs hst
    have hnn : 0 ≤ cs.currentPower := by
      by_contra hneg
      obtain ⟨u, hu, hud, hucs⟩ := hg.1.dirty cs hsm (not_le.mp hneg)
      obtain ⟨u0, hu0, hu0id, hu0cs⟩ := hg.1.mmeta v (vehicle?_mem _ _ _ hv)
      have := H2 u hu u0 hu0 cs.id hucs (by rw [hu0cs, hcs])
      rw [this, hu0id, vehicle?_id _ _ _ hv] at hud
      exact hvid hud
    refine ⟨upperSafeAt_of_dom ops R sl dl cs hnn, ?_⟩
    rw [pymin_eq, min_eq_right hnn, sub_zero]
    exact hg.1.max cs hsm
  · obtain ⟨v, cs, bat1, bat2, a1, a2, hv, hcs, hst, _, _, hw, _, _, _, hcm, _⟩ :=
      vehicleBody_book ops env g g' vid h
    refine ⟨?_, by rw [hcm]; exact hg.2⟩
    rw [hw]
    exact winv_update _ E2 w0 done (done ++ [vid]) g.w vid v cs bat2 _ hv hcs hst
      (fun x hx => List.mem_append_left _ hx) (fun _ => Or.inl (by simp)) hg.1

theorem surplusBody_v (ops : Ops α B) (hnf : NoFuel ops) (law : BatLaw ops.toBatOps) (env : Env α)
    (E E2 : α) (w0 : SWorld α B) (done : List String) (g : GSt α B) (vid : String)
    (hg : VInv E E2 w0 done g) : NFI (VInv E E2 w0 done) (surplusBody ops env g vid) := by
  unfold surplusBody
  split
  · exact nfi_error (by simp)
  · rename_i v hv
    split
    · exact nfi_error (by simp)
    · rename_i csId hcs
      split
      · exact nfi_error (by simp)
      · rename_i cs hst
        obtain ⟨hsm, hcsid⟩ := station?_some _ _ cs hst
        subst hcsid
        dsimp only
        split
        · refine NFI.bind (P := fun r : B × α => 0 ≤ r.2) (nfi_mk (hnf.1 _ _ _ _) (fun r hr => ?_)) (fun r hr => ?_)
          · obtain ⟨b', a⟩ := r
            exact (law.load_max _ _ _ _ hr).1
          · obtain ⟨bat', avg⟩ := r
            have hcm := addLoad_curMax g.gc cs.id avg
            generalize g.gc.addLoad cs.id avg = r2 at hcm
            obtain ⟨gc', val⟩ := r2
            refine nfi_ok ⟨winv_update E E2 w0 done done g.w vid v cs bat' _ hv hcs hst (fun x hx => hx)
              (fun hneg => Or.inr (by have : (0 : α) ≤ avg := hr; linarith)) hg.1, ?_⟩
            show gc'.curMax ≤ E2
            rw [show gc'.curMax = g.gc.curMax from hcm]
            exact hg.2
        · exact nfi_ok hg

theorem batteryBody_v (ops : Ops α B) (hnf : NoFuel ops) (env : Env α) (heps : 0 < env.eps)
    (E : α) (w0 : SWorld α B) (done : List String) (nCheap : Option Nat) (g : GSt α B) (bid : String)
    (hg : VInv E (env.eps * 2 ^ 2199) w0 done g) :
    NFI (VInv E (env.eps * 2 ^ 2199) w0 done) (batteryBody ops env nCheap g bid) := by
  refine nfi_mk (batteryBody_ne_fuel ops hnf env heps nCheap g bid hg.2) (fun g' h => ?_)
  have hs := batteryBody_stations ops env nCheap g g' bid h
  have hv := batteryBody_vehicles ops env nCheap g g' bid h
  obtain ⟨hc, hgcs⟩ := batteryBody_gc ops env nCheap g g' bid h
  exact ⟨winv_congr _ _ w0 done g.w g'.w hs hv (fun x hx => by rw [hgcs] at hx; exact hg.1.gcs x hx) hg.1,
    by rw [hc]; exact hg.2⟩

/-! ### which vehicles `step_gc` plans -/

/-- "vehicle `vid` stands at a station of connector `gid`", in terms of the initial world -/
def AtGc (w0 : SWorld α B) (vid gid : String) : Prop :=
  ∃ u ∈ w0.vehicles, u.id = vid ∧ ∃ c, u.cs = some c ∧ (w0.station? c).map (·.parent) = some gid

/-- every planned vehicle belongs to a connector already handled -/
def Tag (w0 : SWorld α B) (done pg : List String) : Prop := ∀ vid ∈ done, ∃ gid ∈ pg, AtGc w0 vid gid

theorem atGc_fun (w0 : SWorld α B) (H1 : (w0.vehicles.map (·.id)).Nodup) (vid g1 g2 : String)
    (h1 : AtGc w0 vid g1) (h2 : AtGc w0 vid g2) : g1 = g2 := by
  obtain ⟨u1, hu1, hid1, c1, hc1, hp1⟩ := h1
  obtain ⟨u2, hu2, hid2, c2, hc2, hp2⟩ := h2
  have := veh_eq_of_id_eq w0.vehicles H1 u1 u2 hu1 hu2 (by rw [hid1, hid2])
  subst this
  rw [hc1] at hc2
  simp only [Option.some.injEq] at hc2
  subst hc2
  rw [hp1] at hp2
  simpa using hp2

theorem vehiclesAt_mem (w : SWorld α B) (gcId : String) :
    ∀ (l vs : List (VehicleS α B)),
      l.filterMapM (fun v =>
        match v.cs with
        | none => (.ok none : Py (Option (VehicleS α B)))
        | some csId =>
          match w.station? csId with
          | none => .error .keyError
          | some cs => .ok (if cs.parent == gcId then some v else none)) = .ok vs →
      ∀ v ∈ vs, v ∈ l ∧ ∃ c cs, v.cs = some c ∧ w.station? c = some cs ∧ cs.parent = gcId := by
  intro l
  induction l with
  | nil =>
    intro vs h
    rw [List.filterMapM_nil] at h
    simp only [pure, Except.pure, Except.ok.injEq] at h
    subst h
    intro v hv; cases hv
  | cons a rest ih =>
    intro vs h
    rw [List.filterMapM_cons] at h
    simp only [bind, Except.bind] at h
    split at h
    · cases h
    · rename_i r hr
      cases r with
      | none =>
        simp only at h
        intro v hv
        obtain ⟨h1, h2⟩ := ih vs h v hv
        exact ⟨List.mem_cons_of_mem _ h1, h2⟩
      | some b =>
        simp only at h
        split at h
        · cases h
        · rename_i r2 hr2
          simp only [pure, Except.pure, Except.ok.injEq] at h
          subst h
          intro v hv
          rcases List.mem_cons.mp hv with rfl | hv'
          · split at hr
            · cases hr
            · rename_i c hc
              split at hr
              · cases hr
              · rename_i cs hcs
                simp only [Except.ok.injEq] at hr
                split at hr
                · rename_i hpar
                  simp only [Option.some.injEq] at hr
                  subst hr
                  exact ⟨List.mem_cons_self .., c, cs, hc, hcs, by simpa using hpar⟩
                · cases hr
          · obtain ⟨h1, h2⟩ := ih r2 hr2 v hv'
            exact ⟨List.mem_cons_of_mem _ h1, h2⟩

theorem vids_atGc (E E2 : α) (w0 : SWorld α B) (done : List String) (w : SWorld α B) (gcId : String)
    (vs : List (VehicleS α B)) (vids : List String) (hw : WInv E E2 w0 done w)
    (hvs : vehiclesAt w gcId = .ok vs) (hvids : sortVehicles vs = .ok vids) :
    ∀ vid ∈ vids, AtGc w0 vid gcId := by
  intro vid hvid
  unfold sortVehicles at hvids
  split at hvids
  · cases hvids
  · simp only [Except.ok.injEq] at hvids
    subst hvids
    have hperm := isort_perm (fun (a b : Int × String) => decide (a.1 < b.1) || (decide (a.1 = b.1) && decide (a.2 ≤ b.2)))
      (vs.map (fun v => (v.etd.getD 0, v.id)))
    have hmem : vid ∈ (vs.map (fun v => (v.etd.getD 0, v.id))).map (·.2) :=
      ((List.Perm.map _ hperm).mem_iff).mp hvid
    simp only [List.map_map, List.mem_map, Function.comp] at hmem
    obtain ⟨v, hv, rfl⟩ := hmem
    unfold vehiclesAt at hvs
    obtain ⟨hvm, c, cs, hc, hcs, hpar⟩ := vehiclesAt_mem w gcId w.vehicles vs hvs v hv
    obtain ⟨u, hu, huid, hucs⟩ := hw.mmeta v hvm
    refine ⟨u, hu, huid, c, by rw [hucs, hc], ?_⟩
    rw [← hw.smeta c, hcs]
    simp [hpar]

/-! ### `step_gc` and `step` -/

theorem stepGc_v (ops : Ops α B) (hnf : NoFuel ops) (law : BatLaw ops.toBatOps) (R : B → B → Prop)
    (sl : SimLaw ops R) (dl : DomLaw ops R) (env : Env α) (heps : 0 < env.eps) (w0 : SWorld α B)
    (H1 : (w0.vehicles.map (·.id)).Nodup)
    (H2 : ∀ u1 ∈ w0.vehicles, ∀ u2 ∈ w0.vehicles, ∀ c, u1.cs = some c → u2.cs = some c → u1.id = u2.id)
    (done pg : List String) (w : SWorld α B) (gid : String) (hgid : gid ∉ pg)
    (hw : WInv (env.eps * 2 ^ 2198) (env.eps * 2 ^ 2199) w0 done w) (htag : Tag w0 done pg) :
    NFI (fun r : SWorld α B × List (String × α) =>
        ∃ done', WInv (env.eps * 2 ^ 2198) (env.eps * 2 ^ 2199) w0 done' r.1 ∧ Tag w0 done' (pg ++ [gid]))
      (stepGc ops env w gid) := by
  unfold stepGc
  split
  · exact nfi_error (by simp)
  · rename_i gc hgc
    have hgm : gc ∈ w.gcs := by
      unfold SWorld.gc? at hgc; exact List.mem_of_find?_eq_some hgc
    refine NFI.bind (P := fun vs => vehiclesAt w gid = .ok vs)
      (nfi_mk (vehiclesAt_ne_fuel _ _) (fun r h => h)) (fun vs hvs => ?_)
    refine NFI.bind (P := fun vids => sortVehicles vs = .ok vids)
      (nfi_mk (sortVehicles_ne_fuel _) (fun r h => h)) (fun vids hvids => ?_)
    have hnd := stepGc_vids_nodup w gid vs vids hw.vnd hvs hvids
    have hat := vids_atGc _ _ w0 done w gid vs vids hw hvs hvids
    have hdisj : ∀ vid ∈ vids, vid ∉ done := by
      intro vid hv hd
      obtain ⟨gid', hg', hat'⟩ := htag vid hd
      have := atGc_fun w0 H1 vid gid gid' (hat vid hv) hat'
      exact hgid (this ▸ hg')
    refine NFI.bind (nfi_of_ne (timestepsOf_ne_fuel _ _ _)) (fun ts _ => ?_)
    refine NFI.bind (nfi_foldlM_pos (fun d g => VInv (env.eps * 2 ^ 2198) (env.eps * 2 ^ 2199) w0 d g) _
      (fun d s a had hs => vehicleBody_v ops hnf R sl dl env heps _ w0 H2 d s a had hs) vids done _ hnd hdisj
      ⟨hw, hw.gcs gc hgm⟩) (fun g1 hg1 => ?_)
    refine NFI.bind (nfi_foldlM (VInv (env.eps * 2 ^ 2198) (env.eps * 2 ^ 2199) w0 (done ++ vids)) _ vids
      (fun s a _ hs => surplusBody_v ops hnf law env _ _ w0 _ s a hs) _ hg1) (fun g2 hg2 => ?_)
    refine NFI.bind (nfi_of_ne (numCheap_ne_fuel _ _)) (fun n _ => ?_)
    refine NFI.bind (nfi_foldlM (VInv (env.eps * 2 ^ 2198) (env.eps * 2 ^ 2199) w0 (done ++ vids)) _ _
      (fun s a _ hs => batteryBody_v ops hnf env heps _ w0 _ n s a hs) _ hg2) (fun g3 hg3 => ?_)
    refine nfi_ok ⟨done ++ vids, ?_, ?_⟩
    · refine winv_congr _ _ w0 _ g3.w _ rfl rfl (fun x hx => ?_) hg3.1
      have hx' : x ∈ (g3.w.setGc g3.gc).gcs := hx
      unfold SWorld.setGc at hx'
      simp only [List.mem_map] at hx'
      obtain ⟨y, hy, rfl⟩ := hx'
      split
      · exact hg3.2
      · exact hg3.1.gcs y hy
    · intro vid hv
      rcases List.mem_append.mp hv with h | h
      · obtain ⟨gid', hg', hat'⟩ := htag vid h
        exact ⟨gid', List.mem_append_left _ hg', hat'⟩
      · exact ⟨gid, by simp, hat vid h⟩

/-- **The whole step never reports `FUEL`, V2G allowed, well-formed world.** -/
theorem step_ne_fuel_v2g (ops : Ops α B) (hnf : NoFuel ops) (law : BatLaw ops.toBatOps) (R : B → B → Prop)
    (sl : SimLaw ops R) (dl : DomLaw ops R) (env : Env α) (heps : 0 < env.eps) (w : SWorld α B)
    (H1 : (w.vehicles.map (·.id)).Nodup)
    (H2 : ∀ u1 ∈ w.vehicles, ∀ u2 ∈ w.vehicles, ∀ c, u1.cs = some c → u2.cs = some c → u1.id = u2.id)
    (H3 : (w.gcs.map (·.id)).Nodup)
    (hcs : ∀ s ∈ w.stations, s.maxPower ≤ env.eps * 2 ^ 2198)
    (hgc : ∀ g ∈ w.gcs, g.curMax ≤ env.eps * 2 ^ 2199) :
    step ops env w ≠ .error .fuel := by
  unfold step
  have hw0 : WInv (env.eps * 2 ^ 2198) (env.eps * 2 ^ 2199) (resetStations w) [] (resetStations w) := by
    refine ⟨fun v hv => ⟨v, hv, rfl, rfl⟩, fun c => rfl, H1, fun s hs hneg => ?_, fun s hs => ?_, hgc⟩
    · unfold resetStations at hs
      simp only [List.mem_map] at hs
      obtain ⟨x, hx, rfl⟩ := hs
      exact absurd hneg (lt_irrefl _)
    · unfold resetStations at hs
      simp only [List.mem_map] at hs
      obtain ⟨x, hx, rfl⟩ := hs
      exact hcs x hx
  refine (nfi_foldlM_pos
    (fun (pg : List String) (st : SWorld α B × List (String × α)) =>
      ∃ done, WInv (env.eps * 2 ^ 2198) (env.eps * 2 ^ 2199) (resetStations w) done st.1 ∧
        Tag (resetStations w) done pg) _ (fun pg st gid hgid hst => ?_) _ [] _ H3 (fun _ _ h => by cases h)
    ⟨[], hw0, fun vid h => by cases h⟩).1
  obtain ⟨done, hwi, htag⟩ := hst
  refine NFI.bind (stepGc_v ops hnf law R sl dl env heps (resetStations w) H1 H2 done pg st.1 gid hgid hwi htag)
    (fun r hr => ?_)
  obtain ⟨w', c⟩ := r
  exact nfi_ok hr

theorem stepGc_ne_fuel_v2g (ops : Ops α B) (hnf : NoFuel ops) (law : BatLaw ops.toBatOps) (R : B → B → Prop)
    (sl : SimLaw ops R) (dl : DomLaw ops R) (env : Env α) (heps : 0 < env.eps) (w : SWorld α B) (gcId : String)
    (H1 : (w.vehicles.map (·.id)).Nodup)
    (H2 : ∀ u1 ∈ w.vehicles, ∀ u2 ∈ w.vehicles, ∀ c, u1.cs = some c → u2.cs = some c → u1.id = u2.id)
    (hcs : ∀ s ∈ w.stations, s.maxPower ≤ env.eps * 2 ^ 2198 ∧ 0 ≤ s.currentPower)
    (hgc : ∀ g ∈ w.gcs, g.curMax ≤ env.eps * 2 ^ 2199) :
    stepGc ops env w gcId ≠ .error .fuel := by
  have hw0 : WInv (env.eps * 2 ^ 2198) (env.eps * 2 ^ 2199) w [] w :=
    ⟨fun v hv => ⟨v, hv, rfl, rfl⟩, fun c => rfl, H1,
      fun s hs hneg => absurd (hcs s hs).2 (not_le.mpr hneg), fun s hs => (hcs s hs).1, hgc⟩
  exact (stepGc_v ops hnf law R sl dl env heps w H1 H2 [] [] w gcId (by simp) hw0 (fun vid h => by cases h)).1

end SpiceEv.BalancedMarket.Total
