/-
C09 — Service guarantee, strategy flex_window (balanced; Model/StratFlexWindow.lean).
Only the allocation rule that the guarantee rests on is proved; that a feasible demand is met by
departure is decided by the oracle on real runs (harness/c09.py).
-/
import SpiceEv.Proofs.StratFlexWindow
set_option linter.unusedSectionVars false
namespace SpiceEv
open SpiceEv.FlexWindow
variable {α B : Type} [Field α] [LinearOrder α] [IsStrictOrderedRing α]

/-- **Best effort inside a window (partial).** In a window step, a connected vehicle for which
charging with the full forecast power in all windows before its departure does *not* reach the desired
SoC (`charged_in_window` false) is charged by
`load(interval, max_power = clamp_power(cur_max − load, vehicle, cs))`: it is offered the whole
remaining headroom of the connector, limited only by station and vehicle.
*Missing for the property's sentence:* that this, repeated over the standing time, reaches the desired
SoC whenever standing time, curve, station and connector allow (needs monotonicity of the battery in
the offered power and a forecast that matches the future — not proved; oracle on real runs). -/
theorem C09_flex_window_window_best_effort_partial (ops : BatOps α B) (env : FEnv α)
    (acc acc' : FState α B × List (String × α) × Option α) (v0 : VehicleS α B) (g : GcS α)
    (csId : String) (cs : StationS α) (simBat : B)
    (hg : acc.1.w.gcs = [g])
    (hcs : ((acc.1.w.vehicle? v0.id).getD v0).cs = some csId)
    (hst : getStation acc.1.w csId = .ok cs)
    (hwp : windowPass ops env cs ((acc.1.w.vehicle? v0.id).getD v0) ((acc.1.w.vehicle? v0.id).getD v0).bat
      (env.base.now - env.base.interval) acc.1.ts = .ok simBat)
    (hciw : ¬ ((acc.1.w.vehicle? v0.id).getD v0).desiredSoc - ops.soc simBat ≤ env.base.eps)
    (hwin : truthy acc.1.window = true)
    (h : balVehicle ops env acc v0 = .ok acc') :
    ∃ r, ops.load ((acc.1.w.vehicle? v0.id).getD v0).bat
        (some (clampV (g.curMax - g.currentLoad) cs ((acc.1.w.vehicle? v0.id).getD v0))) none none = .ok r ∧
      acc'.1.w.gcs = [(g.addLoad csId r.2).1] ∧ sdGet acc'.2.1 csId = some (g.addLoad csId r.2).2 :=
  balVehicle_window_full ops env acc acc' v0 g csId cs simBat hg hcs hst hwp hciw hwin h

/-- a vehicle needing 9 kWh (SoC 0.1 → 1.0) that leaves in one hour: the window does not suffice, so it
gets the whole headroom 10 − 3 = 7 kW; the connector ends exactly at its limit -/
def exWorldNeedy : SWorld ℚ ℚ :=
  ⟨[⟨"GC", 10, some (.fixed (3/10)), [("load", 3)]⟩], [⟨"CS", "GC", 11, 0, 0⟩],
   [⟨"v1", some "CS", 1, some (1 * hourUs), 0, false, 1/2, 1/10⟩], []⟩
example : resLoads (FlexWindow.step idealOps (exEnv .balanced) exWorldNeedy (some true) []) =
    some ([10], [7]) := by decide +kernel

end SpiceEv
