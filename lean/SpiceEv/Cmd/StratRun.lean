/- driver command for Model/StratRun.lean: the greedy / balanced step model iterated over a standing
period on the Float battery model; returns the SoC trajectory. -/
import SpiceEv.Wire
import SpiceEv.Model.StratRun
import SpiceEv.Cmd.Strategies
namespace SpiceEv.Cmd.StratRun
open SpiceEv SpiceEv.Cmd.Strategies

/-- `rulerun <g|b> eps threshold tsPerHour now interval <gcs of step 1> <stations> <vehicles> <batteries>
<m> <gcs of step 2> … <gcs of step m+1>` (the payload of a `rulestep` line — the world at the first
standing step — followed by the connector attributes of the further steps) →
`step ; step ; …` with `step = vehicle SoCs | battery SoCs` after that step, followed by ` !Error`
if a step raised. -/
def cmdRuleRun : P String := do
  let r ← P.tok
  let rule ← (if r == "g" then pure Rule.greedy else if r == "b" then pure Rule.balanced else failure)
  let eps ← P.num Float; let thr ← P.num Float; let tsph ← P.num Float
  let now ← P.int; let interval ← P.int
  let gcs ← P.list pGc; let css ← P.list pCs; let vs ← P.list pVeh; let bs ← P.list pBat
  let more ← P.list (P.list pGc)
  let env : StratEnv Float := ⟨eps, thr, tsph, now, interval⟩
  let ops := floatOps (Cmd.Battery.hoursOfMicros interval)
  let (ws, err) := SpiceEv.StratRun.runTrace rule ops env ⟨gcs, css, vs, bs⟩ (gcs :: more)
  let steps := ws.map (fun w =>
    " ".intercalate (w.vehicles.map (fun v => rNum v.bat.soc)) ++ " | " ++
    " ".intercalate (w.batteries.map (fun b => rNum b.bat.soc)))
  let body := " ; ".intercalate steps
  pure (match err with
    | none => body
    | some e => body ++ " " ++ renderErr e)

def handlers : List (String × Handler) := [("rulerun", runP cmdRuleRun)]

end SpiceEv.Cmd.StratRun
