/-
Lemmas about the model of `schedule.py` (Model/StratSchedule.lean) under an abstract battery law.
-/
import SpiceEv.Proofs.Strategies
import SpiceEv.Proofs.Util
import SpiceEv.Model.StratSchedule
set_option linter.unusedSectionVars false
set_option linter.unusedSimpArgs false
set_option linter.unusedVariables false
namespace SpiceEv.Sched
open SpiceEv
variable {α B : Type} [Field α] [LinearOrder α] [IsStrictOrderedRing α]

/-- What the proofs need from the battery (C01/C02 discharge it for the real-number battery):
every call delivers a non-negative average power that does not exceed the requested power. -/
structure Law (ops : Ops α B) : Prop where
  load_target : ∀ b T p b' avg sd, ops.load b T none none (some p) = .ok (b', avg, sd) →
    0 ≤ avg ∧ avg ≤ max p 0
  load_max : ∀ b T p ts b' avg sd, ops.load b T (some p) ts none = .ok (b', avg, sd) →
    0 ≤ avg ∧ avg ≤ max p 0
  unload_target : ∀ b T p b' avg sd, ops.unload b T none none (some p) = .ok (b', avg, sd) →
    0 ≤ avg ∧ avg ≤ max p 0
  unload_max : ∀ b T p ts b' avg sd, ops.unload b T (some p) ts none = .ok (b', avg, sd) →
    0 ≤ avg ∧ avg ≤ max p 0

/-! ### lookups -/

theorem getGc_ok (w : SWorld α B) (id : String) (g : GcS α) (h : getGc w id = .ok g) :
    g ∈ w.gcs ∧ g.id = id := by
  unfold getGc at h
  split at h
  · rename_i g' hg
    simp only [Except.ok.injEq] at h; subst h
    exact gc?_some w id _ hg
  · cases h

theorem getStation_ok (w : SWorld α B) (id : String) (s : StationS α) (h : getStation w id = .ok s) :
    s ∈ w.stations ∧ s.id = id := by
  unfold getStation at h
  split at h
  · rename_i s' hs
    simp only [Except.ok.injEq] at h; subst h
    exact station?_some w id _ hs
  · cases h

@[simp] theorem resetStations_gcs' (w : SWorld α B) : (resetStations w).gcs = w.gcs := rfl

/-! ### the connector limit -/

/-- every connector's load is within `± cur_max_power` -/
def Within (w : SWorld α B) : Prop :=
  ∀ g ∈ w.gcs, -g.curMax ≤ g.currentLoad ∧ g.currentLoad ≤ g.curMax

/-- replacing a connector by itself plus a load `x` that keeps it within the limit -/
theorem within_setGc_addLoad (w : SWorld α B) (gc : GcS α) (hg : gc ∈ w.gcs) (k : String) (x : α)
    (hw : Within w) (h1 : -gc.curMax ≤ gc.currentLoad + x) (h2 : gc.currentLoad + x ≤ gc.curMax) :
    Within (w.setGc (gc.addLoad k x).1) := by
  intro g hgm
  rcases mem_setGc _ _ g hgm with rfl | ⟨hm, _⟩
  · obtain ⟨e1, e2, _, _⟩ := addLoad_currentLoad gc k x
    rw [e1, e2]; exact ⟨h1, h2⟩
  · exact hw g hm

theorem commit_gcs (w : SWorld α B) (cmds : List (String × α)) (v : VehicleS α B) (bat' : B)
    (cs : StationS α) (gc : GcS α) (csId : String) (avg : α) :
    (commit w cmds v bat' cs gc csId avg).1.gcs = (w.setGc (gc.addLoad csId avg).1).gcs := rfl

theorem commit_stations (w : SWorld α B) (cmds : List (String × α)) (v : VehicleS α B) (bat' : B)
    (cs : StationS α) (gc : GcS α) (csId : String) (avg : α) :
    (commit w cmds v bat' cs gc csId avg).1.stations =
      (w.setStation { cs with currentPower := (gc.addLoad csId avg).2 }).stations := rfl

theorem commit_batteries (w : SWorld α B) (cmds : List (String × α)) (v : VehicleS α B) (bat' : B)
    (cs : StationS α) (gc : GcS α) (csId : String) (avg : α) :
    (commit w cmds v bat' cs gc csId avg).1.batteries = w.batteries := rfl

/-- a committed vehicle load `0 ≤ avg ≤ max headroom 0` keeps a connector within its limit -/
theorem within_commit (w : SWorld α B) (cmds : List (String × α)) (v : VehicleS α B) (bat' : B)
    (cs : StationS α) (gc : GcS α) (hg : gc ∈ w.gcs) (csId : String) (avg : α)
    (hw : Within w) (h0 : 0 ≤ avg) (h1 : avg ≤ max (gc.curMax - gc.currentLoad) 0) :
    Within (commit w cmds v bat' cs gc csId avg).1 := by
  intro g hgm
  rw [commit_gcs] at hgm
  obtain ⟨hl, hu⟩ := hw gc hg
  refine within_setGc_addLoad w gc hg csId avg hw (by linarith) ?_ g hgm
  rcases le_total (gc.curMax - gc.currentLoad) 0 with hc | hc
  · rw [max_eq_right hc] at h1; linarith
  · rw [max_eq_left hc] at h1; linarith

theorem individualPower_le_left (s a left cur mx mn vm : α) :
    individualPower s a left cur mx mn vm ≤ left := by
  unfold individualPower; rw [pymin_eq]; exact min_le_right _ _

/-- **one vehicle of `charge_individually` keeps every connector within its limit** -/
theorem indVehicle_within (ops : Ops α B) (law : Law ops) (env : Env α)
    (st st' : SWorld α B × List (String × α) × Option α) (v0 : VehicleS α B)
    (hw : Within st.1) (h : indVehicle ops env st v0 = .ok st') : Within st'.1 := by
  unfold indVehicle at h
  split at h
  · simp only [Except.ok.injEq] at h; subst h; exact hw
  · split at h
    · simp only [Except.ok.injEq] at h; subst h; exact hw
    · split at h
      · cases h
      · split at h
        · cases h
        · rename_i gc hgc
          obtain ⟨hgm, _⟩ := getGc_ok _ _ _ hgc
          split at h
          · cases h
          · split at h
            · cases h
            · split at h
              · cases h
              · cases h
              · simp only at h
                split at h
                · cases h
                · rename_i r hr
                  simp only [Except.ok.injEq] at h; subst h
                  obtain ⟨b', avg, sd⟩ := r
                  obtain ⟨h0, h1⟩ := law.load_target _ _ _ _ _ _ hr
                  have hb : avg ≤ max (gc.curMax - gc.currentLoad) 0 :=
                    le_trans h1 (max_le_max (individualPower_le_left _ _ _ _ _ _ _) (le_refl _))
                  exact within_commit st.1 st.2.1 _ _ _ gc hgm _ avg hw h0 hb

theorem indFold_within (ops : Ops α B) (law : Law ops) (env : Env α) (vs : List (VehicleS α B))
    (st st' : SWorld α B × List (String × α) × Option α)
    (hw : Within st.1) (h : vs.foldlM (indVehicle ops env) st = .ok st') : Within st'.1 := by
  induction vs generalizing st with
  | nil =>
    simp only [List.foldlM_nil, pure, Except.pure, Except.ok.injEq] at h
    subst h; exact hw
  | cons v rest ih =>
    simp only [List.foldlM_cons, bind, Except.bind] at h
    split at h
    · cases h
    · rename_i st1 hs
      exact ih st1 (indVehicle_within ops law env st st1 v hw hs) h

theorem chargeIndividually_within (ops : Ops α B) (law : Law ops) (env : Env α) (w w' : SWorld α B)
    (cmds : List (String × α)) (hw : Within w) (h : chargeIndividually ops env w = .ok (w', cmds)) :
    Within w' := by
  unfold chargeIndividually at h
  simp only [bind, Except.bind, pure, Except.pure] at h
  split at h
  · cases h
  · rename_i r hr
    simp only [Except.ok.injEq, Prod.mk.injEq] at h
    obtain ⟨rfl, _⟩ := h
    exact indFold_within ops law env _ _ r hw hr

/-- **one battery of `utilize_stationary_batteries` keeps every connector within its limit** -/
theorem utilBattery_within (ops : Ops α B) (law : Law ops) (env : Env α) (heps : 0 ≤ env.eps)
    (w w' : SWorld α B) (b0 : StatBatS α B) (hw : Within w)
    (h : utilBattery ops env w b0 = .ok w') : Within w' := by
  unfold utilBattery at h
  split at h
  · simp only [Except.ok.injEq] at h; subst h; exact hw
  · split at h
    · cases h
    · rename_i gc hgc
      obtain ⟨hgm, _⟩ := getGc_ok _ _ _ hgc
      obtain ⟨hl, hu⟩ := hw gc hgm
      split at h
      · cases h
      · split at h
        · simp only [Except.ok.injEq] at h; subst h; exact hw
        · rename_i target _
          simp only at h
          split at h
          · -- discharge
            rename_i hneed
            split at h
            · cases h
            · rename_i r hr
              simp only [Except.ok.injEq] at h; subst h
              obtain ⟨b', avg, sd⟩ := r
              obtain ⟨h0, h1⟩ := law.unload_target _ _ _ _ _ _ hr
              intro g hgm'
              simp only [setBattery_gcs] at hgm'
              refine within_setGc_addLoad w gc hgm _ _ hw ?_ (by linarith) g hgm'
              rw [pymin_eq] at h1
              have : avg ≤ max (gc.curMax + gc.currentLoad) 0 :=
                le_trans h1 (max_le_max (min_le_right _ _) (le_refl _))
              rcases le_total (gc.curMax + gc.currentLoad) 0 with hc | hc
              · rw [max_eq_right hc] at this; linarith
              · rw [max_eq_left hc] at this; linarith
          · split at h
            · -- charge
              split at h
              · cases h
              · rename_i r hr
                simp only [Except.ok.injEq] at h; subst h
                obtain ⟨b', avg, sd⟩ := r
                obtain ⟨h0, h1⟩ := law.load_max _ _ _ _ _ _ _ hr
                intro g hgm'
                simp only [setBattery_gcs] at hgm'
                refine within_setGc_addLoad w gc hgm _ _ hw (by linarith) ?_ g hgm'
                have hp : ∀ m : α, (if pymin (target - gc.currentLoad) (gc.curMax - gc.currentLoad) < m
                    then (0 : α) else pymin (target - gc.currentLoad) (gc.curMax - gc.currentLoad)) ≤
                    max (gc.curMax - gc.currentLoad) 0 := by
                  intro m
                  split
                  · exact le_max_right _ _
                  · rw [pymin_eq]; exact le_trans (min_le_right _ _) (le_max_left _ _)
                have hb := le_trans h1 (max_le (hp _) (le_max_right _ _))
                rcases le_total (gc.curMax - gc.currentLoad) 0 with hc | hc
                · rw [max_eq_right hc] at hb; linarith
                · rw [max_eq_left hc] at hb; linarith
            · simp only [Except.ok.injEq] at h; subst h
              intro g hgm'
              refine within_setGc_addLoad w gc hgm _ _ hw (by linarith) (by linarith) g hgm'

theorem utilizeBatteries_within (ops : Ops α B) (law : Law ops) (env : Env α) (heps : 0 ≤ env.eps)
    (w w' : SWorld α B) (hw : Within w) (h : utilizeBatteries ops env w = .ok w') : Within w' := by
  unfold utilizeBatteries at h
  generalize w.batteries = bs at h
  induction bs generalizing w with
  | nil =>
    simp only [List.foldlM_nil, pure, Except.pure, Except.ok.injEq] at h
    subst h; exact hw
  | cons b rest ih =>
    simp only [List.foldlM_cons, bind, Except.bind] at h
    split at h
    · cases h
    · rename_i w1 hs
      exact ih w1 (utilBattery_within ops law env heps w w1 b hw hs) h

/-- in individual mode `step` is: reset the stations, `charge_individually`, the battery pass -/
theorem step_individual_ok (ops : Ops α B) (env : Env α) (hc : env.collective = false)
    (w w' : SWorld α B) (st st' : CState α) (cmds : List (String × α))
    (h : step ops env w st = .ok (w', st', cmds)) :
    ∃ w1, chargeIndividually ops env (resetStations w) = .ok (w1, cmds) ∧
      utilizeBatteries ops env w1 = .ok w' ∧ st' = st := by
  unfold step at h
  simp only [hc, Bool.false_eq_true, if_false, bind, Except.bind, pure, Except.pure] at h
  split at h
  · cases h
  · rename_i r hr
    split at hr
    · cases hr
    · rename_i r1 hr1
      simp only [Except.ok.injEq] at hr
      subst hr
      split at h
      · cases h
      · rename_i w2 hw2
        simp only [Except.ok.injEq, Prod.mk.injEq] at h
        obtain ⟨rfl, rfl, rfl⟩ := h
        exact ⟨r1.1, by rw [hr1], hw2, rfl⟩

/-! ### stations -/

theorem mem_setStation' (w : SWorld α B) (s' s : StationS α) (h : s ∈ (w.setStation s').stations) :
    s = s' ∨ (s ∈ w.stations ∧ s.id ≠ s'.id) := by
  unfold SWorld.setStation at h
  simp only [List.mem_map] at h
  obtain ⟨x, hx, rfl⟩ := h
  by_cases hid : x.id = s'.id
  · left; simp [hid]
  · right
    have : (x.id == s'.id) = false := by simpa using hid
    simp [this, hx, hid]

theorem sdGet_append_single {β : Type} (l : List (String × β)) (k k' : String) (v : β) :
    sdGet (l ++ [(k, v)]) k' =
      match sdGet l k' with
      | some x => some x
      | none => if k == k' then some v else none := by
  induction l with
  | nil => simp [sdGet]
  | cons x xs ih =>
    obtain ⟨xk, xv⟩ := x
    by_cases hk : (xk == k') = true
    · simp [sdGet, hk]
    · have hb : (xk == k') = false := by simpa using hk
      simp only [List.cons_append, sdGet, hb, Bool.false_eq_true, if_false, ih]

/-- `add_load` returns the old entry (0 if absent) plus the value, and stores it under the key -/
theorem addLoad_value (g : GcS α) (k : String) (v : α) :
    (g.addLoad k v).2 = (sdGet g.loads k).getD 0 + v ∧
    sdGet (g.addLoad k v).1.loads k = some ((sdGet g.loads k).getD 0 + v) ∧
    ∀ k', k' ≠ k → sdGet (g.addLoad k v).1.loads k' = sdGet g.loads k' := by
  unfold GcS.addLoad
  cases h : sdGet g.loads k with
  | none =>
    refine ⟨by simp, ?_, ?_⟩
    · simp only [sdGet_append_single, h, beq_self_eq_true, if_true, Option.getD_none, zero_add]
    · intro k' hk
      have : (k == k') = false := by simpa using (Ne.symm hk)
      simp only [sdGet_append_single, this, Bool.false_eq_true, if_false]
      cases sdGet g.loads k' <;> rfl
  | some old =>
    refine ⟨by simp, ?_, ?_⟩
    · simp only [sdGet_alSet_same, Option.getD_some]
    · intro k' hk
      simp only [sdGet_alSet_ne _ _ _ _ hk]

/-- the station's `current_power` is its load entry at its connector -/
def Link (w : SWorld α B) : Prop :=
  ∀ s ∈ w.stations, ∀ g ∈ w.gcs, g.id = s.parent → (sdGet g.loads s.id).getD 0 = s.currentPower

/-- every station carries a power within `[0, max_power]` -/
def StationOK (w : SWorld α B) : Prop :=
  ∀ s ∈ w.stations, 0 ≤ s.currentPower ∧ s.currentPower ≤ s.maxPower

theorem link_commit (w : SWorld α B) (cmds : List (String × α)) (v : VehicleS α B) (bat' : B)
    (cs : StationS α) (gc : GcS α) (hcs : cs ∈ w.stations) (hg : gc ∈ w.gcs) (hp : gc.id = cs.parent)
    (avg : α) (hl : Link w) :
    Link (commit w cmds v bat' cs gc cs.id avg).1 ∧
    (gc.addLoad cs.id avg).2 = cs.currentPower + avg := by
  obtain ⟨hv, hsame, hne⟩ := addLoad_value gc cs.id avg
  have hid : (gc.addLoad cs.id avg).1.id = gc.id := (addLoad_currentLoad gc cs.id avg).2.2.1
  have hcur : (sdGet gc.loads cs.id).getD 0 = cs.currentPower := hl cs hcs gc hg hp
  refine ⟨?_, by rw [hv, hcur]⟩
  intro s hs g hgm hgp
  rw [commit_stations] at hs
  rw [commit_gcs] at hgm
  rcases mem_setStation' _ _ s hs with rfl | ⟨hs', hsid⟩
  · -- the station just served
    rcases mem_setGc _ _ g hgm with rfl | ⟨hg', hgid⟩
    · simp only [hsame, Option.getD_some, hv]
    · exfalso; apply hgid; rw [hid, hp]; exact hgp
  · rcases mem_setGc _ _ g hgm with rfl | ⟨hg', hgid⟩
    · have hk : s.id ≠ cs.id := hsid
      rw [hne s.id hk]
      exact hl s hs' gc hg (by rw [← hid]; exact hgp)
    · exact hl s hs' g hg' hgp

theorem stationOK_commit (w : SWorld α B) (cmds : List (String × α)) (v : VehicleS α B) (bat' : B)
    (cs : StationS α) (gc : GcS α) (avg : α) (hok : StationOK w)
    (hval : (gc.addLoad cs.id avg).2 = cs.currentPower + avg) (hcs : cs ∈ w.stations)
    (h0 : 0 ≤ avg) (h1 : cs.currentPower + avg ≤ cs.maxPower) :
    StationOK (commit w cmds v bat' cs gc cs.id avg).1 := by
  intro s hs
  rw [commit_stations] at hs
  rcases mem_setStation' _ _ s hs with rfl | ⟨hs', _⟩
  · simp only [hval]
    exact ⟨by linarith [(hok cs hcs).1], h1⟩
  · exact hok s hs'

theorem individualPower_station (s a left cur mx mn vm : α) (h : cur ≤ mx) :
    cur + max (individualPower s a left cur mx mn vm) 0 ≤ mx := by
  unfold individualPower
  rw [pymin_eq]
  have h1 := clampPower_station (s + a) cur mx mn vm h
  have h2 := (clampPower_bounds (s + a) cur mx mn vm).1
  have : max (min (clampPower (s + a) cur mx mn vm) left) 0 ≤ clampPower (s + a) cur mx mn vm :=
    max_le (min_le_left _ _) h2
  linarith

/-- **one vehicle of `charge_individually` keeps every station within `[0, max_power]`** -/
theorem indVehicle_station (ops : Ops α B) (law : Law ops) (env : Env α)
    (st st' : SWorld α B × List (String × α) × Option α) (v0 : VehicleS α B)
    (hl : Link st.1) (hok : StationOK st.1) (h : indVehicle ops env st v0 = .ok st') :
    Link st'.1 ∧ StationOK st'.1 := by
  unfold indVehicle at h
  split at h
  · simp only [Except.ok.injEq] at h; subst h; exact ⟨hl, hok⟩
  · rename_i v hv
    split at h
    · simp only [Except.ok.injEq] at h; subst h; exact ⟨hl, hok⟩
    · split at h
      · cases h
      · rename_i cs hcs
        obtain ⟨hcsm, hcsid⟩ := getStation_ok _ _ _ hcs
        split at h
        · cases h
        · rename_i gc hgc
          obtain ⟨hgm, hgid⟩ := getGc_ok _ _ _ hgc
          split at h
          · cases h
          · split at h
            · cases h
            · rename_i sched _
              split at h
              · cases h
              · cases h
              · rename_i addP _
                simp only at h
                split at h
                · cases h
                · rename_i r hr
                  simp only [Except.ok.injEq] at h; subst h
                  obtain ⟨b', avg, sd⟩ := r
                  obtain ⟨h0, h1⟩ := law.load_target _ _ _ _ _ _ hr
                  subst hcsid
                  obtain ⟨hl', hval⟩ := link_commit st.1 st.2.1 v b' cs gc hcsm hgm hgid avg hl
                  have hb := individualPower_station sched addP (gc.curMax - gc.currentLoad)
                    cs.currentPower cs.maxPower cs.minPower v.minChargingPower (hok cs hcsm).2
                  refine ⟨hl', stationOK_commit st.1 st.2.1 v b' cs gc avg hok hval hcsm h0 ?_⟩
                  exact le_trans (by linarith) hb

theorem indFold_station (ops : Ops α B) (law : Law ops) (env : Env α) (vs : List (VehicleS α B))
    (st st' : SWorld α B × List (String × α) × Option α)
    (hl : Link st.1) (hok : StationOK st.1) (h : vs.foldlM (indVehicle ops env) st = .ok st') :
    Link st'.1 ∧ StationOK st'.1 := by
  induction vs generalizing st with
  | nil =>
    simp only [List.foldlM_nil, pure, Except.pure, Except.ok.injEq] at h
    subst h; exact ⟨hl, hok⟩
  | cons v rest ih =>
    simp only [List.foldlM_cons, bind, Except.bind] at h
    split at h
    · cases h
    · rename_i st1 hs
      obtain ⟨a, b⟩ := indVehicle_station ops law env st st1 v hl hok hs
      exact ih st1 a b h

theorem utilBattery_stations (ops : Ops α B) (env : Env α) (w w' : SWorld α B) (b0 : StatBatS α B)
    (h : utilBattery ops env w b0 = .ok w') : w'.stations = w.stations := by
  unfold utilBattery at h
  split at h
  · simp only [Except.ok.injEq] at h; subst h; rfl
  · split at h
    · cases h
    · split at h
      · cases h
      · split at h
        · simp only [Except.ok.injEq] at h; subst h; rfl
        · simp only at h
          split at h
          · split at h
            · cases h
            · simp only [Except.ok.injEq] at h; subst h; rfl
          · split at h
            · split at h
              · cases h
              · simp only [Except.ok.injEq] at h; subst h; rfl
            · simp only [Except.ok.injEq] at h; subst h; rfl

theorem utilizeBatteries_stations (ops : Ops α B) (env : Env α) (w w' : SWorld α B)
    (h : utilizeBatteries ops env w = .ok w') : w'.stations = w.stations := by
  unfold utilizeBatteries at h
  generalize w.batteries = bs at h
  induction bs generalizing w with
  | nil =>
    simp only [List.foldlM_nil, pure, Except.pure, Except.ok.injEq] at h
    subst h; rfl
  | cons b rest ih =>
    simp only [List.foldlM_cons, bind, Except.bind] at h
    split at h
    · cases h
    · rename_i w1 hs
      rw [ih w1 h, utilBattery_stations ops env w w1 b hs]

/-! ### the additional power of `charge_individually` -/

/-- the bisection only returns points of its bracket (or the value it was started with) -/
theorem bisectM_bracket (ok : α → Py Bool) (eps : α) (fuel : Nat) (lo hi : α) (last : Option α)
    (hle : lo ≤ hi) (L H : α) (hlast : ∀ x, last = some x → L ≤ x ∧ x ≤ H)
    (hL : L ≤ lo) (hH : hi ≤ H) (r : Option α)
    (h : bisectM ok eps fuel lo hi last = .ok r) : ∀ x, r = some x → L ≤ x ∧ x ≤ H := by
  induction fuel generalizing lo hi last with
  | zero =>
    unfold bisectM at h
    split at h
    · cases h
    · simp only [Except.ok.injEq] at h; subst h; exact hlast
  | succ f ih =>
    unfold bisectM at h
    split at h
    · have hmid1 : lo ≤ (hi + lo) / 2 := by
        rw [le_div_iff₀ (by norm_num)]; linarith
      have hmid2 : (hi + lo) / 2 ≤ hi := by
        rw [div_le_iff₀ (by norm_num)]; linarith
      simp only [bind, Except.bind] at h
      split at h
      · cases h
      · rename_i b _
        cases b with
        | true =>
          simp only [if_true] at h
          exact ih lo _ _ hmid1 (by intro x hx; cases hx; exact ⟨le_trans hL hmid1, le_trans hmid2 hH⟩)
            hL (le_trans hmid2 hH) h
        | false =>
          simp only [Bool.false_eq_true, if_false] at h
          exact ih _ hi _ hmid2 (by intro x hx; cases hx; exact ⟨le_trans hL hmid1, le_trans hmid2 hH⟩)
            (le_trans hL hmid1) hH h
    · simp only [Except.ok.injEq] at h; subst h; exact hlast

/-- the bisection ends within `fuel` iterations as soon as `hi − lo ≤ ε·2^fuel` -/
theorem bisectM_no_fuel_error (ok : α → Py Bool) (eps : α) (heps : 0 < eps) (fuel : Nat) (lo hi : α)
    (last : Option α) (hw : hi - lo ≤ eps * 2 ^ fuel) :
    bisectM ok eps fuel lo hi last ≠ .error .fuel ∨ ∃ a, ok a = .error .fuel := by
  induction fuel generalizing lo hi last with
  | zero =>
    left
    unfold bisectM
    simp only [pow_zero, mul_one] at hw
    simp [not_lt.mpr hw]
  | succ f ih =>
    unfold bisectM
    split
    · have hhalf : (hi - lo) / 2 ≤ eps * 2 ^ f := by
        rw [div_le_iff₀ (by norm_num)]
        calc hi - lo ≤ eps * 2 ^ (f + 1) := hw
          _ = eps * 2 ^ f * 2 := by ring
      simp only [bind, Except.bind]
      cases hok : ok ((hi + lo) / 2) with
      | error e =>
        by_cases he : e = .fuel
        · right; exact ⟨_, by rw [hok, he]⟩
        · left; simp only; intro hc; cases hc; exact he rfl
      | ok b =>
        cases b with
        | true =>
          simp only [if_true]
          apply ih
          have : (hi + lo) / 2 - lo = (hi - lo) / 2 := by ring
          rw [this]; exact hhalf
        | false =>
          simp only [Bool.false_eq_true, if_false]
          apply ih
          have : hi - (hi + lo) / 2 = (hi - lo) / 2 := by ring
          rw [this]; exact hhalf
    · left; simp

/-- `add_power` is never negative (and at most the station maximum when it comes from the bisection) -/
theorem indAddDecide_nonneg (ops : Ops α B) (env : Env α) (prev : Option α) (cs : StationS α)
    (gc : GcS α) (v : VehicleS α B) (schedule : List α) (bat1 : B) (a : α) (hmx : 0 ≤ cs.maxPower)
    (hprev : ∀ p, prev = some p → 0 ≤ p)
    (h : indAddDecide ops env prev cs gc v schedule bat1 = .ok (some a)) : 0 ≤ a := by
  unfold indAddDecide at h
  split at h
  · simp only [Except.ok.injEq, Option.some.injEq] at h; rw [← h]
  · split at h
    · simp only [Except.ok.injEq, Option.some.injEq] at h; rw [← h]
    · split at h
      · simp only [Except.ok.injEq, Option.some.injEq] at h; rw [← h]
      · split at h
        · simp only [Except.ok.injEq, Option.some.injEq] at h; rw [← h]
        · split at h
          · cases h
          · rename_i x hr
            simp only [Except.ok.injEq, Option.some.injEq] at h
            subst h
            exact ((bisectM_bracket _ _ _ 0 cs.maxPower none hmx 0 cs.maxPower
              (by intro x hx; cases hx) (le_refl _) (le_refl _) _ hr) _ rfl).1
          · simp only [Except.ok.injEq] at h
            exact hprev a h

theorem indAdd_nonneg (ops : Ops α B) (env : Env α) (prev : Option α) (cs : StationS α) (gc : GcS α)
    (v : VehicleS α B) (sched a : α) (hmx : 0 ≤ cs.maxPower) (hprev : ∀ p, prev = some p → 0 ≤ p)
    (h : indAdd ops env prev cs gc v sched = .ok (some a)) : 0 ≤ a := by
  unfold indAdd at h
  split at h
  · cases h
  · split at h
    · cases h
    · exact indAddDecide_nonneg ops env prev cs gc v _ _ a hmx hprev h

/-- what one iteration of the vehicle loop of `charge_individually` does: nothing for a vehicle that
is not connected; otherwise exactly ONE real battery call, `load(interval, target_power = P)` with
`P = min (clamp_power (schedule + add_power)) (gc.cur_max_power − current load)`, whose result is
committed (vehicle battery, connector load, station power, command) -/
theorem indVehicle_inv (ops : Ops α B) (env : Env α)
    (st st' : SWorld α B × List (String × α) × Option α) (v0 : VehicleS α B)
    (h : indVehicle ops env st v0 = .ok st') :
    st' = st ∨
    ∃ v csId cs gc x sched addP r,
      st.1.vehicle? v0.id = some v ∧ v.cs = some csId ∧ getStation st.1 csId = .ok cs ∧
      getGc st.1 cs.parent = .ok gc ∧ getVx env v.id = .ok x ∧ x.schedule = some sched ∧
      indAdd ops env st.2.2 cs gc v sched = .ok (some addP) ∧
      ops.load v.bat env.interval none none (some (individualPower sched addP
        (gc.curMax - gc.currentLoad) cs.currentPower cs.maxPower cs.minPower v.minChargingPower)) = .ok r ∧
      st' = ((commit st.1 st.2.1 v r.1 cs gc csId r.2.1).1,
             (commit st.1 st.2.1 v r.1 cs gc csId r.2.1).2, some addP) := by
  unfold indVehicle at h
  split at h
  · simp only [Except.ok.injEq] at h; exact Or.inl h.symm
  · rename_i v hv
    split at h
    · simp only [Except.ok.injEq] at h; exact Or.inl h.symm
    · rename_i csId hcsid
      split at h
      · cases h
      · rename_i cs hcs
        split at h
        · cases h
        · rename_i gc hgc
          split at h
          · cases h
          · rename_i x hx
            split at h
            · cases h
            · rename_i sched hsched
              split at h
              · cases h
              · cases h
              · rename_i addP hadd
                simp only at h
                split at h
                · cases h
                · rename_i r hr
                  simp only [Except.ok.injEq] at h
                  exact Or.inr ⟨v, csId, cs, gc, x, sched, addP, r, hv, hcsid, hcs, hgc, hx, hsched,
                    hadd, hr, h.symm⟩

theorem chargeIndividually_station (ops : Ops α B) (law : Law ops) (env : Env α) (w w' : SWorld α B)
    (cmds : List (String × α)) (hl : Link w) (hok : StationOK w)
    (h : chargeIndividually ops env w = .ok (w', cmds)) : StationOK w' := by
  unfold chargeIndividually at h
  simp only [bind, Except.bind, pure, Except.pure] at h
  split at h
  · cases h
  · rename_i r hr
    simp only [Except.ok.injEq, Prod.mk.injEq] at h
    obtain ⟨rfl, _⟩ := h
    exact (indFold_station ops law env _ _ r hl hok hr).2

theorem link_reset (w : SWorld α B)
    (hfresh : ∀ s ∈ w.stations, ∀ g ∈ w.gcs, sdGet g.loads s.id = none) : Link (resetStations w) := by
  intro s hs g hg _
  simp only [resetStations, List.mem_map] at hs
  obtain ⟨s0, hs0, rfl⟩ := hs
  simp only [hfresh s0 hs0 g hg, Option.getD_none]

theorem stationOK_reset (w : SWorld α B) (hmx : ∀ s ∈ w.stations, 0 ≤ s.maxPower) :
    StationOK (resetStations w) := by
  intro s hs
  simp only [resetStations, List.mem_map] at hs
  obtain ⟨s0, hs0, rfl⟩ := hs
  exact ⟨le_refl _, hmx s0 hs0⟩

/-! ### fuel of the look-ahead loop -/

theorem indPeek_no_fuel (vid : String) (curTime : Int) (evs : List (FutureEvent α)) (cur : α) :
    indPeek vid curTime evs cur ≠ .error .fuel := by
  induction evs generalizing cur with
  | nil => simp [indPeek]
  | cons e rest ih =>
    unfold indPeek
    split
    · simp
    · split
      · split
        · split
          · simp
          · exact ih _
        · exact ih _
      · split
        · simp
        · exact ih _
      · exact ih _

theorem indLook_no_fuel (vid : String) (etd interval : Int) (fuel : Nat) (curTime : Int)
    (evs : List (FutureEvent α)) (cur : α) (acc : List α)
    (hf : etd - curTime ≤ (fuel : Int) * interval) :
    indLook vid etd interval fuel curTime evs cur acc ≠ .error .fuel := by
  induction fuel generalizing curTime evs cur acc with
  | zero =>
    unfold indLook
    have : ¬ curTime < etd := by simp only [Nat.cast_zero, zero_mul] at hf; omega
    simp [this]
  | succ f ih =>
    unfold indLook
    split
    · simp only [bind, Except.bind]
      cases hp : indPeek vid curTime evs cur with
      | error e =>
        simp only
        intro hc
        apply indPeek_no_fuel vid curTime evs cur
        rw [hp]; cases hc; rfl
      | ok r =>
        simp only
        split
        · apply ih
          have : ((f + 1 : Nat) : Int) * interval = (f : Int) * interval + interval := by
            push_cast; ring
          rw [this] at hf
          omega
        · simp
    · simp

/-- **the look-ahead loop of `charge_individually` terminates within the supplied fuel**
(`⌈(etd − now) / interval⌉` iterations) for every positive step length -/
theorem indSchedule_no_fuel (env : Env α) (hi : 0 < env.interval) (v : VehicleS α B) (sched : α) :
    indSchedule env v sched ≠ .error .fuel := by
  unfold indSchedule
  split
  · simp
  · rename_i etd _
    apply indLook_no_fuel
    unfold indLookFuel
    obtain ⟨_, h2⟩ := ceilDiv_spec (etd - env.nowI) env.interval hi
    rcases le_total 0 (ceilDiv (etd - env.nowI) env.interval) with hc | hc
    · rw [Int.toNat_of_nonneg hc]; exact h2
    · have : (ceilDiv (etd - env.nowI) env.interval).toNat = 0 := Int.toNat_eq_zero.mpr hc
      rw [this]
      simp only [Nat.cast_zero, zero_mul]
      have : ceilDiv (etd - env.nowI) env.interval * env.interval ≤ 0 :=
        mul_nonpos_of_nonpos_of_nonneg hc hi.le
      omega

/-! ### energy bookkeeping -/

/-- the energy identity of a battery call (C01): stored energy changes by
`avg_power · time · efficiency` when charging and `avg_power · time / efficiency` when discharging;
capacity and efficiency are constants of the battery -/
structure EnergyLaw (ops : Ops α B) (hrs : Int → α) : Prop where
  load_energy : ∀ b T mp ts tp b' avg sd, ops.load b T mp ts tp = .ok (b', avg, sd) →
    ops.capacity b' = ops.capacity b ∧ ops.efficiency b' = ops.efficiency b ∧
    (ops.soc b' - ops.soc b) * ops.capacity b = avg * hrs T * ops.efficiency b
  unload_energy : ∀ b T mp ts tp b' avg sd, ops.unload b T mp ts tp = .ok (b', avg, sd) →
    ops.capacity b' = ops.capacity b ∧ ops.efficiency b' = ops.efficiency b ∧
    (ops.soc b - ops.soc b') * ops.capacity b = avg * hrs T / ops.efficiency b

/-- what one iteration of the battery loop of `utilize_stationary_batteries` does: nothing (no such
battery / no target), or exactly one battery call whose average power is booked, with its sign, under
the battery's id on the parent connector -/
theorem utilBattery_inv (ops : Ops α B) (env : Env α) (w w' : SWorld α B) (b0 : StatBatS α B)
    (h : utilBattery ops env w b0 = .ok w') :
    w' = w ∨
    ∃ b gc, w.batteries.find? (·.id == b0.id) = some b ∧ getGc w b.parent = .ok gc ∧
      ((∃ p r, ops.unload b.bat env.interval none none (some p) = .ok r ∧
          w' = (w.setBattery { b with bat := r.1 }).setGc (gc.addLoad b.id (-r.2.1)).1) ∨
       (∃ p r, ops.load b.bat env.interval (some p) none none = .ok r ∧
          w' = (w.setBattery { b with bat := r.1 }).setGc (gc.addLoad b.id r.2.1).1) ∨
       w' = w.setGc (gc.addLoad b.id 0).1) := by
  unfold utilBattery at h
  split at h
  · simp only [Except.ok.injEq] at h; exact Or.inl h.symm
  · rename_i b hb
    split at h
    · cases h
    · rename_i gc hgc
      split at h
      · cases h
      · split at h
        · simp only [Except.ok.injEq] at h; exact Or.inl h.symm
        · simp only at h
          split at h
          · split at h
            · cases h
            · rename_i r hr
              simp only [Except.ok.injEq] at h
              exact Or.inr ⟨b, gc, hb, hgc, Or.inl ⟨_, r, hr, h.symm⟩⟩
          · split at h
            · split at h
              · cases h
              · rename_i r hr
                simp only [Except.ok.injEq] at h
                exact Or.inr ⟨b, gc, hb, hgc, Or.inr (Or.inl ⟨_, r, hr, h.symm⟩)⟩
            · simp only [Except.ok.injEq] at h
              exact Or.inr ⟨b, gc, hb, hgc, Or.inr (Or.inr h.symm)⟩

/-! ### collective sub-strategy outside the core standing time -/

theorem clampV_le (cs : StationS α) (v : VehicleS α B) (p : α) :
    0 ≤ clampV cs v p ∧ clampV cs v p ≤ max p 0 := by
  unfold clampV
  have := clampPower_bounds p cs.currentPower cs.maxPower cs.minPower v.minChargingPower
  exact ⟨this.1, by rw [max_comm]; exact this.2⟩

/-- the power search of `sim_balanced_charging` never returns more than its upper bracket -/
theorem sbLoop_le (ops : Ops α B) (env : Env α) (heps : 0 ≤ env.eps) (bat : B) (dt : Int) (delta : α)
    (U : α) (fuel idx : Nat) (safe : Bool) (mn mx power p : α) (hp : power ≤ U) (hmx : mx ≤ U)
    (h : sbLoop ops env bat dt delta fuel idx safe mn mx power = .ok p) : p ≤ U := by
  induction fuel generalizing idx safe mn mx power with
  | zero =>
    unfold sbLoop at h
    split at h
    · cases h
    · simp only [Except.ok.injEq] at h; rw [← h]; exact hp
  | succ f ih =>
    unfold sbLoop at h
    split at h
    · rename_i hcond
      simp only [Bool.and_eq_true, decide_eq_true_eq] at hcond
      have hlt : mn < mx := by linarith [hcond.2]
      have hmid : (mx + mn) / 2 ≤ U := by
        have : (mx + mn) / 2 ≤ mx := by rw [div_le_iff₀ (by norm_num)]; linarith
        linarith
      simp only [bind, Except.bind] at h
      split at h
      · cases h
      · split at h
        · exact ih _ _ _ _ _ hmid hmx h
        · exact ih _ _ _ _ _ hmid hmid h
    · simp only [Except.ok.injEq] at h; rw [← h]; exact hp

theorem simBalanced_le (ops : Ops α B) (env : Env α) (heps : 0 ≤ env.eps) (cs : StationS α)
    (v : VehicleS α B) (x : VehX α) (dt : Int) (maxPower : α) (deltaSoc : Option α) (p : α)
    (h : simBalanced ops env cs v x dt maxPower deltaSoc = .ok p) : p ≤ max maxPower 0 := by
  have key : ∀ delta : α,
      (if env.eps < delta then
        sbLoop ops env v.bat dt delta env.fuel 0 false (pymax v.minChargingPower cs.minPower)
          (clampV cs v (pymin maxPower x.curveMax)) 0
       else Except.ok 0) = .ok p → p ≤ max maxPower 0 := by
    intro delta h
    split at h
    · refine sbLoop_le ops env heps _ _ _ (max maxPower 0) _ _ _ _ _ _ p (le_max_right _ _) ?_ h
      refine le_trans (clampV_le cs v _).2 (max_le_max ?_ (le_refl _))
      rw [pymin_eq]; exact min_le_left _ _
    · simp only [Except.ok.injEq] at h; rw [← h]; exact le_max_right _ _
  unfold simBalanced at h
  cases deltaSoc <;> exact key _ h

theorem cvVehicle_within (ops : Ops α B) (law : Law ops) (env : Env α) (gid : String)
    (st st' : SWorld α B × List (String × α)) (kid : α × String) (hw : Within st.1)
    (h : cvVehicle ops env gid st kid = .ok st') : Within st'.1 := by
  unfold cvVehicle at h
  split at h
  · cases h
  · rename_i v _
    split at h
    · cases h
    · split at h
      · cases h
      · rename_i cs _
        split at h
        · cases h
        · rename_i gc hgc
          obtain ⟨hgm, _⟩ := getGc_ok _ _ _ hgc
          split at h
          · cases h
          · rename_i r hr
            simp only [Except.ok.injEq] at h; subst h
            obtain ⟨b', avg, sd⟩ := r
            obtain ⟨h0, h1⟩ := law.load_max _ _ _ _ _ _ _ hr
            obtain ⟨hl, hu⟩ := hw gc hgm
            have hc := (clampV_le cs v (pymax (-gc.currentLoad) 0)).2
            rw [pymax_eq] at hc h1
            have hb : avg ≤ max (gc.curMax - gc.currentLoad) 0 := by
              refine le_trans h1 (max_le (le_trans hc (max_le (max_le ?_ (le_max_right _ _)) (le_max_right _ _))) (le_max_right _ _))
              exact le_trans (by linarith) (le_max_left _ _)
            exact within_commit st.1 st.2 v b' cs gc hgm _ avg hw h0 hb

theorem foldlM_within {σ β : Type} (f : σ → β → Py σ) (P : σ → Prop)
    (hf : ∀ s s' b, P s → f s b = .ok s' → P s') (l : List β) (s s' : σ) (hs : P s)
    (h : l.foldlM f s = .ok s') : P s' := by
  induction l generalizing s with
  | nil =>
    simp only [List.foldlM_nil, pure, Except.pure, Except.ok.injEq] at h
    subst h; exact hs
  | cons b rest ih =>
    simp only [List.foldlM_cons, bind, Except.bind] at h
    split at h
    · cases h
    · rename_i s1 h1
      exact ih s1 (hf s s1 b hs h1) h

theorem cvGroup_within (ops : Ops α B) (law : Law ops) (env : Env α)
    (st st' : SWorld α B × List (String × α)) (grp : String × List String) (hw : Within st.1)
    (h : cvGroup ops env st grp = .ok st') : Within st'.1 := by
  unfold cvGroup at h
  split at h
  · cases h
  · split at h
    · cases h
    · split at h
      · cases h
      · split at h
        · cases h
        · split at h
          · simp only [Except.ok.injEq] at h; subst h; exact hw
          · exact foldlM_within (cvVehicle ops env grp.1) (fun s => Within s.1)
              (fun s s' b hs hb => cvVehicle_within ops law env grp.1 s s' b hs hb) _ st st' hw h

theorem chargeVehicles_within (ops : Ops α B) (law : Law ops) (env : Env α) (w w' : SWorld α B)
    (cmds : List (String × α)) (hw : Within w) (h : chargeVehicles ops env w = .ok (w', cmds)) :
    Within w' := by
  unfold chargeVehicles at h
  split at h
  · cases h
  · exact foldlM_within (cvGroup ops env) (fun s => Within s.1)
      (fun s s' b hs hb => cvGroup_within ops law env s s' b hs hb) _ (w, []) (w', cmds) hw h

theorem acVehicle_within (ops : Ops α B) (law : Law ops) (env : Env α) (heps : 0 ≤ env.eps)
    (gid : String) (s s' : SWorld α B × List (String × α)) (v0 : VehicleS α B) (hw : Within s.1)
    (h : acVehicle ops env gid s v0 = .ok s') : Within s'.1 := by
  unfold acVehicle at h
  split at h
  · simp only [Except.ok.injEq] at h; subst h; exact hw
  · rename_i v _
    split at h
    · simp only [Except.ok.injEq] at h; subst h; exact hw
    · split at h
      · cases h
      · rename_i cs _
        split at h
        · cases h
        · split at h
          · cases h
          · rename_i gc hgc
            obtain ⟨hgm, _⟩ := getGc_ok _ _ _ hgc
            split at h
            · cases h
            · split at h
              · cases h
              · rename_i power hpow
                split at h
                · cases h
                · rename_i r hr
                  simp only [Except.ok.injEq] at h; subst h
                  obtain ⟨b', avg, sd⟩ := r
                  obtain ⟨h0, h1⟩ := law.load_max _ _ _ _ _ _ _ hr
                  have hp := simBalanced_le ops env heps _ _ _ _ _ _ _ hpow
                  have hc := (clampV_le cs v power).2
                  have hb : avg ≤ max (gc.curMax - gc.currentLoad) 0 :=
                    le_trans h1 (max_le (le_trans hc (max_le hp (le_max_right _ _))) (le_max_right _ _))
                  exact within_commit s.1 s.2 v b' cs gc hgm _ avg hw h0 hb

theorem afterCst_within (ops : Ops α B) (law : Law ops) (env : Env α) (heps : 0 ≤ env.eps)
    (w w' : SWorld α B) (st st' : CState α) (cmds cmds' : List (String × α)) (hw : Within w)
    (h : afterCst ops env w st cmds = .ok (w', st', cmds')) : Within w' := by
  unfold afterCst at h
  split at h
  · cases h
  · split at h
    · cases h
    · simp only at h
      split at h
      · simp only [Except.ok.injEq, Prod.mk.injEq] at h; obtain ⟨rfl, _⟩ := h; exact hw
      · split at h
        · simp only [Except.ok.injEq, Prod.mk.injEq] at h; obtain ⟨rfl, _⟩ := h; exact hw
        · split at h
          · cases h
          · rename_i r hr
            simp only [Except.ok.injEq, Prod.mk.injEq] at h
            obtain ⟨rfl, _⟩ := h
            exact foldlM_within (acVehicle ops env _) (fun s => Within s.1)
              (fun s s' b hs hb => acVehicle_within ops law env heps _ s s' b hs hb) _ (w, cmds) r hw hr

/-- outside the core standing time the collective `step` is: reset the stations, `charge_vehicles`,
`charge_vehicles_after_core_standing_time` if `overcharge_necessary`, the battery pass -/
theorem step_collective_outside_within (ops : Ops α B) (law : Law ops) (env : Env α)
    (heps : 0 ≤ env.eps) (hc : env.collective = true)
    (hout : dtWithinCoreStandingTime env.now env.cst = .ok false)
    (w w' : SWorld α B) (st st' : CState α) (cmds : List (String × α)) (hw : Within w)
    (h : step ops env w st = .ok (w', st', cmds)) : Within w' := by
  unfold step at h
  simp only [hc, if_true, hout, bind, Except.bind, pure, Except.pure, Bool.false_eq_true, if_false] at h
  split at h
  · cases h
  · rename_i r hr
    split at hr
    · cases hr
    · rename_i r1 hr1
      have hw0 : Within (resetStations w) := by intro g hg; exact hw g (by simpa using hg)
      have hw1 : Within r1.1 := chargeVehicles_within ops law env _ r1.1 r1.2 hw0 (by rw [hr1])
      have hwr : Within r.1 := by
        split at hr
        · obtain ⟨a, b, c⟩ := r
          exact afterCst_within ops law env heps r1.1 a st b r1.2 c hw1 hr
        · simp only [Except.ok.injEq] at hr; subst hr; exact hw1
      split at h
      · cases h
      · rename_i w2 hw2
        simp only [Except.ok.injEq, Prod.mk.injEq] at h
        obtain ⟨rfl, _, _⟩ := h
        exact utilizeBatteries_within ops law env heps r.1 w2 hwr hw2

/-! ### collective sub-strategy inside the core standing time: the on-schedule branch -/

theorem getVehicle_ok (w : SWorld α B) (id : String) (v : VehicleS α B) (h : getVehicle w id = .ok v) :
    v ∈ w.vehicles := by
  unfold getVehicle at h
  split at h
  · rename_i v' hv
    simp only [Except.ok.injEq] at h; subst h
    unfold SWorld.vehicle? at hv
    exact List.mem_of_find?_eq_some hv
  · cases h

/-- no vehicle of the world is V2G-capable -/
def NoV2G (w : SWorld α B) : Prop := ∀ v ∈ w.vehicles, v.v2g = false

theorem noV2G_commit (w : SWorld α B) (cmds : List (String × α)) (v : VehicleS α B) (bat' : B)
    (cs : StationS α) (gc : GcS α) (csId : String) (avg : α) (hv : v ∈ w.vehicles) (h : NoV2G w) :
    NoV2G (commit w cmds v bat' cs gc csId avg).1 := by
  intro u hu
  have : u ∈ (w.setVehicle { v with bat := bat' }).vehicles := hu
  unfold SWorld.setVehicle at this
  simp only [List.mem_map] at this
  obtain ⟨x, hx, rfl⟩ := this
  split
  · exact h v hv
  · exact h x hx

/-- the connector `gid` still has room for the remaining scheduled power -/
def Room (gid : String) (rem : α) (w : SWorld α B) : Prop :=
  ∀ g ∈ w.gcs, g.id = gid → g.currentLoad + max rem 0 ≤ g.curMax

theorem room_commit (w : SWorld α B) (cmds : List (String × α)) (v : VehicleS α B) (bat' : B)
    (cs : StationS α) (gc : GcS α) (hg : gc ∈ w.gcs) (csId : String) (avg rem : α)
    (hw : Within w) (hr : Room gc.id rem w) (h0 : 0 ≤ avg) (h1 : avg ≤ max rem 0) :
    Within (commit w cmds v bat' cs gc csId avg).1 ∧
    Room gc.id (rem - avg) (commit w cmds v bat' cs gc csId avg).1 := by
  have hroom := hr gc hg rfl
  obtain ⟨hl, hu⟩ := hw gc hg
  obtain ⟨e1, e2, e3, _⟩ := addLoad_currentLoad gc csId avg
  constructor
  · intro g hgm
    rw [commit_gcs] at hgm
    exact within_setGc_addLoad w gc hg csId avg hw (by linarith) (by linarith) g hgm
  · intro g hgm hid
    rw [commit_gcs] at hgm
    rcases mem_setGc _ _ g hgm with rfl | ⟨_, hne⟩
    · rw [e1, e2]
      rcases le_total (rem - avg) 0 with hc | hc
      · rw [max_eq_right hc]; linarith
      · rw [max_eq_left hc]
        have : rem ≤ max rem 0 := le_max_left _ _
        linarith
    · exact absurd (hid.trans e3.symm) hne

/-- **the retry loop of the on-schedule branch keeps the connector within its limit** as long as
the remaining scheduled power fits under the limit when the loop starts -/
theorem csLoop_within (ops : Ops α B) (law : Law ops) (env : Env α) (fraction : α) (nVeh : Nat)
    (gid : String) (fuel i : Nat) (q lo : List (String × α)) (extra rem : α) (w : SWorld α B)
    (cmds : List (String × α)) (r : SWorld α B × List (String × α))
    (hw : Within w) (hr : Room gid rem w) (hn : NoV2G w)
    (h : csLoop ops env fraction nVeh gid fuel i q lo extra rem w cmds = .ok r) :
    Within r.1 ∧ NoV2G r.1 := by
  induction fuel generalizing i q lo extra rem w cmds with
  | zero =>
    cases q with
    | nil => unfold csLoop at h; simp only [Except.ok.injEq] at h; subst h; exact ⟨hw, hn⟩
    | cons x xs => unfold csLoop at h; cases h
  | succ f ih =>
    cases q with
    | nil => unfold csLoop at h; simp only [Except.ok.injEq] at h; subst h; exact ⟨hw, hn⟩
    | cons x xs =>
      obtain ⟨vid, en⟩ := x
      unfold csLoop at h
      split at h
      · cases h
      · rename_i v hv
        have hvm := getVehicle_ok _ _ _ hv
        split at h
        · exact ih _ _ _ _ _ _ _ hw hr hn h
        · rename_i csId _
          split at h
          · cases h
          · rename_i cs _
            split at h
            · cases h
            · rename_i gc hgc
              obtain ⟨hgm, hgid⟩ := getGc_ok _ _ _ hgc
              simp only at h
              split at h
              · cases h
              · rename_i res hres
                obtain ⟨b', avg, sd⟩ := res
                obtain ⟨h0, h1⟩ := law.load_target _ _ _ _ _ _ hres
                have hb : avg ≤ max rem 0 := by
                  refine le_trans h1 (max_le (le_trans (clampV_le cs v _).2 (max_le ?_ (le_max_right _ _)))
                    (le_max_right _ _))
                  rw [pymin_eq]; exact le_trans (min_le_left _ _) (le_max_left _ _)
                subst hgid
                obtain ⟨hw', hr'⟩ := room_commit w cmds v b' cs gc hgm csId avg rem hw hr h0 hb
                have hn' := noV2G_commit w cmds v b' cs gc csId avg hvm hn
                simp only at h
                split at h
                · simp only [Except.ok.injEq] at h; subst h; exact ⟨hw', hn'⟩
                · split at h
                  · simp only [Except.ok.injEq] at h; subst h; exact ⟨hw', hn'⟩
                  · split at h
                    · exact ih _ _ _ _ _ _ _ hw' hr' hn' h
                    · exact ih _ _ _ _ _ _ _ hw' hr' hn' h

theorem noV2G_any (w : SWorld α B) (h : NoV2G w) : w.vehicles.any (·.v2g) = false := by
  rw [List.any_eq_false]
  intro v hv
  simp [h v hv]

/-! ### stations in the collective sub-strategy (one connector) -/

/-- all connectors carry the id `G` and all stations hang on it (the collective sub-strategy asserts
a single connector) -/
def SingleGc (G : String) (w : SWorld α B) : Prop :=
  (∀ g ∈ w.gcs, g.id = G) ∧ (∀ s ∈ w.stations, s.parent = G)

/-- "no V2G vehicle" as an optional part of an invariant -/
def VInv (b : Bool) (w : SWorld α B) : Prop := b = true → NoV2G w

theorem vinv_commit (b : Bool) (w : SWorld α B) (cmds : List (String × α)) (v : VehicleS α B)
    (bat' : B) (cs : StationS α) (gc : GcS α) (csId : String) (avg : α) (hv : v ∈ w.vehicles)
    (h : VInv b w) : VInv b (commit w cmds v bat' cs gc csId avg).1 :=
  fun hb => noV2G_commit w cmds v bat' cs gc csId avg hv (h hb)

theorem vehicle?_self_of_nodup (vs : List (VehicleS α B)) (hnd : (vs.map (·.id)).Nodup)
    (v : VehicleS α B) (hv : v ∈ vs) : vs.find? (·.id == v.id) = some v := by
  induction vs with
  | nil => simp at hv
  | cons x xs ih =>
    simp only [List.map_cons, List.nodup_cons, List.mem_map, not_exists, not_and] at hnd
    simp only [List.find?_cons]
    rcases List.mem_cons.mp hv with rfl | hv'
    · simp
    · have : (x.id == v.id) = false := by
        simp only [beq_eq_false_iff_ne, ne_eq]
        exact fun e => hnd.1 v hv' e.symm
      simp only [this]
      exact ih hnd.2 hv'

/-- what no pass ever changes of a vehicle: its id and its station -/
def strip2 (v : VehicleS α B) : String × Option String := (v.id, v.cs)

theorem strip2_setVehicle (w : SWorld α B) (v : VehicleS α B) (bat' : B)
    (hnd : (w.vehicles.map (·.id)).Nodup) (hv : v ∈ w.vehicles) :
    (w.setVehicle { v with bat := bat' }).vehicles.map strip2 = w.vehicles.map strip2 := by
  unfold SWorld.setVehicle
  simp only [List.map_map]
  apply List.map_congr_left
  intro x hx
  simp only [Function.comp]
  by_cases hid : (x.id == v.id) = true
  · have hidv : x.id = v.id := by simpa using hid
    have h1 := vehicle?_self_of_nodup w.vehicles hnd x hx
    have h2 := vehicle?_self_of_nodup w.vehicles hnd v hv
    rw [hidv, h2] at h1
    have hxv : x = v := (Option.some.inj h1).symm
    subst hxv
    simp [strip2]
  · simp only [hid, Bool.false_eq_true, if_false]

/-- the vehicles still are the list `M` of (id, station) pairs — claimed only when the ids are distinct -/
def VMeta (M : List (String × Option String)) (w : SWorld α B) : Prop :=
  (M.map (·.1)).Nodup → w.vehicles.map strip2 = M

theorem vmeta_commit (M : List (String × Option String)) (w : SWorld α B) (cmds : List (String × α))
    (v : VehicleS α B) (bat' : B) (cs : StationS α) (gc : GcS α) (csId : String) (avg : α)
    (hv : v ∈ w.vehicles) (h : VMeta M w) : VMeta M (commit w cmds v bat' cs gc csId avg).1 := by
  intro hnd
  have he := h hnd
  have hids : (w.vehicles.map (·.id)).Nodup := by
    have : w.vehicles.map (·.id) = M.map (·.1) := by
      rw [← he, List.map_map]; rfl
    rw [this]; exact hnd
  show (w.setVehicle { v with bat := bat' }).vehicles.map strip2 = M
  rw [strip2_setVehicle w v bat' hids hv, he]

/-- the station invariant of the collective passes -/
def SInv (bv : Bool) (M : List (String × Option String)) (G : String) (w : SWorld α B) : Prop :=
  Link w ∧ StationOK w ∧ SingleGc G w ∧ VInv bv w ∧ VMeta M w

theorem sinv_commit (bv : Bool) (M : List (String × Option String)) (G : String) (w : SWorld α B) (cmds : List (String × α)) (v : VehicleS α B)
    (bat' : B) (cs : StationS α) (gc : GcS α) (avg : α) (hS : SInv bv M G w) (hv : v ∈ w.vehicles)
    (hcs : cs ∈ w.stations) (hg : gc ∈ w.gcs) (h0 : 0 ≤ avg)
    (h1 : cs.currentPower + avg ≤ cs.maxPower) :
    SInv bv M G (commit w cmds v bat' cs gc cs.id avg).1 := by
  obtain ⟨hl, hok, ⟨hsg, hss⟩, hn, hvm⟩ := hS
  have hp : gc.id = cs.parent := by rw [hsg gc hg, hss cs hcs]
  obtain ⟨hl', hval⟩ := link_commit w cmds v bat' cs gc hcs hg hp avg hl
  refine ⟨hl', stationOK_commit w cmds v bat' cs gc avg hok hval hcs h0 h1, ⟨?_, ?_⟩,
    vinv_commit bv w cmds v bat' cs gc cs.id avg hv hn,
    vmeta_commit M w cmds v bat' cs gc cs.id avg hv hvm⟩
  · intro g hgm
    rw [commit_gcs] at hgm
    rcases mem_setGc _ _ g hgm with rfl | ⟨hm, _⟩
    · rw [(addLoad_currentLoad gc cs.id avg).2.2.1]; exact hsg gc hg
    · exact hsg g hm
  · intro s hs
    rw [commit_stations] at hs
    rcases mem_setStation' _ _ s hs with rfl | ⟨hs', _⟩
    · exact hss cs hcs
    · exact hss s hs'

/-- a station that is offered `clamp_power(p)` and takes `avg ≤ max (clamp_power p) 0` stays within
its maximum -/
theorem clampV_station (cs : StationS α) (v : VehicleS α B) (p avg : α)
    (hc : cs.currentPower ≤ cs.maxPower) (h1 : avg ≤ max (clampV cs v p) 0) :
    cs.currentPower + avg ≤ cs.maxPower := by
  have h2 := clampPower_station p cs.currentPower cs.maxPower cs.minPower v.minChargingPower hc
  have h3 := (clampV_le cs v p).1
  rw [max_eq_left h3] at h1
  unfold clampV at h1
  linarith

theorem cvVehicle_sinv (bv : Bool) (M : List (String × Option String)) (ops : Ops α B) (law : Law ops) (env : Env α) (G gid : String)
    (st st' : SWorld α B × List (String × α)) (kid : α × String) (hS : SInv bv M G st.1)
    (h : cvVehicle ops env gid st kid = .ok st') : SInv bv M G st'.1 := by
  unfold cvVehicle at h
  split at h
  · cases h
  · rename_i v hv
    split at h
    · cases h
    · split at h
      · cases h
      · rename_i cs hcs
        obtain ⟨hcsm, hcsid⟩ := getStation_ok _ _ _ hcs
        split at h
        · cases h
        · rename_i gc hgc
          split at h
          · cases h
          · rename_i r hr
            simp only [Except.ok.injEq] at h; subst h
            obtain ⟨b', avg, sd⟩ := r
            obtain ⟨h0, h1⟩ := law.load_max _ _ _ _ _ _ _ hr
            subst hcsid
            exact sinv_commit bv M G st.1 st.2 v b' cs gc avg hS (getVehicle_ok _ _ _ hv) hcsm
              (getGc_ok _ _ _ hgc).1 h0 (clampV_station cs v _ avg (hS.2.1 cs hcsm).2 h1)

theorem cvGroup_sinv (bv : Bool) (M : List (String × Option String)) (ops : Ops α B) (law : Law ops) (env : Env α) (G : String)
    (st st' : SWorld α B × List (String × α)) (grp : String × List String) (hS : SInv bv M G st.1)
    (h : cvGroup ops env st grp = .ok st') : SInv bv M G st'.1 := by
  unfold cvGroup at h
  split at h
  · cases h
  · split at h
    · cases h
    · split at h
      · cases h
      · split at h
        · cases h
        · split at h
          · simp only [Except.ok.injEq] at h; subst h; exact hS
          · exact foldlM_within (cvVehicle ops env grp.1) (fun s => SInv bv M G s.1)
              (fun s s' b hs hb => cvVehicle_sinv bv M ops law env G grp.1 s s' b hs hb) _ st st' hS h

theorem chargeVehicles_sinv (bv : Bool) (M : List (String × Option String)) (ops : Ops α B) (law : Law ops) (env : Env α) (G : String)
    (w w' : SWorld α B) (cmds : List (String × α)) (hS : SInv bv M G w)
    (h : chargeVehicles ops env w = .ok (w', cmds)) : SInv bv M G w' := by
  unfold chargeVehicles at h
  split at h
  · cases h
  · exact foldlM_within (cvGroup ops env) (fun s => SInv bv M G s.1)
      (fun s s' b hs hb => cvGroup_sinv bv M ops law env G s s' b hs hb) _ (w, []) (w', cmds) hS h

theorem acVehicle_sinv (bv : Bool) (M : List (String × Option String)) (ops : Ops α B) (law : Law ops) (env : Env α) (G gid : String)
    (s s' : SWorld α B × List (String × α)) (v0 : VehicleS α B) (hS : SInv bv M G s.1)
    (h : acVehicle ops env gid s v0 = .ok s') : SInv bv M G s'.1 := by
  unfold acVehicle at h
  split at h
  · simp only [Except.ok.injEq] at h; subst h; exact hS
  · rename_i v hv
    have hvm : v ∈ s.1.vehicles := by
      unfold SWorld.vehicle? at hv; exact List.mem_of_find?_eq_some hv
    split at h
    · simp only [Except.ok.injEq] at h; subst h; exact hS
    · split at h
      · cases h
      · rename_i cs hcs
        obtain ⟨hcsm, hcsid⟩ := getStation_ok _ _ _ hcs
        split at h
        · cases h
        · split at h
          · cases h
          · rename_i gc hgc
            split at h
            · cases h
            · split at h
              · cases h
              · rename_i power hpow
                split at h
                · cases h
                · rename_i r hr
                  simp only [Except.ok.injEq] at h; subst h
                  obtain ⟨b', avg, sd⟩ := r
                  obtain ⟨h0, h1⟩ := law.load_max _ _ _ _ _ _ _ hr
                  subst hcsid
                  exact sinv_commit bv M G s.1 s.2 v b' cs gc avg hS hvm hcsm (getGc_ok _ _ _ hgc).1 h0
                    (clampV_station cs v _ avg (hS.2.1 cs hcsm).2 h1)

theorem afterCst_sinv (bv : Bool) (M : List (String × Option String)) (ops : Ops α B) (law : Law ops) (env : Env α) (G : String)
    (w w' : SWorld α B) (st st' : CState α) (cmds cmds' : List (String × α)) (hS : SInv bv M G w)
    (h : afterCst ops env w st cmds = .ok (w', st', cmds')) : SInv bv M G w' := by
  unfold afterCst at h
  split at h
  · cases h
  · split at h
    · cases h
    · simp only at h
      split at h
      · simp only [Except.ok.injEq, Prod.mk.injEq] at h; obtain ⟨rfl, _⟩ := h; exact hS
      · split at h
        · simp only [Except.ok.injEq, Prod.mk.injEq] at h; obtain ⟨rfl, _⟩ := h; exact hS
        · split at h
          · cases h
          · rename_i r hr
            simp only [Except.ok.injEq, Prod.mk.injEq] at h
            obtain ⟨rfl, _⟩ := h
            exact foldlM_within (acVehicle ops env _) (fun s => SInv bv M G s.1)
              (fun s s' b hs hb => acVehicle_sinv bv M ops law env G _ s s' b hs hb) _ (w, cmds) r hS hr

theorem csLoop_sinv (bv : Bool) (M : List (String × Option String)) (ops : Ops α B) (law : Law ops) (env : Env α) (G : String) (fraction : α)
    (nVeh : Nat) (gid : String) (fuel i : Nat) (q lo : List (String × α)) (extra rem : α)
    (w : SWorld α B) (cmds : List (String × α)) (r : SWorld α B × List (String × α))
    (hS : SInv bv M G w)
    (h : csLoop ops env fraction nVeh gid fuel i q lo extra rem w cmds = .ok r) : SInv bv M G r.1 := by
  induction fuel generalizing i q lo extra rem w cmds with
  | zero =>
    cases q with
    | nil => unfold csLoop at h; simp only [Except.ok.injEq] at h; subst h; exact hS
    | cons x xs => unfold csLoop at h; cases h
  | succ f ih =>
    cases q with
    | nil => unfold csLoop at h; simp only [Except.ok.injEq] at h; subst h; exact hS
    | cons x xs =>
      obtain ⟨vid, en⟩ := x
      unfold csLoop at h
      split at h
      · cases h
      · rename_i v hv
        split at h
        · exact ih _ _ _ _ _ _ _ hS h
        · split at h
          · cases h
          · rename_i cs hcs
            obtain ⟨hcsm, hcsid⟩ := getStation_ok _ _ _ hcs
            split at h
            · cases h
            · rename_i gc hgc
              simp only at h
              split at h
              · cases h
              · rename_i res hres
                obtain ⟨b', avg, sd⟩ := res
                obtain ⟨h0, h1⟩ := law.load_target _ _ _ _ _ _ hres
                subst hcsid
                have hS' := sinv_commit bv M G w cmds v b' cs gc avg hS (getVehicle_ok _ _ _ hv) hcsm
                  (getGc_ok _ _ _ hgc).1 h0 (clampV_station cs v _ avg (hS.2.1 cs hcsm).2 h1)
                simp only at h
                split at h
                · simp only [Except.ok.injEq] at h; subst h; exact hS'
                · split at h
                  · simp only [Except.ok.injEq] at h; subst h; exact hS'
                  · split at h
                    · exact ih _ _ _ _ _ _ _ hS' h
                    · exact ih _ _ _ _ _ _ _ hS' h

/-- `sim_balanced_charging` never proposes more than the station can still deliver -/
theorem simBalanced_station (ops : Ops α B) (env : Env α) (heps : 0 ≤ env.eps) (cs : StationS α)
    (v : VehicleS α B) (x : VehX α) (dt : Int) (maxPower : α) (deltaSoc : Option α) (p : α)
    (hc : cs.currentPower ≤ cs.maxPower)
    (h : simBalanced ops env cs v x dt maxPower deltaSoc = .ok p) :
    cs.currentPower + max p 0 ≤ cs.maxPower := by
  have hU0 := (clampV_le cs v (pymin maxPower x.curveMax)).1
  have hU1 := clampPower_station (pymin maxPower x.curveMax) cs.currentPower cs.maxPower cs.minPower
    v.minChargingPower hc
  have key : ∀ delta : α,
      (if env.eps < delta then
        sbLoop ops env v.bat dt delta env.fuel 0 false (pymax v.minChargingPower cs.minPower)
          (clampV cs v (pymin maxPower x.curveMax)) 0
       else Except.ok 0) = .ok p → p ≤ clampV cs v (pymin maxPower x.curveMax) := by
    intro delta h
    split at h
    · exact sbLoop_le ops env heps _ _ _ _ _ _ _ _ _ _ p hU0 (le_refl _) h
    · simp only [Except.ok.injEq] at h; rw [← h]; exact hU0
  have hp : p ≤ clampV cs v (pymin maxPower x.curveMax) := by
    unfold simBalanced at h
    cases deltaSoc <;> exact key _ h
  have : max p 0 ≤ clampV cs v (pymin maxPower x.curveMax) := max_le hp hU0
  unfold clampV at this
  linarith

theorem excessVehicle_sinv (bv : Bool) (M : List (String × Option String)) (ops : Ops α B) (law : Law ops) (env : Env α) (heps : 0 ≤ env.eps)
    (G : String) (dt : Int) (st st' : SWorld α B × List (String × α) × List (String × α))
    (kv : String × α) (hS : SInv bv M G st.1) (h : excessVehicle ops env dt st kv = .ok st') :
    SInv bv M G st'.1 := by
  unfold excessVehicle at h
  simp only [bind, Except.bind] at h
  split at h
  · cases h
  · rename_i v hv
    split at h
    · simp only [Except.ok.injEq] at h; subst h; exact hS
    · split at h
      · cases h
      · rename_i cs hcs
        obtain ⟨hcsm, hcsid⟩ := getStation_ok _ _ _ hcs
        split at h
        · cases h
        · rename_i gc hgc
          split at h
          · cases h
          · rename_i x _
            split at h
            · cases h
            · rename_i power hpow
              split at h
              · cases h
              · rename_i r hr
                simp only [Except.ok.injEq] at h; subst h
                obtain ⟨b', avg, sd⟩ := r
                obtain ⟨h0, h1⟩ := law.load_target _ _ _ _ _ _ hr
                subst hcsid
                have hst := simBalanced_station ops env heps cs v x dt _ (some kv.2) power
                  (hS.2.1 cs hcsm).2 hpow
                exact sinv_commit bv M G st.1 st.2.2 v b' cs gc avg hS (getVehicle_ok _ _ _ hv) hcsm
                  (getGc_ok _ _ _ hgc).1 h0 (by linarith)

theorem duringCst_sinv (bv : Bool) (M : List (String × Option String)) (ops : Ops α B) (law : Law ops) (env : Env α) (heps : 0 ≤ env.eps)
    (G : String) (w : SWorld α B) (st : CState α) (r : SWorld α B × CState α × List (String × α))
    (hS : SInv bv M G w) (h : duringCst ops env w st = .ok r) : SInv bv M G r.1 := by
  unfold duringCst at h
  split at h
  · cases h
  · simp only at h
    split at h
    · cases h
    · split at h
      · cases h
      · rename_i r1 hr1
        simp only [Except.ok.injEq] at h; subst h
        simp only
        split at hr1
        · -- excess branch
          unfold dcExcess at hr1
          simp only at hr1
          split at hr1
          · cases hr1
          · rename_i r2 hr2
            simp only [Except.ok.injEq] at hr1; subst hr1
            exact foldlM_within (excessVehicle ops env _) (fun s => SInv bv M G s.1)
              (fun s s' b hs hb => excessVehicle_sinv bv M ops law env heps G _ s s' b hs hb) _ _ r2 hS hr2
        · -- on-schedule branch
          unfold dcOnSchedule at hr1
          simp only at hr1
          split at hr1
          · cases hr1
          · split at hr1
            · cases hr1
            · split at hr1
              · cases hr1
              · split at hr1
                · cases hr1
                · split at hr1
                  · cases hr1
                  · rename_i r2 hr2
                    simp only [Except.ok.injEq] at hr1; subst hr1
                    exact csLoop_sinv bv M ops law env G _ _ _ _ _ _ _ _ _ w [] r2 hS hr2

/-- **collective sub-strategy without V2G-capable vehicles: the whole step keeps every station within
`[0, max_power]`** (inside and outside the core standing time, both branches) -/
theorem step_collective_station (M : List (String × Option String)) (ops : Ops α B) (law : Law ops) (env : Env α) (heps : 0 ≤ env.eps)
    (hc : env.collective = true) (G : String) (w w' : SWorld α B) (st st' : CState α)
    (cmds : List (String × α)) (hS : SInv true M G (resetStations w))
    (h : step ops env w st = .ok (w', st', cmds)) : StationOK w' := by
  unfold step at h
  simp only [hc, if_true, bind, Except.bind, pure, Except.pure] at h
  split at h
  · cases h
  · rename_i r hr
    have hSr : SInv true M G r.1 := by
      split at hr
      · cases hr
      · rename_i b hb
        cases b with
        | true =>
          simp only [if_true] at hr
          split at hr
          · cases hr
          · rename_i st1 _
            split at hr
            · cases hr
            · rename_i r2 hr2
              have k := duringCst_sinv true M ops law env heps G _ st1 r2 hS hr2
              simp only [noV2G_any r2.1 (k.2.2.2.1 rfl), Bool.false_eq_true, if_false, Except.ok.injEq] at hr
              subst hr; exact k
        | false =>
          simp only [Bool.false_eq_true, if_false] at hr
          split at hr
          · cases hr
          · rename_i r1 hr1
            have k := chargeVehicles_sinv true M ops law env G _ r1.1 r1.2 hS (by rw [hr1])
            split at hr
            · obtain ⟨a, b, c⟩ := r
              exact afterCst_sinv true M ops law env G r1.1 a st b r1.2 c k hr
            · simp only [Except.ok.injEq] at hr; subst hr; exact k
    split at h
    · cases h
    · rename_i w2 hw2
      simp only [Except.ok.injEq, Prod.mk.injEq] at h
      obtain ⟨rfl, _, _⟩ := h
      intro s hs
      rw [utilizeBatteries_stations ops env r.1 w2 hw2] at hs
      exact hSr.2.1 s hs

/-! ### fuel of the power searches -/

/-- the search of `sim_balanced_charging` ends within `fuel` iterations as soon as
`max − min ≤ ε·2^fuel` (every iteration halves the bracket), unless the battery itself reports `FUEL` -/
theorem sbLoop_no_fuel (ops : Ops α B) (env : Env α) (heps : 0 < env.eps) (bat : B) (dt : Int)
    (delta : α) (fuel idx : Nat) (safe : Bool) (mn mx power : α)
    (hw : mx - mn ≤ env.eps * 2 ^ fuel) :
    sbLoop ops env bat dt delta fuel idx safe mn mx power ≠ .error .fuel ∨
    ∃ p, ops.load bat dt none none (some p) = .error .fuel := by
  induction fuel generalizing idx safe mn mx power with
  | zero =>
    left
    unfold sbLoop
    simp only [pow_zero, mul_one] at hw
    have : ¬ env.eps < mx - mn := not_lt.mpr hw
    simp [this]
  | succ f ih =>
    unfold sbLoop
    split
    · have hhalf : (mx - mn) / 2 ≤ env.eps * 2 ^ f := by
        rw [div_le_iff₀ (by norm_num)]
        calc mx - mn ≤ env.eps * 2 ^ (f + 1) := hw
          _ = env.eps * 2 ^ f * 2 := by ring
      simp only [bind, Except.bind]
      cases hl : ops.load bat dt none none (some ((mx + mn) / 2)) with
      | error e =>
        by_cases he : e = .fuel
        · right; exact ⟨_, by rw [hl, he]⟩
        · left; simp only; intro hc; cases hc; exact he rfl
      | ok r =>
        simp only
        split
        · apply ih
          have : mx - (mx + mn) / 2 = (mx - mn) / 2 := by ring
          rw [this]; exact hhalf
        · apply ih
          have : (mx + mn) / 2 - mn = (mx - mn) / 2 := by ring
          rw [this]; exact hhalf
    · left; simp

/-! ### energy bookkeeping of the whole vehicle pass (individual sub-strategy) -/

theorem vehicle?_setVehicle_ne (w : SWorld α B) (x : VehicleS α B) (id : String) (h : id ≠ x.id) :
    (w.setVehicle x).vehicle? id = w.vehicle? id := by
  unfold SWorld.setVehicle SWorld.vehicle?
  simp only
  induction w.vehicles with
  | nil => rfl
  | cons y ys ih =>
    simp only [List.map_cons, List.find?_cons]
    by_cases hy : (y.id == x.id) = true
    · have hyx : y.id = x.id := by simpa using hy
      have h1 : (x.id == id) = false := by simpa using (Ne.symm h)
      have h2 : (y.id == id) = false := by rw [hyx]; exact h1
      simp only [hy, if_true, h1, h2]
      exact ih
    · have hy' : (y.id == x.id) = false := by simpa using hy
      simp only [hy', Bool.false_eq_true, if_false]
      cases (y.id == id)
      · simp only; exact ih
      · rfl

theorem mem_setVehicle_ne (w : SWorld α B) (x u : VehicleS α B) (hu : u ∈ w.vehicles)
    (h : u.id ≠ x.id) : u ∈ (w.setVehicle x).vehicles := by
  unfold SWorld.setVehicle
  simp only [List.mem_map]
  refine ⟨u, hu, ?_⟩
  have : (u.id == x.id) = false := by simpa using h
  simp [this]

theorem mem_setVehicle_self (w : SWorld α B) (x v : VehicleS α B) (hv : v ∈ w.vehicles)
    (h : v.id = x.id) : x ∈ (w.setVehicle x).vehicles := by
  unfold SWorld.setVehicle
  simp only [List.mem_map]
  refine ⟨v, hv, ?_⟩
  have : (v.id == x.id) = true := by simpa using h
  simp [this]

/-- `indVehicle_inv` with the reason for "nothing happened" -/
theorem indVehicle_inv' (ops : Ops α B) (env : Env α)
    (st st' : SWorld α B × List (String × α) × Option α) (v0 : VehicleS α B)
    (h : indVehicle ops env st v0 = .ok st') :
    (st' = st ∧ (st.1.vehicle? v0.id = none ∨ ∃ v, st.1.vehicle? v0.id = some v ∧ v.cs = none)) ∨
    ∃ v csId cs gc P r,
      st.1.vehicle? v0.id = some v ∧ v.cs = some csId ∧ getGc st.1 cs.parent = .ok gc ∧
      ops.load v.bat env.interval none none (some P) = .ok r ∧
      st'.1 = (commit st.1 st.2.1 v r.1 cs gc csId r.2.1).1 ∧
      st'.2.1 = (commit st.1 st.2.1 v r.1 cs gc csId r.2.1).2 := by
  unfold indVehicle at h
  split at h
  · rename_i hv
    simp only [Except.ok.injEq] at h; exact Or.inl ⟨h.symm, Or.inl hv⟩
  · rename_i v hv
    split at h
    · rename_i hcs
      simp only [Except.ok.injEq] at h; exact Or.inl ⟨h.symm, Or.inr ⟨v, hv, hcs⟩⟩
    · rename_i csId hcsid
      split at h
      · cases h
      · rename_i cs hcs
        split at h
        · cases h
        · rename_i gc hgc
          split at h
          · cases h
          · split at h
            · cases h
            · split at h
              · cases h
              · cases h
              · simp only at h
                split at h
                · cases h
                · rename_i r hr
                  simp only [Except.ok.injEq] at h
                  exact Or.inr ⟨v, csId, cs, gc, _, r, hv, hcsid, hgc, hr, by rw [← h], by rw [← h]⟩

/-- what the vehicle pass has done to vehicle `v` -/
def Booked (ops : Ops α B) (hrs : Int → α) (env : Env α) (v : VehicleS α B)
    (st : SWorld α B × List (String × α) × Option α) : Prop :=
  (v.cs = none → v ∈ st.1.vehicles) ∧
  (∀ c, v.cs = some c → ∃ bat' avg, { v with bat := bat' } ∈ st.1.vehicles ∧
    sdGet st.2.1 c = some avg ∧
    (ops.soc bat' - ops.soc v.bat) * ops.capacity v.bat = avg * hrs env.interval * ops.efficiency v.bat)

theorem indFold_booked (ops : Ops α B) (hrs : Int → α) (elaw : EnergyLaw ops hrs) (env : Env α)
    (vs : List (VehicleS α B)) (st st' : SWorld α B × List (String × α) × Option α)
    (hid : (vs.map (·.id)).Nodup) (hcs : (vs.filterMap (·.cs)).Nodup)
    (hfind : ∀ v ∈ vs, st.1.vehicle? v.id = some v)
    (hfresh : ∀ v ∈ vs, ∀ c, v.cs = some c → ∀ g ∈ st.1.gcs, sdGet g.loads c = none)
    (h : vs.foldlM (indVehicle ops env) st = .ok st') :
    (∀ v ∈ vs, Booked ops hrs env v st') ∧
    (∀ u ∈ st.1.vehicles, (∀ v ∈ vs, u.id ≠ v.id) → u ∈ st'.1.vehicles) ∧
    (∀ c x, sdGet st.2.1 c = some x → (∀ v ∈ vs, v.cs ≠ some c) → sdGet st'.2.1 c = some x) := by
  induction vs generalizing st with
  | nil =>
    simp only [List.foldlM_nil, pure, Except.pure, Except.ok.injEq] at h
    subst h
    exact ⟨by intro v hv; simp at hv, fun u hu _ => hu, fun c x hx _ => hx⟩
  | cons v0 rest ih =>
    simp only [List.foldlM_cons, bind, Except.bind] at h
    split at h
    · cases h
    · rename_i st1 hs1
      simp only [List.map_cons, List.nodup_cons, List.mem_map, not_exists, not_and] at hid
      obtain ⟨hid0, hidr⟩ := hid
      have hv0 := hfind v0 (by simp)
      have hv0m : v0 ∈ st.1.vehicles := by
        unfold SWorld.vehicle? at hv0; exact List.mem_of_find?_eq_some hv0
      rcases indVehicle_inv' ops env st st1 v0 hs1 with ⟨rfl, hwhy⟩ | ⟨v, csId, cs, gc, P, r, hv, hcsid, hgc, hr, hw1, hc1⟩
      · -- nothing happened: the vehicle is not connected
        have hnone : v0.cs = none := by
          rcases hwhy with hn | ⟨v, hv, hc⟩
          · rw [hv0] at hn; cases hn
          · rw [hv0] at hv; cases hv; exact hc
        have hcsr : (rest.filterMap (·.cs)).Nodup := by
          simpa [List.filterMap_cons, hnone] using hcs
        obtain ⟨k1, k2, k3⟩ := ih st1 hidr hcsr (fun v hv => hfind v (by simp [hv]))
          (fun v hv => hfresh v (by simp [hv])) h
        refine ⟨?_, ?_, ?_⟩
        · intro v hv
          rcases List.mem_cons.mp hv with rfl | hv'
          · refine ⟨fun _ => k2 v hv0m (fun u hu e => hid0 u hu e.symm), ?_⟩
            intro c hc; rw [hnone] at hc; cases hc
          · exact k1 v hv'
        · intro u hu hne
          exact k2 u hu (fun v hv => hne v (by simp [hv]))
        · intro c x hx hne
          exact k3 c x hx (fun v hv => hne v (by simp [hv]))
      · -- one real call
        rw [hv0] at hv; cases hv
        obtain ⟨b', avg, sd⟩ := r
        simp only at hw1 hc1
        have hcs' : csId ∉ rest.filterMap (·.cs) ∧ (rest.filterMap (·.cs)).Nodup := by
          simpa [List.filterMap_cons, hcsid] using hcs
        obtain ⟨hcs0, hcsr⟩ := hcs'
        have hgm := (getGc_ok _ _ _ hgc).1
        obtain ⟨hval, hsame, hne⟩ := addLoad_value gc csId avg
        have hfr0 : sdGet gc.loads csId = none := hfresh v0 (by simp) csId hcsid gc hgm
        -- hypotheses of the induction hypothesis at st1
        have hfind1 : ∀ v ∈ rest, st1.1.vehicle? v.id = some v := by
          intro v hv
          rw [hw1]
          have hne' : v.id ≠ v0.id := fun e => hid0 v hv e
          show ((((st.1.setVehicle { v0 with bat := b' }).setGc _).setStation _).vehicle? v.id) = some v
          have : (((st.1.setVehicle { v0 with bat := b' }).setGc (gc.addLoad csId avg).1).setStation
              { cs with currentPower := (gc.addLoad csId avg).2 }).vehicle? v.id =
              (st.1.setVehicle { v0 with bat := b' }).vehicle? v.id := rfl
          rw [this, vehicle?_setVehicle_ne st.1 { v0 with bat := b' } v.id hne']
          exact hfind v (by simp [hv])
        have hfresh1 : ∀ v ∈ rest, ∀ c, v.cs = some c → ∀ g ∈ st1.1.gcs, sdGet g.loads c = none := by
          intro v hv c hc g hg
          rw [hw1, commit_gcs] at hg
          have hcne : c ≠ csId := by
            intro e; apply hcs0
            simp only [List.mem_filterMap]
            exact ⟨v, hv, by rw [hc, e]⟩
          rcases mem_setGc _ _ g hg with rfl | ⟨hg', _⟩
          · rw [hne c hcne]; exact hfresh v (by simp [hv]) c hc gc hgm
          · exact hfresh v (by simp [hv]) c hc g hg'
        obtain ⟨k1, k2, k3⟩ := ih st1 hidr hcsr hfind1 hfresh1 h
        refine ⟨?_, ?_, ?_⟩
        · intro v hv
          rcases List.mem_cons.mp hv with rfl | hv'
          · refine ⟨fun hn => absurd (hn.symm.trans hcsid) (by simp), ?_⟩
            intro c hc
            rw [hcsid] at hc; cases hc
            refine ⟨b', avg, ?_, ?_, (elaw.load_energy _ _ _ _ _ _ _ _ hr).2.2⟩
            · apply k2
              · rw [hw1]
                exact mem_setVehicle_self st.1 { v with bat := b' } v hv0m rfl
              · intro u hu e; exact hid0 u hu e.symm
            · apply k3 csId avg
              · rw [hc1]
                show sdGet (sdSet st.2.1 csId (gc.addLoad csId avg).2) csId = some avg
                rw [sdGet_alSet_same, hval, hfr0]; simp
              · intro u hu e; apply hcs0
                simp only [List.mem_filterMap]
                exact ⟨u, hu, e⟩
          · exact k1 v hv'
        · intro u hu hne'
          apply k2 u
          · rw [hw1]
            exact mem_setVehicle_ne st.1 _ u hu (hne' v0 (by simp))
          · intro v hv; exact hne' v (by simp [hv])
        · intro c x hx hne'
          apply k3 c x
          · rw [hc1]
            show sdGet (sdSet st.2.1 csId (gc.addLoad csId avg).2) c = some x
            have : c ≠ csId := by
              intro e; exact hne' v0 (by simp) (by rw [hcsid, e])
            rw [sdGet_alSet_ne _ _ _ _ this]; exact hx
          · intro v hv; exact hne' v (by simp [hv])

theorem utilBattery_vehicles (ops : Ops α B) (env : Env α) (w w' : SWorld α B) (b0 : StatBatS α B)
    (h : utilBattery ops env w b0 = .ok w') : w'.vehicles = w.vehicles := by
  unfold utilBattery at h
  split at h
  · simp only [Except.ok.injEq] at h; subst h; rfl
  · split at h
    · cases h
    · split at h
      · cases h
      · split at h
        · simp only [Except.ok.injEq] at h; subst h; rfl
        · simp only at h
          split at h
          · split at h
            · cases h
            · simp only [Except.ok.injEq] at h; subst h; rfl
          · split at h
            · split at h
              · cases h
              · simp only [Except.ok.injEq] at h; subst h; rfl
            · simp only [Except.ok.injEq] at h; subst h; rfl

theorem utilizeBatteries_vehicles (ops : Ops α B) (env : Env α) (w w' : SWorld α B)
    (h : utilizeBatteries ops env w = .ok w') : w'.vehicles = w.vehicles := by
  unfold utilizeBatteries at h
  generalize w.batteries = bs at h
  induction bs generalizing w with
  | nil =>
    simp only [List.foldlM_nil, pure, Except.pure, Except.ok.injEq] at h
    subst h; rfl
  | cons b rest ih =>
    simp only [List.foldlM_cons, bind, Except.bind] at h
    split at h
    · cases h
    · rename_i w1 hs
      rw [ih w1 h, utilBattery_vehicles ops env w w1 b hs]

theorem chargeIndividually_booked (ops : Ops α B) (hrs : Int → α) (elaw : EnergyLaw ops hrs)
    (env : Env α) (w w' : SWorld α B) (cmds : List (String × α))
    (hid : (w.vehicles.map (·.id)).Nodup) (hcs : (w.vehicles.filterMap (·.cs)).Nodup)
    (hfresh : ∀ v ∈ w.vehicles, ∀ c, v.cs = some c → ∀ g ∈ w.gcs, sdGet g.loads c = none)
    (h : chargeIndividually ops env w = .ok (w', cmds)) :
    ∀ v ∈ w.vehicles, Booked ops hrs env v (w', cmds, none) := by
  unfold chargeIndividually at h
  simp only [bind, Except.bind, pure, Except.pure] at h
  split at h
  · cases h
  · rename_i r hr
    simp only [Except.ok.injEq, Prod.mk.injEq] at h
    obtain ⟨rfl, rfl⟩ := h
    have hfind : ∀ v ∈ w.vehicles, (w, ([] : List (String × α)), (none : Option α)).1.vehicle? v.id = some v := by
      intro v hv
      exact vehicle?_self_of_nodup w.vehicles hid v hv
    exact (indFold_booked ops hrs elaw env w.vehicles _ r hid hcs hfind hfresh hr).1

/-! ### inside the core standing time with V2G: the draw direction -/

/-- a property of every connector that depends on its id and `cur_max_power` only -/
def Meta (P : String → α → Prop) (w : SWorld α B) : Prop := ∀ g ∈ w.gcs, P g.id g.curMax

theorem meta_setGc_addLoad (P : String → α → Prop) (w : SWorld α B) (gc : GcS α) (hg : gc ∈ w.gcs)
    (k : String) (x : α) (hm : Meta P w) : Meta P (w.setGc (gc.addLoad k x).1) := by
  intro g hgm
  rcases mem_setGc _ _ g hgm with rfl | ⟨hm', _⟩
  · obtain ⟨_, e2, e3, _⟩ := addLoad_currentLoad gc k x
    rw [e2, e3]; exact hm gc hg
  · exact hm g hm'

theorem meta_commit (P : String → α → Prop) (w : SWorld α B) (cmds : List (String × α))
    (v : VehicleS α B) (bat' : B) (cs : StationS α) (gc : GcS α) (hg : gc ∈ w.gcs) (csId : String)
    (avg : α) (hm : Meta P w) : Meta P (commit w cmds v bat' cs gc csId avg).1 := by
  intro g hgm
  rw [commit_gcs] at hgm
  exact meta_setGc_addLoad P w gc hg csId avg hm g hgm

/-- `csLoop_within` carrying a connector meta-property instead of "no V2G vehicle" -/
theorem csLoop_within' (ops : Ops α B) (law : Law ops) (env : Env α) (P : String → α → Prop)
    (fraction : α) (nVeh : Nat)
    (gid : String) (fuel i : Nat) (q lo : List (String × α)) (extra rem : α) (w : SWorld α B)
    (cmds : List (String × α)) (r : SWorld α B × List (String × α))
    (hw : Within w) (hr : Room gid rem w) (hm : Meta P w)
    (h : csLoop ops env fraction nVeh gid fuel i q lo extra rem w cmds = .ok r) :
    Within r.1 ∧ Meta P r.1 := by
  induction fuel generalizing i q lo extra rem w cmds with
  | zero =>
    cases q with
    | nil => unfold csLoop at h; simp only [Except.ok.injEq] at h; subst h; exact ⟨hw, hm⟩
    | cons x xs => unfold csLoop at h; cases h
  | succ f ih =>
    cases q with
    | nil => unfold csLoop at h; simp only [Except.ok.injEq] at h; subst h; exact ⟨hw, hm⟩
    | cons x xs =>
      obtain ⟨vid, en⟩ := x
      unfold csLoop at h
      split at h
      · cases h
      · rename_i v hv
        split at h
        · exact ih _ _ _ _ _ _ _ hw hr hm h
        · rename_i csId _
          split at h
          · cases h
          · rename_i cs _
            split at h
            · cases h
            · rename_i gc hgc
              obtain ⟨hgm, hgid⟩ := getGc_ok _ _ _ hgc
              simp only at h
              split at h
              · cases h
              · rename_i res hres
                obtain ⟨b', avg, sd⟩ := res
                obtain ⟨h0, h1⟩ := law.load_target _ _ _ _ _ _ hres
                have hb : avg ≤ max rem 0 := by
                  refine le_trans h1 (max_le (le_trans (clampV_le cs v _).2 (max_le ?_ (le_max_right _ _)))
                    (le_max_right _ _))
                  rw [pymin_eq]; exact le_trans (min_le_left _ _) (le_max_left _ _)
                subst hgid
                obtain ⟨hw', hr'⟩ := room_commit w cmds v b' cs gc hgm csId avg rem hw hr h0 hb
                have hm' := meta_commit P w cmds v b' cs gc hgm csId avg hm
                simp only at h
                split at h
                · simp only [Except.ok.injEq] at h; subst h; exact ⟨hw', hm'⟩
                · split at h
                  · simp only [Except.ok.injEq] at h; subst h; exact ⟨hw', hm'⟩
                  · split at h
                    · exact ih _ _ _ _ _ _ _ hw' hr' hm' h
                    · exact ih _ _ _ _ _ _ _ hw' hr' hm' h

/-- only the upper half of the limit -/
def Upper (w : SWorld α B) : Prop := ∀ g ∈ w.gcs, g.currentLoad ≤ g.curMax

theorem upper_setGc_addLoad (w : SWorld α B) (gc : GcS α) (hg : gc ∈ w.gcs) (k : String) (x : α)
    (hw : Upper w) (h2 : gc.currentLoad + x ≤ gc.curMax) : Upper (w.setGc (gc.addLoad k x).1) := by
  intro g hgm
  rcases mem_setGc _ _ g hgm with rfl | ⟨hm, _⟩
  · obtain ⟨e1, e2, _, _⟩ := addLoad_currentLoad gc k x
    rw [e1, e2]; exact h2
  · exact hw g hm

/-- the power search of the V2G pass never returns more than its upper bracket -/
theorem v2gPowerLoop_le (ops : Ops α B) (env : Env α) (heps : 0 ≤ env.eps) (cs : StationS α)
    (v : VehicleS α B) (chargeNow : Bool) (mdp desired : α) (dl : Option α) (dur : Nat) (bat0 : B)
    (U : α) (fuel : Nat) (mn mx total : α) (sim : B) (p : α) (ht : total ≤ U) (hmx : mx ≤ U)
    (h : v2gPowerLoop ops env cs v chargeNow mdp desired dl dur bat0 fuel mn mx total sim = .ok p) :
    p ≤ U := by
  induction fuel generalizing mn mx total sim with
  | zero =>
    unfold v2gPowerLoop at h
    split at h
    · cases h
    · simp only [Except.ok.injEq] at h; rw [← h]; exact ht
  | succ f ih =>
    unfold v2gPowerLoop at h
    split at h
    · rename_i hcond
      have hlt : mn < mx := by linarith
      have hmid : (mn + mx) / 2 ≤ U := by
        have : (mn + mx) / 2 ≤ mx := by rw [div_le_iff₀ (by norm_num)]; linarith
        linarith
      simp only [bind, Except.bind] at h
      split at h
      · cases h
      · split at h
        · split at h
          · exact ih _ _ _ _ hmid hmid h
          · exact ih _ _ _ _ hmid hmx h
        · split at h
          · exact ih _ _ _ _ hmid hmx h
          · exact ih _ _ _ _ hmid hmid h
    · simp only [Except.ok.injEq] at h; rw [← h]; exact ht

theorem v2gTotal_le (ops : Ops α B) (env : Env α) (heps : 0 ≤ env.eps) (chargeWindow : List Bool)
    (cs : StationS α) (v : VehicleS α B) (mdp diff hn : α) (wc : Nat) (dl : Option α) (total : α)
    (h : v2gTotal ops env true chargeWindow cs v mdp diff hn wc dl = .ok total) : total ≤ max diff 0 := by
  unfold v2gTotal at h
  simp only [if_true] at h
  refine v2gPowerLoop_le ops env heps cs v true mdp _ dl _ v.bat (max diff 0) env.fuel 0 _ 0 v.bat total
    (le_max_right _ _) ?_ h
  rw [pymin_eq, pymax_eq]
  exact le_trans (min_le_right _ _) (by rw [max_comm])

/-- the invariant of the V2G pass in the draw direction: no connector above its limit, and the
scheduled target of connector `gid` fits under its limit -/
def TargetFits (env : Env α) (gid : String) : String → α → Prop :=
  fun id cm => id = gid → ∀ x t, getGx env gid = .ok x → x.target = some t → t ≤ cm

theorem v2gApply_upper (ops : Ops α B) (law : Law ops) (env : Env α) (chargeNow : Bool)
    (w : SWorld α B) (cmds : List (String × α)) (v : VehicleS α B) (cs : StationS α) (gc : GcS α)
    (hg : gc ∈ w.gcs) (csId : String) (mdp : α) (dl : Option α) (total T : α)
    (r : SWorld α B × List (String × α)) (P : String → α → Prop)
    (hu : Upper w) (hm : Meta P w) (hT : T ≤ gc.curMax)
    (ht : chargeNow = true → total ≤ max (T - gc.currentLoad) 0)
    (h : v2gApply ops env chargeNow w cmds v cs gc csId mdp dl total = .ok r) :
    Upper r.1 ∧ Meta P r.1 := by
  have hl := hu gc hg
  unfold v2gApply at h
  split at h
  · rename_i hcn
    split at h
    · cases h
    · rename_i res hres
      simp only [Except.ok.injEq] at h; subst h
      have hb : 0 ≤ res.2 ∧ res.2 ≤ max (T - gc.currentLoad) 0 := by
        split at hres
        · simp only [Except.ok.injEq] at hres; subst hres
          exact ⟨le_refl _, le_max_right _ _⟩
        · split at hres
          · cases hres
          · rename_i r2 hr2
            simp only [Except.ok.injEq] at hres; subst hres
            obtain ⟨b', avg, sd⟩ := r2
            obtain ⟨h0, h1⟩ := law.load_max _ _ _ _ _ _ _ hr2
            refine ⟨h0, le_trans h1 (max_le (le_trans (clampV_le cs v total).2
              (max_le (ht hcn) (le_max_right _ _))) (le_max_right _ _))⟩
      constructor
      · intro g hgm
        refine upper_setGc_addLoad w gc hg csId res.2 hu ?_ g hgm
        rcases le_total (T - gc.currentLoad) 0 with hc | hc
        · have := hb.2; rw [max_eq_right hc] at this; linarith
        · have := hb.2; rw [max_eq_left hc] at this; linarith
      · intro g hgm
        exact meta_setGc_addLoad P w gc hg csId res.2 hm g hgm
  · split at h
    · cases h
    · rename_i res hres
      simp only [Except.ok.injEq] at h; subst h
      have hb : 0 ≤ res.2 := by
        split at hres
        · simp only [Except.ok.injEq] at hres; subst hres; exact le_refl _
        · split at hres
          · cases hres
          · rename_i r2 hr2
            simp only [Except.ok.injEq] at hres; subst hres
            obtain ⟨b', avg, sd⟩ := r2
            exact (law.unload_max _ _ _ _ _ _ _ hr2).1
      constructor
      · intro g hgm
        exact upper_setGc_addLoad w gc hg csId (-res.2) hu (by linarith) g hgm
      · intro g hgm
        exact meta_setGc_addLoad P w gc hg csId (-res.2) hm g hgm

theorem utilBattery_upper (ops : Ops α B) (law : Law ops) (env : Env α) (heps : 0 ≤ env.eps)
    (w w' : SWorld α B) (b0 : StatBatS α B) (hw : Upper w)
    (h : utilBattery ops env w b0 = .ok w') : Upper w' := by
  unfold utilBattery at h
  split at h
  · simp only [Except.ok.injEq] at h; subst h; exact hw
  · split at h
    · cases h
    · rename_i gc hgc
      obtain ⟨hgm, _⟩ := getGc_ok _ _ _ hgc
      have hu := hw gc hgm
      split at h
      · cases h
      · split at h
        · simp only [Except.ok.injEq] at h; subst h; exact hw
        · rename_i target _
          simp only at h
          split at h
          · split at h
            · cases h
            · rename_i r hr
              simp only [Except.ok.injEq] at h; subst h
              obtain ⟨b', avg, sd⟩ := r
              obtain ⟨h0, _⟩ := law.unload_target _ _ _ _ _ _ hr
              intro g hgm'
              simp only [setBattery_gcs] at hgm'
              exact upper_setGc_addLoad w gc hgm _ _ hw (by linarith) g hgm'
          · split at h
            · split at h
              · cases h
              · rename_i r hr
                simp only [Except.ok.injEq] at h; subst h
                obtain ⟨b', avg, sd⟩ := r
                obtain ⟨h0, h1⟩ := law.load_max _ _ _ _ _ _ _ hr
                intro g hgm'
                simp only [setBattery_gcs] at hgm'
                refine upper_setGc_addLoad w gc hgm _ _ hw ?_ g hgm'
                have hp : ∀ m : α, (if pymin (target - gc.currentLoad) (gc.curMax - gc.currentLoad) < m
                    then (0 : α) else pymin (target - gc.currentLoad) (gc.curMax - gc.currentLoad)) ≤
                    max (gc.curMax - gc.currentLoad) 0 := by
                  intro m
                  split
                  · exact le_max_right _ _
                  · rw [pymin_eq]; exact le_trans (min_le_right _ _) (le_max_left _ _)
                have hb := le_trans h1 (max_le (hp _) (le_max_right _ _))
                rcases le_total (gc.curMax - gc.currentLoad) 0 with hc | hc
                · rw [max_eq_right hc] at hb; linarith
                · rw [max_eq_left hc] at hb; linarith
            · simp only [Except.ok.injEq] at h; subst h
              intro g hgm'
              exact upper_setGc_addLoad w gc hgm _ _ hw (by linarith) g hgm'

theorem utilizeBatteries_upper (ops : Ops α B) (law : Law ops) (env : Env α) (heps : 0 ≤ env.eps)
    (w w' : SWorld α B) (hw : Upper w) (h : utilizeBatteries ops env w = .ok w') : Upper w' := by
  unfold utilizeBatteries at h
  exact foldlM_within (utilBattery ops env) Upper
    (fun s s' b hs hb => utilBattery_upper ops law env heps s s' b hs hb) _ w w' hw h

/-! ### inside the core standing time after the repairs SCH2 / SCH3

The excess branch searches below the connector headroom (SCH2); the on-schedule branch starts from
`min(target − load + battery support, cur_max_power − load)` and a V2G charge window is bounded by
`min(target, cur_max_power) − load` (SCH3). -/

theorem excessVehicle_within (ops : Ops α B) (law : Law ops) (env : Env α) (heps : 0 ≤ env.eps)
    (b : Bool) (dt : Int) (st st' : SWorld α B × List (String × α) × List (String × α))
    (kv : String × α) (hw : Within st.1) (hn : VInv b st.1)
    (h : excessVehicle ops env dt st kv = .ok st') : Within st'.1 ∧ VInv b st'.1 := by
  unfold excessVehicle at h
  simp only [bind, Except.bind] at h
  split at h
  · cases h
  · rename_i v hv
    split at h
    · simp only [Except.ok.injEq] at h; subst h; exact ⟨hw, hn⟩
    · split at h
      · cases h
      · rename_i cs hcs
        split at h
        · cases h
        · rename_i gc hgc
          obtain ⟨hgm, _⟩ := getGc_ok _ _ _ hgc
          split at h
          · cases h
          · rename_i x _
            split at h
            · cases h
            · rename_i power hpow
              split at h
              · cases h
              · rename_i r hr
                simp only [Except.ok.injEq] at h; subst h
                obtain ⟨b', avg, sd⟩ := r
                obtain ⟨h0, h1⟩ := law.load_target _ _ _ _ _ _ hr
                have hp := simBalanced_le ops env heps _ _ _ _ _ _ _ hpow
                have hb : avg ≤ max (gc.curMax - gc.currentLoad) 0 :=
                  le_trans h1 (max_le hp (le_max_right _ _))
                exact ⟨within_commit st.1 st.2.2 v b' cs gc hgm _ avg hw h0 hb,
                  vinv_commit b st.1 st.2.2 v b' cs gc _ avg (getVehicle_ok _ _ _ hv) hn⟩

theorem csLoop_withinV (ops : Ops α B) (law : Law ops) (env : Env α) (b : Bool) (fraction : α)
    (nVeh : Nat) (gid : String) (fuel i : Nat) (q lo : List (String × α)) (extra rem : α)
    (w : SWorld α B) (cmds : List (String × α)) (r : SWorld α B × List (String × α))
    (hw : Within w) (hr : Room gid rem w) (hn : VInv b w)
    (h : csLoop ops env fraction nVeh gid fuel i q lo extra rem w cmds = .ok r) :
    Within r.1 ∧ VInv b r.1 := by
  cases b with
  | true =>
    obtain ⟨k1, k2⟩ := csLoop_within ops law env fraction nVeh gid fuel i q lo extra rem w cmds r hw hr
      (hn rfl) h
    exact ⟨k1, fun _ => k2⟩
  | false =>
    exact ⟨(csLoop_within' ops law env (fun _ _ => True) fraction nVeh gid fuel i q lo extra rem w cmds r
      hw hr (fun _ _ => trivial) h).1, fun hb => by cases hb⟩

theorem dcOnSchedule_within (ops : Ops α B) (law : Law ops) (env : Env α) (b : Bool) (w : SWorld α B)
    (st : CState α) (p : α) (g0 : GcS α) (r : SWorld α B × CState α × List (String × α))
    (hw : Within w) (hn : VInv b w) (hg : w.gcs = [g0])
    (h : dcOnSchedule ops env w st p = .ok r) : Within r.1 ∧ VInv b r.1 := by
  unfold dcOnSchedule at h
  have hfirst : firstGcId w = .ok g0.id := by unfold firstGcId; rw [hg]
  simp only [hfirst] at h
  split at h
  · cases h
  · rename_i gc hgc
    obtain ⟨hgm, hgid⟩ := getGc_ok _ _ _ hgc
    have hgc0 : gc = g0 := by rw [hg] at hgm; simpa using hgm
    subst hgc0
    split at h
    · cases h
    · rename_i x hx
      split at h
      · cases h
      · rename_i remaining hrem
        split at h
        · cases h
        · rename_i res hres
          simp only [Except.ok.injEq] at h; subst h
          have hroom : Room gc.id remaining w := by
            split at hrem
            · split at hrem <;> cases hrem
            · rename_i target htarget
              unfold dcRemaining at hrem
              split at hrem
              · cases hrem
              · rename_i avails _
                simp only [Except.ok.injEq] at hrem
                subst hrem
                intro g hgm' _
                have hgg : g = gc := by rw [hg] at hgm'; simpa using hgm'
                subst hgg
                have h2 := (hw g hgm).2
                rw [pymin_eq]
                have h3 : max (min (target - g.currentLoad + pymin st.batPower (ops.sum avails / env.tsPerHour))
                    (g.curMax - g.currentLoad)) 0 ≤ g.curMax - g.currentLoad :=
                  max_le (min_le_right _ _) (by linarith)
                linarith
          exact csLoop_withinV ops law env b _ _ gc.id _ _ _ _ _ _ w [] res hw hroom hn hres

/-- **the vehicle pass of the core standing time keeps the connector within its limit** — both
branches (repaired code), single connector -/
theorem duringCst_within (ops : Ops α B) (law : Law ops) (env : Env α) (heps : 0 ≤ env.eps) (b : Bool)
    (w : SWorld α B) (st : CState α) (g0 : GcS α) (r : SWorld α B × CState α × List (String × α))
    (hw : Within w) (hn : VInv b w) (hg : w.gcs = [g0])
    (h : duringCst ops env w st = .ok r) : Within r.1 ∧ VInv b r.1 := by
  unfold duringCst at h
  split at h
  · cases h
  · simp only at h
    split at h
    · cases h
    · split at h
      · cases h
      · rename_i r1 hr1
        simp only [Except.ok.injEq] at h; subst h
        simp only
        split at hr1
        · unfold dcExcess at hr1
          simp only at hr1
          split at hr1
          · cases hr1
          · rename_i r2 hr2
            simp only [Except.ok.injEq] at hr1; subst hr1
            exact foldlM_within (excessVehicle ops env _) (fun s => Within s.1 ∧ VInv b s.1)
              (fun s s' kv hs hb => excessVehicle_within ops law env heps b _ s s' kv hs.1 hs.2 hb)
              _ _ r2 ⟨hw, hn⟩ hr2
        · exact dcOnSchedule_within ops law env b w _ _ g0 r1 hw hn hg hr1

theorem v2gVehicle_upper (ops : Ops α B) (law : Law ops) (env : Env α) (heps : 0 ≤ env.eps)
    (gid : String) (chargeNow : Bool) (chargeWindow : List Bool) (issues : List String)
    (st st' : SWorld α B × List (String × α) × Option α) (vid : String) (hu : Upper st.1)
    (h : v2gVehicle ops env gid chargeNow chargeWindow issues st vid = .ok st') : Upper st'.1 := by
  unfold v2gVehicle at h
  split at h
  · simp only [Except.ok.injEq] at h; subst h; exact hu
  · split at h
    · cases h
    · rename_i v _
      split at h
      · cases h
      · rename_i csId _
        split at h
        · cases h
        · rename_i cs _
          split at h
          · cases h
          · simp only at h
            split at h
            · cases h
            · rename_i gc hgc
              obtain ⟨hgm, _⟩ := getGc_ok _ _ _ hgc
              split at h
              · cases h
              · rename_i dl _
                split at h
                · cases h
                · simp only [Except.ok.injEq] at h; subst h; exact hu
                · rename_i target _
                  split at h
                  · cases h
                  · rename_i total htot
                    split at h
                    · cases h
                    · rename_i r hr
                      simp only [Except.ok.injEq] at h; subst h
                      refine (v2gApply_upper ops law env chargeNow st.1 st.2.1 v cs gc hgm csId _ dl total
                        (pymin target gc.curMax) r (fun _ _ => True) hu (fun _ _ => trivial)
                        (by rw [pymin_eq]; exact min_le_right _ _) ?_ hr).1
                      intro hcn
                      subst hcn
                      simp only [if_true] at htot
                      exact v2gTotal_le ops env heps chargeWindow cs v _ _ _ _ dl total htot

theorem v2gCst_upper (ops : Ops α B) (law : Law ops) (env : Env α) (heps : 0 ≤ env.eps)
    (w : SWorld α B) (st : CState α) (cmds : List (String × α))
    (r : SWorld α B × CState α × List (String × α)) (hu : Upper w)
    (h : v2gCst ops env w st cmds = .ok r) : Upper r.1 := by
  unfold v2gCst at h
  simp only [bind, Except.bind] at h
  split at h
  · cases h
  · split at h
    · cases h
    · split at h
      · cases h
      · rename_i r2 hr2
        simp only [Except.ok.injEq] at h; subst h
        exact foldlM_within (v2gVehicle ops env _ _ _ _) (fun s => Upper s.1)
          (fun s s' b hs hb => v2gVehicle_upper ops law env heps _ _ _ _ s s' b hs hb)
          _ (w, cmds, none) r2 hu hr2

/-- collective sub-strategy inside the core standing time (repaired code), one connector: both
bounds when no vehicle is V2G-capable (`b = true`), the draw bound in any case -/
theorem step_collective_core (ops : Ops α B) (law : Law ops) (env : Env α)
    (heps : 0 ≤ env.eps) (hc : env.collective = true)
    (hin : dtWithinCoreStandingTime env.now env.cst = .ok true) (b : Bool)
    (w w' : SWorld α B) (st st' : CState α) (cmds : List (String × α)) (g0 : GcS α)
    (hg : w.gcs = [g0]) (hn : VInv b w) (hw : Within w)
    (h : step ops env w st = .ok (w', st', cmds)) : Upper w' ∧ (b = true → Within w') := by
  unfold step at h
  simp only [hc, if_true, hin, bind, Except.bind, pure, Except.pure] at h
  have hw0 : Within (resetStations w) := by intro g hgm; exact hw g (by simpa using hgm)
  have hn0 : VInv b (resetStations w) := hn
  have hg0 : (resetStations w).gcs = [g0] := hg
  split at h
  · cases h
  · rename_i r hr
    have hur : Upper r.1 ∧ (b = true → Within r.1) := by
      split at hr
      · cases hr
      · rename_i st1 _
        split at hr
        · cases hr
        · rename_i r2 hr2
          obtain ⟨k1, k2⟩ := duringCst_within ops law env heps b _ st1 g0 r2 hw0 hn0 hg0 hr2
          split at hr
          · rename_i hany
            refine ⟨v2gCst_upper ops law env heps r2.1 r2.2.1 r2.2.2 r (fun g hg => (k1 g hg).2) hr, ?_⟩
            intro hb
            rw [noV2G_any r2.1 (k2 hb)] at hany
            cases hany
          · simp only [Except.ok.injEq] at hr; subst hr
            exact ⟨fun g hg => (k1 g hg).2, fun _ => k1⟩
    split at h
    · cases h
    · rename_i w2 hw2
      simp only [Except.ok.injEq, Prod.mk.injEq] at h
      obtain ⟨rfl, _, _⟩ := h
      exact ⟨utilizeBatteries_upper ops law env heps r.1 w2 hur.1 hw2,
        fun hb => utilizeBatteries_within ops law env heps r.1 w2 (hur.2 hb) hw2⟩

/-! ### the feed-in side of the V2G pass (repair SCH4) -/

theorem v2gTotal_le_discharge (ops : Ops α B) (env : Env α) (heps : 0 ≤ env.eps)
    (chargeWindow : List Bool) (cs : StationS α) (v : VehicleS α B) (mdp diff hn : α) (wc : Nat)
    (dl : Option α) (total : α)
    (h : v2gTotal ops env false chargeWindow cs v mdp diff hn wc dl = .ok total) : total ≤ max hn 0 := by
  unfold v2gTotal at h
  simp only [Bool.false_eq_true, if_false] at h
  split at h
  · cases h
  · refine v2gPowerLoop_le ops env heps cs v false mdp _ dl _ v.bat (max hn 0) env.fuel 0 _ 0 v.bat total
      (le_max_right _ _) ?_ h
    rw [pymin_eq, pymax_eq, pymin_eq]
    refine le_trans (min_le_right _ _) (max_le (le_max_right _ _) (le_trans (min_le_right _ _) (le_max_left _ _)))

/-- "apply power" of the V2G pass keeps the connector within `± cur_max_power` when the charge power
is at most the positive headroom and the discharge power at most the feed-in headroom -/
theorem v2gApply_within (ops : Ops α B) (law : Law ops) (env : Env α) (chargeNow : Bool)
    (w : SWorld α B) (cmds : List (String × α)) (v : VehicleS α B) (cs : StationS α) (gc : GcS α)
    (hg : gc ∈ w.gcs) (csId : String) (mdp : α) (dl : Option α) (total : α)
    (r : SWorld α B × List (String × α)) (hw : Within w)
    (htc : chargeNow = true → total ≤ max (gc.curMax - gc.currentLoad) 0)
    (htd : chargeNow = false → total ≤ max (gc.curMax + gc.currentLoad) 0)
    (h : v2gApply ops env chargeNow w cmds v cs gc csId mdp dl total = .ok r) : Within r.1 := by
  obtain ⟨hl, hu⟩ := hw gc hg
  unfold v2gApply at h
  split at h
  · rename_i hcn
    split at h
    · cases h
    · rename_i res hres
      simp only [Except.ok.injEq] at h; subst h
      have hb : 0 ≤ res.2 ∧ res.2 ≤ max (gc.curMax - gc.currentLoad) 0 := by
        split at hres
        · simp only [Except.ok.injEq] at hres; subst hres
          exact ⟨le_refl _, le_max_right _ _⟩
        · split at hres
          · cases hres
          · rename_i r2 hr2
            simp only [Except.ok.injEq] at hres; subst hres
            obtain ⟨b', avg, sd⟩ := r2
            obtain ⟨h0, h1⟩ := law.load_max _ _ _ _ _ _ _ hr2
            exact ⟨h0, le_trans h1 (max_le (le_trans (clampV_le cs v total).2
              (max_le (htc hcn) (le_max_right _ _))) (le_max_right _ _))⟩
      intro g hgm
      refine within_setGc_addLoad w gc hg csId res.2 hw (by linarith [hb.1]) ?_ g hgm
      rcases le_total (gc.curMax - gc.currentLoad) 0 with hc | hc
      · have := hb.2; rw [max_eq_right hc] at this; linarith
      · have := hb.2; rw [max_eq_left hc] at this; linarith
  · rename_i hcn
    have hcn' : chargeNow = false := by simpa using hcn
    split at h
    · cases h
    · rename_i res hres
      simp only [Except.ok.injEq] at h; subst h
      have hb : 0 ≤ res.2 ∧ res.2 ≤ max (gc.curMax + gc.currentLoad) 0 := by
        split at hres
        · simp only [Except.ok.injEq] at hres; subst hres
          exact ⟨le_refl _, le_max_right _ _⟩
        · split at hres
          · cases hres
          · rename_i r2 hr2
            simp only [Except.ok.injEq] at hres; subst hres
            obtain ⟨b', avg, sd⟩ := r2
            obtain ⟨h0, h1⟩ := law.unload_max _ _ _ _ _ _ _ hr2
            refine ⟨h0, le_trans h1 (max_le ?_ (le_max_right _ _))⟩
            rw [pymin_eq]
            exact le_trans (min_le_left _ _) (le_trans (clampV_le cs v total).2
              (max_le (htd hcn') (le_max_right _ _)))
      intro g hgm
      refine within_setGc_addLoad w gc hg csId (-res.2) hw ?_ (by linarith [hb.1]) g hgm
      rcases le_total (gc.curMax + gc.currentLoad) 0 with hc | hc
      · have := hb.2; rw [max_eq_right hc] at this; linarith
      · have := hb.2; rw [max_eq_left hc] at this; linarith

theorem v2gVehicle_within (ops : Ops α B) (law : Law ops) (env : Env α) (heps : 0 ≤ env.eps)
    (gid : String) (chargeNow : Bool) (chargeWindow : List Bool) (issues : List String)
    (st st' : SWorld α B × List (String × α) × Option α) (vid : String) (hw : Within st.1)
    (h : v2gVehicle ops env gid chargeNow chargeWindow issues st vid = .ok st') : Within st'.1 := by
  unfold v2gVehicle at h
  split at h
  · simp only [Except.ok.injEq] at h; subst h; exact hw
  · split at h
    · cases h
    · rename_i v _
      split at h
      · cases h
      · rename_i csId _
        split at h
        · cases h
        · rename_i cs _
          split at h
          · cases h
          · simp only at h
            split at h
            · cases h
            · rename_i gc hgc
              obtain ⟨hgm, _⟩ := getGc_ok _ _ _ hgc
              split at h
              · cases h
              · rename_i dl _
                split at h
                · cases h
                · simp only [Except.ok.injEq] at h; subst h; exact hw
                · rename_i target _
                  split at h
                  · cases h
                  · rename_i total htot
                    split at h
                    · cases h
                    · rename_i r hr
                      simp only [Except.ok.injEq] at h; subst h
                      refine v2gApply_within ops law env chargeNow st.1 st.2.1 v cs gc hgm csId _ dl total r
                        hw ?_ ?_ hr
                      · intro hcn
                        subst hcn
                        simp only [if_true] at htot
                        have := v2gTotal_le ops env heps chargeWindow cs v _ _ _ _ dl total htot
                        refine le_trans this (max_le_max ?_ (le_refl _))
                        rw [pymin_eq]
                        have : min target gc.curMax ≤ gc.curMax := min_le_right _ _
                        linarith
                      · intro hcn
                        subst hcn
                        exact v2gTotal_le_discharge ops env heps chargeWindow cs v _ _ _ _ dl total htot

theorem v2gCst_within (ops : Ops α B) (law : Law ops) (env : Env α) (heps : 0 ≤ env.eps)
    (w : SWorld α B) (st : CState α) (cmds : List (String × α))
    (r : SWorld α B × CState α × List (String × α)) (hw : Within w)
    (h : v2gCst ops env w st cmds = .ok r) : Within r.1 := by
  unfold v2gCst at h
  simp only [bind, Except.bind] at h
  split at h
  · cases h
  · split at h
    · cases h
    · split at h
      · cases h
      · rename_i r2 hr2
        simp only [Except.ok.injEq] at h; subst h
        exact foldlM_within (v2gVehicle ops env _ _ _ _) (fun s => Within s.1)
          (fun s s' b hs hb => v2gVehicle_within ops law env heps _ _ _ _ s s' b hs hb)
          _ (w, cmds, none) r2 hw hr2

/-- collective sub-strategy inside the core standing time (code repaired by SCH2–SCH4), one connector:
both bounds, V2G-capable vehicles allowed -/
theorem step_collective_core_full (ops : Ops α B) (law : Law ops) (env : Env α)
    (heps : 0 ≤ env.eps) (hc : env.collective = true)
    (hin : dtWithinCoreStandingTime env.now env.cst = .ok true)
    (w w' : SWorld α B) (st st' : CState α) (cmds : List (String × α)) (g0 : GcS α)
    (hg : w.gcs = [g0]) (hw : Within w)
    (h : step ops env w st = .ok (w', st', cmds)) : Within w' := by
  unfold step at h
  simp only [hc, if_true, hin, bind, Except.bind, pure, Except.pure] at h
  have hw0 : Within (resetStations w) := by intro g hgm; exact hw g (by simpa using hgm)
  have hg0 : (resetStations w).gcs = [g0] := hg
  split at h
  · cases h
  · rename_i r hr
    have hwr : Within r.1 := by
      split at hr
      · cases hr
      · rename_i st1 _
        split at hr
        · cases hr
        · rename_i r2 hr2
          obtain ⟨k1, _⟩ := duringCst_within ops law env heps false _ st1 g0 r2 hw0
            (fun hb => by cases hb) hg0 hr2
          split at hr
          · exact v2gCst_within ops law env heps r2.1 r2.2.1 r2.2.2 r k1 hr
          · simp only [Except.ok.injEq] at hr; subst hr; exact k1
    split at h
    · cases h
    · rename_i w2 hw2
      simp only [Except.ok.injEq, Prod.mk.injEq] at h
      obtain ⟨rfl, _, _⟩ := h
      exact utilizeBatteries_within ops law env heps r.1 w2 hwr hw2

/-! ### energy bookkeeping of the collective sub-strategy: every change is one booked battery call -/

/-- `w'` arises from `w` by ONE real battery call on a connected vehicle `v` whose signed average power
`x` (negative = V2G discharge, which needs a V2G-capable... see `Booked1.v2g`) is booked under the id of
its station on a connector: the vehicle's battery is replaced, the connector's load moves by exactly `x`,
stationary batteries and every other vehicle / connector are untouched, and the stored energy moves by
`x · hours · efficiency` (charging) resp. `(−x) · hours / efficiency` (discharging) -/
def Booked1 (ops : Ops α B) (hrs : Int → α) (env : Env α) (w w' : SWorld α B) : Prop :=
  ∃ v gc csId x bat', v ∈ w.vehicles ∧ v.cs = some csId ∧ gc ∈ w.gcs ∧
    w'.vehicles = (w.setVehicle { v with bat := bat' }).vehicles ∧
    w'.gcs = (w.setGc (gc.addLoad csId x).1).gcs ∧
    (gc.addLoad csId x).1.currentLoad = gc.currentLoad + x ∧
    w'.batteries = w.batteries ∧
    ((0 ≤ x ∧ (ops.soc bat' - ops.soc v.bat) * ops.capacity v.bat =
        x * hrs env.interval * ops.efficiency v.bat) ∨
     (x ≤ 0 ∧ (ops.soc v.bat - ops.soc bat') * ops.capacity v.bat =
        (-x) * hrs env.interval / ops.efficiency v.bat))

/-- a finite sequence of booked battery calls -/
inductive Chain (ops : Ops α B) (hrs : Int → α) (env : Env α) : SWorld α B → SWorld α B → Prop where
  | refl (w : SWorld α B) : Chain ops hrs env w w
  | tail {w w1 w2 : SWorld α B} : Chain ops hrs env w w1 → Booked1 ops hrs env w1 w2 →
      Chain ops hrs env w w2

theorem Chain.trans {ops : Ops α B} {hrs : Int → α} {env : Env α} {a b c : SWorld α B}
    (h1 : Chain ops hrs env a b) (h2 : Chain ops hrs env b c) : Chain ops hrs env a c := by
  induction h2 with
  | refl => exact h1
  | tail _ hb ih => exact Chain.tail ih hb

theorem Chain.single {ops : Ops α B} {hrs : Int → α} {env : Env α} {a b : SWorld α B}
    (h : Booked1 ops hrs env a b) : Chain ops hrs env a b := Chain.tail (Chain.refl a) h

/-- a committed `load` call is a booked call -/
theorem commit_booked (ops : Ops α B) (law : Law ops) (hrs : Int → α) (elaw : EnergyLaw ops hrs)
    (env : Env α) (w : SWorld α B) (cmds : List (String × α)) (v : VehicleS α B) (cs : StationS α)
    (gc : GcS α) (csId : String) (mp ts tp : Option α) (r : B × α × α)
    (hv : v ∈ w.vehicles) (hc : v.cs = some csId) (hg : gc ∈ w.gcs) (h0 : 0 ≤ r.2.1)
    (hr : ops.load v.bat env.interval mp ts tp = .ok r) :
    Booked1 ops hrs env w (commit w cmds v r.1 cs gc csId r.2.1).1 := by
  obtain ⟨b', avg, sd⟩ := r
  exact ⟨v, gc, csId, avg, b', hv, hc, hg, rfl, rfl, (addLoad_currentLoad gc csId avg).1, rfl,
    Or.inl ⟨h0, (elaw.load_energy _ _ _ _ _ _ _ _ hr).2.2⟩⟩

theorem foldlM_chain {β σ : Type} (ops : Ops α B) (hrs : Int → α) (env : Env α) (proj : σ → SWorld α B)
    (f : σ → β → Py σ) (hf : ∀ s s' b, f s b = .ok s' → Chain ops hrs env (proj s) (proj s'))
    (l : List β) (s s' : σ) (h : l.foldlM f s = .ok s') : Chain ops hrs env (proj s) (proj s') := by
  induction l generalizing s with
  | nil =>
    simp only [List.foldlM_nil, pure, Except.pure, Except.ok.injEq] at h
    subst h; exact Chain.refl _
  | cons b rest ih =>
    simp only [List.foldlM_cons, bind, Except.bind] at h
    split at h
    · cases h
    · rename_i s1 h1
      exact Chain.trans (hf s s1 b h1) (ih s1 h)

theorem cvVehicle_chain (ops : Ops α B) (law : Law ops) (hrs : Int → α) (elaw : EnergyLaw ops hrs)
    (env : Env α) (gid : String) (st st' : SWorld α B × List (String × α)) (kid : α × String)
    (h : cvVehicle ops env gid st kid = .ok st') : Chain ops hrs env st.1 st'.1 := by
  unfold cvVehicle at h
  split at h
  · cases h
  · rename_i v hv
    split at h
    · cases h
    · rename_i csId hcs
      split at h
      · cases h
      · split at h
        · cases h
        · rename_i gc hgc
          split at h
          · cases h
          · rename_i r hr
            simp only [Except.ok.injEq] at h; subst h
            exact Chain.single (commit_booked ops law hrs elaw env st.1 st.2 v _ gc csId _ _ _ r
              (getVehicle_ok _ _ _ hv) hcs (getGc_ok _ _ _ hgc).1
              (law.load_max _ _ _ _ r.1 r.2.1 r.2.2 hr).1 hr)

theorem chargeVehicles_chain (ops : Ops α B) (law : Law ops) (hrs : Int → α)
    (elaw : EnergyLaw ops hrs) (env : Env α) (w w' : SWorld α B) (cmds : List (String × α))
    (h : chargeVehicles ops env w = .ok (w', cmds)) : Chain ops hrs env w w' := by
  unfold chargeVehicles at h
  split at h
  · cases h
  · refine foldlM_chain ops hrs env (fun s => s.1) (cvGroup ops env) ?_ _ (w, []) (w', cmds) h
    intro s s' grp hg
    unfold cvGroup at hg
    split at hg
    · cases hg
    · split at hg
      · cases hg
      · split at hg
        · cases hg
        · split at hg
          · cases hg
          · split at hg
            · simp only [Except.ok.injEq] at hg; subst hg; exact Chain.refl _
            · exact foldlM_chain ops hrs env (fun s => s.1) (cvVehicle ops env grp.1)
                (fun a a' b hb => cvVehicle_chain ops law hrs elaw env grp.1 a a' b hb) _ s s' hg

theorem acVehicle_chain (ops : Ops α B) (law : Law ops) (hrs : Int → α) (elaw : EnergyLaw ops hrs)
    (env : Env α) (gid : String) (s s' : SWorld α B × List (String × α)) (v0 : VehicleS α B)
    (h : acVehicle ops env gid s v0 = .ok s') : Chain ops hrs env s.1 s'.1 := by
  unfold acVehicle at h
  split at h
  · simp only [Except.ok.injEq] at h; subst h; exact Chain.refl _
  · rename_i v hv
    have hvm : v ∈ s.1.vehicles := by
      unfold SWorld.vehicle? at hv; exact List.mem_of_find?_eq_some hv
    split at h
    · simp only [Except.ok.injEq] at h; subst h; exact Chain.refl _
    · rename_i csId hcs
      split at h
      · cases h
      · split at h
        · cases h
        · split at h
          · cases h
          · rename_i gc hgc
            split at h
            · cases h
            · split at h
              · cases h
              · split at h
                · cases h
                · rename_i r hr
                  simp only [Except.ok.injEq] at h; subst h
                  exact Chain.single (commit_booked ops law hrs elaw env s.1 s.2 v _ gc csId _ _ _ r
                    hvm hcs (getGc_ok _ _ _ hgc).1 (law.load_max _ _ _ _ r.1 r.2.1 r.2.2 hr).1 hr)

theorem afterCst_chain (ops : Ops α B) (law : Law ops) (hrs : Int → α) (elaw : EnergyLaw ops hrs)
    (env : Env α) (w w' : SWorld α B) (st st' : CState α) (cmds cmds' : List (String × α))
    (h : afterCst ops env w st cmds = .ok (w', st', cmds')) : Chain ops hrs env w w' := by
  unfold afterCst at h
  split at h
  · cases h
  · split at h
    · cases h
    · simp only at h
      split at h
      · simp only [Except.ok.injEq, Prod.mk.injEq] at h; obtain ⟨rfl, _⟩ := h; exact Chain.refl _
      · split at h
        · simp only [Except.ok.injEq, Prod.mk.injEq] at h; obtain ⟨rfl, _⟩ := h; exact Chain.refl _
        · split at h
          · cases h
          · rename_i r hr
            simp only [Except.ok.injEq, Prod.mk.injEq] at h
            obtain ⟨rfl, _⟩ := h
            exact foldlM_chain ops hrs env (fun s => s.1) (acVehicle ops env _)
              (fun a a' b hb => acVehicle_chain ops law hrs elaw env _ a a' b hb) _ (w, cmds) r hr

theorem excessVehicle_chain (ops : Ops α B) (law : Law ops) (hrs : Int → α)
    (elaw : EnergyLaw ops hrs) (env : Env α) (dt : Int)
    (st st' : SWorld α B × List (String × α) × List (String × α)) (kv : String × α)
    (h : excessVehicle ops env dt st kv = .ok st') : Chain ops hrs env st.1 st'.1 := by
  unfold excessVehicle at h
  simp only [bind, Except.bind] at h
  split at h
  · cases h
  · rename_i v hv
    split at h
    · simp only [Except.ok.injEq] at h; subst h; exact Chain.refl _
    · rename_i csId hcs
      split at h
      · cases h
      · split at h
        · cases h
        · rename_i gc hgc
          split at h
          · cases h
          · split at h
            · cases h
            · split at h
              · cases h
              · rename_i r hr
                simp only [Except.ok.injEq] at h; subst h
                exact Chain.single (commit_booked ops law hrs elaw env st.1 st.2.2 v _ gc csId _ _ _ r
                  (getVehicle_ok _ _ _ hv) hcs (getGc_ok _ _ _ hgc).1
                  (law.load_target _ _ _ r.1 r.2.1 r.2.2 hr).1 hr)

theorem csLoop_chain (ops : Ops α B) (law : Law ops) (hrs : Int → α) (elaw : EnergyLaw ops hrs)
    (env : Env α) (fraction : α) (nVeh : Nat) (gid : String) (fuel i : Nat)
    (q lo : List (String × α)) (extra rem : α) (w : SWorld α B) (cmds : List (String × α))
    (r : SWorld α B × List (String × α))
    (h : csLoop ops env fraction nVeh gid fuel i q lo extra rem w cmds = .ok r) :
    Chain ops hrs env w r.1 := by
  induction fuel generalizing i q lo extra rem w cmds with
  | zero =>
    cases q with
    | nil => unfold csLoop at h; simp only [Except.ok.injEq] at h; subst h; exact Chain.refl _
    | cons x xs => unfold csLoop at h; cases h
  | succ f ih =>
    cases q with
    | nil => unfold csLoop at h; simp only [Except.ok.injEq] at h; subst h; exact Chain.refl _
    | cons x xs =>
      obtain ⟨vid, en⟩ := x
      unfold csLoop at h
      split at h
      · cases h
      · rename_i v hv
        split at h
        · exact ih _ _ _ _ _ _ _ h
        · rename_i csId hcs
          split at h
          · cases h
          · rename_i cs _
            split at h
            · cases h
            · rename_i gc hgc
              simp only at h
              split at h
              · cases h
              · rename_i res hres
                have hb := Chain.single (commit_booked ops law hrs elaw env w cmds v cs gc csId _ _ _ res
                  (getVehicle_ok _ _ _ hv) hcs (getGc_ok _ _ _ hgc).1
                  (law.load_target _ _ _ res.1 res.2.1 res.2.2 hres).1 hres)
                split at h
                · simp only [Except.ok.injEq] at h; subst h; exact hb
                · split at h
                  · simp only [Except.ok.injEq] at h; subst h; exact hb
                  · split at h
                    · exact Chain.trans hb (ih _ _ _ _ _ _ _ h)
                    · exact Chain.trans hb (ih _ _ _ _ _ _ _ h)

theorem duringCst_chain (ops : Ops α B) (law : Law ops) (hrs : Int → α) (elaw : EnergyLaw ops hrs)
    (env : Env α) (w : SWorld α B) (st : CState α) (r : SWorld α B × CState α × List (String × α))
    (h : duringCst ops env w st = .ok r) : Chain ops hrs env w r.1 := by
  unfold duringCst at h
  split at h
  · cases h
  · simp only at h
    split at h
    · cases h
    · split at h
      · cases h
      · rename_i r1 hr1
        simp only [Except.ok.injEq] at h; subst h
        simp only
        split at hr1
        · unfold dcExcess at hr1
          simp only at hr1
          split at hr1
          · cases hr1
          · rename_i r2 hr2
            simp only [Except.ok.injEq] at hr1; subst hr1
            exact foldlM_chain ops hrs env (fun s => s.1) (excessVehicle ops env _)
              (fun a a' b hb => excessVehicle_chain ops law hrs elaw env _ a a' b hb) _ _ r2 hr2
        · unfold dcOnSchedule at hr1
          simp only at hr1
          split at hr1
          · cases hr1
          · split at hr1
            · cases hr1
            · split at hr1
              · cases hr1
              · split at hr1
                · cases hr1
                · split at hr1
                  · cases hr1
                  · rename_i r2 hr2
                    simp only [Except.ok.injEq] at hr1; subst hr1
                    exact csLoop_chain ops law hrs elaw env _ _ _ _ _ _ _ _ _ w [] r2 hr2

theorem v2gApply_booked (ops : Ops α B) (law : Law ops) (hrs : Int → α) (elaw : EnergyLaw ops hrs)
    (env : Env α) (chargeNow : Bool) (w : SWorld α B) (cmds : List (String × α)) (v : VehicleS α B)
    (cs : StationS α) (gc : GcS α) (csId : String) (mdp : α) (dl : Option α) (total : α)
    (r : SWorld α B × List (String × α))
    (hv : v ∈ w.vehicles) (hc : v.cs = some csId) (hg : gc ∈ w.gcs)
    (h : v2gApply ops env chargeNow w cmds v cs gc csId mdp dl total = .ok r) :
    Booked1 ops hrs env w r.1 := by
  unfold v2gApply at h
  split at h
  · split at h
    · cases h
    · rename_i res hres
      simp only [Except.ok.injEq] at h; subst h
      refine ⟨v, gc, csId, res.2, res.1, hv, hc, hg, rfl, rfl, (addLoad_currentLoad gc csId res.2).1, rfl,
        Or.inl ?_⟩
      split at hres
      · simp only [Except.ok.injEq] at hres; subst hres
        exact ⟨le_refl _, by simp⟩
      · split at hres
        · cases hres
        · rename_i r2 hr2
          simp only [Except.ok.injEq] at hres; subst hres
          exact ⟨(law.load_max _ _ _ _ r2.1 r2.2.1 r2.2.2 hr2).1,
            (elaw.load_energy _ _ _ _ _ r2.1 r2.2.1 r2.2.2 hr2).2.2⟩
  · split at h
    · cases h
    · rename_i res hres
      simp only [Except.ok.injEq] at h; subst h
      refine ⟨v, gc, csId, -res.2, res.1, hv, hc, hg, rfl, rfl, (addLoad_currentLoad gc csId (-res.2)).1,
        rfl, Or.inr ?_⟩
      split at hres
      · simp only [Except.ok.injEq] at hres; subst hres
        exact ⟨by simp, by simp⟩
      · split at hres
        · cases hres
        · rename_i r2 hr2
          simp only [Except.ok.injEq] at hres; subst hres
          have h0 := (law.unload_max _ _ _ _ r2.1 r2.2.1 r2.2.2 hr2).1
          refine ⟨by simp only; linarith, ?_⟩
          rw [neg_neg]
          exact (elaw.unload_energy _ _ _ _ _ r2.1 r2.2.1 r2.2.2 hr2).2.2

theorem v2gVehicle_chain (ops : Ops α B) (law : Law ops) (hrs : Int → α) (elaw : EnergyLaw ops hrs)
    (env : Env α) (gid : String) (chargeNow : Bool) (chargeWindow : List Bool) (issues : List String)
    (st st' : SWorld α B × List (String × α) × Option α) (vid : String)
    (h : v2gVehicle ops env gid chargeNow chargeWindow issues st vid = .ok st') :
    Chain ops hrs env st.1 st'.1 := by
  unfold v2gVehicle at h
  split at h
  · simp only [Except.ok.injEq] at h; subst h; exact Chain.refl _
  · split at h
    · cases h
    · rename_i v hv
      split at h
      · cases h
      · rename_i csId hcs
        split at h
        · cases h
        · rename_i cs _
          split at h
          · cases h
          · simp only at h
            split at h
            · cases h
            · rename_i gc hgc
              split at h
              · cases h
              · split at h
                · cases h
                · simp only [Except.ok.injEq] at h; subst h; exact Chain.refl _
                · split at h
                  · cases h
                  · split at h
                    · cases h
                    · rename_i r hr
                      simp only [Except.ok.injEq] at h; subst h
                      exact Chain.single (v2gApply_booked ops law hrs elaw env chargeNow st.1 st.2.1 v cs gc
                        csId _ _ _ r (getVehicle_ok _ _ _ hv) hcs (getGc_ok _ _ _ hgc).1 hr)

theorem v2gCst_chain (ops : Ops α B) (law : Law ops) (hrs : Int → α) (elaw : EnergyLaw ops hrs)
    (env : Env α) (w : SWorld α B) (st : CState α) (cmds : List (String × α))
    (r : SWorld α B × CState α × List (String × α))
    (h : v2gCst ops env w st cmds = .ok r) : Chain ops hrs env w r.1 := by
  unfold v2gCst at h
  simp only [bind, Except.bind] at h
  split at h
  · cases h
  · split at h
    · cases h
    · split at h
      · cases h
      · rename_i r2 hr2
        simp only [Except.ok.injEq] at h; subst h
        exact foldlM_chain ops hrs env (fun s => s.1) (v2gVehicle ops env _ _ _ _)
          (fun a a' b hb => v2gVehicle_chain ops law hrs elaw env _ _ _ _ a a' b hb) _ (w, cmds, none) r2 hr2

/-- **the collective `step` changes vehicles and connector loads only through a chain of booked
battery calls, followed by the battery pass**: the evaluation at the first step of the core standing
time, `sim_balanced_charging`, the V2G searches and every other look-ahead leave no trace -/
theorem step_collective_chain (ops : Ops α B) (law : Law ops) (hrs : Int → α)
    (elaw : EnergyLaw ops hrs) (env : Env α) (hc : env.collective = true)
    (w w' : SWorld α B) (st st' : CState α) (cmds : List (String × α))
    (h : step ops env w st = .ok (w', st', cmds)) :
    ∃ wv, Chain ops hrs env (resetStations w) wv ∧ utilizeBatteries ops env wv = .ok w' := by
  unfold step at h
  simp only [hc, if_true, bind, Except.bind, pure, Except.pure] at h
  split at h
  · cases h
  · rename_i r hr
    have hch : Chain ops hrs env (resetStations w) r.1 := by
      split at hr
      · cases hr
      · rename_i b _
        cases b with
        | true =>
          simp only [if_true] at hr
          split at hr
          · cases hr
          · rename_i st1 _
            split at hr
            · cases hr
            · rename_i r2 hr2
              have k := duringCst_chain ops law hrs elaw env _ st1 r2 hr2
              split at hr
              · exact Chain.trans k (v2gCst_chain ops law hrs elaw env r2.1 r2.2.1 r2.2.2 r hr)
              · simp only [Except.ok.injEq] at hr; subst hr; exact k
        | false =>
          simp only [Bool.false_eq_true, if_false] at hr
          split at hr
          · cases hr
          · rename_i r1 hr1
            have k := chargeVehicles_chain ops law hrs elaw env _ r1.1 r1.2 (by rw [hr1])
            split at hr
            · obtain ⟨a, b, c⟩ := r
              exact Chain.trans k (afterCst_chain ops law hrs elaw env r1.1 a st b r1.2 c hr)
            · simp only [Except.ok.injEq] at hr; subst hr; exact k
    split at h
    · cases h
    · rename_i w2 hw2
      simp only [Except.ok.injEq, Prod.mk.injEq] at h
      obtain ⟨rfl, _, _⟩ := h
      exact ⟨r.1, hch, hw2⟩

/-! ### stations in the V2G pass -/

/-- every station carries a power within `± max_power` -/
def StationAbs (w : SWorld α B) : Prop :=
  ∀ s ∈ w.stations, -s.maxPower ≤ s.currentPower ∧ s.currentPower ≤ s.maxPower

/-- invariant of the vehicle loop of the V2G pass: `rem` = ids still to be served; a station of a
vehicle that is still to be served has not been discharged yet -/
def VJ (G : String) (M : List (String × Option String)) (rem : List String) (w : SWorld α B) : Prop :=
  Link w ∧ StationAbs w ∧ SingleGc G w ∧ w.vehicles.map strip2 = M ∧
  (∀ m ∈ M, m.1 ∈ rem → ∀ c, m.2 = some c → ∀ s ∈ w.stations, s.id = c → 0 ≤ s.currentPower)

theorem getVehicle_id (w : SWorld α B) (id : String) (v : VehicleS α B)
    (h : getVehicle w id = .ok v) : v.id = id := by
  unfold getVehicle at h
  split at h
  · rename_i v' hv
    simp only [Except.ok.injEq] at h; subst h
    unfold SWorld.vehicle? at hv
    simpa using List.find?_some hv
  · cases h

theorem v2gTotal_le_station (ops : Ops α B) (env : Env α) (heps : 0 ≤ env.eps) (chargeNow : Bool)
    (chargeWindow : List Bool) (cs : StationS α) (v : VehicleS α B) (mdp diff hn : α) (wc : Nat)
    (dl : Option α) (total : α)
    (h : v2gTotal ops env chargeNow chargeWindow cs v mdp diff hn wc dl = .ok total) :
    total ≤ max cs.maxPower 0 := by
  unfold v2gTotal at h
  simp only at h
  split at h
  · cases h
  · refine v2gPowerLoop_le ops env heps cs v chargeNow mdp _ dl _ v.bat (max cs.maxPower 0) env.fuel 0 _ 0
      v.bat total (le_max_right _ _) ?_ h
    rw [pymin_eq]
    exact le_trans (min_le_left _ _) (le_max_left _ _)

/-- under the link invariant the world the V2G pass leaves is a committed world with the signed power `x` -/
theorem v2gApply_commit (ops : Ops α B) (law : Law ops) (env : Env α) (chargeNow : Bool)
    (w : SWorld α B) (cmds : List (String × α)) (v : VehicleS α B) (cs : StationS α) (gc : GcS α)
    (mdp : α) (dl : Option α) (total : α) (r : SWorld α B × List (String × α))
    (hl : Link w) (hcs : cs ∈ w.stations) (hg : gc ∈ w.gcs) (hp : gc.id = cs.parent)
    (h : v2gApply ops env chargeNow w cmds v cs gc cs.id mdp dl total = .ok r) :
    ∃ x bat', r.1 = (commit w cmds v bat' cs gc cs.id x).1 ∧
      ((0 ≤ x ∧ x ≤ max (clampV cs v total) 0) ∨ (x ≤ 0 ∧ -x ≤ max total 0)) := by
  unfold v2gApply at h
  split at h
  · split at h
    · cases h
    · rename_i res hres
      simp only [Except.ok.injEq] at h; subst h
      have hval := (link_commit w cmds v res.1 cs gc hcs hg hp res.2 hl).2
      refine ⟨res.2, res.1, ?_, Or.inl ?_⟩
      · show ((w.setVehicle { v with bat := res.1 }).setGc (gc.addLoad cs.id res.2).1).setStation
            { cs with currentPower := cs.currentPower + res.2 } =
          ((w.setVehicle { v with bat := res.1 }).setGc (gc.addLoad cs.id res.2).1).setStation
            { cs with currentPower := (gc.addLoad cs.id res.2).2 }
        rw [hval]
      · split at hres
        · simp only [Except.ok.injEq] at hres; subst hres
          exact ⟨le_refl _, le_max_right _ _⟩
        · split at hres
          · cases hres
          · rename_i r2 hr2
            simp only [Except.ok.injEq] at hres; subst hres
            exact law.load_max _ _ _ _ r2.1 r2.2.1 r2.2.2 hr2
  · split at h
    · cases h
    · rename_i res hres
      simp only [Except.ok.injEq] at h; subst h
      have hval := (link_commit w cmds v res.1 cs gc hcs hg hp (-res.2) hl).2
      refine ⟨-res.2, res.1, ?_, Or.inr ?_⟩
      · show ((w.setVehicle { v with bat := res.1 }).setGc (gc.addLoad cs.id (-res.2)).1).setStation
            { cs with currentPower := cs.currentPower - res.2 } =
          ((w.setVehicle { v with bat := res.1 }).setGc (gc.addLoad cs.id (-res.2)).1).setStation
            { cs with currentPower := (gc.addLoad cs.id (-res.2)).2 }
        rw [hval, sub_eq_add_neg]
      · rw [neg_neg]
        split at hres
        · simp only [Except.ok.injEq] at hres; subst hres
          exact ⟨by simp, le_max_right _ _⟩
        · split at hres
          · cases hres
          · rename_i r2 hr2
            simp only [Except.ok.injEq] at hres; subst hres
            obtain ⟨h0, h1⟩ := law.unload_max _ _ _ _ r2.1 r2.2.1 r2.2.2 hr2
            refine ⟨by simp only; linarith, le_trans h1 (max_le ?_ (le_max_right _ _))⟩
            rw [pymin_eq]
            exact le_trans (min_le_left _ _) (clampV_le cs v total).2

/-- **one vehicle of the V2G pass keeps every station within `± max_power`**, provided its station
has not been discharged before in this pass (it is still in the "to be served" part) -/
theorem v2gVehicle_vj (ops : Ops α B) (law : Law ops) (env : Env α) (heps : 0 ≤ env.eps)
    (G : String) (M : List (String × Option String)) (gid : String) (chargeNow : Bool)
    (chargeWindow : List Bool) (issues : List String) (vid0 : String) (rest : List String)
    (st st' : SWorld α B × List (String × α) × Option α)
    (hMid : (M.map (·.1)).Nodup)
    (hMd : ∀ m1 ∈ M, ∀ m2 ∈ M, ∀ c, m1.2 = some c → m2.2 = some c → m1.1 = m2.1)
    (hnot : vid0 ∉ rest) (hJ : VJ G M (vid0 :: rest) st.1)
    (h : v2gVehicle ops env gid chargeNow chargeWindow issues st vid0 = .ok st') :
    VJ G M rest st'.1 := by
  obtain ⟨hl, hab, ⟨hsg, hss⟩, hM, hpos⟩ := hJ
  have weaken : VJ G M rest st.1 :=
    ⟨hl, hab, ⟨hsg, hss⟩, hM, fun m hm hr => hpos m hm (List.mem_cons_of_mem _ hr)⟩
  unfold v2gVehicle at h
  split at h
  · simp only [Except.ok.injEq] at h; subst h; exact weaken
  · split at h
    · cases h
    · rename_i v hv
      have hvm := getVehicle_ok _ _ _ hv
      have hvid := getVehicle_id _ _ _ hv
      split at h
      · cases h
      · rename_i csId hcsid
        split at h
        · cases h
        · rename_i cs hcs
          obtain ⟨hcsm, hcsidd⟩ := getStation_ok _ _ _ hcs
          split at h
          · cases h
          · simp only at h
            split at h
            · cases h
            · rename_i gc hgc
              obtain ⟨hgm, _⟩ := getGc_ok _ _ _ hgc
              split at h
              · cases h
              · rename_i dl _
                split at h
                · cases h
                · simp only [Except.ok.injEq] at h; subst h; exact weaken
                · split at h
                  · cases h
                  · rename_i total htot
                    split at h
                    · cases h
                    · rename_i r hr
                      simp only [Except.ok.injEq] at h; subst h
                      subst hcsidd
                      have hp : gc.id = cs.parent := by rw [hsg gc hgm, hss cs hcsm]
                      obtain ⟨x, bat', hw, hx⟩ := v2gApply_commit ops law env chargeNow st.1 st.2.1 v cs gc _ dl
                        total r hl hcsm hgm hp hr
                      have hm0 : strip2 v ∈ M := by rw [← hM]; exact List.mem_map_of_mem hvm
                      have hcur0 : 0 ≤ cs.currentPower :=
                        hpos (strip2 v) hm0 (by simp [strip2, hvid]) cs.id hcsid cs hcsm rfl
                      obtain ⟨hlo, hhi⟩ := hab cs hcsm
                      have hmx0 : 0 ≤ cs.maxPower := by linarith
                      have htl := v2gTotal_le_station ops env heps chargeNow chargeWindow cs v _ _ _ _ dl total htot
                      rw [max_eq_left hmx0] at htl
                      have hbnd : -cs.maxPower ≤ cs.currentPower + x ∧ cs.currentPower + x ≤ cs.maxPower := by
                        rcases hx with ⟨h0, h1⟩ | ⟨h0, h1⟩
                        · exact ⟨by linarith, clampV_station cs v total x hhi h1⟩
                        · have : -x ≤ cs.maxPower := le_trans h1 (max_le htl hmx0)
                          exact ⟨by linarith, by linarith⟩
                      obtain ⟨hl', hval⟩ := link_commit st.1 st.2.1 v bat' cs gc hcsm hgm hp x hl
                      have hids : (st.1.vehicles.map (·.id)).Nodup := by
                        have : st.1.vehicles.map (·.id) = M.map (·.1) := by
                          rw [← hM, List.map_map]; rfl
                        rw [this]; exact hMid
                      show VJ G M rest r.1
                      rw [hw]
                      refine ⟨hl', ?_, ⟨?_, ?_⟩, ?_, ?_⟩
                      · intro s hs
                        rw [commit_stations] at hs
                        rcases mem_setStation' _ _ s hs with rfl | ⟨hs', _⟩
                        · simp only [hval]; exact hbnd
                        · exact hab s hs'
                      · intro g hgm'
                        rw [commit_gcs] at hgm'
                        rcases mem_setGc _ _ g hgm' with rfl | ⟨hm', _⟩
                        · rw [(addLoad_currentLoad gc cs.id x).2.2.1]; exact hsg gc hgm
                        · exact hsg g hm'
                      · intro s hs
                        rw [commit_stations] at hs
                        rcases mem_setStation' _ _ s hs with rfl | ⟨hs', _⟩
                        · exact hss cs hcsm
                        · exact hss s hs'
                      · show (st.1.setVehicle { v with bat := bat' }).vehicles.map strip2 = M
                        rw [strip2_setVehicle st.1 v bat' hids hvm, hM]
                      · intro m hm hr' c hc s hs hsc
                        rw [commit_stations] at hs
                        rcases mem_setStation' _ _ s hs with rfl | ⟨hs', _⟩
                        · exfalso
                          have : m.1 = (strip2 v).1 := hMd m hm (strip2 v) hm0 cs.id (by rw [hc, ← hsc]) hcsid
                          apply hnot
                          rw [← hvid]
                          simpa [strip2, this] using hr'
                        · exact hpos m hm (List.mem_cons_of_mem _ hr') c hc s hs' hsc

theorem v2gFold_vj (ops : Ops α B) (law : Law ops) (env : Env α) (heps : 0 ≤ env.eps)
    (G : String) (M : List (String × Option String)) (gid : String) (chargeNow : Bool)
    (chargeWindow : List Bool) (issues : List String) (vids : List String)
    (st st' : SWorld α B × List (String × α) × Option α)
    (hMid : (M.map (·.1)).Nodup)
    (hMd : ∀ m1 ∈ M, ∀ m2 ∈ M, ∀ c, m1.2 = some c → m2.2 = some c → m1.1 = m2.1)
    (hnd : vids.Nodup) (hJ : VJ G M vids st.1)
    (h : vids.foldlM (v2gVehicle ops env gid chargeNow chargeWindow issues) st = .ok st') :
    StationAbs st'.1 := by
  induction vids generalizing st with
  | nil =>
    simp only [List.foldlM_nil, pure, Except.pure, Except.ok.injEq] at h
    subst h; exact hJ.2.1
  | cons vid0 rest ih =>
    simp only [List.foldlM_cons, bind, Except.bind] at h
    split at h
    · cases h
    · rename_i st1 h1
      simp only [List.nodup_cons] at hnd
      exact ih st1 hnd.2 (v2gVehicle_vj ops law env heps G M gid chargeNow chargeWindow issues vid0 rest st
        st1 hMid hMd hnd.1 hJ h1) h

theorem stationAbs_of_ok (w : SWorld α B) (h : StationOK w) : StationAbs w := by
  intro s hs
  obtain ⟨h0, h1⟩ := h s hs
  exact ⟨by linarith, h1⟩

theorem v2gCst_station (ops : Ops α B) (law : Law ops) (env : Env α) (heps : 0 ≤ env.eps)
    (G : String) (M : List (String × Option String)) (w : SWorld α B) (st : CState α)
    (cmds : List (String × α)) (r : SWorld α B × CState α × List (String × α))
    (hl : Link w) (hok : StationOK w) (hsg : SingleGc G w) (hM : w.vehicles.map strip2 = M)
    (hMid : (M.map (·.1)).Nodup)
    (hMd : ∀ m1 ∈ M, ∀ m2 ∈ M, ∀ c, m1.2 = some c → m2.2 = some c → m1.1 = m2.1)
    (h : v2gCst ops env w st cmds = .ok r) : StationAbs r.1 := by
  unfold v2gCst at h
  simp only [bind, Except.bind] at h
  split at h
  · cases h
  · split at h
    · cases h
    · split at h
      · cases h
      · rename_i r2 hr2
        simp only [Except.ok.injEq] at h; subst h
        have hids : (w.vehicles.map (·.id)).Nodup := by
          have : w.vehicles.map (·.id) = M.map (·.1) := by rw [← hM, List.map_map]; rfl
          rw [this]; exact hMid
        have hnd : (((w.vehicles.filter (fun v => v.cs.isSome && v.v2g)).map (·.id)).mergeSort
            (fun a b => decide (a ≤ b))).Nodup := by
          rw [(List.mergeSort_perm _ _).nodup_iff]
          exact List.Nodup.sublist (List.Sublist.map _ List.filter_sublist) hids
        refine v2gFold_vj ops law env heps G M _ _ _ _ _ (w, cmds, none) r2 hMid hMd hnd ?_ hr2
        exact ⟨hl, stationAbs_of_ok w hok, hsg, hM, fun m _ _ c _ s hs _ => (hok s hs).1⟩

/-- **collective sub-strategy, V2G-capable vehicles allowed: the whole step keeps every station within
`± max_power`** when vehicle ids are distinct and no two connected vehicles share a station -/
theorem step_collective_station_v2g (M : List (String × Option String)) (ops : Ops α B)
    (law : Law ops) (env : Env α) (heps : 0 ≤ env.eps) (hc : env.collective = true) (G : String)
    (w w' : SWorld α B) (st st' : CState α) (cmds : List (String × α))
    (hS : SInv false M G (resetStations w)) (hMid : (M.map (·.1)).Nodup)
    (hMd : ∀ m1 ∈ M, ∀ m2 ∈ M, ∀ c, m1.2 = some c → m2.2 = some c → m1.1 = m2.1)
    (h : step ops env w st = .ok (w', st', cmds)) : StationAbs w' := by
  unfold step at h
  simp only [hc, if_true, bind, Except.bind, pure, Except.pure] at h
  split at h
  · cases h
  · rename_i r hr
    have hSr : StationAbs r.1 := by
      split at hr
      · cases hr
      · rename_i b _
        cases b with
        | true =>
          simp only [if_true] at hr
          split at hr
          · cases hr
          · rename_i st1 _
            split at hr
            · cases hr
            · rename_i r2 hr2
              have k := duringCst_sinv false M ops law env heps G _ st1 r2 hS hr2
              split at hr
              · exact v2gCst_station ops law env heps G M r2.1 r2.2.1 r2.2.2 r k.1 k.2.1 k.2.2.1
                  (k.2.2.2.2 hMid) hMid hMd hr
              · simp only [Except.ok.injEq] at hr; subst hr
                exact stationAbs_of_ok _ k.2.1
        | false =>
          simp only [Bool.false_eq_true, if_false] at hr
          split at hr
          · cases hr
          · rename_i r1 hr1
            have k := chargeVehicles_sinv false M ops law env G _ r1.1 r1.2 hS (by rw [hr1])
            split at hr
            · obtain ⟨a, b, c⟩ := r
              exact stationAbs_of_ok _ (afterCst_sinv false M ops law env G r1.1 a st b r1.2 c k hr).2.1
            · simp only [Except.ok.injEq] at hr; subst hr
              exact stationAbs_of_ok _ k.2.1
    split at h
    · cases h
    · rename_i w2 hw2
      simp only [Except.ok.injEq, Prod.mk.injEq] at h
      obtain ⟨rfl, _, _⟩ := h
      intro s hs
      rw [utilizeBatteries_stations ops env r.1 w2 hw2] at hs
      exact hSr s hs

/-! ### a small exact battery for the non-vacuity examples -/

/-- power delivered over `hours` when `p` is requested and `room` kWh can still be moved -/
def toyDeliver (p hours room : ℚ) : ℚ := if hours ≤ 0 then 0 else min (max p 0) (room / hours)

theorem toyDeliver_bounds (p hours room : ℚ) (hr : 0 ≤ room) :
    0 ≤ toyDeliver p hours room ∧ toyDeliver p hours room ≤ max p 0 := by
  unfold toyDeliver
  split
  · exact ⟨le_refl _, le_max_right _ _⟩
  · rename_i hh
    have hpos : 0 < hours := not_le.mp hh
    exact ⟨le_min (le_max_right _ _) (div_nonneg hr hpos.le), min_le_left _ _⟩

/-- ideal battery `(soc, capacity)`: efficiency 1, no curve limit; a call moves
`min (requested power · time) (energy to the target SoC)` -/
def toyOps : Ops ℚ (ℚ × ℚ) where
  soc b := b.1
  capacity b := b.2
  efficiency _ := 1
  unloadMaxPower _ := 1000
  load b T mp ts tp :=
    let hours : ℚ := (T : ℚ) / 3600000000
    let p := match tp with | some p => p | none => (match mp with | some p => p | none => 1000)
    let tgt := match ts with | some t => t | none => 1
    let avg := toyDeliver p hours (max ((min tgt 1 - b.1) * b.2) 0)
    .ok ((b.1 + avg * hours / b.2, b.2), avg, avg * hours / b.2)
  unload b T mp ts tp :=
    let hours : ℚ := (T : ℚ) / 3600000000
    let p := match tp with | some p => p | none => (match mp with | some p => p | none => 1000)
    let tgt := match ts with | some t => t | none => 0
    let avg := toyDeliver p hours (max ((b.1 - max tgt 0) * b.2) 0)
    .ok ((b.1 - avg * hours / b.2, b.2), avg, avg * hours / b.2)
  available b T := .ok (toyDeliver 1000 ((T : ℚ) / 3600000000) (max (b.1 * b.2) 0))
  sum l := l.sum

theorem toyLaw : Law toyOps where
  load_target := by
    intro b T p b' avg sd h
    simp only [toyOps, Except.ok.injEq, Prod.mk.injEq] at h
    obtain ⟨_, rfl, _⟩ := h
    exact toyDeliver_bounds _ _ _ (le_max_right _ _)
  load_max := by
    intro b T p ts b' avg sd h
    simp only [toyOps, Except.ok.injEq, Prod.mk.injEq] at h
    obtain ⟨_, rfl, _⟩ := h
    exact toyDeliver_bounds _ _ _ (le_max_right _ _)
  unload_target := by
    intro b T p b' avg sd h
    simp only [toyOps, Except.ok.injEq, Prod.mk.injEq] at h
    obtain ⟨_, rfl, _⟩ := h
    exact toyDeliver_bounds _ _ _ (le_max_right _ _)
  unload_max := by
    intro b T p ts b' avg sd h
    simp only [toyOps, Except.ok.injEq, Prod.mk.injEq] at h
    obtain ⟨_, rfl, _⟩ := h
    exact toyDeliver_bounds _ _ _ (le_max_right _ _)

theorem toyDeliver_room_zero (p hours : ℚ) : toyDeliver p hours 0 = 0 := by
  unfold toyDeliver
  split
  · rfl
  · simp only [zero_div]
    exact min_eq_right (le_max_right _ _)

/-- `timedelta.total_seconds() / 3600` for a duration in microseconds -/
def toyHours (T : Int) : ℚ := (T : ℚ) / 3600000000

/-- the toy battery obeys the energy identity -/
theorem toyEnergyLaw : EnergyLaw toyOps toyHours where
  load_energy := by
    intro b T mp ts tp b' avg sd h
    simp only [toyOps, Except.ok.injEq, Prod.mk.injEq] at h
    obtain ⟨rfl, rfl, _⟩ := h
    refine ⟨rfl, rfl, ?_⟩
    simp only [toyOps, toyHours]
    by_cases hc : b.2 = 0
    · simp only [hc, mul_zero, max_self, toyDeliver_room_zero, zero_mul]
    · field_simp
      ring
  unload_energy := by
    intro b T mp ts tp b' avg sd h
    simp only [toyOps, Except.ok.injEq, Prod.mk.injEq] at h
    obtain ⟨rfl, rfl, _⟩ := h
    refine ⟨rfl, rfl, ?_⟩
    simp only [toyOps, toyHours]
    by_cases hc : b.2 = 0
    · simp only [hc, mul_zero, max_self, toyDeliver_room_zero, zero_mul, div_one]
    · field_simp
      ring

def exVehicle : VehicleS ℚ (ℚ × ℚ) := ⟨"v1", some "CS1", 4/5, some 7200000000, 0, false, 1/2, (1/2, 40)⟩

def exWorld : SWorld ℚ (ℚ × ℚ) :=
  { gcs := [⟨"GC", 10, none, [("load", 4)]⟩],
    stations := [⟨"CS1", "GC", 11, 0, 0⟩],
    vehicles := [exVehicle],
    batteries := [⟨"BAT", "GC", 0, (1/2, 20)⟩] }

/-- individual mode, 15 min steps, the departure of `v1` is visible among the future events -/
def exEnv : Env ℚ :=
  { eps := 1/100000, tsPerHour := 4, now := ⟨0, some 0⟩, interval := 900000000, iterations := 12,
    fuel := 1100, retryFuel := 100000, collective := false, warnCst := false, cst := none,
    gx := [("GC", ⟨some 6, none⟩)], vx := [("v1", ⟨some 3, 11⟩)],
    future := [⟨7200000000, .vehDeparture "v1"⟩] }

def exState : CState ℚ := ⟨false, false, [], [], 0, [], [], 0⟩

/-- collective example: core standing time 00:00–02:00 (inclusive end), hourly steps, now = 00:00;
10 kW connector with 4 kW fixed load; the vehicle of `exWorld`; no stationary battery -/
def exCst : CoreStandingTime := { times := some [⟨some [0, 0], some [2, 0]⟩] }

def exWorldC : SWorld ℚ (ℚ × ℚ) := { exWorld with batteries := [] }

def exEnvC (target : ℚ) : Env ℚ :=
  { exEnv with interval := 3600000000, tsPerHour := 1, collective := true, cst := some exCst,
               gx := [("GC", ⟨some target, none⟩)], future := [] }

/-- the collective example world with a V2G-capable vehicle (SoC 0.9 > desired 0.8) -/
def exWorldV2G : SWorld ℚ (ℚ × ℚ) :=
  { exWorldC with vehicles := [{ exVehicle with v2g := true, bat := (9/10, 40) }] }

/-- feed-in example (mechanism C): fixed load 6 kW and 14 kW generation (net −8 kW) on the 10 kW
connector, the V2G-capable vehicle of `exWorldV2G` -/
def exWorldFeed : SWorld ℚ (ℚ × ℚ) :=
  { exWorldV2G with gcs := [⟨"GC", 10, none, [("load", 6), ("pv", -14)]⟩] }

/-- attributes of a single discharge window (the evaluation forecast target − load < 0) -/
def exStateFeed : CState ℚ := ⟨true, false, [-1], [false], 0, [("v1", 0)], [("v1", 0)], 0⟩

/-- attributes as `evaluate_core_standing_time_ahead` leaves them when the schedule offers nothing in
the first hour and 5 kW in the second, and the vehicle is expected to fall short by 0.3 SoC -/
def exStateExcess : CState ℚ :=
  ⟨true, false, [0, 5], [false, true], 5, [("v1", 12)], [("v1", 3/10)], 0⟩

/-- attributes when the schedule offers 8 kW in the first hour (target 12 kW − 4 kW fixed load) and
nothing in the second -/
def exStateTarget : CState ℚ :=
  ⟨true, false, [8, 0], [true, false], 8, [("v1", 12)], [("v1", 0)], 0⟩

/-! ### the step at the inclusive end of a non-wrapping core standing window raises `IndexError`

Three consecutive hourly steps through the core standing time 00:00–02:00 of `exCst`
(`dt_within_core_standing_time` includes `t == end` for a window that does not cross midnight):
at 00:00 the evaluation plans `121 min // 60 min = 2` timesteps, the steps at 00:00 and 01:00 consume
them, and the step at 02:00 — still inside the window — pops from the empty list. -/

/-- what `Strategy.step` does to the connector loads before the next strategy step: station entries
are removed -/
def exNext (w : SWorld ℚ (ℚ × ℚ)) : SWorld ℚ (ℚ × ℚ) :=
  { w with gcs := w.gcs.map (fun g => { g with loads := g.loads.filter (fun kv => kv.1 == "load") }) }

def exEnvAt (us : Int) : Env ℚ := { exEnvC 6 with now := ⟨us, some 0⟩ }

example :
    (match step toyOps (exEnvAt 0) exWorldC exState with
     | .ok r1 =>
       (match step toyOps (exEnvAt 3600000000) (exNext r1.1) r1.2.1 with
        | .ok r2 =>
          r2.2.1.inCst && r2.2.1.powerPerTS.isEmpty &&
          (match dtWithinCoreStandingTime (exEnvAt 7200000000).now (exEnvAt 7200000000).cst with
           | .ok b => b | .error _ => false) &&
          (match step toyOps (exEnvAt 7200000000) (exNext r2.1) r2.2.1 with
           | .error .indexError => true
           | _ => false)
        | .error _ => false)
     | .error _ => false) = true := by decide +kernel

end SpiceEv.Sched
