#!/usr/bin/env python3
"""Runs the unedited test suite with every seeded change applied (scratch worktrees, 4 in parallel) and records the
result in /verif/seeded/<id>/meta.json (key suite_with_change)."""
import concurrent.futures as cf
import json
import os
import subprocess
import sys

VERIF = os.path.dirname(os.path.dirname(os.path.abspath(__file__)))


def one(sid):
    d = os.path.join(VERIF, "seeded", sid)
    meta = json.load(open(os.path.join(d, "meta.json")))
    if meta.get("suite_with_change") and not os.environ.get("FORCE"):
        return sid, meta["suite_with_change"]
    wt = "/tmp/sw_%s" % sid
    subprocess.run("git -C /repo worktree remove --force %s" % wt, shell=True, capture_output=True)
    subprocess.run("git -C /repo worktree add --detach %s HEAD" % wt, shell=True, capture_output=True, check=True)
    try:
        a = subprocess.run("git apply %s" % os.path.join(d, "patch.diff"), shell=True, cwd=wt, capture_output=True, text=True)
        if a.returncode != 0:
            res = "patch does not apply: " + a.stderr[-200:]
        else:
            p = subprocess.run("/venv/bin/python -m pytest -q -p no:cacheprovider --timeout=900", shell=True, cwd=wt,
                               capture_output=True, text=True)
            res = "exit %d: %s" % (p.returncode, p.stdout.strip().split("\n")[-1])
    finally:
        subprocess.run("git -C /repo worktree remove --force %s" % wt, shell=True, capture_output=True)
    meta = json.load(open(os.path.join(d, "meta.json")))
    meta["suite_with_change"] = res
    if not res.startswith("exit 0"):
        meta["confirmed_by_integrator"] = False
    json.dump(meta, open(os.path.join(d, "meta.json"), "w"), indent=1)
    return sid, res


if __name__ == "__main__":
    ids = sys.argv[1:] or sorted(os.listdir(os.path.join(VERIF, "seeded")))
    with cf.ThreadPoolExecutor(4) as ex:
        for sid, res in ex.map(one, ids):
            print(sid, res, flush=True)
