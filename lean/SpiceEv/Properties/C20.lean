/-
C20 — Trip-table vehicle assignment is conflict-free and frugal.

Property theorems only (helper lemmas and the loop invariant live in SpiceEv/Proofs/GenCsv.lean).
All statements are about the executable model `SpiceEv.GenCsv.assignVehicleId`
(SpiceEv/Model/GenCsv.lean, a transliteration of the repaired `assign_vehicle_id`), which the
driver runs against the real function on every generated trip table.

Vocabulary.  `res` is the returned table (rows in table order; `r.idx` is the row number, `r.trip`
the input row, `r.vid` the assigned vehicle, `r.mdt = arrival + minimum standing time` the earliest
next departure).  `Before a b` is the processing order of two returned rows: by departure sort key,
ties by row number (the sort is stable).  `KeyMono trips` says that the sort key (the departure
*string*) orders the rows like the parsed departure times do — true for the documented zero-padded
format; it is the only assumption on the table.  Type names are arbitrary strings.
-/
import SpiceEv.Proofs.GenCsv
namespace SpiceEv
open GenCsv

/-- **Minimum standing time = capacity / station power.**  If `vehicle_types` is accepted, the
`min_standing_times` dict has, in dict order, one entry per type: the type's name and
`timedelta(hours = capacity / max(curve powers))` in µs, where the maximum exists and is non-zero. -/
theorem C20_standing_time (types : List TypeInfo) (ms : List (String × Int))
    (h : minStandingTimes types = .ok ms) :
    List.Forall₂ (fun t kv => kv.1 = t.name ∧ ∃ p, pyMaxList t.powers = .ok p ∧ isZero p = false ∧
      kv.2 = hoursToMicros (t.capacity / p)) types ms :=
  minStandingTimes_spec types ms h

/-- **No exception on a valid table, and the table comes back in table order.**  If every type has
a non-empty curve with non-zero maximum and every trip's type is a key of `vehicle_types`, the
function returns; the result has one row per input row, row `i` is input row `i`, and its
`min_departure_time` is its arrival plus the standing time of its type. -/
theorem C20_total (types : List TypeInfo) (trips : List Trip)
    (htypes : ∀ t ∈ types, ∃ p, pyMaxList t.powers = .ok p ∧ isZero p = false)
    (hknown : ∀ t ∈ trips, t.vtype ∈ types.map (·.name)) :
    ∃ ms res, minStandingTimes types = .ok ms ∧ assignVehicleId types trips = .ok res ∧
      res.length = trips.length ∧
      ∀ i (hi : i < res.length), res[i].idx = i ∧ trips[i]? = some res[i].trip ∧
        ms.lookup res[i].trip.vtype = some (res[i].mdt - res[i].trip.arr) := by
  obtain ⟨ms, hms⟩ := minStandingTimes_ok types htypes
  have hkeys := minStandingTimes_keys types ms hms
  have hty : ∀ it ∈ sortTrips trips, ∃ m, ms.lookup it.1.vtype = some m := by
    intro it hit
    rw [lookup_some_iff_mem_keys, hkeys]
    exact hknown _ (List.mem_of_getElem? ((mem_sortTrips trips it).mp hit))
  obtain ⟨s, hs⟩ := run_ok_of_known ms (sortTrips trips) (initSt types) (keysOk_init types ms hms) hty
  have hcol := collect_run_ok types trips ms s hs
  obtain ⟨res, hres⟩ := hcol
  have hassign : assignVehicleId types trips = .ok res := by
    unfold assignVehicleId assignState
    simp only [hms, hs]
    exact hres
  obtain ⟨ms', s', hms', hs', hmem, -, hlen, hrows⟩ := assign_spec types trips res hassign
  rw [hms] at hms'
  injection hms' with hms'
  subst hms'
  rw [hs] at hs'
  injection hs' with hs'
  subst hs'
  have hmdt := run_mdtEq (ms := ms) (s := initSt types) (by simp [initSt]) hs
  refine ⟨ms, res, hms, hassign, hlen, ?_⟩
  intro i hi
  exact ⟨(hrows i hi).1, (hrows i hi).2, hmdt _ ((hmem _).mp (List.getElem_mem hi))⟩

/-- **The error branches.**  A rejected `vehicle_types` (empty curve: `ValueError`; zero station
power: `ZeroDivisionError`) is raised unchanged; with an accepted `vehicle_types`, a trip whose
type is not a key raises `KeyError` — and nothing else is ever raised. -/
theorem C20_raises (types : List TypeInfo) (trips : List Trip) :
    (∀ e, minStandingTimes types = .error e →
      assignVehicleId types trips = .error e ∧ (e = .valueError ∨ e = .zeroDivision)) ∧
    (∀ ms, minStandingTimes types = .ok ms → (∃ t ∈ trips, ms.lookup t.vtype = none) →
      assignVehicleId types trips = .error .keyError) ∧
    (∀ ms e, minStandingTimes types = .ok ms → assignVehicleId types trips = .error e →
      e = .keyError ∧ ∃ t ∈ trips, ms.lookup t.vtype = none) := by
  refine ⟨?_, ?_, ?_⟩
  · intro e he
    refine ⟨?_, minStandingTimes_error types e he⟩
    unfold assignVehicleId assignState
    simp only [he]
  · intro ms hms ⟨t, ht, hnone⟩
    exact (assign_error_of_unknown types trips ms hms ⟨t, ht, hnone⟩)
  · intro ms e hms he
    exact assign_error_inv types trips ms e hms he

/-- **The in-progress queue is sorted** by `min_departure_time` after every iteration (the
invariant the early `break` of the release loop relies on; it is the statement that fails for the
unrepaired insert index).  `pre` is any prefix of the processing sequence.  No assumption on the
table at all. -/
theorem C20_queue_sorted (types : List TypeInfo) (trips : List Trip) (ms : List (String × Int))
    (pre suf : List (Trip × Nat)) (s : St) (_hsplit : sortTrips trips = pre ++ suf)
    (hrun : run ms (initSt types) pre = .ok s) :
    s.queue.Pairwise (fun a b => a.mdt ≤ b.mdt) :=
  run_sorted (by simp [initSt]) hrun

/-- … and therefore the release loop, which stops at the first unfinished rotation, leaves no
finished rotation behind: after it every rotation still in progress ends (incl. standing time) no
earlier than the departure being served. -/
theorem C20_queue_sorted_release_complete (types : List TypeInfo) (trips : List Trip)
    (ms : List (String × Int)) (pre suf : List (Trip × Nat)) (s : St)
    (hsplit : sortTrips trips = pre ++ suf) (hrun : run ms (initSt types) pre = .ok s) (dep : Int) :
    ∀ r ∈ (release dep s.queue s.idle).1, dep ≤ r.mdt :=
  release_rest_ge dep s.queue s.idle (C20_queue_sorted types trips ms pre suf s hsplit hrun)

/-- **Minimum standing time.**  Two different rows served by the same vehicle: one of them departs
strictly later than the other's arrival plus the minimum standing time of its type
(`r.mdt = r.trip.arr + standing time`, see `C20_total`).  All pairs, not only consecutive ones. -/
theorem C20_min_standing (types : List TypeInfo) (trips : List Trip) (res : List Rot)
    (hkey : KeyMono trips) (h : assignVehicleId types trips = .ok res) :
    ∀ a ∈ res, ∀ b ∈ res, a.idx ≠ b.idx → a.vid = b.vid →
      a.mdt < b.trip.dep ∨ b.mdt < a.trip.dep := by
  obtain ⟨ms, s, d, -, -, hmem, hbefore, -, hinv, -⟩ := assign_inv types trips res hkey h
  intro a ha b hb hne hv
  have ha' := (hmem a).mp ha
  have hb' := (hmem b).mp hb
  have hab : a ≠ b := fun hab => hne (by rw [hab])
  rcases pairwise_mem_cases hinv.standing ha' hb' with h1 | h1 | h1
  · exact absurd h1 hab
  · exact Or.inl (h1 hv)
  · exact Or.inr (h1 hv.symm)

/-- **No overlap.**  With non-negative capacities and curve powers (so that standing times are
non-negative), two different rows served by the same vehicle never overlap in time: one departs
strictly after the other has arrived. -/
theorem C20_no_overlap (types : List TypeInfo) (trips : List Trip) (res : List Rot)
    (hkey : KeyMono trips) (hcap : ∀ t ∈ types, 0 ≤ t.capacity ∧ ∀ p ∈ t.powers, 0 ≤ p)
    (h : assignVehicleId types trips = .ok res) :
    ∀ a ∈ res, ∀ b ∈ res, a.idx ≠ b.idx → a.vid = b.vid →
      a.trip.arr < b.trip.dep ∨ b.trip.arr < a.trip.dep := by
  obtain ⟨ms, s, d, hms, -, hmem, -, -, hinv, -⟩ := assign_inv types trips res hkey h
  have hnn := standing_nonneg types ms hms hcap
  intro a ha b hb hne hv
  have h1 := hnn _ _ (hinv.mdtEq a ((hmem a).mp ha))
  have h2 := hnn _ _ (hinv.mdtEq b ((hmem b).mp hb))
  rcases C20_min_standing types trips res hkey h a ha b hb hne hv with h3 | h3
  · left; omega
  · right; omega

/-- **Type purity.**  Every row is served by a vehicle created for exactly the row's type (the id
is `f"{type}_{n}"`), hence two rows served by one vehicle have the same type — for any type names,
including names that contain each other. -/
theorem C20_type_pure (types : List TypeInfo) (trips : List Trip) (res : List Rot)
    (hkey : KeyMono trips) (h : assignVehicleId types trips = .ok res) :
    (∀ a ∈ res, a.vid.vtype = a.trip.vtype) ∧
    (∀ a ∈ res, ∀ b ∈ res, a.vid = b.vid → a.trip.vtype = b.trip.vtype) := by
  obtain ⟨ms, s, d, -, -, hmem, -, -, hinv, -⟩ := assign_inv types trips res hkey h
  have h1 : ∀ a ∈ res, a.vid.vtype = a.trip.vtype := fun a ha => hinv.pure a ((hmem a).mp ha)
  refine ⟨h1, ?_⟩
  intro a ha b hb hv
  rw [← h1 a ha, ← h1 b hb, hv]

/-- **Frugal, first in first out.**
(1) If row `b` is the first row (in processing order) of its vehicle — the vehicle was created for
`b` — then no existing vehicle of `b`'s type is idle at `b`'s departure: every vehicle that served
an earlier row of that type has an earlier row that ends (incl. standing time) no earlier than
`b.trip.dep`.
(2) For tables whose rows end no earlier than they start (`dep ≤ arrival + standing time`): if `b`
reuses a vehicle while another vehicle `a₂.vid` of the same type is idle at `b`'s departure (all its
earlier rows ended before), then the reused vehicle has been free at least as long: each of its
earlier rows ended no later than some earlier row of the other vehicle.
(For a row that arrives before it departs "idle longest" has no meaning; the pool is then FIFO in
processing order only, which is what the correspondence run compares.) -/
theorem C20_frugal_fifo (types : List TypeInfo) (trips : List Trip) (res : List Rot)
    (hkey : KeyMono trips) (h : assignVehicleId types trips = .ok res) :
    (∀ b ∈ res, (∀ a ∈ res, Before a b → a.vid ≠ b.vid) →
      ∀ a ∈ res, Before a b → a.trip.vtype = b.trip.vtype →
        ∃ a' ∈ res, Before a' b ∧ a'.vid = a.vid ∧ b.trip.dep ≤ a'.mdt) ∧
    ((∀ r ∈ res, r.trip.dep ≤ r.mdt) →
      ∀ b ∈ res, ∀ a₂ ∈ res, Before a₂ b → a₂.vid ≠ b.vid → a₂.trip.vtype = b.trip.vtype →
        (∀ a' ∈ res, Before a' b → a'.vid = a₂.vid → a'.mdt < b.trip.dep) →
        ∀ a₁ ∈ res, Before a₁ b → a₁.vid = b.vid →
          ∃ a' ∈ res, Before a' b ∧ a'.vid = a₂.vid ∧ a₁.mdt ≤ a'.mdt) := by
  obtain ⟨ms, s, d, hms, hrun, hmem, hbefore, hsorted, hinv, hS⟩ := assign_inv types trips res hkey h
  constructor
  · intro b hb hnew a ha hab hty
    obtain ⟨pre, suf, hsplit, hpre, hin⟩ := before_split hbefore ((hmem b).mp hb)
    have hnew' : ∀ a ∈ pre, a.vid ≠ b.vid :=
      fun a ha => hnew a ((hmem a).mpr (hpre a ha).2) (hpre a ha).1
    obtain ⟨a', ha', hv, hle⟩ :=
      hinv.frugal pre b suf hsplit hnew' a (hin a ((hmem a).mp ha) hab) hty
    exact ⟨a', (hmem a').mpr (hpre a' ha').2, (hpre a' ha').1, hv, hle⟩
  · intro hsane b hb a₂ ha₂ hb₂ hne hty hidle a₁ ha₁ hb₁ hv₁
    obtain ⟨d', hS'⟩ := hS (fun r hr => hsane r ((hmem r).mpr hr))
    obtain ⟨pre, suf, hsplit, hpre, hin⟩ := before_split hbefore ((hmem b).mp hb)
    obtain ⟨a', ha', hv, hle⟩ := hS'.fifo pre b suf hsplit a₂ (hin a₂ ((hmem a₂).mp ha₂) hb₂) hne hty
      (fun a' ha' hv' => hidle a' ((hmem a').mpr (hpre a' ha').2) (hpre a' ha').1 hv')
      a₁ (hin a₁ ((hmem a₁).mp ha₁) hb₁) hv₁
    exact ⟨a', (hmem a').mpr (hpre a' ha').2, (hpre a' ha').1, hv, hle⟩


/-! ### non-vacuity: a concrete unsorted table with nested type names, a tie in departure, a reused
vehicle, a second vehicle of one type and a FIFO choice satisfies every hypothesis used above
(`exTypes`, `exTrips`, `exRes` are defined at the end of Proofs/GenCsv.lean). -/

/-- the model accepts the table and returns `exRes` (a `bus` trip is *not* put on the idle
`bus_long_1`; row 3 takes `bus_2`, idle since minute 130, not `bus_1`, idle since minute 180) -/
example : assignVehicleId exTypes exTrips = .ok exRes := ex_assign

/-- `KeyMono`: the sort keys of the table order the rows like their departure times -/
example : KeyMono exTrips := by unfold KeyMono; decide

/-- hypotheses of `C20_total` -/
example : (∀ t ∈ exTypes, ∃ p, pyMaxList t.powers = .ok p ∧ isZero p = false) ∧
    (∀ t ∈ exTrips, t.vtype ∈ exTypes.map (·.name)) := by
  refine ⟨?_, by decide⟩
  intro t ht
  simp only [exTypes, List.mem_cons, List.not_mem_nil, or_false] at ht
  rcases ht with rfl | rfl
  · refine ⟨100, ?_, ?_⟩
    · simp [pyMaxList, pymax]
    · have h1 : ¬ ((100 : Rat) < 0) := by norm_num
      have h2 : ((0 : Rat) < 100) := by norm_num
      simp [isZero, h1, h2]
  · refine ⟨22, by simp [pyMaxList], ?_⟩
    have h2 : ((0 : Rat) < 22) := by norm_num
    simp [isZero, h2]

/-- hypothesis `hcap` of `C20_no_overlap` -/
example : ∀ t ∈ exTypes, 0 ≤ t.capacity ∧ ∀ p ∈ t.powers, 0 ≤ p := by
  intro t ht
  simp only [exTypes, List.mem_cons, List.not_mem_nil, or_false] at ht
  rcases ht with rfl | rfl <;> norm_num

/-- premises of `C20_min_standing` / `C20_no_overlap` / `C20_type_pure`: two different rows with
the same vehicle exist -/
example : ∃ a ∈ exRes, ∃ b ∈ exRes, a.idx ≠ b.idx ∧ a.vid = b.vid :=
  ⟨_, List.mem_cons_self, _, List.mem_cons_of_mem _ (List.mem_cons_of_mem _ List.mem_cons_self),
    by decide, by decide⟩

/-- premise of `C20_frugal_fifo` (1): row 4 is the first row of `bus_2` and an earlier row of the
same type exists (row 2) -/
example : ∃ b ∈ exRes, (∀ a ∈ exRes, Before a b → a.vid ≠ b.vid) ∧
    ∃ a ∈ exRes, Before a b ∧ a.trip.vtype = b.trip.vtype := by
  refine ⟨⟨4, ⟨"bus", 1, exMin 60, exMin 100⟩, ⟨"bus", 2⟩, exMin 130⟩, by simp [exRes], ?_, ?_⟩
  · unfold Before; decide
  · refine ⟨⟨2, ⟨"bus", 1, exMin 60, exMin 80⟩, ⟨"bus", 1⟩, exMin 110⟩, by simp [exRes], ?_, rfl⟩
    unfold Before; decide

/-- premises of `C20_frugal_fifo` (2): all rows end after they start; row 3 reuses `bus_2` while
`bus_1` (row 0) is idle as well -/
example : (∀ r ∈ exRes, r.trip.dep ≤ r.mdt) ∧
    ∃ b ∈ exRes, ∃ a₂ ∈ exRes, Before a₂ b ∧ a₂.vid ≠ b.vid ∧ a₂.trip.vtype = b.trip.vtype ∧
      (∀ a' ∈ exRes, Before a' b → a'.vid = a₂.vid → a'.mdt < b.trip.dep) ∧
      ∃ a₁ ∈ exRes, Before a₁ b ∧ a₁.vid = b.vid := by
  refine ⟨by decide, ⟨3, ⟨"bus", 3, exMin 200, exMin 210⟩, ⟨"bus", 2⟩, exMin 240⟩, by simp [exRes],
    ⟨0, ⟨"bus", 2, exMin 120, exMin 150⟩, ⟨"bus", 1⟩, exMin 180⟩, by simp [exRes], ?_, by decide, rfl,
    ?_, ⟨4, ⟨"bus", 1, exMin 60, exMin 100⟩, ⟨"bus", 2⟩, exMin 130⟩, by simp [exRes], ?_, rfl⟩
  · unfold Before; decide
  · unfold Before; decide
  · unfold Before; decide

/-- hypotheses of `C20_queue_sorted`: a proper prefix of the processing sequence runs to a state
with three rotations in progress -/
example : ∃ pre suf s, sortTrips exTrips = pre ++ suf ∧
    run [("bus", 1800000000), ("bus_long", 0)] (initSt exTypes) pre = .ok s ∧ s.queue.length = 3 := by
  rw [exTrips_sorted]
  exact ⟨[(⟨"bus_long", 0, exMin 0, exMin 60⟩, 1), (⟨"bus", 1, exMin 60, exMin 80⟩, 2),
     (⟨"bus", 1, exMin 60, exMin 100⟩, 4)], [(⟨"bus", 2, exMin 120, exMin 150⟩, 0),
     (⟨"bus", 3, exMin 200, exMin 210⟩, 3)], _, rfl, rfl, by decide⟩

/-- the error branches of `C20_raises` are reachable -/
example : assignVehicleId exTypes [⟨"tram", 0, 0, 1⟩] = .error .keyError :=
  (C20_raises exTypes _).2.1 _ exTypes_ms ⟨_, List.mem_cons_self, by decide⟩
example : minStandingTimes [⟨"bus", 50, []⟩] = .error .valueError := by decide
example : minStandingTimes [⟨"bus", 50, [0]⟩] = .error .zeroDivision := by
  simp [minStandingTimes, mapPy, csPowerOf, standingOf, pyMaxList, pydiv, isZero]

end SpiceEv
